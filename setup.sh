#!/bin/bash
# Builds the whole harness offline from files on disk (path dependencies on /repo):
# the main workspace (serial builds of every property binary) and the separate `parallel` workspace used by C14.
# libFuzzer targets (harness/fuzz) are built on demand by the thorough tier.
set -eu
ROOT="$(cd "$(dirname "$0")" && pwd)"
export CARGO_NET_OFFLINE=true
cd "$ROOT/harness"
cargo build --release --workspace 2>&1 | tail -n 3
cd "$ROOT/harness/par"
cargo build --release 2>&1 | tail -n 3
