#!/bin/bash
# Builds the whole harness offline from files on disk (path dependencies on /repo):
# the main workspace (serial builds of every property binary) the separate `parallel` workspace used by C14 and the `asm` workspace used by C01 / C15.
# libFuzzer targets (harness/fuzz) are built on demand by the thorough tier.
set -eu
ROOT="$(cd "$(dirname "$0")" && pwd)"
export CARGO_NET_OFFLINE=true
cd "$ROOT/harness"
cargo build --release --workspace 2>&1 | tail -n 3
cd "$ROOT/harness/par"
cargo build --release 2>&1 | tail -n 3
# `asm` build variant of C01 / C15 (tools/asm_stage.sh)
cd "$ROOT/harness/asm"
cargo build --release 2>&1 | tail -n 3
# release-profile build variant of C13 (tools/variant_stage.sh)
cd "$ROOT/harness/rel"
cargo build --release 2>&1 | tail -n 3
