#!/bin/bash
# Builds the whole harness offline from files on disk (path dependencies on /repo).
set -eu
ROOT="$(cd "$(dirname "$0")" && pwd)"
export CARGO_NET_OFFLINE=true
cd "$ROOT/harness"
cargo build --release --workspace 2>&1 | tail -n 5
