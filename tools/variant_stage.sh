#!/bin/bash
# Second build variant of a check: the same relation sources (`[[bin]] path`) compiled in a separate workspace
#   asm: ark-ff with the `asm` feature (workspace harness/asm; intrinsics limb primitives, assembly Montgomery kernels
#        when the CPU has bmi2+adx)
#   rel: the profile of an ordinary `--release` build (workspace harness/rel; no debug assertions, wrapping arithmetic)
#   tools/variant_stage.sh <Cxx> <quick|thorough> <asm|rel>
# exit 0 nothing found | 1 VIOLATION printed (replay file carries the suffix -<variant>) | 2 inconclusive
set -u
ROOT="${VERIF_ROOT:-$(cd "$(dirname "$0")/.." && pwd)}"
ID="$1"; TIER="${2:-quick}"; VAR="${3:-asm}"
CRATE="$(echo "$ID" | tr 'A-Z' 'a-z')$VAR"
export CARGO_NET_OFFLINE=true VERIF_ROOT="$ROOT" VH_VARIANT="$VAR"
unset CARGO_TARGET_DIR
cd "$ROOT/harness/$VAR" || exit 2
if [ "$VAR" = "asm" ]; then
  # without bmi2/adx the assembly kernels cannot run: build without the target features (the intrinsics paths remain)
  if ! grep -q bmi2 /proc/cpuinfo || ! grep -qw adx /proc/cpuinfo; then export RUSTFLAGS=""; fi
  DESC="ark-ff feature asm (target features bmi2, adx when available)"
else
  DESC="release profile of an ordinary user build (no debug assertions, no overflow checks)"
fi
if ! cargo build --release -p "$CRATE" > "target-build-$CRATE.log" 2>&1; then
  mkdir -p target; echo "INCONCLUSIVE: $VAR variant of $ID does not build"; tail -n 20 "target-build-$CRATE.log"; exit 2
fi
if [ "$TIER" = "quick" ]; then export VH_CASE_SCALE=2; T=1800; else export VH_CASE_SCALE=1; T=14000; fi
OUT="$ROOT/harness/$VAR/target/$CRATE-last.log"
timeout "$T" "target/release/$CRATE" check --tier "$TIER" --seed "${VERIF_SEED:-0}" --no-evidence > "$OUT" 2>&1
rc=$?
grep -E "^(FAILED|VIOLATION|KNOWN-FINDING)" "$OUT" | cut -c1-400
SUMMARY="$(grep -E "^$ID tier=" "$OUT" | tail -1)"
echo "$VAR variant: $SUMMARY"
python3 - "$ROOT" "$ID" "$SUMMARY" "$DESC" <<'PY'
import json, re, sys, os
root, pid, summary, desc = sys.argv[1:5]
ev_path = os.path.join(root, "evidence", pid + ".json")
try:
    ev = json.load(open(ev_path))
    m = dict(re.findall(r"(\w+)=(\S+)", summary))
    c = ev["coverage"]
    c.setdefault("variants", []).append({"variant": desc, "relations": int(m.get("relations", 0)),
        "cases": int(m.get("cases", 0)), "evaluations": int(m.get("evaluations", 0)), "distinct_nontrivial": int(m.get("distinct_nontrivial", 0))})
    c["evaluations"] = c.get("evaluations", 0) + int(m.get("evaluations", 0))
    json.dump(ev, open(ev_path, "w"), indent=1)
except Exception as e:
    print("could not merge the build variant into the evidence:", e)
PY
case $rc in 0) exit 0 ;; 1) exit 1 ;; *) echo "INCONCLUSIVE: $VAR variant of $ID exited with status $rc"; exit 2 ;; esac
