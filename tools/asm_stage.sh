#!/bin/bash
# kept for compatibility: the `asm` build variant, see tools/variant_stage.sh
exec "$(dirname "$0")/variant_stage.sh" "$1" "${2:-quick}" asm
