#!/usr/bin/env python3
"""Round-2 prompt: like seed_prompt.py but tells the author what round 1 already did (so that it does something else)
and asks for changes that are as hard to expose as a realistic slip can be. Output dir: /tmp/seed2-<id>-out, worktree /tmp/seed2-<id>."""
import json, sys, subprocess, glob, os
pid = sys.argv[1]
rnd = sys.argv[2] if len(sys.argv) > 2 else "2"
base = subprocess.run([sys.executable, os.path.join(os.path.dirname(__file__), "seed_prompt.py"), pid, "2"], capture_output=True, text=True).stdout
base = base.replace(f"/tmp/seed-{pid}", f"/tmp/seed{rnd}-{pid}")
prev = []
try:
    for m in json.load(open(f"/tmp/seed-{pid}-out/meta.json")):
        prev.append(f"- {m.get('summary','?')} (needs: {m.get('needs','?')})")
except Exception:
    pass
extra = f"""

ROUND {rnd} — additional requirements. Earlier rounds already produced the following changes for this property; do NOT repeat them or close variants of them, pick different code sites and different trigger conditions:
{chr(10).join(prev) if prev else '- (none recorded)'}

This time make each change as hard to expose as a realistic slip can be, while still being a genuine violation of the property as stated:
- it should need at least TWO independent conditions to manifest (for example: a particular configuration / curve / limb count / domain kind / window / thread count AND a particular class of input or a particular sequence of calls), or sit in a code path that only large sizes, rarely used shipped configurations, or unusual-but-legal parameter combinations reach;
- think about what a diligent tester who already checks obvious boundaries (0, 1, p-1, identity, equal operands, empty inputs, powers of two) against an independent reference would still be likely to miss, and aim there;
- it must still be deterministic and demonstrable: your demonstration must fail reliably with the change and pass without it.
In meta.json add a field "why_hard": one or two sentences on why ordinary boundary-aware randomized testing would be unlikely to hit it."""
print(base + extra)
