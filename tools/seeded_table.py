#!/usr/bin/env python3
"""Prints the markdown table of seeded changes (seeded/*/meta.json + detect.log) for DESIGN.md section 8.4."""
import json, glob, os, re
ROOT = os.path.dirname(os.path.dirname(os.path.abspath(__file__)))
rows = []
for d in sorted(glob.glob(os.path.join(ROOT, "seeded", "C*-*")), key=lambda p: (os.path.basename(p).split("-")[0], int(os.path.basename(p).split("-")[1]))):
    name = os.path.basename(d)
    try:
        m = json.load(open(os.path.join(d, "meta.json")))
    except Exception:
        m = {}
        # not yet confirmed: fall back to the author's meta.json in the intake directory
        try:
            pid, n = name.split("-")
            m = next(x for x in json.load(open(f"/tmp/seed-{pid}-out/meta.json")) if str(x.get("change")) == n)
        except Exception:
            pass
    det = {}
    lp = os.path.join(d, "detect.log")
    if os.path.exists(lp):
        cur = None
        for line in open(lp, errors="replace"):
            mm = re.match(r"== \S+ (\S+) vs (C\d+)", line)
            if mm:
                cur = mm.group(2)
            mm = re.search(r"MUTANT (DETECTED|MISSED)", line)
            if mm and cur:
                det.setdefault(cur, []).append(mm.group(1))
    conf = m.get("confirmed_by_coordinator", [])
    suite = next((c for c in conf if c.startswith("suite_with_change")), "")
    demo = next((c for c in conf if c.startswith("demo_")), "")
    rows.append((name, m.get("summary", "?"), m.get("needs", "?"), det, suite, demo, m.get("round", 1)))
print("| id | change (author's summary, abridged) | what it needs | our checks | suite / demo confirmed |")
print("|----|------|------|------|------|")
for name, summ, needs, det, suite, demo, rnd in rows:
    def ab(s, n):
        s = " ".join(str(s).split()).replace("|", "/")
        return (s[:n] + "…") if len(s) > n else s
    dets = "; ".join(f"{c}: {'/'.join(v)}" for c, v in det.items()) or "—"
    mw = re.search(r"demo_without_change_exit=(\d+) demo_with_change_exit=(\d+)", demo)
    ok = "0 failed" in suite and "build_errors=0" in suite and mw is not None and mw.group(1) == "0" and mw.group(2) != "0"
    sc = "yes" if ok else (ab(suite + " " + demo, 60) or "pending")
    print(f"| {name}{' (r%d)' % rnd if rnd and rnd != 1 else ''} | {ab(summ, 170)} | {ab(needs, 150)} | {dets} | {sc} |")
