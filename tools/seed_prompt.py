#!/usr/bin/env python3
"""Prints the prompt given to a fresh 'seeded fault' sub-agent for one property (only the property text, nothing from /verif)."""
import json, sys
pid = sys.argv[1]
n = int(sys.argv[2]) if len(sys.argv) > 2 else 2
p = next(json.loads(l) for l in open("/verif/properties.jsonl") if json.loads(l)["id"] == pid)
text = json.dumps({k: p[k] for k in ("id", "title", "statement", "quantifier", "why_tests_cant", "anchors")}, indent=1)
print(f"""You are a software engineer producing *seeded faults* used to evaluate a verification tool for the Rust library arkworks-rs/algebra (finite fields, elliptic curves, pairings, polynomials, serialization). You get the text of ONE semantic property of the library and must write {n} independent, realistic source changes that each BREAK this property while escaping the existing test suite.

Strict rules about where you work:
- Create your own scratch worktree: `git -C /repo worktree add --detach /tmp/seed-{pid} HEAD` and edit ONLY files under /tmp/seed-{pid}. Never edit /repo itself. The directory /verif is off limits: do not read, list or use anything in it.
- Everything is offline (`--offline`, `CARGO_NET_OFFLINE=true`); no crates can be fetched. The machine is shared and busy: builds can be slow, be patient, avoid needless rebuilds, and limit yourself to `-j 4`.

The property (this is all you know about what will be checked):
{text}

What each change must satisfy:
1. It is a small edit (one to a few lines, possibly at two cooperating sites that each look fine alone) to library source under /tmp/seed-{pid}/{{ff,ff-macros,ec,poly,serialize,serialize-derive,test-curves,curves/*}} — the kind of slip a maintainer could plausibly make (off-by-one at a boundary, wrong branch for a rare case, dropped carry, a fast path taken under a slightly wrong condition, swapped constants for a rarely used configuration, a wrong constant digit, a forgotten special case). No test-only or cfg(test) edits, no edits to tests.
2. The code still compiles, and the EXISTING tests still pass: run `cargo test -p <crate> --offline -j 4` inside /tmp/seed-{pid} for every workspace crate you touched and every workspace crate that depends on it (workspace crates: ark-serialize, ark-serialize-derive, ark-ff-macros, ark-ff, ark-poly, ark-ec, ark-test-curves; dependency order serialize -> ff -> poly -> ec -> test-curves). If an existing test fails, the change is too blunt: refine it until the suite is green. (Crates under curves/* are not part of the test workspace and cannot be tested, but you may change them and use them from a demonstration through path dependencies.)
3. It needs something *specific* to manifest — an unusual or boundary input, a particular size/length/window/limb count/thread count, a multi-step sequence of calls, a rarely used configuration, or two cooperating sites — NOT something any ordinary use exposes immediately.
4. It genuinely violates the property as stated (not merely some other behaviour).

For each change N (1..{n}) provide a demonstration: a small standalone cargo project /tmp/seed-{pid}-out/demoN/ (its own `[workspace]` table in Cargo.toml, path dependencies pointing into /tmp/seed-{pid}/..., copy /repo/Cargo.lock next to its Cargo.toml, build/run with `CARGO_NET_OFFLINE=true cargo run --release --offline -j 4`) whose `main` exits 0 when the property holds and panics/exits non-zero when it does not. Verify BOTH directions yourself: with the change applied it must fail, with the change reverted (`git -C /tmp/seed-{pid} stash` or checkout) it must pass. If a demo needs a curves/* crate, note that a crate with path deps on curves/* must list such a dependency alphabetically first or cargo may mis-resolve the workspace root (e.g. name the dependency `ark-bls12-381 = {{ path = ... }}` before `ark-ec`/`ark-ff`).

Deliverables in /tmp/seed-{pid}-out/ :
- changeN.diff  : `git -C /tmp/seed-{pid} diff` containing ONLY change N (relative to HEAD; must apply cleanly with `git apply` on a fresh checkout of HEAD)
- demoN/        : Cargo.toml, Cargo.lock, src/main.rs (delete its target/ directory when done)
- meta.json     : a list with one object per change: {{"change": N, "summary": "...", "files": [...], "needs": "what specific condition is needed for it to manifest", "tests_run": ["command -> result", ...], "demo_with_change": "fails: <message>", "demo_without_change": "passes"}}
When finished, delete build output (`rm -rf /tmp/seed-{pid}/target /tmp/seed-{pid}-out/demo*/target`) but leave the worktree and the out directory in place. Final reply: a few lines per change (what, where, what it needs to manifest, tests run).""")
