#!/bin/bash
# Intake + independent confirmation of one seeded change written by a sub-agent.
#   tools/seed_confirm.sh <Cxx> <N> [checks to run against it, default: Cxx]
# Copies /tmp/seed-<Cxx>-out/{changeN.diff,demoN,meta.json} to /verif/seeded/<Cxx>-<N>/, then in the persistent scratch
# worktree /tmp/seedcheck/repo: (1) patch applies and compiles, (2) demo fails with the patch and passes without,
# (3) the existing test suite passes with the patch, (4) our check(s) detect it (tools/mutant_run.sh).
set -u
ID="$1"; N="$2"; shift 2; CHECKS="${*:-$ID}"
SRC="/tmp/seed-$ID-out"; DST="/verif/seeded/$ID-$N"; W=/tmp/seedcheck
mkdir -p "$DST" "$W"
cp "$SRC/change$N.diff" "$DST/patch.diff" || exit 2
rm -rf "$DST/demo"; cp -r "$SRC/demo$N" "$DST/demo"; rm -rf "$DST/demo/target"
# demo path deps: point at /repo (to use: git -C /repo apply patch.diff; run; git -C /repo checkout -- .)
sed -i "s#/tmp/seed-$ID/#/repo/#g" "$DST/demo/Cargo.toml"
LOG="$DST/confirm.log"; : > "$LOG"
exec 9>"$W/lock"; flock 9
if [ ! -d "$W/repo" ]; then git -C /repo worktree add --detach "$W/repo" HEAD >>"$LOG" 2>&1; fi
git -C "$W/repo" checkout -q --detach "$(git -C /repo rev-parse HEAD)" >>"$LOG" 2>&1; git -C "$W/repo" checkout -- . 
export CARGO_NET_OFFLINE=true
res() { echo "$1" | tee -a "$LOG"; }
if ! git -C "$W/repo" apply --check "$DST/patch.diff" 2>>"$LOG"; then res "RESULT applies=no"; exit 1; fi
# demo copy bound to the scratch worktree
rm -rf "$W/demo"; cp -r "$DST/demo" "$W/demo"; sed -i "s#/repo/#$W/repo/#g" "$W/demo/Cargo.toml"
run_demo() { ( cd "$W/demo" && CARGO_TARGET_DIR="$W/demo-target" timeout 3000 cargo run --release --offline >>"$LOG" 2>&1 ); echo $?; }
without=$(run_demo)
git -C "$W/repo" apply "$DST/patch.diff"
with=$(run_demo)
res "RESULT demo_without_change_exit=$without demo_with_change_exit=$with"
( cd "$W/repo" && CARGO_TARGET_DIR="$W/target" timeout 7200 cargo test --workspace --no-fail-fast --offline > "$W/suite.log" 2>&1 )
passed=$(grep -E "^test result" "$W/suite.log" | awk '{p+=$4; f+=$6} END {print p" passed "f" failed"}')
failed_tests=$(grep -E "^test .* FAILED" "$W/suite.log" | head -5 | tr '\n' ';')
builderr=$(grep -c "^error" "$W/suite.log")
res "RESULT suite_with_change: $passed build_errors=$builderr $failed_tests"
git -C "$W/repo" checkout -- .
flock -u 9
[ "${SKIP_CHECKS:-0}" = "1" ] && CHECKS=""
for c in $CHECKS; do
  out=$(/verif/tools/mutant_run.sh "$c" "$DST/patch.diff" quick 2>&1 | tail -n 6)
  echo "$out" >> "$LOG"
  res "RESULT check=$c $(echo "$out" | grep -E "MUTANT (DETECTED|MISSED)|inconclusive|does not" | tail -1)"
  echo "$out" | grep -E "^FAILED" | head -3 | cut -c1-220 >> "$LOG"
done
python3 - "$ID" "$N" "$SRC/meta.json" "$DST" <<'PY'
import json, sys, re
pid, n, src, dst = sys.argv[1:5]
try:
    metas = json.load(open(src))
    m = next((x for x in metas if str(x.get("change")) == str(n)), metas[0] if metas else {})
except Exception as e:
    m = {"note": f"author meta.json unreadable: {e}"}
log = open(dst + "/confirm.log", errors="replace").read()
m["property"] = pid
m["author"] = "fresh sub-agent given only the property text and a scratch worktree of /repo"
m["confirmed_by_coordinator"] = [l[7:] for l in log.splitlines() if l.startswith("RESULT ")]
json.dump(m, open(dst + "/meta.json", "w"), indent=1)
PY
grep "^RESULT" "$LOG"
