#!/usr/bin/env python3-vt
"""Generates /verif/harness/core/src/zoo.rs: the prime-field zoo (derived and hand-written
MontConfig implementations).  Run at authoring time only (needs sympy); the output is committed."""
import sys
from sympy import isprime, nextprime, prevprime, primitive_root, factorint

def qnr(p):
    if p == 2:
        return 1
    g = 2
    while pow(g, (p - 1) // 2, p) != p - 1:
        g += 1
    return g

def gen_for(p):
    """multiplicative generator when p-1 is factorable quickly, else smallest QNR"""
    if p.bit_length() <= 64:
        return int(primitive_root(p)), True
    return qnr(p), False

def nlimbs(p):
    n = 1
    while (1 << (64 * n)) < p:
        n += 1
    return n

fields = []  # (name, p, kind-notes, small_subgroup(base,power) or None)

def add(name, p, note, ssb=None):
    assert isprime(p), (name, p)
    fields.append((name, p, note, ssb))

# --- tiny and 1-limb --------------------------------------------------------------
for p in [3, 5, 7, 17, 97, 251, 65537]:
    add(f"T{p}", p, "tiny")
add("M31", 2**31 - 1, "mersenne 31")
add("M61", 2**61 - 1, "mersenne 61")
add("P63", 2**63 - 25, "largest 63-bit prime, spare bit, top limb near 2^63")
add("P64", 2**64 - 59, "largest 64-bit prime, no spare bit")
add("Gold", 2**64 - 2**32 + 1, "goldilocks, no spare bit, two-adicity 32")
add("P62", prevprime(2**62), "62 bits: no-carry eligible")
# two-adicity ladder on one limb: c*2^s+1
for s in [1, 2, 3, 4, 5, 8, 13, 16, 24, 31, 47]:
    c = (1 << (60 - s)) | 1
    while True:
        p = c * (1 << s) + 1
        if isprime(p) and ((p - 1) >> s) % 2 == 1:
            break
        c += 2
    add(f"A{s}", p, f"two-adicity {s}")
# mixed-radix toy fields 2^s*3^k*c+1
for (s, k) in [(3, 2), (4, 3), (5, 1), (2, 4)]:
    c = 1
    while True:
        p = (2**s) * (3**k) * c + 1
        if c % 2 == 1 and c % 3 != 0 and isprime(p) and p > 1000:
            break
        c += 1
    add(f"X{s}_{k}", p, f"mixed radix 2^{s}*3^{k}*{c}+1", (3, k))
# 5-adic small subgroup
c = 1
while True:
    p = (2**3) * (5**2) * c + 1
    if c % 2 == 1 and c % 5 != 0 and isprime(p) and p > 5000:
        break
    c += 1
add("Y3_2", p, f"mixed radix 2^3*5^2*{c}+1", (5, 2))

# --- 2 limbs ----------------------------------------------------------------------
add("P65", nextprime(2**64), "65 bits: two limbs, tiny top limb")
add("M127", 2**127 - 1, "mersenne 127: all ones, no no-carry")
k = 1
while not isprime((2**63 - 1) * 2**64 + k):
    k += 2
add("Top63", (2**63 - 1) * 2**64 + k, "top limb exactly 2^63-1")
add("P128", 2**128 - 159, "largest 128-bit prime, no spare bit")
add("P126", prevprime(2**126), "126 bits")
# --- 3 limbs ----------------------------------------------------------------------
add("P129", nextprime(2**128), "129 bits")
add("P192", 2**192 - 237, "192 bits no spare")
add("P191", prevprime(2**191), "191 bits")
# --- 4 limbs ----------------------------------------------------------------------
add("C25519", 2**255 - 19, "curve25519 base")
add("Secp256k1", 2**256 - 2**32 - 977, "secp256k1 base, no spare bit")
add("P256m189", 2**256 - 189, "largest 256-bit prime")
add("Bn254Fr", 21888242871839275222246405745257275088548364400416034343698204186575808495617, "bn254 fr")
add("Bls381Fr", 52435875175126190479447740508185965837690552500527637822603658699938581184513, "bls12-381 fr")
add("P193", nextprime(2**192), "193 bits, 4 limbs tiny top")
add("P250", prevprime(2**250), "250 bits")
# --- 5..13 limbs: one spare-bit, one no-spare-bit, assorted bit lengths -----------------
for n in range(5, 14):
    add(f"S{n}", prevprime(2**(64 * n - 1)), f"{n} limbs, spare bit, top limb 2^63-eps")
    add(f"N{n}", prevprime(2**(64 * n)), f"{n} limbs, no spare bit")
    bits = 64 * (n - 1) + 1 + ((n * 11) % 62)
    add(f"B{n}", prevprime(2**bits), f"{n} limbs, {bits} bits")
# full-width moduli (top bit set) that are NOT adjacent to 2^(64N): products before the final reduction land anywhere
# in [p, 2^(64N)), unlike for 2^(64N)-c shaped primes
for n in (1, 2, 3, 4):
    add(f"W{n}", nextprime((2**(64 * n) * 71) // 100), f"{n} limbs, full width, about 0.71 * 2^(64*{n})")
# a small subgroup whose size 3^21 does not fit in 32 bits (the derive macro computes with it)
c = 1
while True:
    p = (2**4) * (3**21) * c + 1
    if c % 2 == 1 and c % 3 != 0 and isprime(p):
        break
    c += 1
add("X4_21", p, f"mixed radix 2^4*3^21*{c}+1 (small subgroup of more than 2^32 elements)", (3, 21))
# top limb exactly 2^63 (the first modulus shape without a spare bit): 2^(64N-1) + c
for n in (2, 3, 4, 6):
    add(f"Q{n}", nextprime(2**(64 * n - 1)), f"{n} limbs, smallest prime above 2^(64*{n}-1): top limb exactly 2^63, no spare bit")
# two-adicity of 64 and more (p = 1 mod 2^64: the low limb of p-1 is zero): c*2^s+1 on 2..4 limbs, Stark252
for s_, limbs_ in [(64, 2), (70, 2), (100, 2), (130, 3), (192, 4)]:
    c = 3 if s_ != 192 else (1 << 59) + 17  # Stark252 = 2^251 + 17*2^192 + 1
    while True:
        p = c * (1 << s_) + 1
        if isprime(p) and c % 2 == 1:
            break
        c += 2
    assert nlimbs(p) == limbs_, (s_, nlimbs(p))
    add(f"A{s_}", p, f"two-adicity {s_} ({c}*2^{s_}+1)")
# moduli whose low limb(s) are all ones: (p-1)/2 + 1 and p + 1 carry across limbs
add("NistP256", 2**256 - 2**224 + 2**192 + 2**96 - 1, "NIST P-256 base: low 96 bits all ones, no spare bit")
add("C448", 2**448 - 2**224 - 1, "curve448 base: low 224 bits all ones, no spare bit")
add("M521", 2**521 - 1, "mersenne 521: all ones, 9 limbs")
add("Bls381Fq", 4002409555221667393417789825735904156556882819939007885332058136124031650490837864442687629129015664037894272559787, "bls12-381 fq")
add("Secp384r1", 2**384 - 2**128 - 2**96 + 2**32 - 1, "secp384r1 base, no spare")

out = []
w = out.append
w("// @generated by /verif/tools/gen_fields.py — do not edit")
w("//! Prime-field zoo: derived (`#[derive(MontConfig)]`) and hand-written configurations.")
w("#![allow(non_camel_case_types, clippy::all)]")
w("use ark_ff::fields::{Fp, MontBackend, MontConfig};")
w("use ark_ff::BigInt;")
w("")
names = []
for (name, p, note, ssb) in fields:
    g, is_gen = gen_for(p)
    n = nlimbs(p)
    w(f"/// {note}; p = {p} ({p.bit_length()} bits, {n} limbs); generator attr = {g} ({'multiplicative generator' if is_gen else 'smallest quadratic non-residue'})")
    w("#[derive(MontConfig)]")
    w(f'#[modulus = "{p}"]')
    w(f'#[generator = "{g}"]')
    if ssb:
        w(f'#[small_subgroup_base = "{ssb[0]}"]')
        w(f'#[small_subgroup_power = "{ssb[1]}"]')
    w(f"pub struct {name}Cfg;")
    w(f"pub type {name} = Fp<MontBackend<{name}Cfg, {n}>, {n}>;")
    w("")
    names.append((name, n, p, is_gen, ssb is not None))

# hand-written configs inheriting the trait's default arithmetic
hand = [
    ("H1s", 2**63 - 25), ("H1n", 2**64 - 59), ("H1g", 2**64 - 2**32 + 1), ("H1t", 97),
    ("H2s", prevprime(2**126)), ("H2n", 2**128 - 159), ("H2m", 2**127 - 1),
    ("H3s", prevprime(2**191)), ("H3n", 2**192 - 237),
    ("H4s", 2**255 - 19), ("H4n", 2**256 - 2**32 - 977), ("H4b", 52435875175126190479447740508185965837690552500527637822603658699938581184513),
    ("H6s", 4002409555221667393417789825735904156556882819939007885332058136124031650490837864442687629129015664037894272559787),
    ("H6n", 2**384 - 2**128 - 2**96 + 2**32 - 1),
    ("H12s", prevprime(2**(64 * 12 - 1))), ("H12n", prevprime(2**(64 * 12))),
    ("H2q", nextprime(2**127)), ("H4q", nextprime(2**255)),
]
def limbs(x, n):
    return ", ".join(f"0x{(x >> (64 * i)) & (2**64 - 1):x}" for i in range(n))
for (name, p) in hand:
    assert isprime(p)
    n = nlimbs(p)
    g, is_gen = gen_for(p)
    t = p - 1
    while t % 2 == 0:
        t //= 2
    root = pow(g, t, p)
    w(f"/// hand-written `impl MontConfig` (trait-default arithmetic); p = {p}")
    w(f"pub struct {name}Cfg;")
    w(f"impl MontConfig<{n}> for {name}Cfg {{")
    w(f"    const MODULUS: BigInt<{n}> = BigInt::new([{limbs(p, n)}]);")
    w(f"    const GENERATOR: Fp<MontBackend<Self, {n}>, {n}> = Fp::new(BigInt::new([{limbs(g, n)}]));")
    w(f"    const TWO_ADIC_ROOT_OF_UNITY: Fp<MontBackend<Self, {n}>, {n}> = Fp::new(BigInt::new([{limbs(root, n)}]));")
    w("}")
    w(f"pub type {name} = Fp<MontBackend<{name}Cfg, {n}>, {n}>;")
    w("")
    names.append((name, n, p, is_gen, False))

w("/// Invokes `$m!(Type, ConfigType, N, \"name\", is_multiplicative_generator, has_small_subgroup)` for every zoo field.")
w("#[macro_export]")
w("macro_rules! for_each_zoo_field {")
w("    ($m:ident) => {")
for (name, n, p, is_gen, ssb) in names:
    w(f'        $m!($crate::zoo::{name}, $crate::zoo::{name}Cfg, {n}, "{name}", {str(is_gen).lower()}, {str(ssb).lower()});')
w("    };")
w("}")
w("")
w("/// Same, restricted to fields with at most 2^17 elements (exhaustively enumerable).")
w("#[macro_export]")
w("macro_rules! for_each_tiny_field {")
w("    ($m:ident) => {")
for (name, n, p, is_gen, ssb) in names:
    if p <= 65537:
        w(f'        $m!($crate::zoo::{name}, $crate::zoo::{name}Cfg, {n}, "{name}", {str(is_gen).lower()}, {str(ssb).lower()});')
w("    };")
w("}")
open("/verif/harness/core/src/zoo.rs", "w").write("\n".join(out) + "\n")
print(len(names), "fields")
