#!/usr/bin/env python3
"""C20 literal triage: run when the literal grid of C20 does not compile (or to replay one class).
For every literal class (radix prefix in both cases x sign) a tiny program with a few MontFp!/BigInt! literals is
generated, built and run on its own; the expected values are computed here, with Python integers, and compared at run
time inside the probe. A class whose probe does not compile (the macro rejects or overflows on a literal it must accept)
or whose values differ is a violation of C20; if every class passes, the original build failure is something else.
usage: c20_triage.py <verif_root> [class]      exit 0 all classes pass | 1 VIOLATION printed | 2 probe infrastructure failed"""
import os, subprocess, sys, shutil
root = sys.argv[1]
only = sys.argv[2] if len(sys.argv) > 2 else None
probe = os.path.join(root, "harness", "props", "c20", "probe")
P4 = 52435875175126190479447740508185965837690552500527637822603658699938581184513  # BLS12-381 Fr, 4 limbs
P1 = 18446744069414584321  # Goldilocks, 1 limb
VALUES = [0, 1, 5, 0o17, 255, 2**64 - 1, 2**64, 2**130 + 77, P4 - 1, P4, P4 + 3, 2**255 + 12345, 2**256 - 1]
RADIX = {"dec": (10, ""), "0x": (16, "0x"), "0X": (16, "0X"), "0o": (8, "0o"), "0O": (8, "0O"), "0b": (2, "0b"), "0B": (2, "0B")}
def digits(v, base):
    if v == 0: return "0"
    s = ""
    while v: s = "0123456789abcdef"[v % base] + s; v //= base
    return s
def limbs(v, n): return ", ".join(f"0x{(v >> (64 * i)) & (2**64 - 1):x}u64" for i in range(n))
def source(cls, neg):
    base, prefix = RADIX[cls]
    lines = ["use ark_ff::{BigInt, BigInteger, Fp256, Fp64, MontBackend, MontConfig, MontFp, PrimeField};",
             "#[derive(MontConfig)]", f'#[modulus = "{P4}"]', '#[generator = "7"]', "pub struct C4;", "type F4 = Fp256<MontBackend<C4, 4>>;",
             "#[derive(MontConfig)]", f'#[modulus = "{P1}"]', '#[generator = "7"]', "pub struct C1;", "type F1 = Fp64<MontBackend<C1, 1>>;",
             "fn main() {", "    let mut bad = 0;"]
    for v in VALUES:
        for lead in ("", "00"):
            lit = ("-" if neg else "") + prefix + lead + digits(v, base)
            for (ty, p, n) in (("F4", P4, 4), ("F1", P1, 1)):
                if v >= 2 ** (64 * n):
                    continue  # the macros document integers of at most N limbs
                want = (-v if neg else v) % p
                lines.append(f'    {{ const X: {ty} = MontFp!("{lit}"); let w = {ty}::from_bigint(BigInt::new([{limbs(want, n)}])).unwrap(); if X != w || X.into_bigint() != w.into_bigint() {{ bad += 1; eprintln!("MontFp!(\\"{lit}\\") as {ty}: got {{}} expected {{}}", X, w); }} }}')
            if not neg and v < 2**256:
                lines.append(f'    {{ const B: BigInt<4> = ark_ff::BigInt!("{lit}"); if B != BigInt::new([{limbs(v, 4)}]) {{ bad += 1; eprintln!("BigInt!(\\"{lit}\\"): got {{}}", B); }} }}')
    lines += ["    if bad > 0 { std::process::exit(1); }", '    println!("ok");', "}"]
    return "\n".join(lines) + "\n"
env = dict(os.environ, CARGO_NET_OFFLINE="true", CARGO_TARGET_DIR=os.path.join(root, "harness", "target", "c20-probe"))
env.pop("RUSTFLAGS", None)
os.makedirs(os.path.join(root, "replays"), exist_ok=True)
viol = 0; infra = 0
for cls in RADIX:
    for neg in (False, True):
        name = f"{cls}{'-neg' if neg else ''}"
        if only and only != name: continue
        src = source(cls, neg)
        open(os.path.join(probe, "src", "main.rs"), "w").write(src)
        b = subprocess.run(["cargo", "build", "--release", "--offline"], cwd=probe, env=env, capture_output=True, text=True)
        reason = None
        if b.returncode != 0:
            err = b.stderr
            if "MontFp" in err or "BigInt!" in err or "ark_ff_macros" in err or "proc macro panicked" in err or "evaluation of constant value failed" in err or "E0080" in err:
                reason = "a literal of this class is rejected at compile time: " + " | ".join(l.strip() for l in err.splitlines() if l.startswith("error"))[:300]
            else:
                infra += 1; print(f"literal class {name}: probe does not build for another reason"); print(err[-600:]); continue
        else:
            r = subprocess.run([os.path.join(env["CARGO_TARGET_DIR"], "release", "c20-probe")], capture_output=True, text=True)
            if r.returncode != 0:
                reason = "compile-time value differs from the run-time value: " + r.stderr.strip().splitlines()[0][:300]
        if reason:
            viol += 1
            dst = os.path.join(root, "replays", f"C20-literal-probe-{name}.rs")
            open(dst, "w").write(src)
            print(f"FAILED C20/literal-probe/{name} :: {reason}")
            print(f"VIOLATION property=C20 replay={dst}")
        else:
            print(f"literal class {name}: ok")
sys.exit(1 if viol else (2 if infra else 0))
