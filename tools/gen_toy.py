#!/usr/bin/env python3-vt
"""Generates /verif/harness/core/src/toy.rs: toy elliptic curves (short Weierstrass and twisted Edwards over
small prime fields) with derived base/scalar fields, cofactor, cofactor inverse and subgroup generator.
Authoring-time only (sympy); the output is committed."""
from sympy import isprime, primitive_root, factorint

def legendre(a, p):
    a %= p
    if a == 0:
        return 0
    return 1 if pow(a, (p - 1) // 2, p) == 1 else -1

def sqrt_all(p):
    t = {}
    for x in range(p):
        t.setdefault(x * x % p, []).append(x)
    return t

# ---------------- short Weierstrass -----------------------------------------------
def sw_points(p, a, b, sq):
    pts = [None]
    for x in range(p):
        r = (x * x * x + a * x + b) % p
        for y in sq.get(r, []):
            pts.append((x, y))
    return pts

def sw_add(P, Q, p, a):
    if P is None:
        return Q
    if Q is None:
        return P
    x1, y1 = P
    x2, y2 = Q
    if x1 == x2 and (y1 + y2) % p == 0:
        return None
    if P == Q:
        l = (3 * x1 * x1 + a) * pow(2 * y1, -1, p) % p
    else:
        l = (y2 - y1) * pow(x2 - x1, -1, p) % p
    x3 = (l * l - x1 - x2) % p
    return (x3, (l * (x1 - x3) - y1) % p)

def mul(k, P, add, zero=None):
    R = zero
    Q = P
    while k:
        if k & 1:
            R = add(R, Q)
        Q = add(Q, Q)
        k >>= 1
    return R

def te_add(P, Q, p, a, d):
    # identity is (0,1); None never used
    x1, y1 = P
    x2, y2 = Q
    t = d * x1 * x2 * y1 * y2 % p
    dx = (1 + t) % p
    dy = (1 - t) % p
    if dx == 0 or dy == 0:
        raise ZeroDivisionError
    return ((x1 * y2 + y1 * x2) * pow(dx, -1, p) % p, (y1 * y2 - a * x1 * x2) * pow(dy, -1, p) % p)

def te_points(p, a, d):
    pts = []
    for x in range(p):
        for y in range(p):
            if (a * x * x + y * y - 1 - d * x * x * y * y) % p == 0:
                pts.append((x, y))
    return pts

def split_order(n):
    f = factorint(n)
    r = max(f)
    if f[r] != 1:
        return None
    return n // r, r

curves_sw = []   # (name, p, a, b, h, r, G, note)
curves_te = []   # (name, p, a, d, h, r, G, note, complete)

def find_sw(name, p, want_a, want_h, note, rmin=11, two_torsion=None):
    from sympy import nextprime
    for _ in range(1 if p == 251 else 12):
        if _find_sw(name, p, want_a, want_h, note, rmin, two_torsion):
            return
        p = int(nextprime(p))
    raise SystemExit(f"no curve for {name}")

def _find_sw(name, p, want_a, want_h, note, rmin, two_torsion):
    sq = sqrt_all(p)
    for a in ([0] if want_a == 0 else ([p - 3] if want_a == -3 else range(1, p))):
        for b in range(1, p):
            if (4 * a ** 3 + 27 * b * b) % p == 0:
                continue
            pts = sw_points(p, a, b, sq)
            n = len(pts)
            so = split_order(n)
            if so is None:
                continue
            h, r = so
            if r < rmin:
                continue
            if want_h == 1 and h != 1:
                continue
            if want_h == '>1' and h == 1:
                continue
            if isinstance(want_h, int) and want_h > 1 and h != want_h:
                continue
            n2 = sum(1 for P in pts if P is not None and P[1] == 0)
            if two_torsion is not None and n2 != two_torsion:
                continue
            add = lambda P, Q: sw_add(P, Q, p, a)
            for P in pts[1:]:
                G = mul(h, P, add)
                if G is not None:
                    assert mul(r, G, add) is None
                    curves_sw.append((name, p, a, b, h, r, G, note + f"; #E={n}, 2-torsion points={n2}"))
                    return True
    return False

def find_te(name, p, a, want_d_square, note, rmin=13, hmax=16):
    from sympy import nextprime
    p0 = p
    for _ in range(1 if p == 251 else 40):
        if p % 4 == p0 % 4 and legendre(a % p, p) == legendre(a % p0, p0):
            if _find_te(name, p, a, want_d_square, note, rmin, hmax):
                return
        p = int(nextprime(p))
    raise SystemExit(f"no TE curve for {name}")

def _find_te(name, p, a, want_d_square, note, rmin, hmax):
    a %= p
    for d in range(2, p):
        if d == a:
            continue
        if (legendre(d, p) == 1) != want_d_square:
            continue
        pts = te_points(p, a, d)
        complete = legendre(a, p) == 1 and legendre(d, p) == -1
        add = lambda P, Q: te_add(P, Q, p, a, d)
        # incomplete curves have 2 or 4 further points at infinity that belong to the group
        for extra in ([0] if complete else [0, 2, 4]):
            n = len(pts) + extra
            so = split_order(n)
            if so is None:
                continue
            h, r = so
            if r < rmin or h > hmax:
                continue
            for P in pts:
                try:
                    G = mul(h, P, add, (0, 1))
                    if G == (0, 1):
                        continue
                    # the subgroup generated by G: r affine points, closed, no exceptional additions inside it
                    sub = [(0, 1)]
                    for _ in range(r - 1):
                        sub.append(add(sub[-1], G))
                    if add(sub[-1], G) != (0, 1) or len(set(sub)) != r:
                        continue
                    ok = True
                    for A in sub:
                        for B in sub:
                            if add(A, B) not in sub:
                                ok = False
                    if not ok:
                        continue
                    curves_te.append((name, p, a, d, h, r, G, note + f"; affine points={len(pts)}, group order={n}", complete))
                    return True
                except ZeroDivisionError:
                    continue
    return False

# quick-tier sized curves (<= ~130 points) and thorough-tier sized (<= ~1100)
find_sw("SwA0P1", 103, 0, 1, "a=0, prime order")
find_sw("SwA0H", 109, 0, '>1', "a=0, cofactor>1 with full 2-torsion", two_torsion=3)
find_sw("SwA0H3", 97, 0, 3, "a=0, cofactor 3")
find_sw("SwAxP1", 101, 1, 1, "a!=0, prime order")
find_sw("SwAxH4", 113, 1, 4, "a!=0, cofactor 4, full 2-torsion", two_torsion=3)
find_sw("SwAxH2", 89, 1, 2, "a!=0, cofactor 2", two_torsion=1)
find_sw("SwAm3", 107, -3, 1, "a=-3, prime order")
find_sw("SwBigA0", 1009, 0, 1, "a=0, prime order, ~1000 points")
find_sw("SwBigAx", 1021, 1, '>1', "a!=0, cofactor>1, ~1000 points", rmin=100)
find_te("TeC1", 101, 1, False, "a=1 (square), d non-square: complete law")
find_te("TeCm1", 109, -1, False, "a=-1 (square, p=1 mod 4), d non-square: complete law")
find_te("TeC5", 89, 5, False, "a=5 (square), d non-square: complete law")
find_te("TeN", 103, -1, False, "a=-1 non-square (p=3 mod 4): incomplete law", )
find_te("TeN2", 107, 2, True, "a non-square, d square: incomplete law")
find_te("TeBig", 1013, 1, False, "a=1, d non-square, ~1000 points: complete", rmin=50)
# b = 0: (0,0) is a genuine point of order two whose coordinates coincide with the placeholder coordinates that the
# affine identity stores
def find_sw_b0(name, p, note, rmin=11):
    sq = sqrt_all(p)
    for a in range(1, p):
        pts = sw_points(p, a, 0, sq)
        so = split_order(len(pts))
        if so is None:
            continue
        h, r = so
        if r < rmin:
            continue
        add = lambda P, Q: sw_add(P, Q, p, a)
        for P in pts[1:]:
            G = mul(h, P, add)
            if G is not None:
                assert mul(r, G, add) is None
                curves_sw.append((name, p, a, 0, h, r, G, note + f"; #E={len(pts)}"))
                return
    raise SystemExit(f"no curve for {name}")
find_sw_b0("SwB0", 103, "b=0: (0,0) is a 2-torsion point")
find_sw_b0("SwB0b", 109, "b=0 over p=1 mod 4 (full 2-torsion possible)")
# 8-bit prime: the modulus fills its top byte, so serialization flags need an extra byte (no shipped TE curve has this shape)
find_sw("SwP251", 251, 1, '>1', "a!=0 over the 8-bit prime 251 (no spare bit in the top byte), cofactor>1", rmin=13)
find_sw("SwP251P", 251, 1, 1, "a!=0 over the 8-bit prime 251, prime order")
find_te("TeP251", 251, 1, False, "a=1, d non-square over the 8-bit prime 251: complete law, flags need an extra byte")

fields = {}
def field(p):
    if p not in fields:
        fields[p] = f"Tf{p}"
    return fields[p]

out = []
w = out.append
w("// @generated by /verif/tools/gen_toy.py — do not edit")
w("//! Toy curves small enough to enumerate every point and every ordered pair of points.")
w("#![allow(non_camel_case_types, clippy::all)]")
w("use ark_ec::models::short_weierstrass::{self as sw, SWCurveConfig};")
w("use ark_ec::models::twisted_edwards::{self as te, MontCurveConfig, TECurveConfig};")
w("use ark_ec::models::CurveConfig;")
w("use ark_ff::fields::{Fp, MontBackend, MontConfig};")
w("use ark_ff::MontFp;")
w("")
body = []
b = body.append
for (name, p, a, bb, h, r, G, note) in curves_sw:
    fq, fr = field(p), field(r)
    b(f"/// short Weierstrass y^2 = x^3 + {a}x + {bb} over F_{p}: {note}; h={h}, r={r}, G={G}")
    b("#[derive(Clone, Default, PartialEq, Eq)]")
    b(f"pub struct {name};")
    b(f"impl CurveConfig for {name} {{")
    b(f"    type BaseField = {fq};")
    b(f"    type ScalarField = {fr};")
    b(f"    const COFACTOR: &'static [u64] = &[{h}];")
    b(f'    const COFACTOR_INV: {fr} = MontFp!("{pow(h, -1, r)}");')
    b("}")
    b(f"impl SWCurveConfig for {name} {{")
    b(f'    const COEFF_A: {fq} = MontFp!("{a}");')
    b(f'    const COEFF_B: {fq} = MontFp!("{bb}");')
    b(f'    const GENERATOR: sw::Affine<Self> = sw::Affine::new_unchecked(MontFp!("{G[0]}"), MontFp!("{G[1]}"));')
    b("}")
    b("")
for (name, p, a, d, h, r, G, note, complete) in curves_te:
    fq, fr = field(p), field(r)
    ma = 2 * (a + d) * pow(a - d, -1, p) % p
    mb = 4 * pow(a - d, -1, p) % p
    b(f"/// twisted Edwards {a}x^2 + y^2 = 1 + {d}x^2y^2 over F_{p}: {note}; h={h}, r={r}, G={G}, complete={complete}")
    b("#[derive(Clone, Default, PartialEq, Eq)]")
    b(f"pub struct {name};")
    b(f"impl CurveConfig for {name} {{")
    b(f"    type BaseField = {fq};")
    b(f"    type ScalarField = {fr};")
    b(f"    const COFACTOR: &'static [u64] = &[{h}];")
    b(f'    const COFACTOR_INV: {fr} = MontFp!("{pow(h, -1, r)}");')
    b("}")
    b(f"impl TECurveConfig for {name} {{")
    b(f'    const COEFF_A: {fq} = MontFp!("{a}");')
    b(f'    const COEFF_D: {fq} = MontFp!("{d}");')
    b(f'    const GENERATOR: te::Affine<Self> = te::Affine::new_unchecked(MontFp!("{G[0]}"), MontFp!("{G[1]}"));')
    b("    type MontCurveConfig = Self;")
    b("}")
    b(f"impl MontCurveConfig for {name} {{")
    b(f'    const COEFF_A: {fq} = MontFp!("{ma}");')
    b(f'    const COEFF_B: {fq} = MontFp!("{mb}");')
    b("    type TECurveConfig = Self;")
    b("}")
    b("")
for p, nm in sorted(fields.items()):
    assert isprime(p)
    g = int(primitive_root(p))
    w(f"#[derive(MontConfig)]")
    w(f'#[modulus = "{p}"]')
    w(f'#[generator = "{g}"]')
    w(f"pub struct {nm}Cfg;")
    w(f"pub type {nm} = Fp<MontBackend<{nm}Cfg, 1>, 1>;")
    w("")
out += body
w("/// `$m!(Config, \"name\", p, a, b, h, r, big)` for every toy short-Weierstrass curve (`big` = thorough-tier size)")
w("#[macro_export]")
w("macro_rules! for_each_toy_sw {")
w("    ($m:ident) => {")
for (name, p, a, bb, h, r, G, note) in curves_sw:
    w(f'        $m!($crate::toy::{name}, "{name}", {p}u64, {a}u64, {bb}u64, {h}u64, {r}u64, {str(p > 300).lower()});')
w("    };")
w("}")
w("/// `$m!(Config, \"name\", p, a, d, h, r, complete, big)` for every toy twisted-Edwards curve")
w("#[macro_export]")
w("macro_rules! for_each_toy_te {")
w("    ($m:ident) => {")
for (name, p, a, d, h, r, G, note, complete) in curves_te:
    w(f'        $m!($crate::toy::{name}, "{name}", {p}u64, {a}u64, {d}u64, {h}u64, {r}u64, {str(complete).lower()}, {str(p > 300).lower()});')
w("    };")
w("}")
open("/verif/harness/core/src/toy.rs", "w").write("\n".join(out) + "\n")
for c in curves_sw:
    print(c)
for c in curves_te:
    print(c)
