#!/bin/bash
# Coverage-guided stage of a thorough check: runs one libFuzzer target (in-target oracle) for a fixed number of runs
# on several workers, merges its statistics into the property's evidence file.
#   tools/fuzz_stage.sh <Cxx> <target> <runs-per-job> <max_len> [jobs]
# exit 0 no finding | 1 VIOLATION (artifact copied to /verif/replays) | 2 inconclusive (build failure, timeout/oom of the fuzzer itself)
set -u
ROOT="$(cd "$(dirname "$0")/.." && pwd)"
ID="$1"; TARGET="$2"; RUNS="$3"; MAXLEN="$4"; JOBS="${5:-8}"
SEED=$(( ${VERIF_SEED:-0} + 1 ))
export CARGO_NET_OFFLINE=true
unset CARGO_TARGET_DIR
cd "$ROOT/harness/fuzz" || exit 2
if ! cargo +nightly fuzz build "$TARGET" > "target-build-$TARGET.log" 2>&1; then
  echo "INCONCLUSIVE: fuzz target $TARGET does not build"; tail -n 20 "target-build-$TARGET.log"; exit 2
fi
WORK="$ROOT/harness/fuzz/corpus/$TARGET-run"
rm -rf "$WORK" "artifacts/$TARGET"; mkdir -p "$WORK" "artifacts/$TARGET"
[ -d "seeds/$TARGET" ] && cp seeds/$TARGET/* "$WORK/" 2>/dev/null
BIN="target/x86_64-unknown-linux-gnu/release/$TARGET"
LOGDIR="$ROOT/harness/fuzz/corpus/$TARGET-logs"; rm -rf "$LOGDIR"; mkdir -p "$LOGDIR"
pids=()
for j in $(seq 1 "$JOBS"); do
  ( cd "$LOGDIR" && timeout 14000 "$ROOT/harness/fuzz/$BIN" "-artifact_prefix=$ROOT/harness/fuzz/artifacts/$TARGET/" \
      -runs="$RUNS" -seed=$(( SEED * 1000 + j )) -max_len="$MAXLEN" -len_control=0 -malloc_limit_mb=256 -rss_limit_mb=6000 -timeout=120 \
      -print_final_stats=1 "$WORK" > "job-$j.log" 2>&1 ) &
  pids+=($!)
done
rc=0
for p in "${pids[@]}"; do wait "$p" || rc=1; done
python3 - "$ROOT" "$ID" "$TARGET" "$LOGDIR" "$RUNS" "$JOBS" <<'PY'
import json, re, sys, glob, os
root, pid, target, logdir, runs, jobs = sys.argv[1:7]
tot = 0; cov = 0; ft = 0; corp = 0
for f in glob.glob(os.path.join(logdir, "job-*.log")):
    s = open(f, errors="replace").read()
    m = re.findall(r"stat::number_of_executed_units:\s*(\d+)", s)
    if m: tot += int(m[-1])
    m = re.findall(r"cov: (\d+) ft: (\d+) corp: (\d+)", s)
    if m:
        cov = max(cov, int(m[-1][0])); ft = max(ft, int(m[-1][1])); corp = max(corp, int(m[-1][2]))
ev_path = os.path.join(root, "evidence", pid + ".json")
try:
    ev = json.load(open(ev_path))
    c = ev["coverage"]
    c.setdefault("fuzz", []).append({"engine": "libFuzzer (cargo-fuzz)", "target": target, "jobs": int(jobs), "runs_requested_per_job": int(runs),
                                      "executions": tot, "edge_coverage": cov, "features": ft, "corpus_units": corp,
                                      "oracle": "in-target (round-trip / differential / validity assertions), ASan + debug assertions on"})
    c["evaluations"] = c.get("evaluations", 0) + tot
    json.dump(ev, open(ev_path, "w"), indent=1)
except Exception as e:
    print("could not merge fuzz statistics into evidence:", e)
print(f"fuzz {target}: {tot} executions, cov {cov}, features {ft}, corpus {corp}")
PY
ARTS=$(ls "artifacts/$TARGET" 2>/dev/null)
if [ -n "$ARTS" ]; then
  viol=0
  for a in $ARTS; do
    case "$a" in
      crash-*|oom-*|leak-*)
        mkdir -p "$ROOT/replays"; dst="$ROOT/replays/$ID-fuzz-$TARGET-$a"; cp "artifacts/$TARGET/$a" "$dst"
        grep -h -m3 -E "panicked at|assertion|ERROR: " "$LOGDIR"/job-*.log | head -5
        echo "VIOLATION property=$ID replay=$dst"; viol=1 ;;
      *) echo "INCONCLUSIVE: fuzzer artifact $a (timeout / slow unit)";;
    esac
  done
  [ $viol -eq 1 ] && exit 1
  exit 2
fi
[ $rc -ne 0 ] && { echo "INCONCLUSIVE: a fuzz job exited abnormally without artifact"; tail -n 5 "$LOGDIR"/job-1.log; exit 2; }
exit 0
