#!/bin/bash
# merges the round-2 output /tmp/seed2-<ID>-out (change1, change2) into /tmp/seed-<ID>-out as change3, change4
ID="$1"; RND="${2:-2}"; OFF=$(( (RND-1)*2 )); S="/tmp/seed$RND-$ID-out"; D="/tmp/seed-$ID-out"; mkdir -p "$D"
for n in 1 2; do
  m=$((n+OFF))
  [ -f "$S/change$n.diff" ] || continue
  cp "$S/change$n.diff" "$D/change$m.diff"
  rm -rf "$D/demo$m"; cp -r "$S/demo$n" "$D/demo$m"; rm -rf "$D/demo$m/target"
  sed -i "s#/tmp/seed$RND-$ID/#/tmp/seed-$ID/#g" "$D/demo$m/Cargo.toml"
done
python3 - "$S/meta.json" "$D/meta.json" "$RND" <<'PY'
import json, sys
src, dst, rnd = sys.argv[1], sys.argv[2], int(sys.argv[3])
off = (rnd - 1) * 2
try: new = json.load(open(src))
except Exception: new = []
try: old = json.load(open(dst))
except Exception: old = []
old = [m for m in old if int(m.get("change", 0)) <= off]
for m in new:
    m = dict(m); m["change"] = int(m.get("change", 1)) + off; m["round"] = rnd; old.append(m)
json.dump(old, open(dst, "w"), indent=1)
PY
ls "$D"
