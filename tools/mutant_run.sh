#!/bin/bash
# Sensitivity tool: run a property check against a *scratch copy* of /repo with a patch applied.
#   tools/mutant_run.sh <Cxx> <patch.diff> [-R] [quick|thorough] [extra args for the binary...]
# -R applies the patch in reverse (e.g. the reverse of a "fix:" commit).
# Nothing in /repo or /verif is modified; the scratch worktree, harness copy and build output are removed at the end.
set -u
ID="$1"; PATCH="$(readlink -f "$2")"; shift 2
REV=""; if [ "${1:-}" = "-R" ]; then REV="-R"; shift; fi
TIER="${1:-quick}"; [ $# -gt 0 ] && shift
CRATE="$(echo "$ID" | tr 'A-Z' 'a-z')"
W="/tmp/mut-$CRATE-$$"
mkdir -p "$W"
trap 'git -C /repo worktree remove --force "$W/repo" >/dev/null 2>&1; rm -rf "$W"' EXIT
git -C /repo worktree add --detach "$W/repo" HEAD >/dev/null 2>&1 || { echo "worktree failed"; exit 2; }
# carry over uncommitted /repo changes are NOT included on purpose (HEAD only)
if ! git -C "$W/repo" apply $REV "$PATCH"; then echo "MUTANT: patch does not apply"; exit 2; fi
mkdir -p "$W/verif"
rsync -a --exclude target --exclude 'target-*' --exclude corpus --exclude artifacts /verif/harness "$W/verif/"
rsync -a /verif/tools "$W/verif/"
mkdir -p "$W/verif/evidence"
cp /verif/known_findings.json "$W/verif/"
find "$W/verif/harness" -name Cargo.toml -print0 | xargs -0 sed -i "s#/repo/#$W/repo/#g"
cd "$W/verif/harness"
export CARGO_NET_OFFLINE=true VERIF_ROOT="$W/verif" CARGO_TARGET_DIR="$W/target"
if [ -n "${MUT_FUZZ:-}" ]; then
  # MUT_FUZZ="<target> <runs-per-job> <max_len> [jobs]": run only the libFuzzer stage against the mutated tree
  echo '{"coverage":{}}' > "$W/verif/evidence/$ID.json"
  "$W/verif/tools/fuzz_stage.sh" "$ID" $MUT_FUZZ 2>&1 | tail -n 8
  rc=${PIPESTATUS[0]}
  if [ $rc -eq 1 ]; then echo "MUTANT DETECTED by fuzz stage ($ID, exit 1)"; elif [ $rc -eq 0 ]; then echo "MUTANT MISSED by fuzz stage ($ID, exit 0)"; else echo "fuzz stage inconclusive rc=$rc"; fi
  exit $rc
fi
if ! cargo build --release -p "$CRATE" >"$W/build.log" 2>&1; then
  if [ "$ID" = "C20" ]; then
    (unset CARGO_TARGET_DIR; python3 "$W/verif/tools/c20_triage.py" "$W/verif") > "$W/triage.log" 2>&1; trc=$?
    grep -E "^(FAILED|VIOLATION)" "$W/triage.log" | cut -c1-300 | head -6
    if [ $trc -eq 1 ]; then echo "MUTANT DETECTED ($ID, exit 1) by the literal triage"; exit 1; fi
  fi
  echo "MUTANT: does not compile with the harness"; tail -20 "$W/build.log"; exit 2
fi
if [ -x "props/$CRATE/pre.sh" ]; then (unset CARGO_TARGET_DIR; "props/$CRATE/pre.sh" "$TIER") >/dev/null 2>&1 || echo "pre.sh failed"; fi
timeout 3000 "$W/target/release/$CRATE" check --tier "$TIER" --seed "${VERIF_SEED:-0}" "$@" > "$W/out.log" 2>&1
rc=$?
grep -E "^(FAILED|VIOLATION|KNOWN-FINDING|C[0-9]+ )" "$W/out.log" | cut -c1-300 | head -12
if [ $rc -eq 0 ] && [ "$TIER" = "quick" ] && [ -z "${MUT_NO_POST:-}" ] && [ $# -eq 0 ] && [ -x "props/$CRATE/post.sh" ]; then
  # quick-tier post step (second build variants); only for full runs (no --only filter)
  (unset CARGO_TARGET_DIR; "props/$CRATE/post.sh" quick) > "$W/post.log" 2>&1; rc=$?
  grep -E "^(FAILED|VIOLATION|asm variant)" "$W/post.log" | cut -c1-300 | head -6
fi
if [ $rc -eq 1 ]; then echo "MUTANT DETECTED ($ID, exit 1)"; elif [ $rc -eq 0 ]; then echo "MUTANT MISSED ($ID, exit 0)"; else echo "MUTANT run inconclusive rc=$rc"; tail -5 "$W/out.log"; fi
exit $rc
