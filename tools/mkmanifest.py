#!/usr/bin/env python3
"""Writes /verif/MANIFEST.json from the table below (kept in one place so the file is always valid)."""
import json, os
ROOT = os.path.dirname(os.path.dirname(os.path.abspath(__file__)))
props = [json.loads(l) for l in open(os.path.join(ROOT, "properties.jsonl"))]
ids = [p["id"] for p in props]

# id -> (technique, level text, level note)
CHECKS = {}
def reg(i, technique, text, note):
    CHECKS[i] = (technique, text, note)

import glob
for f in sorted(glob.glob(os.path.join(ROOT, "harness", "props", "c*", "manifest_entry.py"))):
    exec(open(f).read())

baseline = "cd /repo && cargo test --workspace --no-fail-fast --offline"
m = {
    "version": 1,
    "setup_cmd": "./setup.sh",
    "hooks": {
        "guard": "arkworks_rs_algebra_verif",
        "enable": "none needed: every check reaches the code through public API (raw Montgomery limbs, const fns at run time, harness-defined groups/configs); no hook commits exist, so there is nothing to enable",
        "baseline_off_cmd": baseline,
        "source_commits": [],
        "add_only": True,
    },
    "engines": [
        {
            "name": "vh",
            "path": "harness/",
            "serves_properties": sorted(CHECKS),
            "kind_free_text": "proptest-driven property-based testing engine (tape-decoded edge-biased generators, explicit oracles, shrinking to replay files, exhaustive enumeration of toy spaces, child-process isolation for hostile inputs) plus cargo-fuzz/libFuzzer targets with in-target oracles",
        }
    ],
    "checks": [],
    "not_applicable": [],
    "notes": "All checks: ./check <id> quick|thorough, replay with ./check <id> --replay <file>. Seeds via VERIF_SEED. Genuine defects repaired by 'fix:' commits or listed in known_findings.json; see DESIGN.md section 8.2 (dispositions) and 8.4-8.5 (seeded changes, coverage added). Build variants: harness/par (C14 parallel peer), harness/asm (C01, C15), harness/rel (C13); C20 runs a literal triage when its literal grid does not compile.",
}
# a property is claimed once its check has produced an evidence file from a run in /verif
CHECKS = {i: v for i, v in CHECKS.items() if os.path.exists(os.path.join(ROOT, "evidence", i + ".json"))}
m["engines"][0]["serves_properties"] = sorted(CHECKS)
for i in ids:
    if i in CHECKS:
        tech, text, note = CHECKS[i]
        m["checks"].append({
            "property_id": i,
            "quick_cmd": f"./check {i} quick",
            "thorough_cmd": f"./check {i} thorough",
            "evidence_file": f"evidence/{i}.json",
            "replay_cmd_template": f"./check {i} --replay {{path}}",
            "engine": "vh",
            "level_claimed": {"category": "exploration", "text": text, "design_ref": f"DESIGN.md section 4, {i}"},
            "level_note": note,
            "technique": tech,
        })
    else:
        m["not_applicable"].append({"property_id": i, "reason": "check not implemented yet in this revision (planned in DESIGN.md section 4); not claimed until its check exists and is silent on the unchanged tree"})
json.dump(m, open(os.path.join(ROOT, "MANIFEST.json"), "w"), indent=1)
print("claimed:", sorted(CHECKS), "unclaimed:", [i for i in ids if i not in CHECKS])
