#!/usr/bin/env python3
"""Round-7+ prompt: one change per agent; the list of earlier changes is read from /verif/seeded/<id>-*/meta.json
(the authors' own summaries only, nothing about the checks). Output dir /tmp/seed<rnd>-<id>-out, worktree /tmp/seed<rnd>-<id>."""
import json, sys, subprocess, glob, os
pid = sys.argv[1]; rnd = sys.argv[2] if len(sys.argv) > 2 else "7"
base = subprocess.run([sys.executable, os.path.join(os.path.dirname(__file__), "seed_prompt.py"), pid, "1"], capture_output=True, text=True).stdout
base = base.replace(f"/tmp/seed-{pid}", f"/tmp/seed{rnd}-{pid}")
prev = []
for f in sorted(glob.glob(f"/verif/seeded/{pid}-*/meta.json")):
    try:
        m = json.load(open(f)); prev.append(f"- {str(m.get('summary','?'))[:400]}")
    except Exception: pass
extra = f"""

ROUND {rnd} — additional requirements. Earlier rounds already produced the following changes for this property; do NOT repeat them or close variants of them, pick a different code site and a different trigger condition:
{chr(10).join(prev) if prev else '- (none recorded)'}

Make the change as hard to expose as a realistic slip can be, while still being a genuine violation of the property as stated: it should need at least TWO independent conditions to manifest (a particular configuration / curve / limb count / domain kind / window AND a particular class of input or sequence of calls), or sit in a code path that only large sizes, rarely used shipped configurations or unusual-but-legal parameter combinations reach. Do not put the change in code that is only compiled under a non-default cargo feature. It must be deterministic and demonstrable. You are short of time: produce exactly ONE change, run only the tests of the crates you touched and their dependants once, and finish within about 15 minutes. In meta.json add a field "why_hard"."""
print(base + extra)
