//! Independent oracle for elliptic-curve group laws: textbook affine chord-and-tangent for
//! y^2 = x^3 + a x + b and the affine twisted-Edwards law, written over `Field` operations only
//! (field arithmetic itself is the subject of C01/C02), plus naive double-and-add.
use ark_ec::models::short_weierstrass::{Affine as SwAffine, Projective as SwProj, SWCurveConfig};
use ark_ec::models::twisted_edwards::{Affine as TeAffine, Projective as TeProj, TECurveConfig};
use ark_ff::{Field, One, PrimeField, Zero};
use num_bigint::BigUint;

#[derive(Clone, Copy, Debug, PartialEq, Eq, Hash)]
pub enum Sw<F: Field> {
    Inf,
    Aff(F, F),
}

pub fn sw_on_curve<F: Field>(a: &F, b: &F, p: &Sw<F>) -> bool {
    match p {
        Sw::Inf => true,
        Sw::Aff(x, y) => y.square() == x.square() * x + *a * x + b,
    }
}

pub fn sw_neg<F: Field>(p: &Sw<F>) -> Sw<F> {
    match p {
        Sw::Inf => Sw::Inf,
        Sw::Aff(x, y) => Sw::Aff(*x, -*y),
    }
}

/// textbook affine addition
pub fn sw_add<F: Field>(a: &F, p: &Sw<F>, q: &Sw<F>) -> Sw<F> {
    match (p, q) {
        (Sw::Inf, _) => *q,
        (_, Sw::Inf) => *p,
        (Sw::Aff(x1, y1), Sw::Aff(x2, y2)) => {
            let lambda = if x1 == x2 {
                if *y1 + y2 == F::zero() {
                    return Sw::Inf;
                }
                // P == Q, y != 0
                let three = F::from(3u64);
                (three * x1.square() + a) * (y1.double()).inverse().expect("2y != 0")
            } else {
                (*y2 - y1) * (*x2 - x1).inverse().expect("x2 != x1")
            };
            let x3 = lambda.square() - x1 - x2;
            let y3 = lambda * (*x1 - x3) - y1;
            Sw::Aff(x3, y3)
        },
    }
}

/// naive double-and-add, most significant bit first, over the oracle law
pub fn sw_mul<F: Field>(a: &F, p: &Sw<F>, k: &BigUint) -> Sw<F> {
    let mut r = Sw::Inf;
    for i in (0..k.bits()).rev() {
        r = sw_add(a, &r, &r);
        if k.bit(i) {
            r = sw_add(a, &r, p);
        }
    }
    r
}

pub fn sw_from_affine<P: SWCurveConfig>(p: &SwAffine<P>) -> Sw<P::BaseField> {
    if p.infinity {
        Sw::Inf
    } else {
        Sw::Aff(p.x, p.y)
    }
}

pub fn sw_to_affine<P: SWCurveConfig>(p: &Sw<P::BaseField>) -> SwAffine<P> {
    match p {
        Sw::Inf => SwAffine::<P>::identity(),
        Sw::Aff(x, y) => SwAffine::<P>::new_unchecked(*x, *y),
    }
}

/// Decode a Jacobian point through its raw coordinates (x/z^2, y/z^3), independent of `into_affine`.
pub fn sw_from_proj<P: SWCurveConfig>(p: &SwProj<P>) -> Sw<P::BaseField> {
    if p.z.is_zero() {
        Sw::Inf
    } else {
        let zi = p.z.inverse().unwrap();
        let zi2 = zi.square();
        Sw::Aff(p.x * zi2, p.y * zi2 * zi)
    }
}

/// Jacobian representative (lambda^2 x, lambda^3 y, lambda) of an oracle point; identity as (x, y, 0)
pub fn sw_to_proj<P: SWCurveConfig>(p: &Sw<P::BaseField>, lambda: &P::BaseField, idx: &P::BaseField, idy: &P::BaseField) -> SwProj<P> {
    match p {
        Sw::Inf => SwProj::<P>::new_unchecked(*idx, *idy, P::BaseField::zero()),
        Sw::Aff(x, y) => {
            let l2 = lambda.square();
            SwProj::<P>::new_unchecked(*x * l2, *y * l2 * lambda, *lambda)
        },
    }
}

/// All affine points of a curve over a *prime* field small enough to enumerate (brute force over x, y).
pub fn sw_enumerate<F: PrimeField>(a: &F, b: &F) -> Vec<Sw<F>> {
    let p: u64 = F::MODULUS.as_ref()[0];
    assert!(F::MODULUS.as_ref().iter().skip(1).all(|l| *l == 0) && p < (1 << 16));
    let mut out = vec![Sw::Inf];
    for xi in 0..p {
        let x = F::from(xi);
        let rhs = x.square() * x + *a * x + b;
        for yi in 0..p {
            let y = F::from(yi);
            if y.square() == rhs {
                out.push(Sw::Aff(x, y));
            }
        }
    }
    out
}

// ------------------------------------------------------------------------------------------
// twisted Edwards: a x^2 + y^2 = 1 + d x^2 y^2, identity (0, 1)
// ------------------------------------------------------------------------------------------

#[derive(Clone, Copy, Debug, PartialEq, Eq, Hash)]
pub struct Te<F: Field>(pub F, pub F);

pub fn te_identity<F: Field>() -> Te<F> {
    Te(F::zero(), F::one())
}

pub fn te_on_curve<F: Field>(a: &F, d: &F, p: &Te<F>) -> bool {
    let x2 = p.0.square();
    let y2 = p.1.square();
    *a * x2 + y2 == F::one() + *d * x2 * y2
}

pub fn te_neg<F: Field>(p: &Te<F>) -> Te<F> {
    Te(-p.0, p.1)
}

/// affine addition law; None when a denominator vanishes (only possible on incomplete curves)
pub fn te_add<F: Field>(a: &F, d: &F, p: &Te<F>, q: &Te<F>) -> Option<Te<F>> {
    let t = *d * p.0 * q.0 * p.1 * q.1;
    let dx = (F::one() + t).inverse()?;
    let dy = (F::one() - t).inverse()?;
    Some(Te((p.0 * q.1 + p.1 * q.0) * dx, (p.1 * q.1 - *a * p.0 * q.0) * dy))
}

pub fn te_mul<F: Field>(a: &F, d: &F, p: &Te<F>, k: &BigUint) -> Option<Te<F>> {
    let mut r = te_identity();
    for i in (0..k.bits()).rev() {
        r = te_add(a, d, &r, &r)?;
        if k.bit(i) {
            r = te_add(a, d, &r, p)?;
        }
    }
    Some(r)
}

pub fn te_from_affine<P: TECurveConfig>(p: &TeAffine<P>) -> Te<P::BaseField> {
    Te(p.x, p.y)
}

pub fn te_to_affine<P: TECurveConfig>(p: &Te<P::BaseField>) -> TeAffine<P> {
    TeAffine::<P>::new_unchecked(p.0, p.1)
}

/// Decode an extended point (X:Y:T:Z) through raw coordinates; also reports whether T*Z == X*Y.
pub fn te_from_proj<P: TECurveConfig>(p: &TeProj<P>) -> Option<(Te<P::BaseField>, bool)> {
    let zi = p.z.inverse()?;
    Some((Te(p.x * zi, p.y * zi), p.t * p.z == p.x * p.y))
}

/// extended representative (lambda x, lambda y, lambda x y, lambda)
pub fn te_to_proj<P: TECurveConfig>(p: &Te<P::BaseField>, lambda: &P::BaseField) -> TeProj<P> {
    TeProj::<P>::new_unchecked(p.0 * lambda, p.1 * lambda, p.0 * p.1 * lambda, *lambda)
}

pub fn te_enumerate<F: PrimeField>(a: &F, d: &F) -> Vec<Te<F>> {
    let p: u64 = F::MODULUS.as_ref()[0];
    assert!(F::MODULUS.as_ref().iter().skip(1).all(|l| *l == 0) && p < (1 << 16));
    let mut out = vec![];
    for xi in 0..p {
        let x = F::from(xi);
        for yi in 0..p {
            let y = F::from(yi);
            let pt = Te(x, y);
            if te_on_curve(a, d, &pt) {
                out.push(pt);
            }
        }
    }
    out
}

/// multiples 0*G .. (r-1)*G of a point under the oracle law (prime-order subgroup of a toy curve)
pub fn te_subgroup<F: Field>(a: &F, d: &F, g: &Te<F>, r: u64) -> Vec<Te<F>> {
    let mut out = vec![te_identity()];
    for _ in 1..r {
        let n = te_add(a, d, out.last().unwrap(), g).expect("subgroup additions are never exceptional");
        out.push(n);
    }
    out
}

pub fn one_of<F: Field>() -> F {
    F::one()
}
