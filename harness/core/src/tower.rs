//! Independent oracle for extension towers: schoolbook arithmetic in F_p[X]/(X^k - beta), built
//! recursively from BigUint arithmetic mod p and the NONRESIDUE constants only.
use crate::modint::*;
use ark_ff::fields::{
    CubicExtConfig, CubicExtField, Fp, MontBackend, MontConfig, QuadExtConfig, QuadExtField,
};
use ark_ff::{BigInt, Field};
use num_bigint::BigUint;
use num_traits::{One, Zero};
use std::sync::Arc;

#[derive(Clone, Debug, PartialEq, Eq, Hash)]
pub enum Elem {
    P(BigUint),
    E(Vec<Elem>),
}

#[derive(Clone, Debug)]
pub enum Tower {
    Prime { p: BigUint, n: usize, r: BigUint, rinv: BigUint },
    Ext { deg: usize, base: Arc<Tower>, nonresidue: Elem },
}

impl Tower {
    pub fn prime(modulus_limbs: &[u64]) -> Tower {
        let c = FieldCtx::new("", modulus_limbs);
        Tower::Prime { p: c.p, n: c.n, r: c.r, rinv: c.rinv }
    }
    pub fn characteristic(&self) -> &BigUint {
        match self {
            Tower::Prime { p, .. } => p,
            Tower::Ext { base, .. } => base.characteristic(),
        }
    }
    /// total degree over the prime field
    pub fn degree(&self) -> usize {
        match self {
            Tower::Prime { .. } => 1,
            Tower::Ext { deg, base, .. } => deg * base.degree(),
        }
    }
    /// number of elements
    pub fn order(&self) -> BigUint {
        let mut q = BigUint::one();
        for _ in 0..self.degree() {
            q *= self.characteristic();
        }
        q
    }
    pub fn zero(&self) -> Elem {
        match self {
            Tower::Prime { .. } => Elem::P(BigUint::zero()),
            Tower::Ext { deg, base, .. } => Elem::E(vec![base.zero(); *deg]),
        }
    }
    pub fn one(&self) -> Elem {
        match self {
            Tower::Prime { p, .. } => Elem::P(BigUint::one() % p),
            Tower::Ext { deg, base, .. } => {
                let mut v = vec![base.zero(); *deg];
                v[0] = base.one();
                Elem::E(v)
            },
        }
    }
    pub fn is_zero(&self, a: &Elem) -> bool {
        *a == self.zero()
    }
    pub fn add(&self, a: &Elem, b: &Elem) -> Elem {
        match (self, a, b) {
            (Tower::Prime { p, .. }, Elem::P(x), Elem::P(y)) => Elem::P(addm(x, y, p)),
            (Tower::Ext { base, .. }, Elem::E(x), Elem::E(y)) => Elem::E(x.iter().zip(y).map(|(u, v)| base.add(u, v)).collect()),
            _ => panic!("tower shape mismatch"),
        }
    }
    pub fn neg(&self, a: &Elem) -> Elem {
        match (self, a) {
            (Tower::Prime { p, .. }, Elem::P(x)) => Elem::P(negm(x, p)),
            (Tower::Ext { base, .. }, Elem::E(x)) => Elem::E(x.iter().map(|u| base.neg(u)).collect()),
            _ => panic!("tower shape mismatch"),
        }
    }
    pub fn sub(&self, a: &Elem, b: &Elem) -> Elem {
        self.add(a, &self.neg(b))
    }
    /// schoolbook product modulo X^deg - nonresidue
    pub fn mul(&self, a: &Elem, b: &Elem) -> Elem {
        match (self, a, b) {
            (Tower::Prime { p, .. }, Elem::P(x), Elem::P(y)) => Elem::P(mulm(x, y, p)),
            (Tower::Ext { deg, base, nonresidue }, Elem::E(x), Elem::E(y)) => {
                let k = *deg;
                let mut wide = vec![base.zero(); 2 * k - 1];
                for i in 0..k {
                    for j in 0..k {
                        let t = base.mul(&x[i], &y[j]);
                        wide[i + j] = base.add(&wide[i + j], &t);
                    }
                }
                let mut out = wide[..k].to_vec();
                for i in k..2 * k - 1 {
                    let t = base.mul(&wide[i], nonresidue);
                    out[i - k] = base.add(&out[i - k], &t);
                }
                Elem::E(out)
            },
            _ => panic!("tower shape mismatch"),
        }
    }
    pub fn pow(&self, a: &Elem, e: &BigUint) -> Elem {
        let mut res = self.one();
        let nb = e.bits();
        for i in (0..nb).rev() {
            res = self.mul(&res, &res);
            if e.bit(i) {
                res = self.mul(&res, a);
            }
        }
        res
    }
    /// inverse as a^(q-2)
    pub fn inv(&self, a: &Elem) -> Option<Elem> {
        if self.is_zero(a) {
            return None;
        }
        let e = self.order() - 2u32;
        Some(self.pow(a, &e))
    }
    /// Euler criterion in the whole field: a^((q-1)/2) == 1 (a != 0)
    pub fn is_square(&self, a: &Elem) -> bool {
        if self.is_zero(a) {
            return true;
        }
        let q = self.order();
        if q.bit(0) == false {
            return true;
        }
        let e = (q - 1u32) >> 1;
        self.pow(a, &e) == self.one()
    }
    /// embed an element of the base field (one level down) as a constant
    pub fn from_base(&self, b: &Elem) -> Elem {
        match self {
            Tower::Ext { deg, base, .. } => {
                let mut v = vec![base.zero(); *deg];
                v[0] = b.clone();
                Elem::E(v)
            },
            _ => panic!("prime field has no base"),
        }
    }
    /// embed a prime-field integer
    pub fn from_int(&self, x: &BigUint) -> Elem {
        match self {
            Tower::Prime { p, .. } => Elem::P(x % p),
            Tower::Ext { deg, base, .. } => {
                let mut v = vec![base.zero(); *deg];
                v[0] = base.from_int(x);
                Elem::E(v)
            },
        }
    }
    /// flat list of prime-field coefficients (c0's coefficients first)
    pub fn flatten(&self, a: &Elem) -> Vec<BigUint> {
        match a {
            Elem::P(x) => vec![x.clone()],
            Elem::E(v) => match self {
                Tower::Ext { base, .. } => v.iter().flat_map(|e| base.flatten(e)).collect(),
                _ => panic!("shape"),
            },
        }
    }
    pub fn unflatten(&self, c: &[BigUint]) -> Elem {
        match self {
            Tower::Prime { p, .. } => Elem::P(&c[0] % p),
            Tower::Ext { deg, base, .. } => {
                let d = base.degree();
                Elem::E((0..*deg).map(|i| base.unflatten(&c[i * d..(i + 1) * d])).collect())
            },
        }
    }
}

/// Bridge between arkworks field types and the oracle representation (coordinate access only).
pub trait OracleRepr: Field {
    fn tower() -> Tower;
    fn to_o(&self) -> Elem;
    fn from_o(e: &Elem) -> Self;
    /// true when every stored prime-field coordinate is canonical (< p)
    fn canonical(&self) -> bool;
}

impl<T: MontConfig<N>, const N: usize> OracleRepr for Fp<MontBackend<T, N>, N> {
    fn tower() -> Tower {
        Tower::prime(&T::MODULUS.0)
    }
    fn to_o(&self) -> Elem {
        // decode raw Montgomery limbs independently
        let c = cached_ctx(&T::MODULUS.0);
        Elem::P(c.from_mont(&(self.0).0))
    }
    fn from_o(e: &Elem) -> Self {
        match e {
            Elem::P(x) => {
                let c = cached_ctx(&T::MODULUS.0);
                let m = c.to_mont(&(x % &c.p));
                let mut l = [0u64; N];
                l.copy_from_slice(&m);
                Fp::new_unchecked(BigInt::new(l))
            },
            _ => panic!("shape"),
        }
    }
    fn canonical(&self) -> bool {
        big(&(self.0).0) < big(&T::MODULUS.0)
    }
}

impl<P: QuadExtConfig> OracleRepr for QuadExtField<P>
where
    P::BaseField: OracleRepr,
{
    fn tower() -> Tower {
        Tower::Ext { deg: 2, base: Arc::new(<P::BaseField as OracleRepr>::tower()), nonresidue: P::NONRESIDUE.to_o() }
    }
    fn to_o(&self) -> Elem {
        Elem::E(vec![self.c0.to_o(), self.c1.to_o()])
    }
    fn from_o(e: &Elem) -> Self {
        match e {
            Elem::E(v) if v.len() == 2 => QuadExtField::new(P::BaseField::from_o(&v[0]), P::BaseField::from_o(&v[1])),
            _ => panic!("shape"),
        }
    }
    fn canonical(&self) -> bool {
        self.c0.canonical() && self.c1.canonical()
    }
}

impl<P: CubicExtConfig> OracleRepr for CubicExtField<P>
where
    P::BaseField: OracleRepr,
{
    fn tower() -> Tower {
        Tower::Ext { deg: 3, base: Arc::new(<P::BaseField as OracleRepr>::tower()), nonresidue: P::NONRESIDUE.to_o() }
    }
    fn to_o(&self) -> Elem {
        Elem::E(vec![self.c0.to_o(), self.c1.to_o(), self.c2.to_o()])
    }
    fn from_o(e: &Elem) -> Self {
        match e {
            Elem::E(v) if v.len() == 3 => {
                CubicExtField::new(P::BaseField::from_o(&v[0]), P::BaseField::from_o(&v[1]), P::BaseField::from_o(&v[2]))
            },
            _ => panic!("shape"),
        }
    }
    fn canonical(&self) -> bool {
        self.c0.canonical() && self.c1.canonical() && self.c2.canonical()
    }
}

/// Cached tower + prime-field context for a type (FieldCtx construction is not free).
pub struct TowerOf<F: OracleRepr> {
    pub t: Tower,
    pub prime: FieldCtx,
    _f: std::marker::PhantomData<F>,
}

impl<F: OracleRepr> TowerOf<F> {
    pub fn new() -> Self {
        let t = F::tower();
        let p = t.characteristic().clone();
        let mut l = p.to_u64_digits();
        if l.is_empty() {
            l.push(0);
        }
        TowerOf { prime: FieldCtx::new("", &l), t, _f: std::marker::PhantomData }
    }
}

/// Edge-biased element of any tower: per coordinate from the prime-field edge strategy, with
/// structural classes (zero coordinates, base-field element, single coordinate).
pub fn edge_elem(t: &mut crate::engine::Tape<'_>, tw: &Tower, prime: &FieldCtx) -> (Elem, &'static str) {
    let d = tw.degree();
    if d == 1 {
        let (v, c) = crate::gen::edge_value(t, prime);
        return (Elem::P(v), c);
    }
    let cls = t.weighted(&[1, 1, 2, 2, 2, 8, 1]);
    let zero = BigUint::zero();
    let (coeffs, name): (Vec<BigUint>, &'static str) = match cls {
        0 => (vec![zero; d], "zero"),
        1 => {
            let mut v = vec![zero; d];
            v[0] = BigUint::one();
            (v, "one")
        },
        2 => {
            // prime-field element
            let mut v = vec![zero; d];
            v[0] = crate::gen::edge_value(t, prime).0;
            (v, "prime-subfield")
        },
        3 => {
            // a single non-zero coordinate
            let mut v = vec![zero; d];
            let i = t.idx(d);
            v[i] = crate::gen::edge_value(t, prime).0;
            (v, "single-coordinate")
        },
        4 => {
            // some coordinates zero
            let v = (0..d).map(|_| if t.bool() { BigUint::zero() } else { crate::gen::edge_value(t, prime).0 }).collect();
            (v, "sparse")
        },
        6 => {
            // the unit plus one further non-zero coordinate ("almost one")
            let mut v = vec![zero; d];
            v[0] = BigUint::one();
            let i = 1 + t.idx(d - 1);
            let x = crate::gen::edge_value(t, prime).0;
            v[i] = if x.is_zero() { BigUint::one() } else { x };
            (v, "unit-plus-one-coordinate")
        },
        _ => ((0..d).map(|_| crate::gen::edge_value(t, prime).0).collect(), "dense"),
    };
    (tw.unflatten(&coeffs), name)
}
