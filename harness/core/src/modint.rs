//! Independent integer oracle: `num_bigint::BigUint` arithmetic modulo p.
use num_bigint::{BigInt as SBig, BigUint, Sign};
use num_integer::Integer;
use num_traits::{One, Zero};

pub fn big(limbs: &[u64]) -> BigUint {
    let mut bytes = Vec::with_capacity(limbs.len() * 8);
    for l in limbs {
        bytes.extend_from_slice(&l.to_le_bytes());
    }
    BigUint::from_bytes_le(&bytes)
}

/// little-endian limbs, padded/truncated (must fit) to n limbs
pub fn to_limbs(x: &BigUint, n: usize) -> Vec<u64> {
    let mut v = x.to_u64_digits();
    assert!(v.len() <= n, "value does not fit in {} limbs", n);
    v.resize(n, 0);
    v
}

pub fn pow2(k: usize) -> BigUint {
    BigUint::one() << k
}

pub fn addm(a: &BigUint, b: &BigUint, p: &BigUint) -> BigUint {
    (a + b) % p
}
pub fn subm(a: &BigUint, b: &BigUint, p: &BigUint) -> BigUint {
    ((a % p) + p - (b % p)) % p
}
pub fn negm(a: &BigUint, p: &BigUint) -> BigUint {
    (p - (a % p)) % p
}
pub fn mulm(a: &BigUint, b: &BigUint, p: &BigUint) -> BigUint {
    (a * b) % p
}
pub fn powm(a: &BigUint, e: &BigUint, p: &BigUint) -> BigUint {
    if p.is_one() {
        return BigUint::zero();
    }
    a.modpow(e, p)
}

/// modular inverse by extended Euclid; None if gcd != 1
pub fn invm(a: &BigUint, p: &BigUint) -> Option<BigUint> {
    let a = SBig::from_biguint(Sign::Plus, a % p);
    let m = SBig::from_biguint(Sign::Plus, p.clone());
    let (mut r0, mut r1) = (m.clone(), a);
    let (mut t0, mut t1) = (SBig::zero(), SBig::one());
    while !r1.is_zero() {
        let q = &r0 / &r1;
        let r2 = &r0 - &q * &r1;
        r0 = r1;
        r1 = r2;
        let t2 = &t0 - &q * &t1;
        t0 = t1;
        t1 = t2;
    }
    if !r0.is_one() {
        return None;
    }
    let t = t0.mod_floor(&m);
    Some(t.to_biguint().unwrap())
}

/// Euler criterion: 1 if square (non-zero), -1 (as p-1 -> returns false) ...
pub fn is_square(a: &BigUint, p: &BigUint) -> bool {
    let a = a % p;
    if a.is_zero() {
        return true;
    }
    if p == &BigUint::from(2u32) {
        return true;
    }
    let e = (p - 1u32) >> 1;
    a.modpow(&e, p).is_one()
}

/// Miller–Rabin with fixed small-prime bases (deterministic for < 3.3e24, probabilistic beyond)
pub fn is_probable_prime(n: &BigUint) -> bool {
    let two = BigUint::from(2u32);
    if n < &two {
        return false;
    }
    let small: [u32; 25] = [2, 3, 5, 7, 11, 13, 17, 19, 23, 29, 31, 37, 41, 43, 47, 53, 59, 61, 67, 71, 73, 79, 83, 89, 97];
    for s in small {
        let s = BigUint::from(s);
        if n == &s {
            return true;
        }
        if (n % &s).is_zero() {
            return false;
        }
    }
    let nm1 = n - 1u32;
    let s = nm1.trailing_zeros().unwrap() as usize;
    let d = &nm1 >> s;
    'outer: for a in small {
        let a = BigUint::from(a);
        let mut x = a.modpow(&d, n);
        if x.is_one() || x == nm1 {
            continue;
        }
        for _ in 0..s - 1 {
            x = (&x * &x) % n;
            if x == nm1 {
                continue 'outer;
            }
        }
        return false;
    }
    true
}

/// Per-field constants recomputed from the modulus only.
#[derive(Clone, Debug)]
pub struct FieldCtx {
    pub name: String,
    pub n: usize,
    pub p: BigUint,
    pub bits: usize,
    /// 2^(64 n) mod p
    pub r: BigUint,
    pub rinv: BigUint,
}

impl FieldCtx {
    pub fn new(name: &str, modulus_limbs: &[u64]) -> Self {
        let n = modulus_limbs.len();
        let p = big(modulus_limbs);
        let r = pow2(64 * n) % &p;
        let rinv = invm(&r, &p).expect("R invertible");
        FieldCtx { name: name.to_string(), n, bits: p.bits() as usize, p, r, rinv }
    }
    /// Montgomery encoding of a canonical value
    pub fn to_mont(&self, v: &BigUint) -> Vec<u64> {
        to_limbs(&((v * &self.r) % &self.p), self.n)
    }
    /// canonical value from Montgomery limbs (limbs may be non-canonical; result reduced)
    pub fn from_mont(&self, limbs: &[u64]) -> BigUint {
        (big(limbs) * &self.rinv) % &self.p
    }
}

/// Cached per-modulus context (construction needs a modular inversion).
pub fn cached_ctx(modulus_limbs: &[u64]) -> std::sync::Arc<FieldCtx> {
    use std::collections::HashMap;
    use std::sync::{Arc, Mutex, OnceLock};
    thread_local! {
        static LOCAL: std::cell::RefCell<HashMap<Vec<u64>, Arc<FieldCtx>>> = std::cell::RefCell::new(HashMap::new());
    }
    static GLOBAL: OnceLock<Mutex<HashMap<Vec<u64>, Arc<FieldCtx>>>> = OnceLock::new();
    if let Some(c) = LOCAL.with(|l| l.borrow().get(modulus_limbs).cloned()) {
        return c;
    }
    let g = GLOBAL.get_or_init(|| Mutex::new(HashMap::new()));
    let c = {
        let mut g = g.lock().unwrap();
        g.entry(modulus_limbs.to_vec()).or_insert_with(|| Arc::new(FieldCtx::new("", modulus_limbs))).clone()
    };
    LOCAL.with(|l| l.borrow_mut().insert(modulus_limbs.to_vec(), c.clone()));
    c
}
