//! Property-based-testing engine shared by all per-property binaries.
//!
//! A property is a list of *relations*. A relation is a pure function of a
//! *tape* (a fixed-length vector of u64 words).  Tapes are produced by
//! proptest (`vec(any::<u64>(), len)` under a `TestRunner` with a fixed seed
//! and no persistence), or enumerated exhaustively; the relation decodes the
//! tape into structured arguments (edge-biased, by construction, no
//! rejection), calls arkworks and compares with an explicit oracle.  On
//! failure proptest shrinks the tape (towards zero words, which every decoder
//! maps to its simplest choice), the shrunk tape is written as a replay file
//! and can be re-executed without proptest.

use proptest::collection::vec;
use proptest::prelude::any;
use proptest::test_runner::{Config, RngAlgorithm, RngSeed, TestCaseError, TestError, TestRunner};
use serde::{Deserialize, Serialize};
use std::cell::RefCell;
use std::collections::{BTreeMap, HashSet};
use std::hash::{Hash, Hasher};
use std::io::Write;
use std::panic::{catch_unwind, AssertUnwindSafe};
use std::path::{Path, PathBuf};
use std::sync::atomic::{AtomicUsize, Ordering};
use std::sync::Mutex;
use std::time::Instant;

// ---------------------------------------------------------------------------------------
// Allocation guard (used by child processes for hostile-input relations)
// ---------------------------------------------------------------------------------------

pub struct GuardAlloc;
pub static ALLOC_LIMIT: AtomicUsize = AtomicUsize::new(usize::MAX);

unsafe impl std::alloc::GlobalAlloc for GuardAlloc {
    unsafe fn alloc(&self, l: std::alloc::Layout) -> *mut u8 {
        if l.size() > ALLOC_LIMIT.load(Ordering::Relaxed) {
            alloc_abort(l.size());
        }
        std::alloc::System.alloc(l)
    }
    unsafe fn dealloc(&self, p: *mut u8, l: std::alloc::Layout) {
        std::alloc::System.dealloc(p, l)
    }
    unsafe fn alloc_zeroed(&self, l: std::alloc::Layout) -> *mut u8 {
        if l.size() > ALLOC_LIMIT.load(Ordering::Relaxed) {
            alloc_abort(l.size());
        }
        std::alloc::System.alloc_zeroed(l)
    }
    unsafe fn realloc(&self, p: *mut u8, l: std::alloc::Layout, n: usize) -> *mut u8 {
        if n > ALLOC_LIMIT.load(Ordering::Relaxed) {
            alloc_abort(n);
        }
        std::alloc::System.realloc(p, l, n)
    }
}

fn alloc_abort(size: usize) -> ! {
    // no allocation here
    let mut buf = [0u8; 64];
    let msg = b"VH-ALLOC-LIMIT size=";
    let mut n = 0;
    for b in msg {
        buf[n] = *b;
        n += 1;
    }
    let mut digits = [0u8; 20];
    let mut k = 0;
    let mut s = size;
    if s == 0 {
        digits[0] = b'0';
        k = 1;
    }
    while s > 0 {
        digits[k] = b'0' + (s % 10) as u8;
        s /= 10;
        k += 1;
    }
    while k > 0 {
        k -= 1;
        buf[n] = digits[k];
        n += 1;
    }
    buf[n] = b'\n';
    n += 1;
    unsafe {
        libc_write(2, buf.as_ptr(), n);
    }
    std::process::abort()
}

extern "C" {
    #[link_name = "write"]
    fn libc_write(fd: i32, buf: *const u8, n: usize) -> isize;
}

#[global_allocator]
static GLOBAL: GuardAlloc = GuardAlloc;

// ---------------------------------------------------------------------------------------
// Tape
// ---------------------------------------------------------------------------------------

/// FNV-1a style running hash of the *decoded* choices, used as canonical case key.
#[derive(Clone, Copy)]
struct Fnv(u64);
impl Fnv {
    fn new() -> Self {
        Fnv(0xcbf29ce484222325)
    }
    fn push(&mut self, v: u64) {
        let mut h = self.0;
        for i in 0..8 {
            h ^= (v >> (8 * i)) & 0xff;
            h = h.wrapping_mul(0x100000001b3);
        }
        self.0 = h;
    }
}

pub struct Tape<'a> {
    w: &'a [u64],
    pos: usize,
    /// exact mode: `below(n)` returns `word % n` (used by exhaustive enumeration)
    exact: bool,
    h: Fnv,
}

impl<'a> Tape<'a> {
    pub fn new(w: &'a [u64], exact: bool) -> Self {
        Tape { w, pos: 0, exact, h: Fnv::new() }
    }
    #[inline]
    fn raw(&mut self) -> u64 {
        let v = if self.pos < self.w.len() { self.w[self.pos] } else { 0 };
        self.pos += 1;
        v
    }
    /// A full 64-bit word.
    pub fn u64(&mut self) -> u64 {
        let v = self.raw();
        self.h.push(v);
        v
    }
    /// Uniform in `[0, n)`, monotone in the tape word (so shrinking a word shrinks the choice).
    pub fn below(&mut self, n: u64) -> u64 {
        let w = self.raw();
        let v = if n == 0 {
            0
        } else if self.exact {
            w % n
        } else {
            ((w as u128 * n as u128) >> 64) as u64
        };
        self.h.push(v);
        v
    }
    pub fn idx(&mut self, n: usize) -> usize {
        self.below(n as u64) as usize
    }
    /// inclusive range
    pub fn range(&mut self, lo: u64, hi: u64) -> u64 {
        lo + self.below(hi - lo + 1)
    }
    pub fn bool(&mut self) -> bool {
        self.below(2) == 1
    }
    /// true with probability num/den
    pub fn chance(&mut self, num: u64, den: u64) -> bool {
        // small words -> false (the simple case)
        self.below(den) >= den - num
    }
    pub fn pick<T: Clone>(&mut self, xs: &[T]) -> T {
        xs[self.idx(xs.len())].clone()
    }
    /// weighted choice; index 0 is the "simplest" (reached by word 0)
    pub fn weighted(&mut self, weights: &[u32]) -> usize {
        let tot: u64 = weights.iter().map(|w| *w as u64).sum();
        let mut x = self.below(tot);
        for (i, w) in weights.iter().enumerate() {
            if x < *w as u64 {
                return i;
            }
            x -= *w as u64;
        }
        weights.len() - 1
    }
    pub fn bytes(&mut self, n: usize) -> Vec<u8> {
        let mut out = Vec::with_capacity(n);
        while out.len() < n {
            let w = self.u64();
            for i in 0..8 {
                if out.len() < n {
                    out.push((w >> (8 * i)) as u8);
                }
            }
        }
        out
    }
    pub fn limbs(&mut self, n: usize) -> Vec<u64> {
        (0..n).map(|_| self.u64()).collect()
    }
    /// An "interesting" 64-bit word: 0, 1, MAX, powers of two +-1, small, uniform.
    pub fn edge_u64(&mut self) -> u64 {
        match self.weighted(&[3, 2, 3, 3, 3, 2, 8]) {
            0 => 0,
            1 => 1,
            2 => u64::MAX,
            3 => {
                let k = self.below(64);
                1u64 << k
            },
            4 => {
                let k = self.below(64);
                (1u64 << k).wrapping_sub(1)
            },
            5 => self.below(256),
            _ => self.u64(),
        }
    }
    pub fn key(&self) -> u64 {
        self.h.0
    }
    /// the raw tape words (for forwarding a case to another process)
    pub fn snapshot(&self) -> Vec<u64> {
        self.w.to_vec()
    }
    pub fn is_exact(&self) -> bool {
        self.exact
    }
    pub fn consumed(&self) -> usize {
        self.pos
    }
}

// ---------------------------------------------------------------------------------------
// Observations
// ---------------------------------------------------------------------------------------

#[derive(Default)]
pub struct Obs {
    pub(crate) nontrivial: bool,
    pub(crate) classes: Vec<&'static str>,
    pub(crate) want_sample: bool,
    pub(crate) sample: Option<String>,
    pub(crate) key: Option<u64>,
    /// number of oracle comparisons in this case (defaults to 1)
    pub(crate) evals: u64,
    /// replay (strict) mode: relations may use it to disable tolerances
    pub strict: bool,
}

impl Obs {
    /// mark the case non-trivial (by the property's stated rule) if `c`
    pub fn nt(&mut self, c: bool) {
        if c {
            self.nontrivial = true;
        }
    }
    /// count the case in a named class
    pub fn class(&mut self, name: &'static str) {
        if !self.classes.contains(&name) {
            self.classes.push(name);
        }
    }
    pub fn class_if(&mut self, c: bool, name: &'static str) {
        if c {
            self.class(name)
        }
    }
    /// canonical key of the decoded case (default: hash of decoded tape choices)
    pub fn key<T: Hash>(&mut self, t: &T) {
        let mut h = std::collections::hash_map::DefaultHasher::new();
        t.hash(&mut h);
        self.key = Some(h.finish());
    }
    /// human-readable rendering of the case; only evaluated when a sample is wanted
    pub fn show<F: FnOnce() -> String>(&mut self, f: F) {
        if self.want_sample && self.sample.is_none() {
            self.sample = Some(f());
        }
    }
    pub fn evals(&mut self, n: u64) {
        self.evals += n;
    }
}

#[derive(Debug, Clone)]
pub struct Fail {
    /// discriminating predicate, used for known-finding matching (appended to the relation name)
    pub sig: String,
    pub msg: String,
}

pub type R = Result<(), Fail>;

pub fn fail<S: Into<String>, M: Into<String>>(sig: S, msg: M) -> R {
    Err(Fail { sig: sig.into(), msg: msg.into() })
}

#[macro_export]
macro_rules! ensure {
    ($c:expr, $sig:expr, $($arg:tt)*) => {
        if !($c) {
            return Err($crate::engine::Fail { sig: ($sig).to_string(), msg: format!($($arg)*) });
        }
    };
}

#[macro_export]
macro_rules! ensure_eq {
    ($a:expr, $b:expr, $sig:expr) => {{
        let (a, b) = (&$a, &$b);
        if !(*a == *b) {
            return Err($crate::engine::Fail {
                sig: ($sig).to_string(),
                msg: format!("{}: got {:?} expected {:?}", $sig, a, b),
            });
        }
    }};
    ($a:expr, $b:expr, $sig:expr, $($arg:tt)*) => {{
        let (a, b) = (&$a, &$b);
        if !(*a == *b) {
            return Err($crate::engine::Fail {
                sig: ($sig).to_string(),
                msg: format!("{}: got {:?} expected {:?}; {}", $sig, a, b, format!($($arg)*)),
            });
        }
    }};
}

// ---------------------------------------------------------------------------------------
// Relations
// ---------------------------------------------------------------------------------------

#[derive(Clone, Copy, PartialEq, Eq, Debug)]
pub enum Tier {
    Quick,
    Thorough,
}

impl Tier {
    pub fn pick<T>(self, q: T, t: T) -> T {
        match self {
            Tier::Quick => q,
            Tier::Thorough => t,
        }
    }
    pub fn name(self) -> &'static str {
        match self {
            Tier::Quick => "quick",
            Tier::Thorough => "thorough",
        }
    }
}

pub type RelFn = Box<dyn Fn(&mut Tape<'_>, &mut Obs) -> R + Send + Sync>;
pub type EnumFn = Box<dyn Fn() -> Box<dyn Iterator<Item = Vec<u64>>> + Send + Sync>;

pub struct Rel {
    pub name: String,
    /// number of proptest cases
    pub cases: u32,
    /// tape length in words
    pub tape_len: usize,
    /// run in a child process with an allocation guard (hostile inputs)
    pub isolated: bool,
    /// per-request allocation limit for isolated relations
    pub alloc_limit: usize,
    pub f: RelFn,
    /// optional exhaustive enumeration of exact-mode tapes, executed in addition to the random cases
    pub enumerate: Option<EnumFn>,
    pub max_shrink_iters: u32,
}

impl Rel {
    pub fn new<F>(name: impl Into<String>, cases: u32, tape_len: usize, f: F) -> Rel
    where
        F: Fn(&mut Tape<'_>, &mut Obs) -> R + Send + Sync + 'static,
    {
        Rel {
            name: name.into(),
            cases,
            tape_len,
            isolated: false,
            alloc_limit: usize::MAX,
            f: Box::new(f),
            enumerate: None,
            max_shrink_iters: 2048,
        }
    }
    pub fn isolated(mut self, alloc_limit: usize) -> Rel {
        self.isolated = true;
        self.alloc_limit = alloc_limit;
        self
    }
    pub fn exhaustive<E>(mut self, e: E) -> Rel
    where
        E: Fn() -> Box<dyn Iterator<Item = Vec<u64>>> + Send + Sync + 'static,
    {
        self.enumerate = Some(Box::new(e));
        self
    }
    pub fn shrink_iters(mut self, n: u32) -> Rel {
        self.max_shrink_iters = n;
        self
    }
}

// ---------------------------------------------------------------------------------------
// Known findings
// ---------------------------------------------------------------------------------------

#[derive(Deserialize, Clone, Debug)]
pub struct FindingEntry {
    pub status: String, // "known" | "fixed"
    pub property: String,
    #[serde(default)]
    pub signature: String,
    #[serde(default)]
    pub commit: String,
    pub what: String,
}

#[derive(Deserialize, Default)]
pub struct FindingsFile {
    pub findings: Vec<FindingEntry>,
}

fn verif_root() -> PathBuf {
    if let Ok(p) = std::env::var("VERIF_ROOT") {
        return PathBuf::from(p);
    }
    PathBuf::from("/verif")
}

fn load_known(prop: &str) -> Vec<FindingEntry> {
    let p = verif_root().join("known_findings.json");
    match std::fs::read_to_string(&p) {
        Ok(s) => match serde_json::from_str::<FindingsFile>(&s) {
            Ok(f) => f
                .findings
                .into_iter()
                .filter(|e| e.property == prop && e.status == "known")
                .collect(),
            Err(e) => {
                eprintln!("cannot parse {}: {}", p.display(), e);
                std::process::exit(2);
            },
        },
        Err(_) => Vec::new(),
    }
}

// ---------------------------------------------------------------------------------------
// Panic capture
// ---------------------------------------------------------------------------------------

thread_local! {
    static LAST_PANIC: RefCell<Option<String>> = const { RefCell::new(None) };
}

pub fn install_panic_hook() {
    std::panic::set_hook(Box::new(|info| {
        let msg = if let Some(s) = info.payload().downcast_ref::<&str>() {
            s.to_string()
        } else if let Some(s) = info.payload().downcast_ref::<String>() {
            s.clone()
        } else {
            "<non-string panic>".to_string()
        };
        let loc = info
            .location()
            .map(|l| format!("{}:{}", l.file(), l.line()))
            .unwrap_or_default();
        LAST_PANIC.with(|p| *p.borrow_mut() = Some(format!("{} @ {}", msg, loc)));
    }));
}

/// Run `f`, converting a panic into a `Fail` with signature `panic`.
pub fn guarded<F: FnOnce() -> R>(f: F) -> R {
    match catch_unwind(AssertUnwindSafe(f)) {
        Ok(r) => r,
        Err(_) => {
            let m = LAST_PANIC.with(|p| p.borrow_mut().take()).unwrap_or_default();
            Err(Fail { sig: "panic".into(), msg: format!("panicked: {}", m) })
        },
    }
}

/// Run `f` which returns a value; a panic becomes `Err(Fail{sig: "<what>.panic"})`.
pub fn no_panic<T, F: FnOnce() -> T>(what: &str, f: F) -> Result<T, Fail> {
    match catch_unwind(AssertUnwindSafe(f)) {
        Ok(r) => Ok(r),
        Err(_) => {
            let m = LAST_PANIC.with(|p| p.borrow_mut().take()).unwrap_or_default();
            Err(Fail { sig: format!("{}.panic", what), msg: format!("{} panicked: {}", what, m) })
        },
    }
}

// ---------------------------------------------------------------------------------------
// Reports
// ---------------------------------------------------------------------------------------

#[derive(Serialize, Deserialize, Default, Clone)]
pub struct RelReport {
    pub name: String,
    pub evaluations: u64,
    pub cases: u64,
    pub nontrivial_cases: u64,
    pub distinct_nontrivial: u64,
    pub exhaustive_cases: u64,
    pub classes: BTreeMap<String, u64>,
    pub samples: Vec<String>,
    pub known_hits: BTreeMap<String, u64>,
    pub failure: Option<FailureReport>,
    pub wall_s: f64,
}

#[derive(Serialize, Deserialize, Clone)]
pub struct FailureReport {
    pub signature: String,
    pub message: String,
    pub tape: Vec<String>,
    pub exact: bool,
    pub shrunk: bool,
    pub replay: String,
}

#[derive(Serialize, Deserialize)]
pub struct ReplayFile {
    pub property: String,
    pub relation: String,
    pub exact: bool,
    pub tape: Vec<String>,
    pub signature: String,
    pub message: String,
    pub seed: u64,
    pub tier: String,
}

struct RelState<'a> {
    prop: &'a str,
    rel: &'a Rel,
    known: &'a [FindingEntry],
    rep: RelReport,
    keys: HashSet<u64>,
    first_fail: Option<(Vec<u64>, bool, Fail)>,
    progress: Option<std::fs::File>,
    n_samples_nt: usize,
    last_sample: Option<String>,
}

fn full_sig(prop: &str, rel: &str, sig: &str) -> String {
    format!("{}/{}/{}", prop, rel, sig)
}

impl<'a> RelState<'a> {
    /// execute one case; returns Ok if passed or known finding
    fn exec(&mut self, tape: &[u64], exact: bool, counting: bool) -> R {
        if let Some(f) = self.progress.as_mut() {
            use std::io::{Seek, SeekFrom};
            let mut s = String::with_capacity(tape.len() * 17 + 4);
            s.push(if exact { 'E' } else { 'R' });
            for w in tape {
                s.push_str(&format!(" {:x}", w));
            }
            s.push('\n');
            let _ = f.seek(SeekFrom::Start(0));
            let _ = f.set_len(0);
            let _ = f.write_all(s.as_bytes());
            let _ = f.flush();
        }
        let mut t = Tape::new(tape, exact);
        let mut o = Obs::default();
        if counting {
            let c = self.rep.cases;
            o.want_sample = c < 2 || (self.n_samples_nt < 3) || c % 997 == 0;
        }
        let r = guarded(|| (self.rel.f)(&mut t, &mut o));
        let r = match r {
            Err(f) => {
                let fs = full_sig(self.prop, &self.rel.name, &f.sig);
                if self.known.iter().any(|k| k.signature == fs) {
                    if counting {
                        *self.rep.known_hits.entry(fs).or_insert(0) += 1;
                    }
                    Ok(())
                } else {
                    Err(f)
                }
            },
            ok => ok,
        };
        if counting {
            self.rep.cases += 1;
            self.rep.evaluations += o.evals.max(1);
            if exact {
                self.rep.exhaustive_cases += 1;
            }
            for c in &o.classes {
                *self.rep.classes.entry((*c).to_string()).or_insert(0) += 1;
            }
            if o.nontrivial {
                self.rep.nontrivial_cases += 1;
                let k = o.key.unwrap_or_else(|| t.key());
                self.keys.insert(k);
            }
            if let Some(s) = o.sample.take() {
                let s = if s.len() > 600 { format!("{}…", &s[..s.char_indices().take(600).last().map(|x| x.0).unwrap_or(0)]) } else { s };
                if self.rep.samples.len() < 2 {
                    self.rep.samples.push(s);
                } else if o.nontrivial && self.n_samples_nt < 3 {
                    self.n_samples_nt += 1;
                    self.rep.samples.push(s);
                } else {
                    self.last_sample = Some(s);
                }
            }
        }
        r
    }
}

fn splitmix(mut x: u64) -> u64 {
    x = x.wrapping_add(0x9e3779b97f4a7c15);
    let mut z = x;
    z = (z ^ (z >> 30)).wrapping_mul(0xbf58476d1ce4e5b9);
    z = (z ^ (z >> 27)).wrapping_mul(0x94d049bb133111eb);
    z ^ (z >> 31)
}

fn rel_seed(seed: u64, name: &str) -> u64 {
    let mut h = Fnv::new();
    for b in name.bytes() {
        h.push(b as u64);
    }
    splitmix(seed ^ splitmix(h.0))
}

fn tape_hex(t: &[u64]) -> Vec<String> {
    t.iter().map(|w| format!("{:x}", w)).collect()
}

fn write_replay(prop: &str, rel: &str, tape: &[u64], exact: bool, f: &Fail, seed: u64, tier: Tier) -> String {
    let dir = verif_root().join("replays");
    let _ = std::fs::create_dir_all(&dir);
    let mut h = Fnv::new();
    for w in tape {
        h.push(*w);
    }
    let safe: String = rel.chars().map(|c| if c.is_ascii_alphanumeric() { c } else { '_' }).collect();
    // a second build variant of the same check (VH_VARIANT=asm: ark-ff with the `asm` feature) marks its replay files, so
    // that `./check Cxx --replay` re-executes them with the binary of that variant
    let variant = std::env::var("VH_VARIANT").ok().filter(|v| !v.is_empty() && v.chars().all(|c| c.is_ascii_alphanumeric()));
    let path = match &variant {
        Some(v) => dir.join(format!("{}-{}-{:016x}-{}.json", prop, safe, h.0, v)),
        None => dir.join(format!("{}-{}-{:016x}.json", prop, safe, h.0)),
    };
    let rf = ReplayFile {
        property: prop.to_string(),
        relation: rel.to_string(),
        exact,
        tape: tape_hex(tape),
        signature: full_sig(prop, rel, &f.sig),
        message: f.msg.clone(),
        seed,
        tier: tier.name().to_string(),
    };
    let _ = std::fs::write(&path, serde_json::to_string_pretty(&rf).unwrap());
    path.display().to_string()
}

/// Run one relation in this process.
fn run_rel_inproc(prop: &str, rel: &Rel, known: &[FindingEntry], seed: u64, tier: Tier, progress: Option<&Path>) -> RelReport {
    let start = Instant::now();
    let mut st = RelState {
        prop,
        rel,
        known,
        rep: RelReport { name: rel.name.clone(), ..Default::default() },
        keys: HashSet::new(),
        first_fail: None,
        progress: progress.map(|p| std::fs::File::create(p).expect("progress file")),
        n_samples_nt: 0,
        last_sample: None,
    };

    // 1. exhaustive enumeration
    if let Some(e) = rel.enumerate.as_ref() {
        for tape in e() {
            if let Err(f) = st.exec(&tape, true, true) {
                st.first_fail = Some((tape, true, f));
                break;
            }
        }
    }

    // 2. proptest-driven random cases
    let mut shrunk = false;
    if st.first_fail.is_none() && rel.cases > 0 {
        let cfg = Config {
            cases: rel.cases,
            failure_persistence: None,
            rng_seed: RngSeed::Fixed(rel_seed(seed, &rel.name)),
            rng_algorithm: RngAlgorithm::ChaCha,
            // our own budget is enforced in the closure (proptest prints a message when its own limit is hit)
            max_shrink_iters: u32::MAX - 1,
            max_shrink_time: 0,
            max_local_rejects: 1,
            max_global_rejects: 1,
            verbose: 0,
            source_file: None,
            test_name: None,
            ..Config::default()
        };
        let mut runner = TestRunner::new(cfg);
        let strat = vec(any::<u64>(), rel.tape_len..=rel.tape_len);
        let failed = std::cell::Cell::new(false);
        let shrink_runs = std::cell::Cell::new(0u32);
        let max_shrink = rel.max_shrink_iters;
        let stc = RefCell::new(&mut st);
        let res = runner.run(&strat, |tape| {
            let counting = !failed.get();
            if !counting {
                // shrinking phase: once the budget is used up, report "pass" so that proptest converges quickly
                shrink_runs.set(shrink_runs.get() + 1);
                if shrink_runs.get() > max_shrink {
                    return Ok(());
                }
            }
            let mut s = stc.borrow_mut();
            match s.exec(&tape, false, counting) {
                Ok(()) => Ok(()),
                Err(f) => {
                    failed.set(true);
                    Err(TestCaseError::fail(f.sig))
                },
            }
        });
        drop(stc);
        match res {
            Ok(()) => {},
            Err(TestError::Fail(_, tape)) => {
                // re-execute the minimal tape to obtain its failure message
                let r = st.exec(&tape, false, false);
                let f = r.err().unwrap_or(Fail { sig: "flaky".into(), msg: "shrunk case did not fail on re-execution".into() });
                st.first_fail = Some((tape, false, f));
                shrunk = true;
            },
            Err(TestError::Abort(r)) => {
                st.first_fail = Some((
                    vec![],
                    false,
                    Fail { sig: "engine-abort".into(), msg: format!("proptest aborted: {}", r) },
                ));
            },
        }
    }

    if let Some(s) = st.last_sample.take() {
        st.rep.samples.push(s);
    }
    st.rep.distinct_nontrivial = st.keys.len() as u64;
    if let Some((tape, exact, f)) = st.first_fail.take() {
        let replay = write_replay(prop, &rel.name, &tape, exact, &f, seed, tier);
        st.rep.failure = Some(FailureReport {
            signature: full_sig(prop, &rel.name, &f.sig),
            message: f.msg,
            tape: tape_hex(&tape),
            exact,
            shrunk,
            replay,
        });
    }
    st.rep.wall_s = start.elapsed().as_secs_f64();
    st.rep
}

fn parse_tape(v: &[String]) -> Vec<u64> {
    v.iter().map(|s| u64::from_str_radix(s, 16).expect("hex word")).collect()
}

/// Run an isolated relation in a child process of the same binary.
fn run_rel_child(prop: &str, rel: &Rel, seed: u64, tier: Tier) -> RelReport {
    let start = Instant::now();
    let exe = std::env::current_exe().expect("current_exe");
    let dir = verif_root().join("harness").join("target").join("vh-child");
    let _ = std::fs::create_dir_all(&dir);
    let safe: String = rel.name.chars().map(|c| if c.is_ascii_alphanumeric() { c } else { '_' }).collect();
    let prog = dir.join(format!("{}-{}-{}.progress", prop, safe, std::process::id()));
    let out = dir.join(format!("{}-{}-{}.report", prop, safe, std::process::id()));
    let _ = std::fs::remove_file(&prog);
    let _ = std::fs::remove_file(&out);
    let status = std::process::Command::new(exe)
        .arg("child")
        .arg(&rel.name)
        .arg(seed.to_string())
        .arg(tier.name())
        .arg(&prog)
        .arg(&out)
        .stderr(std::process::Stdio::piped())
        .stdout(std::process::Stdio::null())
        .output();
    let mut rep = match std::fs::read_to_string(&out).ok().and_then(|s| serde_json::from_str::<RelReport>(&s).ok()) {
        Some(r) => r,
        None => {
            // child died
            let (why, stderr) = match &status {
                Ok(o) => (format!("{:?}", o.status), String::from_utf8_lossy(&o.stderr).to_string()),
                Err(e) => (format!("spawn error {}", e), String::new()),
            };
            let line = std::fs::read_to_string(&prog).unwrap_or_default();
            let mut it = line.split_whitespace();
            let exact = it.next() == Some("E");
            let tape: Vec<u64> = it.filter_map(|w| u64::from_str_radix(w, 16).ok()).collect();
            let sig = if stderr.contains("VH-ALLOC-LIMIT") { "alloc-limit" } else { "abort" };
            let tail: String = stderr.lines().rev().take(3).collect::<Vec<_>>().join(" | ");
            let f = Fail { sig: sig.into(), msg: format!("child process died ({}) while executing this case: {}", why, tail) };
            let replay = write_replay(prop, &rel.name, &tape, exact, &f, seed, tier);
            RelReport {
                name: rel.name.clone(),
                evaluations: 1,
                cases: 1,
                failure: Some(FailureReport {
                    signature: full_sig(prop, &rel.name, &f.sig),
                    message: f.msg,
                    tape: tape_hex(&tape),
                    exact,
                    shrunk: false,
                    replay,
                }),
                ..Default::default()
            }
        },
    };
    let _ = std::fs::remove_file(&prog);
    let _ = std::fs::remove_file(&out);
    rep.wall_s = start.elapsed().as_secs_f64();
    rep
}

// ---------------------------------------------------------------------------------------
// main
// ---------------------------------------------------------------------------------------

pub struct PropSpec {
    pub id: &'static str,
    /// how cases are generated and what makes one non-trivial
    pub rule: &'static str,
    pub assumptions: &'static [&'static str],
    pub relations: fn(Tier) -> Vec<Rel>,
}

fn arg_after(args: &[String], flag: &str) -> Option<String> {
    args.iter().position(|a| a == flag).and_then(|i| args.get(i + 1).cloned())
}

pub fn main(spec: PropSpec) -> ! {
    install_panic_hook();
    let args: Vec<String> = std::env::args().collect();
    let cmd = args.get(1).map(|s| s.as_str()).unwrap_or("check");
    match cmd {
        "check" => {
            let tier = match arg_after(&args, "--tier").or_else(|| std::env::var("VERIF_TIER").ok()).as_deref() {
                Some("thorough") => Tier::Thorough,
                _ => Tier::Quick,
            };
            let seed = arg_after(&args, "--seed")
                .or_else(|| std::env::var("VERIF_SEED").ok())
                .and_then(|s| s.trim().parse::<u64>().ok())
                .unwrap_or(0);
            let only = arg_after(&args, "--only");
            let threads = arg_after(&args, "--threads").and_then(|s| s.parse().ok()).unwrap_or(16usize);
            let no_evidence = args.iter().any(|a| a == "--no-evidence");
            let code = run_check(&spec, tier, seed, only.as_deref(), threads, !no_evidence);
            std::process::exit(code)
        },
        "list" => {
            for r in (spec.relations)(Tier::Quick) {
                println!("{} cases={} tape={} isolated={} exhaustive={}", r.name, r.cases, r.tape_len, r.isolated, r.enumerate.is_some());
            }
            std::process::exit(0)
        },
        "child" => {
            // child <rel> <seed> <tier> <progress> <report>
            let name = &args[2];
            let seed: u64 = args[3].parse().unwrap();
            let tier = if args[4] == "thorough" { Tier::Thorough } else { Tier::Quick };
            let rels = (spec.relations)(tier);
            let rel = rels.iter().find(|r| &r.name == name).expect("relation");
            let known = load_known(spec.id);
            ALLOC_LIMIT.store(rel.alloc_limit, Ordering::Relaxed);
            let rep = run_rel_inproc(spec.id, rel, &known, seed, tier, Some(Path::new(&args[5])));
            ALLOC_LIMIT.store(usize::MAX, Ordering::Relaxed);
            std::fs::write(&args[6], serde_json::to_string(&rep).unwrap()).unwrap();
            std::process::exit(0)
        },
        "replay" => {
            let path = &args[2];
            let s = std::fs::read_to_string(path).unwrap_or_else(|e| {
                eprintln!("cannot read {}: {}", path, e);
                std::process::exit(2)
            });
            let rf: ReplayFile = serde_json::from_str(&s).unwrap_or_else(|e| {
                eprintln!("cannot parse {}: {}", path, e);
                std::process::exit(2)
            });
            let tier = if rf.tier == "thorough" { Tier::Thorough } else { Tier::Quick };
            let mut rels = (spec.relations)(tier);
            if !rels.iter().any(|r| r.name == rf.relation) {
                rels = (spec.relations)(Tier::Thorough);
            }
            let rel = match rels.iter().find(|r| r.name == rf.relation) {
                Some(r) => r,
                None => {
                    eprintln!("unknown relation {}", rf.relation);
                    std::process::exit(2)
                },
            };
            let tape = parse_tape(&rf.tape);
            if rel.isolated {
                ALLOC_LIMIT.store(rel.alloc_limit, Ordering::Relaxed);
            }
            let mut t = Tape::new(&tape, rf.exact);
            let mut o = Obs { want_sample: true, strict: true, ..Default::default() };
            let r = guarded(|| (rel.f)(&mut t, &mut o));
            ALLOC_LIMIT.store(usize::MAX, Ordering::Relaxed);
            if let Some(s) = &o.sample {
                println!("case: {}", s);
            }
            match r {
                Ok(()) => {
                    println!("replay of {} passed: property held on this case", path);
                    std::process::exit(0)
                },
                Err(f) => {
                    println!("replay failed: {} :: {}", full_sig(spec.id, &rel.name, &f.sig), f.msg);
                    println!("VIOLATION property={} replay={}", spec.id, path);
                    std::process::exit(1)
                },
            }
        },
        _ => {
            eprintln!("usage: check [--tier quick|thorough] [--seed N] [--only substr] | list | replay <file>");
            std::process::exit(2)
        },
    }
}

fn run_check(spec: &PropSpec, tier: Tier, seed: u64, only: Option<&str>, threads: usize, write_evidence: bool) -> i32 {
    let start = Instant::now();
    let known = load_known(spec.id);
    let mut rels = (spec.relations)(tier);
    if let Some(o) = only {
        rels.retain(|r| r.name.contains(o));
    }
    // fixed per-property work multiplier for the random cases (set by /verif/check; part of the tier definition)
    let case_scale: f64 = std::env::var("VH_CASE_SCALE").ok().and_then(|s| s.parse().ok()).unwrap_or(1.0);
    if case_scale != 1.0 {
        for r in rels.iter_mut() {
            if r.cases > 0 {
                r.cases = ((r.cases as f64) * case_scale).round().max(1.0) as u32;
            }
        }
    }
    // unique names
    {
        let mut seen = HashSet::new();
        for r in &rels {
            if !seen.insert(r.name.clone()) {
                eprintln!("duplicate relation name {}", r.name);
                return 2;
            }
        }
    }
    let next = AtomicUsize::new(0);
    let reports: Mutex<Vec<(usize, RelReport)>> = Mutex::new(Vec::new());
    let nthreads = threads.min(rels.len()).max(1);
    std::thread::scope(|s| {
        for _ in 0..nthreads {
            s.spawn(|| loop {
                let i = next.fetch_add(1, Ordering::SeqCst);
                if i >= rels.len() {
                    break;
                }
                let rel = &rels[i];
                let rep = if rel.isolated {
                    run_rel_child(spec.id, rel, seed, tier)
                } else {
                    run_rel_inproc(spec.id, rel, &known, seed, tier, None)
                };
                if std::env::var("VH_VERBOSE").is_ok() {
                    eprintln!(
                        "[{}] {} cases={} nt={} {:.1}s {}",
                        spec.id,
                        rep.name,
                        rep.cases,
                        rep.distinct_nontrivial,
                        rep.wall_s,
                        if rep.failure.is_some() { "FAIL" } else { "ok" }
                    );
                }
                reports.lock().unwrap().push((i, rep));
            });
        }
    });
    let mut reports = reports.into_inner().unwrap();
    reports.sort_by_key(|x| x.0);
    let reports: Vec<RelReport> = reports.into_iter().map(|x| x.1).collect();

    let evaluations: u64 = reports.iter().map(|r| r.evaluations).sum();
    let cases: u64 = reports.iter().map(|r| r.cases).sum();
    let distinct: u64 = reports.iter().map(|r| r.distinct_nontrivial).sum();
    let exhaustive_cases: u64 = reports.iter().map(|r| r.exhaustive_cases).sum();
    let mut classes: BTreeMap<String, u64> = BTreeMap::new();
    let mut known_hits: BTreeMap<String, u64> = BTreeMap::new();
    for r in &reports {
        for (k, v) in &r.classes {
            *classes.entry(k.clone()).or_insert(0) += v;
        }
        for (k, v) in &r.known_hits {
            *known_hits.entry(k.clone()).or_insert(0) += v;
        }
    }
    let failures: Vec<&RelReport> = reports.iter().filter(|r| r.failure.is_some()).collect();
    let wall = start.elapsed().as_secs_f64();

    // samples: a handful across relations
    let mut samples: Vec<serde_json::Value> = Vec::new();
    let step = (reports.len() / 12).max(1);
    for (i, r) in reports.iter().enumerate() {
        if i % step == 0 || r.failure.is_some() {
            for s in r.samples.iter().take(3) {
                samples.push(serde_json::json!({"relation": r.name, "case": s}));
            }
        }
    }
    if samples.is_empty() {
        for r in &reports {
            for s in r.samples.iter().take(1) {
                samples.push(serde_json::json!({"relation": r.name, "case": s}));
            }
        }
    }

    let per_relation: Vec<serde_json::Value> = reports
        .iter()
        .map(|r| {
            serde_json::json!({
                "relation": r.name,
                "cases": r.cases,
                "evaluations": r.evaluations,
                "nontrivial_cases": r.nontrivial_cases,
                "distinct_nontrivial": r.distinct_nontrivial,
                "exhaustive_cases": r.exhaustive_cases,
                "classes": r.classes,
                "known_finding_hits": r.known_hits,
                "failed": r.failure.as_ref().map(|f| serde_json::json!({"signature": f.signature, "message": f.message, "replay": f.replay, "shrunk": f.shrunk})),
                "wall_s": (r.wall_s * 100.0).round() / 100.0,
            })
        })
        .collect();

    let all_exhaustive = !reports.is_empty() && reports.iter().all(|r| r.cases == r.exhaustive_cases);
    let ev = serde_json::json!({
        "property_id": spec.id,
        "tier": tier.name(),
        "seed": seed,
        "level": "exploration",
        "coverage": {
            "evaluations": evaluations,
            "cases": cases,
            "distinct_nontrivial": distinct,
            "rule": spec.rule,
            "samples": samples,
            "exhaustive": all_exhaustive,
            "exhaustively_enumerated_cases": exhaustive_cases,
            "relations": reports.len(),
            "case_scale": case_scale,
            "classes": classes,
            "known_finding_hits": known_hits,
            "per_relation": per_relation,
        },
        "assumptions": spec.assumptions,
        "wall_s": (wall * 100.0).round() / 100.0,
        "violations": failures.len(),
    });
    if write_evidence && only.is_none() {
        let dir = verif_root().join("evidence");
        let _ = std::fs::create_dir_all(&dir);
        let p = dir.join(format!("{}.json", spec.id));
        if let Err(e) = std::fs::write(&p, serde_json::to_string_pretty(&ev).unwrap()) {
            eprintln!("cannot write evidence {}: {}", p.display(), e);
            return 2;
        }
    }

    println!(
        "{} tier={} seed={} relations={} cases={} evaluations={} distinct_nontrivial={} exhaustive_cases={} wall={:.1}s",
        spec.id,
        tier.name(),
        seed,
        reports.len(),
        cases,
        evaluations,
        distinct,
        exhaustive_cases,
        wall
    );
    for k in &known {
        let hits = known_hits.get(&k.signature).copied().unwrap_or(0);
        if hits > 0 {
            println!("KNOWN-FINDING: property={} {} [{}; {} cases excluded from the oracle in this run]", spec.id, k.what, k.signature, hits);
        }
    }
    if failures.is_empty() {
        println!("{} OK: property held on everything explored", spec.id);
        0
    } else {
        for r in &failures {
            let f = r.failure.as_ref().unwrap();
            println!("FAILED {} :: {}", f.signature, f.message);
            println!("VIOLATION property={} replay={}", spec.id, f.replay);
        }
        1
    }
}
