//! Shared machinery for the /verif property checks (engine, oracles, generators, zoo).
pub mod curve;
pub mod engine;
pub mod gen;
pub mod modint;
pub mod tower;
pub mod toy;
pub mod zoo;

pub use engine::{fail, Fail, Obs, PropSpec, Rel, Tape, Tier, R};
