//! Shared machinery for the /verif property checks (engine, oracles, generators, zoo).
// lets files written against `vh_core::...` paths (props/c02/src/toy_cfg.rs) be included in this crate too
extern crate self as vh_core;

pub mod curve;
pub mod engine;
pub mod gen;
pub mod modint;
pub mod tower;
pub mod toy;
pub mod toy_ext;
pub mod zoo;

pub use engine::{fail, Fail, Obs, PropSpec, Rel, Tape, Tier, R};
