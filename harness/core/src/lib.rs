//! Shared machinery for the /verif property checks (engine, oracles, generators, zoo).
pub mod engine;
pub mod gen;
pub mod modint;
pub mod zoo;

pub use engine::{fail, Fail, Obs, PropSpec, Rel, Tape, Tier, R};
