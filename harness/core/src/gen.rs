//! Edge-biased generators decoded from a tape (construction, never rejection).
use crate::engine::Tape;
use crate::modint::*;
use ark_ff::fields::{Fp, MontBackend, MontConfig};
use ark_ff::BigInt;
use num_bigint::BigUint;
use num_traits::{One, Zero};

pub type F<T, const N: usize> = Fp<MontBackend<T, N>, N>;

pub fn ctx_of<T: MontConfig<N>, const N: usize>(name: &str) -> FieldCtx {
    FieldCtx::new(name, &T::MODULUS.0)
}

/// Build a field element from a canonical integer through *raw Montgomery limbs* (independent of
/// arkworks' own `from_bigint`).
pub fn fp_from_big<T: MontConfig<N>, const N: usize>(c: &FieldCtx, v: &BigUint) -> F<T, N> {
    let m = c.to_mont(&(v % &c.p));
    let mut l = [0u64; N];
    l.copy_from_slice(&m);
    Fp::new_unchecked(BigInt::new(l))
}

/// Decode a field element through its raw limbs. Returns (value, canonical?) where canonical means
/// the stored Montgomery limbs are < p.
pub fn fp_to_big<T: MontConfig<N>, const N: usize>(c: &FieldCtx, x: &F<T, N>) -> (BigUint, bool) {
    let raw = big(&(x.0).0);
    let canon = raw < c.p;
    ((raw * &c.rinv) % &c.p, canon)
}

/// uniform-ish integer below `bound` (> 0) from the tape
pub fn big_below(t: &mut Tape<'_>, bound: &BigUint) -> BigUint {
    let n = (bound.bits() as usize + 63) / 64 + 1;
    let v = big(&t.limbs(n));
    v % bound
}

/// integer made of "edge" limbs (0, all-ones, powers of two, ...), `n` limbs
pub fn edge_limbs(t: &mut Tape<'_>, n: usize) -> Vec<u64> {
    (0..n).map(|_| t.edge_u64()).collect()
}

/// Edge-biased canonical value in [0, p). Class index is returned for classification.
pub fn edge_value(t: &mut Tape<'_>, c: &FieldCtx) -> (BigUint, &'static str) {
    let p = &c.p;
    let one = BigUint::one();
    let cls = t.weighted(&[2, 2, 1, 3, 2, 2, 2, 2, 3, 4, 4, 4, 4, 10]);
    let (v, name): (BigUint, &'static str) = match cls {
        0 => (BigUint::zero(), "zero"),
        1 => (one.clone(), "one"),
        2 => (BigUint::from(2u32), "two"),
        3 => (p - &one, "p-1"),
        4 => {
            let k = BigUint::from(t.below(1 << 16)) % p;
            ((p + p - k - &one) % p, "near-p")
        },
        5 => ((p - &one) >> 1, "(p-1)/2"),
        6 => (((p + &one) >> 1) % p, "(p+1)/2"),
        7 => match t.below(3) {
            0 => (c.r.clone(), "R"),
            1 => ((&c.r * &c.r) % p, "R2"),
            _ => ((p - &c.r) % p, "-R"),
        },
        8 => {
            // 2^k, 2^k +- 1 around limb boundaries and everywhere
            let k = if t.bool() { 64 * t.range(0, c.n as u64) as usize } else { t.below(64 * c.n as u64 + 1) as usize };
            let b = pow2(k);
            match t.below(3) {
                0 => (b % p, "2^k"),
                1 => ((b + &one) % p, "2^k+1"),
                _ => ((b - &one) % p, "2^k-1"),
            }
        },
        9 => {
            // value whose *integer* limbs are edge words
            (big(&edge_limbs(t, c.n)) % p, "edge-limbs")
        },
        10 => {
            // value whose *Montgomery* limbs are edge words
            let m = big(&edge_limbs(t, c.n)) % p;
            ((m * &c.rinv) % p, "edge-mont-limbs")
        },
        11 => {
            // Montgomery representation close to p or to 2^64k
            let k = BigUint::from(t.below(1 << 12)) % p;
            let m = (p + p - k - &one) % p;
            ((m * &c.rinv) % p, "mont-near-p")
        },
        12 => (BigUint::from(t.below(1 << 16)), "small"),
        _ => (big_below(t, p), "uniform"),
    };
    (v % p, name)
}

pub fn edge_fp<T: MontConfig<N>, const N: usize>(t: &mut Tape<'_>, c: &FieldCtx) -> (F<T, N>, BigUint, &'static str) {
    let (v, cls) = edge_value(t, c);
    (fp_from_big::<T, N>(c, &v), v, cls)
}

/// Edge-biased integer of up to `max_limbs` limbs (not reduced) – for exponents, scalars, raw bigints.
pub fn edge_int(t: &mut Tape<'_>, max_limbs: usize) -> Vec<u64> {
    let n = t.range(0, max_limbs as u64) as usize;
    match t.weighted(&[3, 3, 4, 6]) {
        0 => vec![0; n],
        1 => vec![u64::MAX; n],
        2 => edge_limbs(t, n),
        _ => t.limbs(n),
    }
}
