//! Toy short-Weierstrass curves over *extension* fields of F_7 (F_49 = F_7[u]/(u^2+1), F_343 = F_7[u]/(u^3-3)),
//! small enough to enumerate every point and every ordered pair. They cover configuration shapes no shipped curve
//! has (a = 0 over an extension of degree >= 3, which has its own doubling branch) and make extension-field
//! specifics (lexicographic sign of y with zero top coefficient, (x, y) with coordinates in a proper subfield)
//! exhaustively reachable.
#![allow(non_camel_case_types, clippy::all)]
#[path = "../../props/c02/src/toy_cfg.rs"]
#[allow(dead_code)]
pub mod toy_cfg;

use crate::curve::Sw;
use crate::toy::Tf13;
use crate::zoo::T7;
use ark_ec::models::short_weierstrass::{self as sw, SWCurveConfig};
use ark_ec::models::CurveConfig;
use ark_ff::fields::{Fp, Fp2, Fp3, MontBackend, MontConfig};
use ark_ff::{Field, MontFp};
use toy_cfg::{C7, Q7};

pub type F49 = Fp2<Q7>;
pub type F343 = Fp3<C7>;

#[derive(MontConfig)]
#[modulus = "307"]
#[generator = "5"]
pub struct R307Cfg;
pub type R307 = Fp<MontBackend<R307Cfg, 1>, 1>;

#[derive(MontConfig)]
#[modulus = "109"]
#[generator = "6"]
pub struct R109Cfg;
pub type R109 = Fp<MontBackend<R109Cfg, 1>, 1>;

#[derive(MontConfig)]
#[modulus = "53"]
#[generator = "2"]
pub struct R53Cfg;
pub type R53 = Fp<MontBackend<R53Cfg, 1>, 1>;

macro_rules! f49 {
    ($a:literal, $b:literal) => {
        F49::new(MontFp!($a), MontFp!($b))
    };
}
macro_rules! f343 {
    ($a:literal, $b:literal, $c:literal) => {
        F343::new(MontFp!($a), MontFp!($b), MontFp!($c))
    };
}

/// y^2 = x^3 + (1 + 3u) over F_343: 307 points (prime order), a = 0
#[derive(Clone, Default, PartialEq, Eq)]
pub struct SwF343P;
impl CurveConfig for SwF343P {
    type BaseField = F343;
    type ScalarField = R307;
    const COFACTOR: &'static [u64] = &[1];
    const COFACTOR_INV: R307 = MontFp!("1");
}
impl SWCurveConfig for SwF343P {
    const COEFF_A: F343 = f343!("0", "0", "0");
    const COEFF_B: F343 = f343!("1", "3", "0");
    const GENERATOR: sw::Affine<Self> = sw::Affine::new_unchecked(f343!("0", "1", "1"), f343!("0", "3", "5"));
}

/// y^2 = x^3 + (1 + u) over F_343: 327 = 3 * 109 points, a = 0
#[derive(Clone, Default, PartialEq, Eq)]
pub struct SwF343H3;
impl CurveConfig for SwF343H3 {
    type BaseField = F343;
    type ScalarField = R109;
    const COFACTOR: &'static [u64] = &[3];
    const COFACTOR_INV: R109 = MontFp!("73");
}
impl SWCurveConfig for SwF343H3 {
    const COEFF_A: F343 = f343!("0", "0", "0");
    const COEFF_B: F343 = f343!("1", "1", "0");
    const GENERATOR: sw::Affine<Self> = sw::Affine::new_unchecked(f343!("0", "1", "2"), f343!("6", "4", "4"));
}

/// y^2 = x^3 + 3u over F_49: 39 = 3 * 13 points, a = 0
#[derive(Clone, Default, PartialEq, Eq)]
pub struct SwF49A0;
impl CurveConfig for SwF49A0 {
    type BaseField = F49;
    type ScalarField = Tf13;
    const COFACTOR: &'static [u64] = &[3];
    const COFACTOR_INV: Tf13 = MontFp!("9");
}
impl SWCurveConfig for SwF49A0 {
    const COEFF_A: F49 = f49!("0", "0");
    const COEFF_B: F49 = f49!("0", "3");
    const GENERATOR: sw::Affine<Self> = sw::Affine::new_unchecked(f49!("0", "2"), f49!("1", "1"));
}

/// y^2 = x^3 + (1 + u)x + 3u over F_49: 53 points (prime order), a != 0
#[derive(Clone, Default, PartialEq, Eq)]
pub struct SwF49Ax;
impl CurveConfig for SwF49Ax {
    type BaseField = F49;
    type ScalarField = R53;
    const COFACTOR: &'static [u64] = &[1];
    const COFACTOR_INV: R53 = MontFp!("1");
}
impl SWCurveConfig for SwF49Ax {
    const COEFF_A: F49 = f49!("1", "1");
    const COEFF_B: F49 = f49!("0", "3");
    const GENERATOR: sw::Affine<Self> = sw::Affine::new_unchecked(f49!("0", "0"), f49!("3", "4"));
}

/// every element of an extension of F_7, index i = sum c_j 7^j (c_0 least significant)
pub fn all_elems<F: Field<BasePrimeField = T7>>() -> Vec<F> {
    let d = F::extension_degree() as u32;
    let n = 7u64.pow(d);
    (0..n)
        .map(|mut i| {
            let coords: Vec<T7> = (0..d)
                .map(|_| {
                    let c = T7::from(i % 7);
                    i /= 7;
                    c
                })
                .collect();
            F::from_base_prime_field_elems(coords).expect("degree-many coordinates")
        })
        .collect()
}

/// brute force over all (x, y), independent of arkworks' square roots; identity first
pub fn enumerate<P: SWCurveConfig>() -> Vec<Sw<P::BaseField>>
where
    P::BaseField: Field<BasePrimeField = T7>,
{
    let els = all_elems::<P::BaseField>();
    let mut out = vec![Sw::Inf];
    for x in &els {
        let rhs = x.square() * x + P::COEFF_A * x + P::COEFF_B;
        for y in &els {
            if y.square() == rhs {
                out.push(Sw::Aff(*x, *y));
            }
        }
    }
    out
}

/// `$m!(Config, "name", point_count, cofactor, r)` for every toy curve over an extension field
#[macro_export]
macro_rules! for_each_toy_sw_ext {
    ($m:ident) => {
        $m!($crate::toy_ext::SwF49A0, "SwF49A0(a=0,Fp2,cofactor-3)", 39usize, 3u64, 13u64);
        $m!($crate::toy_ext::SwF49Ax, "SwF49Ax(a!=0,Fp2,prime-order)", 53usize, 1u64, 53u64);
        $m!($crate::toy_ext::SwF343P, "SwF343P(a=0,Fp3,prime-order)", 307usize, 1u64, 307u64);
        $m!($crate::toy_ext::SwF343H3, "SwF343H3(a=0,Fp3,cofactor-3)", 327usize, 3u64, 109u64);
    };
}
