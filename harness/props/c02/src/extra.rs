//! Deepening round: entry points that the first version of the check never called although users do.
//!
//! * `ops/T`      — every operand-kind spelling of `+ - * /` and of the compound assignments that `arith/T` does
//!                  not use (`&a op b`, `&a op &b`, `a op &mut b`, `&a op &mut b`, `x op= &mut b`, `x /= b`),
//!                  `Sum`/`Product` over owned and borrowed iterators (also empty), `sum_of_products` of length
//!                  1, 3 and 4, `pow_with_table`, `characteristic()`;
//! * `from-int/T` — `From<u8..u128>`, `From<i8..i128>` (sign handling, MIN values), `From<bool>` for quadratic tops;
//! * `from-bool/T`— `From<bool>` for cubic tops, in a child process;
//! * `hooks/T`    — the overridable non-residue / Frobenius-coefficient hooks of the configuration traits, called
//!                  directly (several shipped overrides are not reached by any field operation);
//! * `char-mod-6` — `characteristic_square_mod_6_is_one` against BigUint.
//!
//! Every expected value comes from the schoolbook tower oracle (`Tower::{add,sub,mul}`, `Ctx::inv`, `Ctx::frob`).
use crate::orc::*;
use crate::{chk, show};
use ark_ff::fields::{CubicExtConfig, CubicExtField, Field, QuadExtConfig, QuadExtField};
use ark_ff::{One, Zero};
use num_bigint::BigUint;
use vh_core::engine::{no_panic, Obs, Tape, R};
use vh_core::gen::{edge_int, edge_value};
use vh_core::modint::big;
use vh_core::tower::{edge_elem, Elem, OracleRepr, Tower};
use vh_core::{ensure, fail};

/// the operator impls whose left operand is a reference exist on the concrete templates only (not through `Field`)
pub trait RefOps: Sized {
    fn add_rv(&self, b: Self) -> Self;
    fn add_rr(&self, b: &Self) -> Self;
    fn add_rm(&self, b: &mut Self) -> Self;
    fn sub_rv(&self, b: Self) -> Self;
    fn sub_rr(&self, b: &Self) -> Self;
    fn sub_rm(&self, b: &mut Self) -> Self;
    fn mul_rv(&self, b: Self) -> Self;
    fn mul_rr(&self, b: &Self) -> Self;
    fn mul_rm(&self, b: &mut Self) -> Self;
    fn div_rv(&self, b: Self) -> Self;
    fn div_rr(&self, b: &Self) -> Self;
    fn div_rm(&self, b: &mut Self) -> Self;
}
macro_rules! ref_ops {
    ($ty:ident, $cfg:ident) => {
        impl<P: $cfg> RefOps for $ty<P> {
            fn add_rv(&self, b: Self) -> Self {
                self + b
            }
            fn add_rr(&self, b: &Self) -> Self {
                self + b
            }
            fn add_rm(&self, b: &mut Self) -> Self {
                self + b
            }
            fn sub_rv(&self, b: Self) -> Self {
                self - b
            }
            fn sub_rr(&self, b: &Self) -> Self {
                self - b
            }
            fn sub_rm(&self, b: &mut Self) -> Self {
                self - b
            }
            fn mul_rv(&self, b: Self) -> Self {
                self * b
            }
            fn mul_rr(&self, b: &Self) -> Self {
                self * b
            }
            fn mul_rm(&self, b: &mut Self) -> Self {
                self * b
            }
            fn div_rv(&self, b: Self) -> Self {
                self / b
            }
            fn div_rr(&self, b: &Self) -> Self {
                self / b
            }
            fn div_rm(&self, b: &mut Self) -> Self {
                self / b
            }
        }
    };
}
ref_ops!(QuadExtField, QuadExtConfig);
ref_ops!(CubicExtField, CubicExtConfig);

fn trivial(c: &Ctx, e: &Elem) -> bool {
    c.tw.is_zero(e) || c.is_one(e)
}

pub fn ops<F: OracleRepr + RefOps>(c: &Ctx, t: &mut Tape<'_>, o: &mut Obs) -> R {
    let tw = &c.tw;
    let (ae, ac) = gen_elem(t, c);
    let (be, bc) = gen_second(t, c, &ae);
    let (ce, cc) = gen_elem(t, c);
    let e = edge_int(t, 2);
    let tab_len = t.idx(70);
    o.show(|| format!("{}: a={} [{}] b={} [{}] c={} [{}] exponent limbs {:x?} table length {}", c.name, show(&ae), ac, show(&be), bc, show(&ce), cc, e, tab_len));
    o.class(ac);
    o.class(bc);
    o.nt(!trivial(c, &ae) && !trivial(c, &be));
    o.evals(44);
    let a = F::from_o(&ae);
    let b = F::from_o(&be);
    let c3 = F::from_o(&ce);
    let mut bm = b;

    // ---- additive spellings
    let sum = tw.add(&ae, &be);
    let dif = tw.sub(&ae, &be);
    chk(&a.add_rv(b), &sum, "add.ref_val")?;
    chk(&a.add_rr(&b), &sum, "add.ref_ref")?;
    chk(&a.add_rm(&mut bm), &sum, "add.ref_mut")?;
    chk(&(a + &mut bm), &sum, "add.val_mut")?;
    chk(&a.sub_rv(b), &dif, "sub.ref_val")?;
    chk(&a.sub_rr(&b), &dif, "sub.ref_ref")?;
    chk(&a.sub_rm(&mut bm), &dif, "sub.ref_mut")?;
    chk(&(a - &mut bm), &dif, "sub.val_mut")?;
    let mut x = a;
    x += &mut bm;
    chk(&x, &sum, "add_assign.mut")?;
    let mut x = a;
    x -= &mut bm;
    chk(&x, &dif, "sub_assign.mut")?;
    chk(&bm, &be, "rhs-unchanged")?;

    // ---- multiplicative spellings
    let prod = tw.mul(&ae, &be);
    chk(&a.mul_rv(b), &prod, "mul.ref_val")?;
    chk(&a.mul_rr(&b), &prod, "mul.ref_ref")?;
    chk(&a.mul_rm(&mut bm), &prod, "mul.ref_mut")?;
    chk(&(a * &mut bm), &prod, "mul.val_mut")?;
    let mut x = a;
    x *= &mut bm;
    chk(&x, &prod, "mul_assign.mut")?;
    if let Some(bi) = c.inv(&be) {
        o.class("division");
        let quo = tw.mul(&ae, &bi);
        ensure!(tw.mul(&quo, &be) == ae, "oracle.quotient", "oracle: (a/b)*b != a");
        chk(&(a / b), &quo, "div.val_val")?;
        chk(&(a / &b), &quo, "div.val_ref")?;
        chk(&(a / &mut bm), &quo, "div.val_mut")?;
        chk(&a.div_rv(b), &quo, "div.ref_val")?;
        chk(&a.div_rr(&b), &quo, "div.ref_ref")?;
        chk(&a.div_rm(&mut bm), &quo, "div.ref_mut")?;
        let mut x = a;
        x /= b;
        chk(&x, &quo, "div_assign.val")?;
        let mut x = a;
        x /= &mut bm;
        chk(&x, &quo, "div_assign.mut")?;
        chk(&bm, &be, "rhs-unchanged")?;
    }

    // ---- iterator folds
    let v = [a, b, c3, a];
    let s4 = tw.add(&tw.add(&sum, &ce), &ae);
    let p4 = tw.mul(&tw.mul(&prod, &ce), &ae);
    chk(&v.iter().sum::<F>(), &s4, "sum.ref")?;
    chk(&v.iter().copied().sum::<F>(), &s4, "sum.val")?;
    chk(&v.iter().product::<F>(), &p4, "product.ref")?;
    chk(&v.iter().copied().product::<F>(), &p4, "product.val")?;
    chk(&v[..0].iter().sum::<F>(), &tw.zero(), "sum.empty")?;
    chk(&v[..0].iter().copied().product::<F>(), &tw.one(), "product.empty")?;
    chk(&v[..1].iter().product::<F>(), &ae, "product.single")?;

    // ---- sum_of_products of other lengths
    chk(&F::sum_of_products(&[a], &[b]), &prod, "sum_of_products.1")?;
    let ac_ = tw.mul(&ae, &ce);
    let bc_ = tw.mul(&be, &ce);
    let sop3 = tw.add(&tw.add(&prod, &bc_), &ac_);
    chk(&F::sum_of_products(&[a, b, c3], &[b, c3, a]), &sop3, "sum_of_products.3")?;
    let sop4 = tw.add(&sop3, &tw.mul(&ce, &ce));
    chk(&F::sum_of_products(&[a, b, c3, c3], &[b, c3, a, c3]), &sop4, "sum_of_products.4")?;
    let zero = F::zero();
    chk(&F::sum_of_products::<0>(&[], &[]), &tw.zero(), "sum_of_products.0")?;
    chk(&F::sum_of_products(&[a, zero, c3], &[b, a, zero]), &prod, "sum_of_products.zeros")?;

    // ---- pow / pow_with_table (Field defaults)
    let ev = big(&e);
    let want = tw.pow(&ae, &ev);
    chk(&a.pow(&e), &want, "pow")?;
    // table a^(2^i), i < tab_len, built by the oracle
    let mut tab = Vec::with_capacity(tab_len);
    let mut cur = ae.clone();
    for _ in 0..tab_len {
        tab.push(F::from_o(&cur));
        cur = tw.mul(&cur, &cur);
    }
    let fits = ev.bits() as usize <= tab_len;
    o.class_if(fits, "pow_with_table: table long enough");
    o.class_if(!fits, "pow_with_table: power missing");
    o.class_if(ev.bits() as usize == tab_len, "pow_with_table: exponent uses the last table entry");
    match no_panic("pow_with_table", || F::pow_with_table(&tab, &e))? {
        Some(r) => {
            ensure!(fits, "pow_with_table.some", "Some(..) although the exponent has {} bits and the table {} entries", ev.bits(), tab_len);
            chk(&r, &want, "pow_with_table")?;
        },
        None => ensure!(!fits, "pow_with_table.none", "None although the exponent has {} bits and the table {} entries", ev.bits(), tab_len),
    }
    ensure!(big(F::characteristic()) == c.p, "characteristic", "characteristic() = {:x?}", F::characteristic());
    ensure!(F::ZERO == F::zero() && F::ONE == F::one() && F::default() == F::zero(), "constants", "ZERO/ONE/default disagree with zero()/one()");
    chk(&F::ONE, &tw.one(), "ONE")?;
    chk(&F::ZERO, &tw.zero(), "ZERO")?;
    Ok(())
}

/// integer -> residue class of the prime field, embedded
fn int_elem(c: &Ctx, neg: bool, mag: u128) -> Elem {
    let v = BigUint::from(mag) % &c.p;
    let e = c.tw.from_int(&v);
    if neg {
        c.tw.neg(&e)
    } else {
        e
    }
}

fn edge_u128(t: &mut Tape<'_>) -> u128 {
    match t.weighted(&[2, 2, 2, 3]) {
        0 => t.edge_u64() as u128,
        1 => (t.edge_u64() as u128) << 64 | t.edge_u64() as u128,
        2 => u128::MAX >> t.below(128),
        _ => (t.u64() as u128) << 64 | t.u64() as u128,
    }
}

pub fn from_int<F: OracleRepr>(c: &Ctx, with_bool: bool, t: &mut Tape<'_>, o: &mut Obs) -> R
where
    F: From<u128> + From<i128> + From<u64> + From<i64> + From<u32> + From<i32> + From<u16> + From<i16> + From<u8> + From<i8> + From<bool>,
{
    let w = edge_u128(t);
    let minmax = t.weighted(&[6, 1, 1]);
    o.show(|| format!("{}: conversions of the bit pattern {:#x} truncated to every integer width (variant {})", c.name, w, minmax));
    o.nt(w > 1);
    o.evals(11);
    macro_rules! unsigned {
        ($ty:ty, $sig:expr) => {{
            let v: $ty = match minmax {
                1 => <$ty>::MAX,
                _ => w as $ty,
            };
            let got = no_panic($sig, || F::from(v))?;
            chk(&got, &int_elem(c, false, v as u128), $sig)?;
        }};
    }
    macro_rules! signed {
        ($ty:ty, $sig:expr) => {{
            let v: $ty = match minmax {
                1 => <$ty>::MAX,
                2 => <$ty>::MIN,
                _ => w as $ty,
            };
            o.class_if(v < 0, "negative integer");
            o.class_if(v == <$ty>::MIN, "MIN");
            let got = no_panic($sig, || F::from(v))?;
            chk(&got, &int_elem(c, v < 0, v.unsigned_abs() as u128), $sig)?;
        }};
    }
    unsigned!(u8, "from_u8");
    unsigned!(u16, "from_u16");
    unsigned!(u32, "from_u32");
    unsigned!(u64, "from_u64");
    unsigned!(u128, "from_u128");
    signed!(i8, "from_i8");
    signed!(i16, "from_i16");
    signed!(i32, "from_i32");
    signed!(i64, "from_i64");
    signed!(i128, "from_i128");
    if with_bool {
        let bv = w & 1 == 1;
        chk(&F::from(bv), &int_elem(c, false, bv as u128), "from_bool")?;
    }
    Ok(())
}

/// `From<bool>` alone. The relation runs in a child process; the conversion itself runs on a helper thread that is
/// given five seconds (it is a handful of instructions): an endless loop is reported as `from_bool.hang`, a stack
/// overflow kills the child process and is reported by the engine as `abort`.
pub fn from_bool<F: OracleRepr + From<bool>>(c: &Ctx, t: &mut Tape<'_>, o: &mut Obs) -> R {
    let bv = t.bool();
    o.show(|| format!("{}: From<bool>({})", c.name, bv));
    o.nt(bv);
    o.evals(1);
    let (tx, rx) = std::sync::mpsc::channel();
    let h = std::thread::Builder::new().stack_size(1 << 20).spawn(move || {
        let r = F::from(bv);
        let _ = tx.send(r);
    });
    if h.is_err() {
        return fail("harness.spawn", "could not spawn the helper thread");
    }
    match rx.recv_timeout(std::time::Duration::from_secs(5)) {
        Ok(got) => chk(&got, &int_elem(c, false, bv as u128), "from_bool"),
        Err(std::sync::mpsc::RecvTimeoutError::Timeout) => fail("from_bool.hang", format!("{}::from({}) did not return within 5 s (unconditional recursion)", c.name, bv)),
        Err(_) => fail("from_bool.panic", format!("{}::from({}) panicked", c.name, bv)),
    }
}

fn comp(e: &Elem, i: usize) -> Elem {
    match e {
        Elem::E(v) => v[i].clone(),
        _ => panic!("shape"),
    }
}

/// gamma with w^(p^k) = gamma * w for the top generator w = (0, 1[, 0]) and, for cubic tops, (w^2)^(p^k) = gamma2 * w^2
fn frob_coeffs(c: &Ctx, bt: &Tower, k: usize) -> Result<Vec<Elem>, vh_core::engine::Fail> {
    let z = bt.zero();
    let mut out = Vec::new();
    for i in 1..c.top {
        let mut v = vec![z.clone(); c.top];
        v[i] = bt.one();
        let img = c.frob(&Elem::E(v), k % c.d);
        for j in 0..c.top {
            if j != i && comp(&img, j) != z {
                return Err(vh_core::engine::Fail { sig: "oracle.frobenius-shape".into(), msg: format!("oracle: w^{} is not mapped to a multiple of itself by Frobenius^{}", i, k) });
            }
        }
        out.push(comp(&img, i));
    }
    Ok(out)
}

fn gen_k(t: &mut Tape<'_>, d: usize) -> usize {
    match t.weighted(&[6, 2, 1]) {
        0 => t.idx(2 * d + 2),
        1 => d * (1usize << (20 + t.idx(40))) + t.idx(d),
        _ => usize::MAX - t.idx(2 * d),
    }
}

/// hooks of `QuadExtConfig` (the family wrappers route them to `Fp2Config` / `Fp4Config` / `Fp6Config` / `Fp12Config`)
pub fn hooks_quad<P: QuadExtConfig>(c: &Ctx, bt: &Tower, t: &mut Tape<'_>, o: &mut Obs) -> R
where
    P::BaseField: OracleRepr,
{
    let (ye, yc) = edge_elem(t, bt, &c.prime);
    let (xe, xc) = edge_elem(t, bt, &c.prime);
    let k = gen_k(t, c.d);
    o.show(|| format!("{}: non-residue hooks on y={} [{}] x={} [{}]; frobenius coefficient {}", c.name, show(&ye), yc, show(&xe), xc, k));
    o.class(yc);
    o.class_if(k > 2 * c.d + 2, "huge frobenius power");
    o.nt(!bt.is_zero(&ye));
    o.evals(6);
    let beta = <P::BaseField as OracleRepr>::to_o(&P::NONRESIDUE);
    let by = bt.mul(&beta, &ye);
    let y = <P::BaseField as OracleRepr>::from_o(&ye);
    let x = <P::BaseField as OracleRepr>::from_o(&xe);
    let mut v = y;
    let r = *P::mul_base_field_by_nonresidue_in_place(&mut v);
    chk(&v, &by, "mul_base_field_by_nonresidue_in_place")?;
    chk(&r, &by, "mul_base_field_by_nonresidue_in_place.returned")?;
    let mut v = y;
    P::mul_base_field_by_nonresidue_and_add(&mut v, &x);
    chk(&v, &bt.add(&xe, &by), "mul_base_field_by_nonresidue_and_add")?;
    let mut v = y;
    P::mul_base_field_by_nonresidue_plus_one_and_add(&mut v, &x);
    chk(&v, &bt.add(&bt.add(&xe, &by), &ye), "mul_base_field_by_nonresidue_plus_one_and_add")?;
    let mut v = y;
    P::sub_and_mul_base_field_by_nonresidue(&mut v, &x);
    chk(&v, &bt.sub(&xe, &by), "sub_and_mul_base_field_by_nonresidue")?;
    let g = frob_coeffs(c, bt, k)?;
    let mut v = y;
    no_panic("mul_base_field_by_frob_coeff", || P::mul_base_field_by_frob_coeff(&mut v, k))?;
    chk(&v, &bt.mul(&ye, &g[0]), "mul_base_field_by_frob_coeff")?;
    // the same power through the public map on an element of the top field
    let ze = Elem::E(vec![xe.clone(), ye.clone()]);
    let z = QuadExtField::<P>::new(x, y);
    chk(&no_panic("frobenius_map", || z.frobenius_map(k))?, &c.frob(&ze, k % c.d), "frobenius_map")?;
    ensure!(P::DEGREE_OVER_BASE_PRIME_FIELD == c.d, "DEGREE_OVER_BASE_PRIME_FIELD", "{} vs {}", P::DEGREE_OVER_BASE_PRIME_FIELD, c.d);
    Ok(())
}

pub fn hooks_cubic<P: CubicExtConfig>(c: &Ctx, bt: &Tower, t: &mut Tape<'_>, o: &mut Obs) -> R
where
    P::BaseField: OracleRepr,
{
    let (ye, yc) = edge_elem(t, bt, &c.prime);
    let (xe, xc) = edge_elem(t, bt, &c.prime);
    let k = gen_k(t, c.d);
    o.show(|| format!("{}: non-residue hooks on y={} [{}] x={} [{}]; frobenius coefficient {}", c.name, show(&ye), yc, show(&xe), xc, k));
    o.class(yc);
    o.class_if(k > 2 * c.d + 2, "huge frobenius power");
    o.nt(!bt.is_zero(&ye));
    o.evals(5);
    let beta = <P::BaseField as OracleRepr>::to_o(&P::NONRESIDUE);
    let by = bt.mul(&beta, &ye);
    let y = <P::BaseField as OracleRepr>::from_o(&ye);
    let x = <P::BaseField as OracleRepr>::from_o(&xe);
    let mut v = y;
    let r = *P::mul_base_field_by_nonresidue_in_place(&mut v);
    chk(&v, &by, "mul_base_field_by_nonresidue_in_place")?;
    chk(&r, &by, "mul_base_field_by_nonresidue_in_place.returned")?;
    chk(&P::mul_base_field_by_nonresidue(y), &by, "mul_base_field_by_nonresidue")?;
    let g = frob_coeffs(c, bt, k)?;
    let (mut v1, mut v2) = (y, x);
    no_panic("mul_base_field_by_frob_coeff", || P::mul_base_field_by_frob_coeff(&mut v1, &mut v2, k))?;
    chk(&v1, &bt.mul(&ye, &g[0]), "mul_base_field_by_frob_coeff.c1")?;
    chk(&v2, &bt.mul(&xe, &g[1]), "mul_base_field_by_frob_coeff.c2")?;
    let ze = Elem::E(vec![xe.clone(), ye.clone(), xe.clone()]);
    let z = CubicExtField::<P>::new(x, y, x);
    chk(&no_panic("frobenius_map", || z.frobenius_map(k))?, &c.frob(&ze, k % c.d), "frobenius_map")?;
    ensure!(P::DEGREE_OVER_BASE_PRIME_FIELD == c.d, "DEGREE_OVER_BASE_PRIME_FIELD", "{} vs {}", P::DEGREE_OVER_BASE_PRIME_FIELD, c.d);
    Ok(())
}

/// `characteristic_square_mod_6_is_one(limbs)` <=> n^2 = 1 (mod 6) for n = sum limbs[i] 2^(64 i)
pub fn char_mod_6(t: &mut Tape<'_>, o: &mut Obs) -> R {
    let n = t.idx(14);
    let l: Vec<u64> = match t.weighted(&[2, 2, 3]) {
        0 => (0..n).map(|_| t.edge_u64()).collect(),
        1 => (0..n).map(|_| t.below(12)).collect(),
        _ => t.limbs(n),
    };
    o.show(|| format!("characteristic_square_mod_6_is_one({:x?})", l));
    o.nt(l.len() > 1);
    o.evals(1);
    let v = big(&l);
    let want = (&v * &v) % 6u32 == BigUint::one();
    let got = ark_ff::fields::fp12_2over3over2::characteristic_square_mod_6_is_one(&l);
    if got != want {
        return fail("characteristic_square_mod_6_is_one", format!("limbs {:x?}: got {}, n^2 mod 6 = {}", l, got, (&v * &v) % 6u32));
    }
    Ok(())
}

#[allow(dead_code)]
fn _unused(c: &Ctx, t: &mut Tape<'_>) {
    let _ = edge_value(t, &c.prime);
    let _ = BigUint::zero();
}
