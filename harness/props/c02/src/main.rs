//! C02 — not implemented yet.
fn main() {
    eprintln!("C02: check not implemented");
    std::process::exit(2);
}
