//! C02 — extension towers implement arithmetic of F_p[X]/(X^k - beta).
mod extra;
mod orc;
mod toy;
#[path = "zoo_cfg.rs"]
pub mod zoo_cfg;

use ark_ff::fields::fp6_2over3 as f6q;
use ark_ff::fields::{
    CubicExtConfig, CubicExtField, CyclotomicMultSubgroup, Field, Fp12, Fp12Config, Fp2, Fp2Config, Fp3, Fp3Config, Fp4,
    Fp4Config, Fp6, Fp6Config, QuadExtConfig, QuadExtField,
};
use ark_ff::One;
use num_bigint::BigUint;
use orc::*;
use std::sync::Arc;
use vh_core::engine::{no_panic, Obs, PropSpec, Rel, Tape, Tier, R};
use vh_core::gen::edge_value;
use vh_core::modint::big;
use vh_core::tower::{edge_elem, Elem, OracleRepr, Tower};
use vh_core::{ensure, fail};

// ---------------------------------------------------------------------------------------------
// helpers
// ---------------------------------------------------------------------------------------------

fn show(e: &Elem) -> String {
    fn flat(e: &Elem, out: &mut Vec<String>) {
        match e {
            Elem::P(x) => out.push(format!("0x{:x}", x)),
            Elem::E(v) => v.iter().for_each(|x| flat(x, out)),
        }
    }
    let mut v = Vec::new();
    flat(e, &mut v);
    format!("[{}]", v.join(", "))
}

/// result must be canonical and equal to the oracle element
fn chk<F: OracleRepr>(got: &F, want: &Elem, sig: &str) -> R {
    if !got.canonical() {
        return fail(format!("{}.noncanonical", sig), format!("{}: a stored coordinate is >= p: {:?}", sig, got));
    }
    let g = got.to_o();
    if g != *want {
        return fail(sig, format!("{}: got {} expected {}", sig, show(&g), show(want)));
    }
    Ok(())
}

fn prime_of<F: Field>(v: &BigUint) -> F::BasePrimeField
where
    F::BasePrimeField: OracleRepr,
{
    <F::BasePrimeField as OracleRepr>::from_o(&Elem::P(v.clone()))
}

fn trivial(c: &Ctx, e: &Elem) -> bool {
    c.tw.is_zero(e) || c.is_one(e)
}

/// `norm` and multiplication by an element of the field one level down, for both templates
trait Ext: OracleRepr {
    type Base: OracleRepr;
    fn norm_(&self) -> Self::Base;
    fn mul_base(&mut self, b: &Self::Base);
    /// conjugation over the base (quadratic template only)
    fn conj(&mut self) -> bool;
}
impl<P: QuadExtConfig> Ext for QuadExtField<P>
where
    P::BaseField: OracleRepr,
{
    type Base = P::BaseField;
    fn norm_(&self) -> Self::Base {
        self.norm()
    }
    fn mul_base(&mut self, b: &Self::Base) {
        self.mul_assign_by_basefield(b)
    }
    fn conj(&mut self) -> bool {
        self.conjugate_in_place();
        true
    }
}
impl<P: CubicExtConfig> Ext for CubicExtField<P>
where
    P::BaseField: OracleRepr,
{
    type Base = P::BaseField;
    fn norm_(&self) -> Self::Base {
        self.norm()
    }
    fn mul_base(&mut self, b: &Self::Base) {
        self.mul_assign_by_base_field(b)
    }
    fn conj(&mut self) -> bool {
        false
    }
}

// ---------------------------------------------------------------------------------------------
// relations common to every tower type
// ---------------------------------------------------------------------------------------------

fn arith<F: OracleRepr>(c: &Ctx, t: &mut Tape<'_>, o: &mut Obs) -> R
where
    F::BasePrimeField: OracleRepr,
{
    let (ae, ac) = gen_elem(t, c);
    let (be, bc) = gen_second(t, c, &ae);
    let (sv, sc) = edge_value(t, &c.prime);
    o.show(|| format!("{}: a={} [{}] b={} [{}] s=0x{:x} [{}]", c.name, show(&ae), ac, show(&be), bc, sv, sc));
    o.class(ac);
    o.class(bc);
    arith_on::<F>(c, &ae, &be, &sv, o)
}

fn arith_on<F: OracleRepr>(c: &Ctx, ae: &Elem, be: &Elem, sv: &BigUint, o: &mut Obs) -> R
where
    F::BasePrimeField: OracleRepr,
{
    let tw = &c.tw;
    let (ae, be) = (ae.clone(), be.clone());
    let a = F::from_o(&ae);
    let b = F::from_o(&be);
    let s = prime_of::<F>(sv);
    o.nt(!trivial(c, &ae) && !trivial(c, &be));
    o.class_if(c.nnz(&ae) >= 2 && c.nnz(&be) >= 2, ">=2-nonzero-coords-each");
    o.evals(34);

    // additive
    let want = tw.add(&ae, &be);
    chk(&(a + b), &want, "add")?;
    chk(&(a + &b), &want, "add.ref")?;
    let mut x = a;
    x += b;
    chk(&x, &want, "add_assign")?;
    let mut x = a;
    x += &b;
    chk(&x, &want, "add_assign.ref")?;
    let want = tw.sub(&ae, &be);
    chk(&(a - b), &want, "sub")?;
    chk(&(a - &b), &want, "sub.ref")?;
    let mut x = a;
    x -= b;
    chk(&x, &want, "sub_assign")?;
    let mut x = a;
    x -= &b;
    chk(&x, &want, "sub_assign.ref")?;
    let want = tw.neg(&ae);
    chk(&(-a), &want, "neg")?;
    let mut x = a;
    x.neg_in_place();
    chk(&x, &want, "neg_in_place")?;
    let want = tw.add(&ae, &ae);
    chk(&a.double(), &want, "double")?;
    let mut x = a;
    x.double_in_place();
    chk(&x, &want, "double_in_place")?;

    // multiplicative
    let ab = tw.mul(&ae, &be);
    chk(&(a * b), &ab, "mul")?;
    chk(&(a * &b), &ab, "mul.ref")?;
    chk(&(b * a), &ab, "mul.commuted")?;
    let mut x = a;
    x *= b;
    chk(&x, &ab, "mul_assign")?;
    let mut x = a;
    x *= &b;
    chk(&x, &ab, "mul_assign.ref")?;
    let aa = tw.mul(&ae, &ae);
    chk(&a.square(), &aa, "square")?;
    let mut x = a;
    x.square_in_place();
    chk(&x, &aa, "square_in_place")?;
    chk(&(a * a), &aa, "mul.self")?;
    chk(&F::sum_of_products(&[a, b], &[b, a]), &tw.add(&ab, &ab), "sum_of_products")?;

    // inverse: a * a^-1 = 1 under the oracle product (uniqueness makes this exact)
    match a.inverse() {
        None => ensure!(tw.is_zero(&ae), "inverse.none", "inverse({}) returned None", show(&ae)),
        Some(i) => {
            ensure!(!tw.is_zero(&ae), "inverse.zero", "inverse(0) returned Some");
            ensure!(i.canonical(), "inverse.noncanonical", "non canonical coordinates in {:?}", i);
            let pr = tw.mul(&ae, &i.to_o());
            ensure!(c.is_one(&pr), "inverse", "a * inverse(a) = {} for a = {}", show(&pr), show(&ae));
            let mut x = a;
            ensure!(x.inverse_in_place().is_some(), "inverse_in_place.none", "None for a = {}", show(&ae));
            chk(&x, &i.to_o(), "inverse_in_place")?;
        },
    }
    if tw.is_zero(&ae) {
        let mut x = a;
        ensure!(x.inverse_in_place().is_none(), "inverse_in_place.zero", "Some for zero");
    }
    if !tw.is_zero(&be) {
        let q = a / b;
        ensure!(q.canonical(), "div.noncanonical", "non canonical coordinates in {:?}", q);
        let back = tw.mul(&q.to_o(), &be);
        ensure!(back == ae, "div", "(a / b) * b = {} for a = {} b = {}", show(&back), show(&ae), show(&be));
        let mut x = a;
        x /= &b;
        chk(&x, &q.to_o(), "div_assign")?;
    }

    // prime-field scalars and coordinates
    let se = tw.from_int(sv);
    chk(&F::from_base_prime_field(s), &se, "from_base_prime_field")?;
    chk(&a.mul_by_base_prime_field(&s), &tw.mul(&ae, &se), "mul_by_base_prime_field")?;
    let coords: Vec<F::BasePrimeField> = a.to_base_prime_field_elements().collect();
    let flat = tw.flatten(&ae);
    ensure!(coords.len() == c.d, "to_base_prime_field_elements.len", "{} coordinates, degree {}", coords.len(), c.d);
    for (i, x) in coords.iter().enumerate() {
        chk(x, &Elem::P(flat[i].clone()), "to_base_prime_field_elements")?;
    }
    match F::from_base_prime_field_elems(coords.iter().copied()) {
        Some(x) => chk(&x, &ae, "from_base_prime_field_elems")?,
        None => return fail("from_base_prime_field_elems.none", "None for a full coordinate vector"),
    }
    ensure!(
        F::from_base_prime_field_elems(coords.iter().copied().take(c.d - 1)).is_none(),
        "from_base_prime_field_elems.short",
        "Some for d-1 coordinates"
    );
    ensure!(
        F::from_base_prime_field_elems(coords.iter().copied().chain(std::iter::once(s))).is_none(),
        "from_base_prime_field_elems.long",
        "Some for d+1 coordinates"
    );
    ensure!(F::extension_degree() as usize == c.d, "extension_degree", "{} vs {}", F::extension_degree(), c.d);
    ensure!(a.is_zero() == tw.is_zero(&ae), "is_zero", "is_zero({}) = {}", show(&ae), a.is_zero());
    ensure!(a.is_one() == c.is_one(&ae), "is_one", "is_one({}) = {}", show(&ae), a.is_one());
    ensure!((a == b) == (ae == be), "eq", "a == b is {} for a = {} b = {}", a == b, show(&ae), show(&be));
    Ok(())
}

/// frobenius_map(k) for every k = 0..=d+1 and one larger k, against x -> x^p applied k times
/// (x^p by F_p-linearity from the schoolbook powers e_i^p of the basis)
fn frobenius<F: OracleRepr>(c: &Ctx, t: &mut Tape<'_>, o: &mut Obs) -> R {
    let (ae, ac) = gen_elem(t, c);
    let kbig = c.d + 2 + t.idx(2 * c.d + 3);
    o.show(|| format!("{}: frobenius_map(0..={} and {}) of {} [{}]", c.name, c.d + 1, kbig, show(&ae), ac));
    o.class(ac);
    frobenius_on::<F>(c, &ae, kbig, o)
}

fn frobenius_on<F: OracleRepr>(c: &Ctx, ae: &Elem, kbig: usize, o: &mut Obs) -> R {
    let ae = ae.clone();
    let a = F::from_o(&ae);
    o.nt(!trivial(c, &ae));
    o.evals(c.d as u64 + 3);
    let mut cur = ae.clone();
    for k in 0..=kbig {
        if k > 0 {
            cur = c.frob1(&cur);
        }
        if k == c.d {
            ensure!(cur == ae, "oracle.frobenius-order", "oracle: x^(p^d) != x for {}", show(&ae));
        }
        if k <= c.d + 1 || k == kbig {
            let got = no_panic("frobenius_map", || a.frobenius_map(k))?;
            if let Err(mut f) = chk(&got, &cur, "frobenius_map") {
                f.msg = format!("k={} a={}: {}", k, show(&ae), f.msg);
                return Err(f);
            }
            let mut x = a;
            x.frobenius_map_in_place(k);
            chk(&x, &cur, "frobenius_map_in_place")?;
        }
    }
    Ok(())
}

/// the definition itself, without the linearity shortcut: frobenius_map(k) = x^(p^k) by schoolbook square-and-multiply
fn frobenius_direct<F: OracleRepr>(c: &Ctx, kmax: usize, t: &mut Tape<'_>, o: &mut Obs) -> R {
    let (ae, ac) = gen_elem(t, c);
    let a = F::from_o(&ae);
    let k = 1 + t.idx(kmax);
    o.show(|| format!("{}: frobenius_map({}) vs schoolbook power of {} [{}]", c.name, k, show(&ae), ac));
    o.nt(!trivial(c, &ae));
    o.class(ac);
    let mut e = BigUint::one();
    for _ in 0..k {
        e *= &c.p;
    }
    let want = c.tw.pow(&ae, &e);
    ensure!(want == c.frob(&ae, k), "oracle.frobenius-linear", "oracle: linear Frobenius disagrees with the power for {}", show(&ae));
    chk(&a.frobenius_map(k), &want, "frobenius_map")
}

/// norm over the field one level down = product of the conjugates; multiplication by an element of that field
fn base_rel<F: Ext>(c: &Ctx, bt: &Tower, t: &mut Tape<'_>, o: &mut Obs) -> R {
    let (ae, ac) = gen_elem(t, c);
    let (be, bc) = edge_elem(t, bt, &c.prime);
    o.show(|| format!("{}: norm(a), a * b; a={} [{}] base element b={} [{}]", c.name, show(&ae), ac, show(&be), bc));
    o.class(ac);
    base_on::<F>(c, bt, &ae, &be, o)
}

fn base_on<F: Ext>(c: &Ctx, bt: &Tower, ae: &Elem, be: &Elem, o: &mut Obs) -> R {
    let tw = &c.tw;
    let (ae, be) = (ae.clone(), be.clone());
    let a = F::from_o(&ae);
    let b = <F::Base as OracleRepr>::from_o(&be);
    o.nt(!trivial(c, &ae));
    o.evals(2);
    // norm
    let mut prod = ae.clone();
    let mut cur = ae.clone();
    for _ in 1..c.top {
        cur = c.frob(&cur, c.base_d);
        prod = tw.mul(&prod, &cur);
    }
    let want = match &prod {
        Elem::E(v) => {
            let z = bt.zero();
            ensure!(v[1..].iter().all(|x| *x == z), "oracle.norm-not-in-base", "oracle: product of conjugates {} is not in the base field", show(&prod));
            v[0].clone()
        },
        _ => unreachable!(),
    };
    let got = no_panic("norm", || a.norm_())?;
    if let Err(mut f) = chk(&got, &want, "norm") {
        f.msg = format!("a={}: {}", show(&ae), f.msg);
        return Err(f);
    }
    // multiplication by a base-field element
    let mut x = a;
    x.mul_base(&b);
    chk(&x, &tw.mul(&ae, &tw.from_base(&be)), "mul_assign_by_basefield")?;
    Ok(())
}

fn gen_exp(t: &mut Tape<'_>) -> (Vec<u64>, &'static str) {
    match t.weighted(&[2, 3, 3, 3, 2, 2, 2, 3]) {
        0 => (vec![t.below(17)], "exp-small"),
        1 => (vec![u64::MAX; 1 + t.idx(2)], "exp-all-ones-limbs"),
        2 => (vec![t.edge_u64()], "exp-edge-limb"),
        3 => (vec![t.u64() | (if t.bool() { 3 } else { 1 }) << 62], "exp-top-heavy"),
        4 => (vec![t.edge_u64(), t.edge_u64()], "exp-two-limbs"),
        6 => {
            // 3..=8 limbs (final-exponentiation sized), edge or uniform limbs
            let n = 3 + t.idx(6);
            let edge = t.bool();
            ((0..n).map(|_| if edge { t.edge_u64() } else { t.u64() }).collect(), "exp-long")
        },
        7 => {
            // a run of ones that crosses one or two limb boundaries (the NAF carry has to ripple out of a limb),
            // optionally followed by trailing zero limbs
            let s = 1 + t.below(63);
            let r = 1 + t.below(63);
            let mut v = vec![(t.u64() & ((1u64 << s) - 1)) | (u64::MAX << s)];
            if t.bool() {
                v.push(u64::MAX);
            }
            v.push((1u64 << r) - 1);
            for _ in 0..t.below(3) {
                v.push(0);
            }
            (v, "exp-ones-across-limbs")
        },
        5 => match t.below(3) {
            0 => (vec![], "exp-empty"),
            1 => (vec![t.edge_u64(), 0], "exp-leading-zero-limb"),
            _ => (vec![0, t.below(1 << 20)], "exp-low-limb-zero"),
        },
        _ => unreachable!(),
    }
}

/// cyclotomic_square / cyclotomic_inverse / cyclotomic_exp against the oracle square / inverse / power on elements of the
/// cyclotomic subgroup of order Phi_d(p), built by the oracle as x^((p^(d/2)-1)(p^(d/6)+1)) (d = 6, 12), x^(p^(d/2)-1) (d = 2, 4),
/// x^(p-1) (d = 3)
fn cyclo<F: Ext + CyclotomicMultSubgroup>(c: &Ctx, with_exp: bool, t: &mut Tape<'_>, o: &mut Obs) -> R {
    let tw = &c.tw;
    let d = c.d;
    let (xe, xc) = if t.chance(2, 3) {
        let co: Vec<BigUint> = (0..d).map(|_| edge_value(t, &c.prime).0).collect();
        let e = tw.unflatten(&co);
        if tw.is_zero(&e) {
            (tw.one(), "one")
        } else {
            (e, "dense")
        }
    } else {
        gen_nonzero(t, c)
    };
    o.class(xc);
    if with_exp {
        let (e, ec) = gen_exp(t);
        o.class(ec);
        cyclo_on::<F>(c, &xe, Some(&e), o)
    } else {
        cyclo_on::<F>(c, &xe, None, o)
    }
}

fn cyclo_on<F: Ext + CyclotomicMultSubgroup>(c: &Ctx, xe: &Elem, e: Option<&[u64]>, o: &mut Obs) -> R {
    let tw = &c.tw;
    let d = c.d;
    let xe = xe.clone();
    let xi = c.inv(&xe).expect("non-zero");
    ensure!(c.is_one(&tw.mul(&xe, &xi)), "oracle.inverse", "oracle: linear-solve inverse is wrong for {}", show(&xe));
    let mut ye = if d % 2 == 0 { tw.mul(&c.frob(&xe, d / 2), &xi) } else { tw.mul(&c.frob1(&xe), &xi) };
    if d % 6 == 0 {
        ye = tw.mul(&c.frob(&ye, d / 6), &ye);
    }
    // membership in the subgroup of order Phi_d(p), via Frobenius
    let member = match d {
        2 => c.is_one(&tw.mul(&c.frob1(&ye), &ye)),
        3 => c.is_one(&tw.mul(&tw.mul(&c.frob(&ye, 2), &c.frob1(&ye)), &ye)),
        4 => c.is_one(&tw.mul(&c.frob(&ye, 2), &ye)),
        6 => tw.mul(&c.frob(&ye, 2), &ye) == c.frob1(&ye),
        12 => tw.mul(&c.frob(&ye, 4), &ye) == c.frob(&ye, 2),
        _ => unreachable!(),
    };
    ensure!(member, "oracle.cyclotomic-membership", "oracle: constructed element is not in the cyclotomic subgroup (x = {})", show(&xe));
    let y = F::from_o(&ye);
    o.show(|| {
        let es = e.map(|e| format!("; exponent limbs {:x?}", e)).unwrap_or_default();
        format!("{}: y = x^(Phi-cofactor) in the cyclotomic subgroup, x={}; y={}{}", c.name, show(&xe), show(&ye), es)
    });
    o.nt(!c.is_one(&ye));
    o.class_if(c.is_one(&ye), "y=1");
    o.evals(8);

    let sq = tw.mul(&ye, &ye);
    chk(&y.cyclotomic_square(), &sq, "cyclotomic_square")?;
    let mut z = y;
    z.cyclotomic_square_in_place();
    chk(&z, &sq, "cyclotomic_square_in_place")?;

    let yi = c.inv(&ye).expect("non-zero");
    match y.cyclotomic_inverse() {
        Some(i) => chk(&i, &yi, "cyclotomic_inverse")?,
        None => return fail("cyclotomic_inverse.none", format!("None for y = {}", show(&ye))),
    }
    let mut z = y;
    ensure!(z.cyclotomic_inverse_in_place().is_some(), "cyclotomic_inverse_in_place.none", "None");
    chk(&z, &yi, "cyclotomic_inverse_in_place")?;
    let mut z = y;
    if z.conj() {
        chk(&z, &yi, "conjugate_in_place")?;
    }
    ensure!(F::zero().cyclotomic_inverse().is_none(), "cyclotomic_inverse.zero", "Some for zero");

    let e = match e {
        Some(e) => e,
        None => return Ok(()),
    };
    let ev = big(e);
    let want = tw.pow(&ye, &ev);
    if let Err(mut f) = chk(&y.cyclotomic_exp(e), &want, "cyclotomic_exp") {
        f.msg = format!("exponent limbs {:x?}, y = {}: {}", e, show(&ye), f.msg);
        return Err(f);
    }
    let mut z = y;
    z.cyclotomic_exp_in_place(e);
    chk(&z, &want, "cyclotomic_exp_in_place")?;
    chk(&y.pow(e), &want, "pow")?;
    Ok(())
}

// ---------------------------------------------------------------------------------------------
// sparse multiplications, per template
// ---------------------------------------------------------------------------------------------

fn blk<F: OracleRepr>(tw: &Tower, co: &[BigUint]) -> F {
    F::from_o(&tw.unflatten(co))
}

fn sparse_head(c: &Ctx, t: &mut Tape<'_>, o: &mut Obs) -> (Elem, &'static str) {
    let (ze, zc) = gen_elem(t, c);
    o.nt(!trivial(c, &ze));
    o.class(zc);
    (ze, zc)
}

fn sparse_fp2<P: Fp2Config>(c: &Ctx, t: &mut Tape<'_>, o: &mut Obs) -> R
where
    P::Fp: OracleRepr,
{
    let (ze, zc) = sparse_head(c, t, o);
    let (sv, _) = edge_value(t, &c.prime);
    o.show(|| format!("{}: mul_assign_by_fp z={} [{}] s=0x{:x}", c.name, show(&ze), zc, sv));
    let mut z = Fp2::<P>::from_o(&ze);
    z.mul_assign_by_fp(&P::Fp::from_o(&Elem::P(sv.clone())));
    chk(&z, &c.tw.mul(&ze, &c.tw.from_int(&sv)), "mul_assign_by_fp")
}

fn sparse_fp3<P: Fp3Config>(c: &Ctx, t: &mut Tape<'_>, o: &mut Obs) -> R
where
    P::Fp: OracleRepr,
{
    let (ze, zc) = sparse_head(c, t, o);
    let (sv, _) = edge_value(t, &c.prime);
    o.show(|| format!("{}: mul_assign_by_fp z={} [{}] s=0x{:x}", c.name, show(&ze), zc, sv));
    let mut z = Fp3::<P>::from_o(&ze);
    z.mul_assign_by_fp(&P::Fp::from_o(&Elem::P(sv.clone())));
    chk(&z, &c.tw.mul(&ze, &c.tw.from_int(&sv)), "mul_assign_by_fp")
}

fn sparse_fp4<P: Fp4Config>(c: &Ctx, t2: &Tower, t: &mut Tape<'_>, o: &mut Obs) -> R
where
    <P::Fp2Config as Fp2Config>::Fp: OracleRepr,
{
    let (ze, zc) = sparse_head(c, t, o);
    let z = Fp4::<P>::from_o(&ze);
    if t.bool() {
        let (sv, _) = edge_value(t, &c.prime);
        o.show(|| format!("{}: mul_by_fp z={} [{}] s=0x{:x}", c.name, show(&ze), zc, sv));
        let mut r = z;
        r.mul_by_fp(&<P::Fp2Config as Fp2Config>::Fp::from_o(&Elem::P(sv.clone())));
        chk(&r, &c.tw.mul(&ze, &c.tw.from_int(&sv)), "mul_by_fp")
    } else {
        let b = gen_block(t, c, 2);
        o.show(|| format!("{}: mul_by_fp2 z={} [{}] fp2={:x?}", c.name, show(&ze), zc, b));
        let mut r = z;
        r.mul_by_fp2(&blk::<Fp2<P::Fp2Config>>(t2, &b));
        chk(&r, &c.tw.mul(&ze, &c.embed(2, &[(0, b)])), "mul_by_fp2")
    }
}

/// Fp6 as a quadratic extension of Fp3: sparse operands are prime-field coefficients at flat positions 0,3,4 / 0,1,4
fn sparse_fp6q<P: f6q::Fp6Config>(c: &Ctx, t: &mut Tape<'_>, o: &mut Obs) -> R
where
    <P::Fp3Config as Fp3Config>::Fp: OracleRepr,
{
    let (ze, zc) = sparse_head(c, t, o);
    let z = f6q::Fp6::<P>::from_o(&ze);
    let which = t.bool();
    let b: Vec<Vec<BigUint>> = (0..3).map(|_| gen_block(t, c, 1)).collect();
    let f = |i: usize| <P::Fp3Config as Fp3Config>::Fp::from_o(&Elem::P(b[i][0].clone()));
    o.show(|| format!("{}: {} z={} [{}] operands={:x?}", c.name, if which { "mul_by_014" } else { "mul_by_034" }, show(&ze), zc, b));
    let mut r = z;
    if which {
        r.mul_by_014(&f(0), &f(1), &f(2));
        let x = c.embed(1, &[(0, b[0].clone()), (1, b[1].clone()), (4, b[2].clone())]);
        chk(&r, &c.tw.mul(&ze, &x), "mul_by_014")
    } else {
        r.mul_by_034(&f(0), &f(1), &f(2));
        let x = c.embed(1, &[(0, b[0].clone()), (3, b[1].clone()), (4, b[2].clone())]);
        chk(&r, &c.tw.mul(&ze, &x), "mul_by_034")
    }
}

/// Fp6 as a cubic extension of Fp2: mul_by_1 (0, c1, 0), mul_by_01 (c0, c1, 0), scalars from Fp and Fp2
fn sparse_fp6c<P: Fp6Config>(c: &Ctx, t2: &Tower, t: &mut Tape<'_>, o: &mut Obs) -> R
where
    <P::Fp2Config as Fp2Config>::Fp: OracleRepr,
{
    let (ze, zc) = sparse_head(c, t, o);
    let z = Fp6::<P>::from_o(&ze);
    let which = t.below(5);
    let b0 = gen_block(t, c, 2);
    let b1 = gen_block(t, c, 2);
    let (sv, _) = edge_value(t, &c.prime);
    let f2 = |b: &Vec<BigUint>| blk::<Fp2<P::Fp2Config>>(t2, b);
    let names = ["mul_by_1", "mul_by_01", "mul_by_fp", "mul_by_fp2", "mul_assign_by_fp2"];
    o.show(|| format!("{}: {} z={} [{}] fp2 operands {:x?} {:x?} s=0x{:x}", c.name, names[which as usize], show(&ze), zc, b0, b1, sv));
    let mut r = z;
    match which {
        0 => {
            r.mul_by_1(&f2(&b1));
            chk(&r, &c.tw.mul(&ze, &c.embed(2, &[(1, b1)])), "mul_by_1")
        },
        1 => {
            r.mul_by_01(&f2(&b0), &f2(&b1));
            chk(&r, &c.tw.mul(&ze, &c.embed(2, &[(0, b0), (1, b1)])), "mul_by_01")
        },
        2 => {
            r.mul_by_fp(&<P::Fp2Config as Fp2Config>::Fp::from_o(&Elem::P(sv.clone())));
            chk(&r, &c.tw.mul(&ze, &c.tw.from_int(&sv)), "mul_by_fp")
        },
        3 => {
            r.mul_by_fp2(&f2(&b0));
            chk(&r, &c.tw.mul(&ze, &c.embed(2, &[(0, b0)])), "mul_by_fp2")
        },
        _ => {
            r.mul_assign_by_fp2(f2(&b0));
            chk(&r, &c.tw.mul(&ze, &c.embed(2, &[(0, b0)])), "mul_assign_by_fp2")
        },
    }
}

type Fp12Fp2<P> = Fp2<<<P as Fp12Config>::Fp6Config as Fp6Config>::Fp2Config>;
type Fp12Fp<P> = <<<P as Fp12Config>::Fp6Config as Fp6Config>::Fp2Config as Fp2Config>::Fp;

/// Fp12 = Fp6[w]/(w^2 - v), Fp6 = Fp2[v]/(v^3 - xi): Fp2 slots 0..2 are c0 = (.,.,.), slots 3..5 are c1
fn sparse_fp12<P: Fp12Config>(c: &Ctx, t2: &Tower, t: &mut Tape<'_>, o: &mut Obs) -> R
where
    Fp12Fp<P>: OracleRepr,
{
    let (ze, zc) = sparse_head(c, t, o);
    let z = Fp12::<P>::from_o(&ze);
    let which = t.weighted(&[3, 3, 1]);
    let b: Vec<Vec<BigUint>> = (0..3).map(|_| gen_block(t, c, 2)).collect();
    let (sv, _) = edge_value(t, &c.prime);
    let f2 = |i: usize| blk::<Fp12Fp2<P>>(t2, &b[i]);
    let names = ["mul_by_034", "mul_by_014", "mul_by_fp"];
    o.show(|| format!("{}: {} z={} [{}] fp2 operands {:x?} s=0x{:x}", c.name, names[which], show(&ze), zc, b, sv));
    let mut r = z;
    match which {
        0 => {
            r.mul_by_034(&f2(0), &f2(1), &f2(2));
            let x = c.embed(2, &[(0, b[0].clone()), (3, b[1].clone()), (4, b[2].clone())]);
            chk(&r, &c.tw.mul(&ze, &x), "mul_by_034")
        },
        1 => {
            r.mul_by_014(&f2(0), &f2(1), &f2(2));
            let x = c.embed(2, &[(0, b[0].clone()), (1, b[1].clone()), (4, b[2].clone())]);
            chk(&r, &c.tw.mul(&ze, &x), "mul_by_014")
        },
        _ => {
            r.mul_by_fp(&Fp12Fp::<P>::from_o(&Elem::P(sv.clone())));
            chk(&r, &c.tw.mul(&ze, &c.tw.from_int(&sv)), "mul_by_fp")
        },
    }
}

// ---------------------------------------------------------------------------------------------
// registration
// ---------------------------------------------------------------------------------------------

/// case budget: `base` cases for a tower whose oracle product costs about one unit (Fp2 over 4 limbs);
/// scaled down with d^2 * limbs^2 and up 20x in the thorough tier
fn budget(c: &Ctx, tier: Tier, base: u32) -> u32 {
    let cost = ((c.d * c.d) as f64 / 4.0) * ((c.prime.n * c.prime.n) as f64 / 16.0).max(1.0);
    let n = (base as f64 / cost.sqrt()).ceil() as u32;
    tier.pick(n.max(12), (n * 20).max(240))
}

fn common<F>(out: &mut Vec<Rel>, c: &Arc<Ctx>, tier: Tier)
where
    F: Ext + CyclotomicMultSubgroup + extra::RefOps,
    F: From<u128> + From<i128> + From<u64> + From<i64> + From<u32> + From<i32> + From<u16> + From<i16> + From<u8> + From<i8> + From<bool>,
    F::BasePrimeField: OracleRepr,
{
    let n = c.prime.n;
    let d = c.d;
    let words = 2 * d * (n + 6) + 32;
    let bt = Arc::new(<F::Base as OracleRepr>::tower());
    let cc = c.clone();
    out.push(Rel::new(format!("arith/{}", c.name), budget(c, tier, 3600), words, move |t, o| arith::<F>(&cc, t, o)));
    let cc = c.clone();
    out.push(Rel::new(format!("frobenius/{}", c.name), budget(c, tier, 1500), words, move |t, o| frobenius::<F>(&cc, t, o)));
    let cc = c.clone();
    // direct schoolbook power: k * bits(p) oracle products per case
    let kmax = if d * n <= 12 { d + 1 } else { 2 };
    let nd = tier.pick(if d * n <= 12 { 24 } else { 4 }, if d * n <= 12 { 300 } else { 40 });
    out.push(Rel::new(format!("frobenius-direct/{}", c.name), nd, words, move |t, o| frobenius_direct::<F>(&cc, kmax, t, o)).shrink_iters(40));
    let cc = c.clone();
    out.push(Rel::new(format!("norm-base/{}", c.name), budget(c, tier, 2000), words, move |t, o| base_rel::<F>(&cc, &bt, t, o)));
    let cc = c.clone();
    out.push(Rel::new(format!("cyclotomic/{}", c.name), budget(c, tier, 900), words, move |t, o| cyclo::<F>(&cc, false, t, o)).shrink_iters(400));
    let cc = c.clone();
    out.push(Rel::new(format!("cyclotomic-exp/{}", c.name), budget(c, tier, 260), words + 16, move |t, o| cyclo::<F>(&cc, true, t, o)).shrink_iters(200));
    // deepening round: operand-kind spellings, iterator folds, Field defaults, integer conversions
    let cc = c.clone();
    out.push(Rel::new(format!("ops/{}", c.name), budget(c, tier, 600), 3 * d * (n + 6) + 48, move |t, o| extra::ops::<F>(&cc, t, o)));
    let cc = c.clone();
    let quad_top = c.top == 2;
    out.push(Rel::new(format!("from-int/{}", c.name), budget(c, tier, 1500).min(tier.pick(400, 8000)), 8, move |t, o| extra::from_int::<F>(&cc, quad_top, t, o)));
    // `From<bool>` of the cubic template calls itself (never returns): conversions from bool are not among the operations
    // C02 lists, so nothing is registered for it (DESIGN.md 8.2, observation O9)
}

fn hooks_q<P: QuadExtConfig>(out: &mut Vec<Rel>, c: &Arc<Ctx>, tier: Tier)
where
    P::BaseField: OracleRepr,
{
    let bt = Arc::new(<P::BaseField as OracleRepr>::tower());
    let cc = c.clone();
    let w = 2 * c.d * (c.prime.n + 6) + 16;
    out.push(Rel::new(format!("hooks/{}", c.name), budget(c, tier, 2400), w, move |t, o| extra::hooks_quad::<P>(&cc, &bt, t, o)));
}

fn hooks_c<P: CubicExtConfig>(out: &mut Vec<Rel>, c: &Arc<Ctx>, tier: Tier)
where
    P::BaseField: OracleRepr,
{
    let bt = Arc::new(<P::BaseField as OracleRepr>::tower());
    let cc = c.clone();
    let w = 2 * c.d * (c.prime.n + 6) + 16;
    out.push(Rel::new(format!("hooks/{}", c.name), budget(c, tier, 2400), w, move |t, o| extra::hooks_cubic::<P>(&cc, &bt, t, o)));
}

fn fp2_rels<P: Fp2Config>(out: &mut Vec<Rel>, name: &str, tier: Tier)
where
    P::Fp: OracleRepr,
{
    let c = Ctx::new::<Fp2<P>>(name);
    common::<Fp2<P>>(out, &c, tier);
    let w = 2 * c.d * (c.prime.n + 6) + 32;
    let cc = c.clone();
    out.push(Rel::new(format!("sparse/{}", name), budget(&c, tier, 6000), w, move |t, o| sparse_fp2::<P>(&cc, t, o)));
    hooks_q::<ark_ff::fields::Fp2ConfigWrapper<P>>(out, &c, tier);
}

fn fp3_rels<P: Fp3Config>(out: &mut Vec<Rel>, name: &str, tier: Tier)
where
    P::Fp: OracleRepr,
{
    let c = Ctx::new::<Fp3<P>>(name);
    common::<Fp3<P>>(out, &c, tier);
    let w = 2 * c.d * (c.prime.n + 6) + 32;
    let cc = c.clone();
    out.push(Rel::new(format!("sparse/{}", name), budget(&c, tier, 6000), w, move |t, o| sparse_fp3::<P>(&cc, t, o)));
    hooks_c::<ark_ff::fields::Fp3ConfigWrapper<P>>(out, &c, tier);
}

fn fp4_rels<P: Fp4Config>(out: &mut Vec<Rel>, name: &str, tier: Tier)
where
    <P::Fp2Config as Fp2Config>::Fp: OracleRepr,
{
    let c = Ctx::new::<Fp4<P>>(name);
    common::<Fp4<P>>(out, &c, tier);
    let w = 2 * c.d * (c.prime.n + 6) + 32;
    let t2 = Arc::new(<Fp2<P::Fp2Config> as OracleRepr>::tower());
    let cc = c.clone();
    out.push(Rel::new(format!("sparse/{}", name), budget(&c, tier, 6000), w, move |t, o| sparse_fp4::<P>(&cc, &t2, t, o)));
    hooks_q::<ark_ff::fields::Fp4ConfigWrapper<P>>(out, &c, tier);
}

fn fp6q_rels<P: f6q::Fp6Config>(out: &mut Vec<Rel>, name: &str, tier: Tier)
where
    <P::Fp3Config as Fp3Config>::Fp: OracleRepr,
{
    let c = Ctx::new::<f6q::Fp6<P>>(name);
    common::<f6q::Fp6<P>>(out, &c, tier);
    let w = 2 * c.d * (c.prime.n + 6) + 32;
    let cc = c.clone();
    out.push(Rel::new(format!("sparse/{}", name), budget(&c, tier, 6000), w, move |t, o| sparse_fp6q::<P>(&cc, t, o)));
    hooks_q::<f6q::Fp6ConfigWrapper<P>>(out, &c, tier);
}

fn fp6c_rels<P: Fp6Config>(out: &mut Vec<Rel>, name: &str, tier: Tier)
where
    <P::Fp2Config as Fp2Config>::Fp: OracleRepr,
{
    let c = Ctx::new::<Fp6<P>>(name);
    common::<Fp6<P>>(out, &c, tier);
    let w = 2 * c.d * (c.prime.n + 6) + 32;
    let t2 = Arc::new(<Fp2<P::Fp2Config> as OracleRepr>::tower());
    let cc = c.clone();
    out.push(Rel::new(format!("sparse/{}", name), budget(&c, tier, 6000), w, move |t, o| sparse_fp6c::<P>(&cc, &t2, t, o)));
    hooks_c::<ark_ff::fields::Fp6ConfigWrapper<P>>(out, &c, tier);
    // `Fp6Config::mul_fp2_by_nonresidue` (by value) is not routed through the wrapper; Fp12's cyclotomic squaring uses it
    let t2 = Arc::new(<Fp2<P::Fp2Config> as OracleRepr>::tower());
    let cc = c.clone();
    out.push(Rel::new(format!("hooks-fp6/{}", name), budget(&c, tier, 3000), w, move |t, o| {
        let b = gen_block(t, &cc, 2);
        let ye = t2.unflatten(&b);
        o.show(|| format!("{}: mul_fp2_by_nonresidue({})", cc.name, show(&ye)));
        o.nt(!t2.is_zero(&ye));
        o.evals(2);
        let want = t2.mul(&P::NONRESIDUE.to_o(), &ye);
        let y = blk::<Fp2<P::Fp2Config>>(&t2, &b);
        chk(&P::mul_fp2_by_nonresidue(y), &want, "mul_fp2_by_nonresidue")?;
        let mut v = y;
        P::mul_fp2_by_nonresidue_in_place(&mut v);
        chk(&v, &want, "mul_fp2_by_nonresidue_in_place")
    }));
}

fn fp12_rels<P: Fp12Config>(out: &mut Vec<Rel>, name: &str, tier: Tier)
where
    Fp12Fp<P>: OracleRepr,
{
    let c = Ctx::new::<Fp12<P>>(name);
    common::<Fp12<P>>(out, &c, tier);
    let w = 2 * c.d * (c.prime.n + 6) + 32;
    let t2 = Arc::new(<Fp12Fp2<P> as OracleRepr>::tower());
    let cc = c.clone();
    out.push(Rel::new(format!("sparse/{}", name), budget(&c, tier, 6000), w, move |t, o| sparse_fp12::<P>(&cc, &t2, t, o)));
    hooks_q::<ark_ff::fields::Fp12ConfigWrapper<P>>(out, &c, tier);
}

fn relations(tier: Tier) -> Vec<Rel> {
    let mut out = Vec::new();
    // heavy towers first (the engine hands relations to threads in order)
    fp12_rels::<ark_bls12_381::Fq12Config>(&mut out, "bls12_381.Fq12", tier);
    fp12_rels::<ark_bls12_377::Fq12Config>(&mut out, "bls12_377.Fq12", tier);
    fp12_rels::<ark_bn254::Fq12Config>(&mut out, "bn254.Fq12", tier);
    fp12_rels::<ark_test_curves::bls12_381::Fq12Config>(&mut out, "test.bls12_381.Fq12", tier);
    fp6q_rels::<ark_bw6_761::Fq6Config>(&mut out, "bw6_761.Fq6", tier);
    fp6q_rels::<ark_bw6_767::Fq6Config>(&mut out, "bw6_767.Fq6", tier);
    fp6q_rels::<ark_cp6_782::Fq6Config>(&mut out, "cp6_782.Fq6", tier);
    fp6q_rels::<ark_mnt6_753::Fq6Config>(&mut out, "mnt6_753.Fq6", tier);
    fp6q_rels::<ark_mnt6_298::Fq6Config>(&mut out, "mnt6_298.Fq6", tier);
    fp4_rels::<ark_mnt4_753::Fq4Config>(&mut out, "mnt4_753.Fq4", tier);
    fp4_rels::<ark_mnt4_298::Fq4Config>(&mut out, "mnt4_298.Fq4", tier);
    fp6c_rels::<ark_bls12_381::Fq6Config>(&mut out, "bls12_381.Fq6", tier);
    fp6c_rels::<ark_bls12_377::Fq6Config>(&mut out, "bls12_377.Fq6", tier);
    fp6c_rels::<ark_bn254::Fq6Config>(&mut out, "bn254.Fq6", tier);
    fp6c_rels::<ark_test_curves::bls12_381::Fq6Config>(&mut out, "test.bls12_381.Fq6", tier);
    fp3_rels::<ark_bw6_761::Fq3Config>(&mut out, "bw6_761.Fq3", tier);
    fp3_rels::<ark_bw6_767::Fq3Config>(&mut out, "bw6_767.Fq3", tier);
    fp3_rels::<ark_cp6_782::Fq3Config>(&mut out, "cp6_782.Fq3", tier);
    fp3_rels::<ark_mnt6_753::Fq3Config>(&mut out, "mnt6_753.Fq3", tier);
    fp3_rels::<ark_mnt6_298::Fq3Config>(&mut out, "mnt6_298.Fq3", tier);
    fp3_rels::<ark_test_curves::mnt6_753::Fq3Config>(&mut out, "test.mnt6_753.Fq3", tier);
    fp2_rels::<ark_mnt4_753::Fq2Config>(&mut out, "mnt4_753.Fq2", tier);
    fp2_rels::<ark_mnt4_298::Fq2Config>(&mut out, "mnt4_298.Fq2", tier);
    fp2_rels::<ark_bls12_381::Fq2Config>(&mut out, "bls12_381.Fq2", tier);
    fp2_rels::<ark_bls12_377::Fq2Config>(&mut out, "bls12_377.Fq2", tier);
    fp2_rels::<ark_bn254::Fq2Config>(&mut out, "bn254.Fq2", tier);
    fp2_rels::<ark_test_curves::bls12_381::Fq2Config>(&mut out, "test.bls12_381.Fq2", tier);
    toy::relations(&mut out, tier);
    // towers over zoo prime fields with unusual modulus shapes / hand-written configurations
    macro_rules! z2 {
        ($cfg:ty, $name:expr) => {
            fp2_rels::<$cfg>(&mut out, $name, tier);
        };
    }
    for_each_zoo_fp2!(z2);
    macro_rules! z3 {
        ($cfg:ty, $name:expr) => {
            fp3_rels::<$cfg>(&mut out, $name, tier);
        };
    }
    for_each_zoo_fp3!(z3);
    out.push(Rel::new("char-mod-6/characteristic_square_mod_6_is_one", tier.pick(4000, 80000), 20, |t, o| extra::char_mod_6(t, o)));
    out
}

fn main() {
    vh_core::engine::main(PropSpec {
        id: "C02",
        rule: "Elements are built per prime-field coordinate (raw Montgomery limbs) from the edge-biased prime-field strategy with structural classes: zero, one, prime-subfield, coordinate-aligned proper subfield, single non-zero coordinate, the unit (or -1) plus one or two further non-zero coordinates, sparse, dense; second operands are independent or correlated (a, -a, 1/a, conjugate); sparse operands of mul_by_034/014/01/1/fp/fp2 are drawn per coefficient (zero, one, edge values) and embedded at the coordinates their name denotes; cyclotomic elements are produced by the oracle as x^((p^(d/2)-1)(p^(d/6)+1)) and their membership is re-checked with the oracle Frobenius; cyclotomic exponents include all-ones limbs, top-heavy limbs, leading zero limbs, empty, 3..8-limb exponents and runs of ones that cross one or two limb boundaries (followed by up to two zero limbs). Over all 27 shipped tower types (Fp2 x6, Fp3 x6, Fp4 x2, Fp6-2over3 x5, Fp6-3over2 x4, Fp12 x4), toy towers over p = 7, 13 (all ordered pairs / all elements) and 15 towers (Fp2 x10, Fp3 x5) over zoo prime fields with modulus shapes no shipped tower has (64/128/256-bit moduli without spare bit, top limb exactly 2^63, full width, two-adicity 32 and 47, hand-written MontConfig with trait-default arithmetic). Deepening round, per tower: ops/ = every operand-kind spelling of + - * / and the compound assignments not used by arith/ (&a op b, &a op &b, a op &mut b, &a op &mut b, x op= &mut b, x /= b), Sum/Product over owned and borrowed iterators (also empty), sum_of_products of length 0, 1, 3, 4, pow and pow_with_table (tables of 0..69 oracle-built powers: Some iff the exponent fits) with 0..2-limb edge exponents; from-int/ = From<u8..u128>, From<i8..i128> of edge bit patterns, MAX and MIN (negative values must give -|v|), From<bool> for quadratic tops (the cubic template's From<bool> never returns - observation O9 in DESIGN.md, outside the listed operations, not checked); hooks/ = the overridable configuration hooks mul_base_field_by_nonresidue_in_place/_and_add/_plus_one_and_add, sub_and_mul_base_field_by_nonresidue, mul_base_field_by_nonresidue, mul_fp2_by_nonresidue and mul_base_field_by_frob_coeff called directly (base-field operands from the edge strategy; Frobenius powers 0..2d+1, huge multiples of d plus a remainder, near usize::MAX) against beta*y, x+beta*y, x+beta*y+y, x-beta*y and the coefficient of w^(p^k) read off the oracle Frobenius; char-mod-6/ = characteristic_square_mod_6_is_one on 0..13 limbs against BigUint. Every result is compared coordinate-wise (and for canonicity) with schoolbook arithmetic modulo the defining binomials built from BigUint arithmetic and the NONRESIDUE constants only; Frobenius by x -> x^p (linear extension of the schoolbook powers of the basis, cross-checked against the direct schoolbook power). A case is non-trivial when every tower operand is outside {0,1} (it then has at least two non-zero coordinates or belongs to one of the structural classes above); for cyclotomic relations when the subgroup element is not 1. distinct = distinct decoded choice sequences.",
        assumptions: &[
            "num-bigint arithmetic is correct (oracle)",
            "NONRESIDUE constants of the shipped configurations define the intended fields (the oracle reads them; irreducibility is implied by the oracle check x^(p^d) = x and the inverse checks)",
            "prime-field arithmetic is the subject of C01",
        ],
        relations,
    })
}
