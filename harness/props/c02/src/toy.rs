//! Toy towers over p = 7 and p = 13: the random relations of the shipped towers plus exhaustive enumeration
//! (all ordered pairs of the quadratic/cubic toy fields, all elements for the unary relations).
#[path = "toy_cfg.rs"]
pub mod cfg;

use crate::orc::Ctx;
use crate::{arith_on, base_on, cyclo_on, frobenius_on, show, Ext};
use ark_ff::fields::fp6_2over3 as f6q;
use ark_ff::fields::{CyclotomicMultSubgroup, Fp12, Fp2, Fp3, Fp4, Fp6};
use num_bigint::BigUint;
use std::sync::Arc;
use vh_core::engine::{Obs, Rel, Tape, Tier, R};
use vh_core::tower::{Elem, OracleRepr, Tower};

fn exact_elem(t: &mut Tape<'_>, c: &Ctx, tw: &Tower) -> Elem {
    let p = c.p.to_u64_digits()[0];
    let co: Vec<BigUint> = (0..tw.degree()).map(|_| BigUint::from(t.below(p))).collect();
    tw.unflatten(&co)
}

/// tape = coordinates of a, coordinates of b, scalar
fn pairs<F: OracleRepr>(c: &Ctx, t: &mut Tape<'_>, o: &mut Obs) -> R
where
    F::BasePrimeField: OracleRepr,
{
    let a = exact_elem(t, c, &c.tw);
    let b = exact_elem(t, c, &c.tw);
    let s = BigUint::from(t.below(c.p.to_u64_digits()[0]));
    o.show(|| format!("{}: a={} b={} s={}", c.name, show(&a), show(&b), s));
    arith_on::<F>(c, &a, &b, &s, o)
}

const EXPS: [&[u64]; 8] = [&[u64::MAX], &[3], &[0xffff_ffff], &[u64::MAX, u64::MAX], &[1 << 63], &[0xc000_0000_0000_0001], &[], &[5, 0]];

/// tape = coordinates of a, selector word
fn unary<F: Ext + CyclotomicMultSubgroup>(c: &Ctx, bt: &Tower, t: &mut Tape<'_>, o: &mut Obs) -> R
where
    F::BasePrimeField: OracleRepr,
{
    let a = exact_elem(t, c, &c.tw);
    let be = exact_elem(t, c, bt);
    let w = t.u64();
    o.show(|| format!("{}: unary relations on a={} (base element {}, selector {})", c.name, show(&a), show(&be), w));
    // second operand derived from a: a^p + 1
    let b = c.tw.add(&c.frob1(&a), &c.tw.one());
    arith_on::<F>(c, &a, &b, &BigUint::from(w % 13), o)?;
    frobenius_on::<F>(c, &a, c.d + 2 + (w % 5) as usize, o)?;
    base_on::<F>(c, bt, &a, &be, o)?;
    if !c.tw.is_zero(&a) {
        cyclo_on::<F>(c, &a, Some(EXPS[(w % 8) as usize]), o)?;
    }
    Ok(())
}

fn all_tapes(p: u64, n: usize, extra: usize) -> Box<dyn Iterator<Item = Vec<u64>>> {
    // all vectors in [0,p)^n, followed by `extra` words derived from the index
    let total = p.pow(n as u32);
    Box::new((0..total).map(move |mut i| {
        let idx = i;
        let mut v = Vec::with_capacity(n + extra);
        for _ in 0..n {
            v.push(i % p);
            i /= p;
        }
        for k in 0..extra {
            v.push(idx.wrapping_mul(0x9e37_79b9_7f4a_7c15).rotate_left(17 * (k as u32 + 1)) >> 7);
        }
        v
    }))
}

fn toy_rels<F>(out: &mut Vec<Rel>, name: &str, tier: Tier, pairs_in: Option<Tier>, unary_in: Option<Tier>)
where
    F: Ext + CyclotomicMultSubgroup,
    F::BasePrimeField: OracleRepr,
{
    let c: Arc<Ctx> = Ctx::new::<F>(name);
    let p = c.p.to_u64_digits()[0];
    let d = c.d;
    let enabled = |x: Option<Tier>| matches!(x, Some(Tier::Quick)) || (x.is_some() && tier == Tier::Thorough);
    if enabled(pairs_in) {
        let cc = c.clone();
        out.push(Rel::new(format!("exhaustive-pairs/{}", name), 0, 2 * d + 1, move |t, o| pairs::<F>(&cc, t, o)).exhaustive(move || all_tapes(p, 2 * d, 1)));
    }
    if enabled(unary_in) {
        let cc = c.clone();
        let bt = Arc::new(<F::Base as OracleRepr>::tower());
        let bd = bt.degree();
        out.push(
            Rel::new(format!("exhaustive-unary/{}", name), 0, d + bd + 1, move |t, o| unary::<F>(&cc, &bt, t, o))
                .exhaustive(move || all_tapes(p, d, bd + 1)),
        );
    }
}

pub fn relations(out: &mut Vec<Rel>, tier: Tier) {
    use cfg::*;
    let q = Some(Tier::Quick);
    let th = Some(Tier::Thorough);
    toy_rels::<Fp12<S12_13>>(out, "toy.Fp12_13", tier, None, None);
    toy_rels::<Fp12<S12_7>>(out, "toy.Fp12_7", tier, None, None);
    toy_rels::<Fp6<S6c_13>>(out, "toy.Fp6c_13", tier, None, None);
    toy_rels::<Fp6<S6c_7>>(out, "toy.Fp6c_7", tier, None, th);
    toy_rels::<f6q::Fp6<S6q_13>>(out, "toy.Fp6q_13", tier, None, None);
    toy_rels::<Fp4<Q4_13>>(out, "toy.Fp4_13", tier, None, q);
    toy_rels::<Fp3<C13>>(out, "toy.Fp3_13", tier, None, q);
    toy_rels::<Fp3<C7>>(out, "toy.Fp3_7", tier, th, q);
    toy_rels::<Fp2<Q13>>(out, "toy.Fp2_13", tier, q, q);
    toy_rels::<Fp2<Q7>>(out, "toy.Fp2_7", tier, q, q);
    // the random relations (common + family-specific sparse multiplications)
    crate::fp12_rels::<S12_13>(out, "toy.Fp12_13", tier);
    crate::fp12_rels::<S12_7>(out, "toy.Fp12_7", tier);
    crate::fp6c_rels::<S6c_13>(out, "toy.Fp6c_13", tier);
    crate::fp6c_rels::<S6c_7>(out, "toy.Fp6c_7", tier);
    crate::fp6q_rels::<S6q_13>(out, "toy.Fp6q_13", tier);
    crate::fp4_rels::<Q4_13>(out, "toy.Fp4_13", tier);
    crate::fp3_rels::<C13>(out, "toy.Fp3_13", tier);
    crate::fp3_rels::<C7>(out, "toy.Fp3_7", tier);
    crate::fp2_rels::<Q13>(out, "toy.Fp2_13", tier);
    crate::fp2_rels::<Q7>(out, "toy.Fp2_7", tier);
}
