//! Oracle-side helpers for C02 (no arkworks arithmetic in here): per-tower context, Frobenius by
//! F_p-linearity from `e_i^p` (each computed once by the schoolbook power), inverse by solving the
//! linear system `a * v = 1` over F_p, generators of structured elements.
#![allow(dead_code)]
use num_bigint::BigUint;
use num_traits::{One, Zero};
use std::sync::{Arc, OnceLock};
use vh_core::engine::Tape;
use vh_core::gen::edge_value;
use vh_core::modint::*;
use vh_core::tower::{edge_elem, Elem, OracleRepr, Tower};

pub struct Ctx {
    pub name: String,
    pub tw: Tower,
    pub prime: FieldCtx,
    /// degree over the prime field
    pub d: usize,
    pub p: BigUint,
    /// degree of the top extension step (2 or 3) and of the field below it
    pub top: usize,
    pub base_d: usize,
    /// flat prefix lengths of the coordinate-aligned proper subfields (c0-chains): e.g. [1, 2, 6] for Fp12
    pub prefixes: Vec<usize>,
    /// frob[i] = flat coordinates of e_i^p (e_i = i-th element of the flat F_p-basis)
    frob: OnceLock<Vec<Vec<BigUint>>>,
}

fn prefixes_of(t: &Tower) -> Vec<usize> {
    match t {
        Tower::Prime { .. } => vec![],
        Tower::Ext { base, .. } => {
            let mut v = prefixes_of(base);
            v.push(base.degree());
            v
        },
    }
}

impl Ctx {
    pub fn new<F: OracleRepr>(name: &str) -> Arc<Ctx> {
        let tw = F::tower();
        let p = tw.characteristic().clone();
        let mut l = p.to_u64_digits();
        if l.is_empty() {
            l.push(0);
        }
        let (top, base_d) = match &tw {
            Tower::Ext { deg, base, .. } => (*deg, base.degree()),
            _ => (1, 1),
        };
        Arc::new(Ctx {
            name: name.to_string(),
            prime: FieldCtx::new(name, &l),
            d: tw.degree(),
            p,
            top,
            base_d,
            prefixes: prefixes_of(&tw),
            tw,
            frob: OnceLock::new(),
        })
    }

    pub fn basis(&self, i: usize) -> Elem {
        let mut c = vec![BigUint::zero(); self.d];
        c[i] = BigUint::one();
        self.tw.unflatten(&c)
    }

    fn frob_table(&self) -> &Vec<Vec<BigUint>> {
        self.frob.get_or_init(|| (0..self.d).map(|i| self.tw.flatten(&self.tw.pow(&self.basis(i), &self.p))).collect())
    }

    /// x -> x^p, by linearity over F_p: (sum a_i e_i)^p = sum a_i e_i^p
    pub fn frob1(&self, a: &Elem) -> Elem {
        let tab = self.frob_table();
        let c = self.tw.flatten(a);
        let mut out = vec![BigUint::zero(); self.d];
        for i in 0..self.d {
            if c[i].is_zero() {
                continue;
            }
            for j in 0..self.d {
                if !tab[i][j].is_zero() {
                    out[j] += &c[i] * &tab[i][j];
                }
            }
        }
        for x in out.iter_mut() {
            *x %= &self.p;
        }
        self.tw.unflatten(&out)
    }

    /// x -> x^(p^k), k literal applications of `frob1`
    pub fn frob(&self, a: &Elem, k: usize) -> Elem {
        let mut x = a.clone();
        for _ in 0..k {
            x = self.frob1(&x);
        }
        x
    }

    /// inverse by Gaussian elimination of the multiplication-by-a matrix over F_p
    pub fn inv(&self, a: &Elem) -> Option<Elem> {
        if self.tw.is_zero(a) {
            return None;
        }
        let d = self.d;
        let p = &self.p;
        // m[r][c]: column c = flat(a * e_c); augmented with e_0
        let cols: Vec<Vec<BigUint>> = (0..d).map(|c| self.tw.flatten(&self.tw.mul(a, &self.basis(c)))).collect();
        let mut m: Vec<Vec<BigUint>> = (0..d)
            .map(|r| {
                let mut row: Vec<BigUint> = (0..d).map(|c| cols[c][r].clone()).collect();
                row.push(if r == 0 { BigUint::one() } else { BigUint::zero() });
                row
            })
            .collect();
        for c in 0..d {
            let piv = (c..d).find(|&r| !m[r][c].is_zero())?;
            m.swap(c, piv);
            let inv = invm(&m[c][c], p)?;
            for x in m[c].iter_mut() {
                *x = mulm(x, &inv, p);
            }
            for r in 0..d {
                if r != c && !m[r][c].is_zero() {
                    let f = m[r][c].clone();
                    for k in c..=d {
                        let s = mulm(&f, &m[c][k], p);
                        m[r][k] = subm(&m[r][k], &s, p);
                    }
                }
            }
        }
        let v: Vec<BigUint> = (0..d).map(|r| m[r][d].clone()).collect();
        Some(self.tw.unflatten(&v))
    }

    /// Euler's criterion a^((p^d-1)/2) == 1, evaluated exactly as (a^(1+p+...+p^(d-1)))^((p-1)/2): the inner power through
    /// the oracle Frobenius (it lies in the prime field), the outer one by BigUint modpow. Zero counts as a square.
    pub fn euler_is_square(&self, a: &Elem) -> bool {
        if self.tw.is_zero(a) {
            return true;
        }
        let mut n = a.clone();
        let mut cur = a.clone();
        for _ in 1..self.d {
            cur = self.frob1(&cur);
            n = self.tw.mul(&n, &cur);
        }
        let flat = self.tw.flatten(&n);
        assert!(flat[1..].iter().all(|x| x.is_zero()), "oracle: norm to the prime field has non-zero higher coordinates");
        is_square(&flat[0], &self.p)
    }

    pub fn nnz(&self, a: &Elem) -> usize {
        self.tw.flatten(a).iter().filter(|x| !x.is_zero()).count()
    }

    pub fn is_one(&self, a: &Elem) -> bool {
        *a == self.tw.one()
    }

    /// element with the given (slot, coefficients) blocks, `slot_size` prime-field coordinates per slot
    pub fn embed(&self, slot_size: usize, blocks: &[(usize, Vec<BigUint>)]) -> Elem {
        let mut c = vec![BigUint::zero(); self.d];
        for (slot, co) in blocks {
            assert_eq!(co.len(), slot_size);
            for (k, x) in co.iter().enumerate() {
                c[slot * slot_size + k] = x.clone();
            }
        }
        self.tw.unflatten(&c)
    }
}

/// Edge-biased element: the core strategy (zero / one / prime subfield / single coordinate / sparse / dense)
/// plus elements of the coordinate-aligned proper subfields.
pub fn gen_elem(t: &mut Tape<'_>, c: &Ctx) -> (Elem, &'static str) {
    if c.prefixes.len() > 1 && t.chance(3, 16) {
        // prefixes[0] == 1 is the prime subfield, which the core strategy already covers
        let m = c.prefixes[1 + t.idx(c.prefixes.len() - 1)];
        let mut co = vec![BigUint::zero(); c.d];
        for x in co.iter_mut().take(m) {
            *x = edge_value(t, &c.prime).0;
        }
        return (c.tw.unflatten(&co), "proper-subfield");
    }
    if c.d > 1 && t.chance(1, 10) {
        // "almost one" / "almost minus one": the unit plus one or two further non-zero coordinates (what a hand-written
        // `is_one` / identity fast path that forgets a coefficient mistakes for the unit)
        let mut co = vec![BigUint::zero(); c.d];
        co[0] = if t.chance(1, 5) { &c.prime.p - 1u32 } else { BigUint::one() };
        let k = 1 + t.below(2) as usize;
        for _ in 0..k {
            let i = 1 + t.idx(c.d - 1);
            let v = edge_value(t, &c.prime).0;
            co[i] = if v.is_zero() { BigUint::one() } else { v };
        }
        return (c.tw.unflatten(&co), "unit-plus-few-coordinates");
    }
    edge_elem(t, &c.tw, &c.prime)
}

/// a non-zero element (falls back to a basis element chosen by the tape)
pub fn gen_nonzero(t: &mut Tape<'_>, c: &Ctx) -> (Elem, &'static str) {
    let (e, cls) = gen_elem(t, c);
    if c.tw.is_zero(&e) {
        let i = t.idx(c.d);
        (c.basis(i), "basis-element")
    } else {
        (e, cls)
    }
}

/// second operand: independent, or correlated with the first (same, negative, inverse, conjugate over the base)
pub fn gen_second(t: &mut Tape<'_>, c: &Ctx, a: &Elem) -> (Elem, &'static str) {
    if !t.chance(1, 6) {
        return gen_elem(t, c);
    }
    match t.below(4) {
        0 => (a.clone(), "b=a"),
        1 => (c.tw.neg(a), "b=-a"),
        2 => match c.inv(a) {
            Some(i) => (i, "b=1/a"),
            None => (a.clone(), "b=a"),
        },
        _ => (c.frob(a, c.base_d), "b=a^q"),
    }
}

/// sparse-operand coefficient block of `m` prime-field coordinates (zero / one / edge values)
pub fn gen_block(t: &mut Tape<'_>, c: &Ctx, m: usize) -> Vec<BigUint> {
    match t.weighted(&[1, 1, 2, 8]) {
        0 => vec![BigUint::zero(); m],
        1 => {
            let mut v = vec![BigUint::zero(); m];
            v[0] = BigUint::one();
            v
        },
        2 => (0..m).map(|_| if t.bool() { BigUint::zero() } else { edge_value(t, &c.prime).0 }).collect(),
        _ => (0..m).map(|_| edge_value(t, &c.prime).0).collect(),
    }
}
