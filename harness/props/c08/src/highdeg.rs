//! C08, sparse polynomials of very high degree: a few terms at degrees up to 2^61 (x^(2^k) - c, vanishing polynomials of
//! large domains, ...). The dense coefficient-vector model of the other relations cannot represent them, so the model here
//! is a `BTreeMap<degree, non-zero coefficient>` and values are `sum c * x^d` with `Field::pow` (field arithmetic, C01).
//! Every sparse operator is run on such operands: constructors (any term order), `degree`, `is_zero`, `evaluate`,
//! `+` (owned / by reference), `+=`, `-=`, `+= (f, ·)`, `-`, `* F`, `SparsePolynomial::mul`, `evaluate_over_domain(_by_ref)`,
//! `DenseOrSparsePolynomial::{degree, is_zero}`; results must be canonical (strictly increasing degrees, no zero term).
use super::*;
use std::collections::BTreeMap;

type Map<F> = BTreeMap<usize, F>;

/// degrees around the places where the bit length changes, and anything below 2^61
fn gen_degree(t: &mut Tape<'_>) -> usize {
    match t.weighted(&[2, 4, 2, 2]) {
        0 => t.below(8) as usize,
        1 => {
            let a = 1 + t.below(61);
            let x = 1u64 << a;
            match t.below(4) {
                0 => x,
                1 => x - 1,
                2 => x + 1,
                _ => x + t.below(x),
            }
            .min(1 << 61) as usize
        },
        2 => (t.u64() >> (3 + t.below(40))) as usize,
        _ => t.below(200) as usize,
    }
}

fn gen_map<F: PrimeField>(t: &mut Tape<'_>) -> Map<F> {
    let k = match t.weighted(&[1, 2, 3, 3]) {
        0 => 0,
        1 => 1,
        2 => 2,
        _ => 3 + t.below(5) as usize,
    };
    let mut m = Map::new();
    for _ in 0..k {
        let d = gen_degree(t);
        m.insert(d, nonzero(tape_coeff::<F>(t)));
    }
    m
}

/// a second operand that shares degrees with the first (equal, opposite or fresh coefficients) so that terms meet
fn gen_related<F: PrimeField>(t: &mut Tape<'_>, a: &Map<F>, f: F) -> (Map<F>, &'static str) {
    match t.weighted(&[3, 3, 1, 1, 1, 1]) {
        0 => (gen_map(t), "hd-pair=independent"),
        1 => {
            let mut b = gen_map::<F>(t);
            for (d, c) in a {
                match t.below(4) {
                    0 => {
                        b.insert(*d, -*c);
                    },
                    1 => {
                        b.insert(*d, *c);
                    },
                    2 => {
                        b.insert(*d, nonzero(tape_coeff::<F>(t)));
                    },
                    _ => {},
                }
            }
            (b, "hd-pair=shared degrees")
        },
        2 => (a.iter().map(|(d, c)| (*d, -*c)).collect(), "hd-pair=b=-a"),
        3 => (a.clone(), "hd-pair=b=a"),
        4 => match f.inverse() {
            Some(fi) => (a.iter().map(|(d, c)| (*d, -(*c * fi))).collect(), "hd-pair=b=-a/f"),
            None => (gen_map(t), "hd-pair=independent"),
        },
        _ => (Map::new(), "hd-pair=b=0"),
    }
}

fn build<F: PrimeField>(t: &mut Tape<'_>, m: &Map<F>) -> SparsePolynomial<F> {
    let mut terms: Vec<(usize, F)> = m.iter().map(|(d, c)| (*d, *c)).collect();
    match t.below(3) {
        0 => {},
        1 => terms.reverse(),
        _ => {
            let seed = t.u64();
            for i in (1..terms.len()).rev() {
                let j = (mix(seed ^ i as u64) % (i as u64 + 1)) as usize;
                terms.swap(i, j);
            }
        },
    }
    if t.bool() {
        SparsePolynomial::from_coefficients_slice(&terms)
    } else {
        SparsePolynomial::from_coefficients_vec(terms)
    }
}

fn m_add<F: PrimeField>(a: &Map<F>, fa: F, b: &Map<F>, fb: F) -> Map<F> {
    let mut r = Map::new();
    for (m, f) in [(a, fa), (b, fb)] {
        for (d, c) in m {
            *r.entry(*d).or_insert_with(F::zero) += *c * f;
        }
    }
    r.retain(|_, c| !c.is_zero());
    r
}

fn m_mul<F: PrimeField>(a: &Map<F>, b: &Map<F>) -> Map<F> {
    let mut r = Map::new();
    for (i, x) in a {
        for (j, y) in b {
            *r.entry(i + j).or_insert_with(F::zero) += *x * y;
        }
    }
    r.retain(|_, c| !c.is_zero());
    r
}

fn m_eval<F: PrimeField>(m: &Map<F>, x: &F) -> F {
    m.iter().map(|(d, c)| *c * x.pow([*d as u64])).sum()
}

fn show<F: PrimeField>(m: &Map<F>) -> String {
    if m.is_empty() {
        return "0".into();
    }
    let v: Vec<String> = m
        .iter()
        .rev()
        .take(5)
        .map(|(d, c)| {
            let cs = c.to_string();
            format!("{}·x^{}", if cs.len() > 10 { format!("{}…", &cs[..8]) } else { cs }, d)
        })
        .collect();
    format!("[{}{}]", v.join(" + "), if m.len() > 5 { " + …" } else { "" })
}

fn chk<F: PrimeField>(op: &str, p: &SparsePolynomial<F>, want: &Map<F>, pts: &[F]) -> R {
    let terms: &[(usize, F)] = p;
    let mut got = Map::new();
    for (d, c) in terms {
        *got.entry(*d).or_insert_with(F::zero) += c;
    }
    got.retain(|_, c| !c.is_zero());
    if got != *want {
        return Err(err(format!("{}.value", op), format!("{}: got {} expected {}", op, show(&got), show(want))));
    }
    for w in terms.windows(2) {
        ensure!(w[0].0 < w[1].0, format!("{}.noncanonical", op), "{}: term degrees not strictly increasing ({} then {})", op, w[0].0, w[1].0);
    }
    for (d, c) in terms {
        ensure!(!c.is_zero(), format!("{}.noncanonical", op), "{}: explicit zero coefficient at degree {}", op, d);
    }
    let d = no_panic(&format!("{}.degree", op), || p.degree())?;
    let wd = want.keys().next_back().copied().unwrap_or(0);
    ensure!(d == wd, format!("{}.degree", op), "{}: degree() = {} expected {}", op, d, wd);
    ensure!(p.is_zero() == want.is_empty(), format!("{}.is_zero", op), "{}: is_zero() = {}", op, p.is_zero());
    for x in pts {
        let v = no_panic(&format!("{}.evaluate", op), || p.evaluate(x))?;
        let w = m_eval(want, x);
        ensure!(v == w, format!("{}.evaluate", op), "{}: result {} evaluates to {} at {}, expected {}", op, show(want), v, x, w);
    }
    Ok(())
}

pub(crate) fn highdeg_rel<F: PrimeField>(field: &'static str, t: &mut Tape<'_>, o: &mut Obs) -> R {
    let f = tape_coeff::<F>(t);
    let am = gen_map::<F>(t);
    let (bm, pc) = gen_related::<F>(t, &am, f);
    let a = build(t, &am);
    let b = build(t, &bm);
    let pts = points::<F>(t);
    o.show(|| format!("{}: sparse a={} b={} f={} [{}]", field, show(&am), show(&bm), f, pc));
    let amax = am.keys().next_back().copied().unwrap_or(0);
    let bmax = bm.keys().next_back().copied().unwrap_or(0);
    o.class(pc);
    o.class_if(amax >= 1 << 16, "hd: degree >= 2^16");
    o.class_if(amax >= 1 << 32, "hd: degree >= 2^32");
    o.class_if(amax.is_power_of_two() && amax > 8, "hd: degree a power of two");
    o.class_if((amax + 1).is_power_of_two() && amax > 8, "hd: degree 2^k - 1");
    o.nt(am.len() >= 2 && amax >= 1 << 16);
    o.evals(12);
    let sum = m_add(&am, F::one(), &bm, F::one());
    let dif = m_add(&am, F::one(), &bm, -F::one());
    let sadd = m_add(&am, F::one(), &bm, f);
    o.class_if(!am.is_empty() && !bm.is_empty() && sum.len() < am.len().max(bm.len()), "hd: terms cancel");
    chk("hd.from_coefficients", &a, &am, &pts)?;
    chk("hd.from_coefficients", &b, &bm, &pts[3..])?;
    chk("hd.add", &no_panic("hd.add", || &a + &b)?, &sum, &pts)?;
    chk("hd.add.owned", &no_panic("hd.add.owned", || a.clone() + b.clone())?, &sum, &[])?;
    chk("hd.neg", &no_panic("hd.neg", || -a.clone())?, &m_add(&am, -F::one(), &Map::new(), F::one()), &pts[3..])?;
    chk("hd.scale", &no_panic("hd.scale", || &a * f)?, &m_add(&am, f, &Map::new(), F::one()), &pts[3..])?;
    let mut x = a.clone();
    no_panic("hd.add_assign", || x += &b)?;
    chk("hd.add_assign", &x, &sum, &[])?;
    let mut x = a.clone();
    no_panic("hd.sub_assign", || x -= &b)?;
    chk("hd.sub_assign", &x, &dif, &pts[3..])?;
    let mut x = a.clone();
    no_panic("hd.add_assign_scaled", || x += (f, &b))?;
    chk("hd.add_assign_scaled", &x, &sadd, &pts[3..])?;
    // product (degrees add: operands stay below 2^61, so the sum stays below 2^62)
    let prod = m_mul(&am, &bm);
    chk("hd.sparse_mul", &no_panic("hd.sparse_mul", || a.mul(&b))?, &prod, &pts[3..])?;
    // DenseOrSparsePolynomial view
    let v = DenseOrSparsePolynomial::from(&a);
    ensure_eq!(v.is_zero(), am.is_empty(), "hd.dos.is_zero");
    ensure_eq!(no_panic("hd.dos.degree", || v.degree())?, amax, "hd.dos.degree");
    let _ = bmax;
    // evaluation over a small domain: one `evaluate` per element
    if F::TWO_ADICITY >= 1 {
        let n = 1usize << t.below(F::TWO_ADICITY.min(4) as u64 + 1);
        let d0 = GeneralEvaluationDomain::<F>::new(n).ok_or_else(|| err("hd.domain".into(), format!("no domain of size {}", n)))?;
        let h = match t.below(3) {
            0 => F::one(),
            1 => F::GENERATOR,
            _ => nonzero(tape_coeff::<F>(t)),
        };
        let d = d0.get_coset(h).ok_or_else(|| err("hd.domain".into(), "get_coset".into()))?;
        let mut e = h;
        let mut want = Vec::with_capacity(n);
        for _ in 0..d.size() {
            want.push(m_eval(&am, &e));
            e *= d0.group_gen();
        }
        let ev = no_panic("hd.evaluate_over_domain_by_ref", || a.evaluate_over_domain_by_ref(d))?;
        ensure!(ev.evals == want, "hd.evaluate_over_domain_by_ref", "sparse {} over a coset (h={}) of size {}", show(&am), h, d.size());
        let ev = no_panic("hd.evaluate_over_domain", || a.clone().evaluate_over_domain(d))?;
        ensure!(ev.evals == want, "hd.evaluate_over_domain", "owned sparse {} over a coset (h={}) of size {}", show(&am), h, d.size());
    }
    Ok(())
}
