//! C08 — univariate polynomial arithmetic is ring arithmetic on canonical representations.
use ark_ff::{FftField, Field, PrimeField, Zero};
use ark_poly::univariate::{DenseOrSparsePolynomial, DensePolynomial, SparsePolynomial};
use ark_poly::{
    DenseUVPolynomial, EvaluationDomain, Evaluations, GeneralEvaluationDomain, MixedRadixEvaluationDomain, Polynomial,
    Radix2EvaluationDomain,
};
use ark_std::rand::SeedableRng;
use vh_core::engine::{no_panic, Obs, PropSpec, Rel, Tape, Tier, R};
use vh_core::{ensure, ensure_eq, Fail};

// ---------------------------------------------------------------------------------------------------------
// the model: canonical coefficient vectors (index = degree, no trailing zero), schoolbook operations
// ---------------------------------------------------------------------------------------------------------

type M<F> = Vec<F>;

fn canon<F: Field>(mut v: Vec<F>) -> M<F> {
    while v.last().map_or(false, |c| c.is_zero()) {
        v.pop();
    }
    v
}
fn m_add<F: Field>(a: &[F], b: &[F]) -> M<F> {
    let n = a.len().max(b.len());
    let mut r = vec![F::zero(); n];
    for i in 0..n {
        if i < a.len() {
            r[i] += a[i];
        }
        if i < b.len() {
            r[i] += b[i];
        }
    }
    canon(r)
}
fn m_neg<F: Field>(a: &[F]) -> M<F> {
    a.iter().map(|c| -*c).collect()
}
fn m_scale<F: Field>(a: &[F], f: F) -> M<F> {
    canon(a.iter().map(|c| *c * f).collect())
}
fn m_sub<F: Field>(a: &[F], b: &[F]) -> M<F> {
    m_add(a, &m_neg(b))
}
fn m_mul<F: Field>(a: &[F], b: &[F]) -> M<F> {
    if a.is_empty() || b.is_empty() {
        return vec![];
    }
    let mut r = vec![F::zero(); a.len() + b.len() - 1];
    for (i, x) in a.iter().enumerate() {
        if x.is_zero() {
            continue;
        }
        for (j, y) in b.iter().enumerate() {
            r[i + j] += *x * y;
        }
    }
    canon(r)
}
/// long division; `b` canonical and non-zero
fn m_divrem<F: Field>(a: &[F], b: &[F]) -> (M<F>, M<F>) {
    assert!(!b.is_empty());
    let mut r: Vec<F> = a.to_vec();
    if a.len() < b.len() {
        return (vec![], canon(r));
    }
    let db = b.len() - 1;
    let li = b[db].inverse().unwrap();
    let mut q = vec![F::zero(); a.len() - db];
    for k in (0..q.len()).rev() {
        let c = r[k + db] * li;
        q[k] = c;
        if !c.is_zero() {
            for (j, y) in b.iter().enumerate() {
                r[k + j] -= c * y;
            }
        }
    }
    r.truncate(db);
    (canon(q), canon(r))
}
fn m_eval<F: Field>(a: &[F], x: &F) -> F {
    let mut acc = F::zero();
    for c in a.iter().rev() {
        acc *= x;
        acc += c;
    }
    acc
}
fn m_deg<F>(a: &[F]) -> usize {
    a.len().saturating_sub(1)
}

// ---------------------------------------------------------------------------------------------------------
// generators
// ---------------------------------------------------------------------------------------------------------

fn mix(x: u64) -> u64 {
    let mut z = x.wrapping_add(0x9e3779b97f4a7c15);
    z = (z ^ (z >> 30)).wrapping_mul(0xbf58476d1ce4e5b9);
    z = (z ^ (z >> 27)).wrapping_mul(0x94d049bb133111eb);
    z ^ (z >> 31)
}

/// field element number `i` of the stream expanded from the tape word `seed` (a pure function of the tape)
fn stream_felt<F: PrimeField>(seed: u64, i: u64) -> F {
    let nb = (F::MODULUS_BIT_SIZE as usize + 7) / 8 + 8;
    let mut bytes = Vec::with_capacity(nb + 8);
    let mut x = mix(seed ^ mix(i.wrapping_mul(0xa24baed4963ee407)));
    while bytes.len() < nb {
        x = mix(x);
        bytes.extend_from_slice(&x.to_le_bytes());
    }
    bytes.truncate(nb);
    F::from_le_bytes_mod_order(&bytes)
}

fn nonzero<F: PrimeField>(x: F) -> F {
    if x.is_zero() {
        F::one()
    } else {
        x
    }
}

/// edge-biased coefficient decoded from the tape
fn tape_coeff<F: PrimeField>(t: &mut Tape<'_>) -> F {
    match t.weighted(&[3, 2, 2, 3, 5]) {
        0 => F::zero(),
        1 => F::one(),
        2 => -F::one(),
        3 => F::from(t.below(16)),
        _ => {
            let s = t.u64();
            stream_felt::<F>(s, 0)
        },
    }
}

/// a canonical coefficient vector of exactly `len` entries (leading coefficient non-zero)
fn fill<F: PrimeField>(t: &mut Tape<'_>, len: usize) -> M<F> {
    if len == 0 {
        return vec![];
    }
    let style = t.weighted(&[4, 3, 2, 2]);
    let seed = t.u64();
    let mut v: Vec<F> = (0..len as u64)
        .map(|i| {
            let w = mix(seed ^ i.wrapping_mul(0x9e3779b1));
            match style {
                0 => stream_felt::<F>(seed, i),
                1 => match w % 8 {
                    0 | 1 => F::zero(),
                    2 => F::one(),
                    3 => -F::one(),
                    4 => F::from((w >> 8) % 9),
                    _ => stream_felt::<F>(seed, i),
                },
                2 => {
                    if w % 8 == 0 {
                        nonzero(stream_felt::<F>(seed, i))
                    } else {
                        F::zero()
                    }
                },
                _ => match w % 4 {
                    0 => F::zero(),
                    1 => F::one(),
                    2 => -F::one(),
                    _ => F::from(2u64),
                },
            }
        })
        .collect();
    if t.bool() {
        let k = (len - 1).min(3);
        for x in v.iter_mut().take(k) {
            *x = tape_coeff::<F>(t);
        }
    }
    v[len - 1] = nonzero(tape_coeff::<F>(t));
    v
}

/// a canonical coefficient vector with at most `maxlen` entries; word 0 => zero polynomial
fn gen_model<F: PrimeField>(t: &mut Tape<'_>, maxlen: usize) -> M<F> {
    let len = match t.weighted(&[2, 2, 4, 5, 2]) {
        0 => 0,
        1 => 1,
        2 => 2 + t.below(6) as usize,
        3 => 1 + t.below(maxlen as u64) as usize,
        _ => maxlen - t.below(3.min(maxlen as u64)) as usize,
    };
    fill(t, len.min(maxlen))
}

/// low-degree noise: fewer than `below` coefficients (possibly none)
fn noise<F: PrimeField>(t: &mut Tape<'_>, below: usize) -> M<F> {
    if below == 0 {
        return vec![];
    }
    let len = match t.weighted(&[3, 3, 3]) {
        0 => 0,
        1 => t.below(below.min(4) as u64) as usize,
        _ => t.below(below as u64) as usize,
    };
    fill(t, len)
}

/// a few terms at arbitrary degrees `<= maxdeg`
fn gen_sparse_model<F: PrimeField>(t: &mut Tape<'_>, maxdeg: usize) -> M<F> {
    let k = match t.weighted(&[1, 2, 3, 3]) {
        0 => 0,
        1 => 1,
        2 => 2,
        _ => 3 + t.below(6) as usize,
    };
    let mut v = vec![F::zero(); maxdeg + 1];
    for _ in 0..k {
        let d = match t.weighted(&[2, 1, 5]) {
            0 => 0,
            1 => maxdeg,
            _ => t.below(maxdeg as u64 + 1) as usize,
        };
        v[d] = nonzero(tape_coeff::<F>(t));
    }
    canon(v)
}

/// Build a `SparsePolynomial` from the model: distinct degrees, non-zero coefficients, arbitrary order.
fn to_sparse<F: PrimeField>(t: &mut Tape<'_>, m: &[F]) -> SparsePolynomial<F> {
    let mut terms: Vec<(usize, F)> = m.iter().enumerate().filter(|(_, c)| !c.is_zero()).map(|(i, c)| (i, *c)).collect();
    match t.below(4) {
        0 => {},
        1 => terms.reverse(),
        _ => {
            let seed = t.u64();
            for i in (1..terms.len()).rev() {
                let j = (mix(seed ^ i as u64) % (i as u64 + 1)) as usize;
                terms.swap(i, j);
            }
        },
    }
    if t.bool() {
        SparsePolynomial::from_coefficients_slice(&terms)
    } else {
        SparsePolynomial::from_coefficients_vec(terms)
    }
}

fn to_dense<F: PrimeField>(t: &mut Tape<'_>, m: &[F]) -> DensePolynomial<F> {
    match t.below(3) {
        0 => DensePolynomial::from_coefficients_slice(m),
        1 => {
            // trailing zeros are documented to be stripped by the constructor
            let mut v = m.to_vec();
            v.extend(std::iter::repeat(F::zero()).take(1 + t.below(3) as usize));
            DensePolynomial::from_coefficients_vec(v)
        },
        _ => DensePolynomial::from_coefficients_vec(m.to_vec()),
    }
}

/// correlated pair of models; `f` is the scalar of the scaled-add relation (used by one class)
fn gen_pair<F: PrimeField>(t: &mut Tape<'_>, maxlen: usize, f: F) -> (M<F>, M<F>, &'static str) {
    match t.weighted(&[5, 3, 3, 2, 2, 2, 2, 2, 2]) {
        0 => (gen_model(t, maxlen), gen_model(t, maxlen), "pair=independent"),
        1 => {
            let a = gen_model::<F>(t, maxlen);
            let b = m_add(&m_neg(&a), &noise(t, a.len()));
            (a, b, "pair=b=-a+noise")
        },
        2 => {
            let a = gen_model::<F>(t, maxlen);
            let b = m_add(&a, &noise(t, a.len()));
            (a, b, "pair=b=a+noise")
        },
        3 => {
            let a = gen_model::<F>(t, maxlen);
            let mut b = fill::<F>(t, a.len());
            if let Some(l) = a.last() {
                *b.last_mut().unwrap() = -*l;
            }
            (a, b, "pair=equal degree, opposite leading")
        },
        4 => {
            let a = gen_model::<F>(t, maxlen);
            let mut b = fill::<F>(t, a.len());
            if let Some(l) = a.last() {
                *b.last_mut().unwrap() = *l;
            }
            (a, b, "pair=equal degree, same leading")
        },
        5 => {
            let a = gen_model::<F>(t, maxlen);
            let b = fill::<F>(t, a.len());
            (a, b, "pair=equal degree")
        },
        6 => {
            let a = gen_model::<F>(t, maxlen);
            if t.bool() {
                (vec![], a, "pair=left zero")
            } else {
                (a, vec![], "pair=right zero")
            }
        },
        7 => {
            // a + f*b cancels the leading terms
            let a = gen_model::<F>(t, maxlen);
            match f.inverse() {
                Some(fi) => {
                    let b = m_add(&m_scale(&a, -fi), &noise(t, a.len()));
                    (a, b, "pair=b=-a/f+noise")
                },
                None => {
                    let b = gen_model::<F>(t, maxlen);
                    (a, b, "pair=independent")
                },
            }
        },
        _ => {
            let a = gen_model::<F>(t, maxlen);
            (a.clone(), a, "pair=equal")
        },
    }
}

/// a sparse model correlated with the dense model `a`
fn gen_sparse_for<F: PrimeField>(t: &mut Tape<'_>, a: &[F], maxdeg: usize) -> (M<F>, &'static str) {
    let sparsify = |t: &mut Tape<'_>, a: &[F], sign: F| -> M<F> {
        // keep the leading term and a few others
        let seed = t.u64();
        let keep = t.below(3);
        let mut v: Vec<F> = a
            .iter()
            .enumerate()
            .map(|(i, c)| if i + 1 == a.len() || (keep > 0 && mix(seed ^ i as u64) % 4 < keep) { *c * sign } else { F::zero() })
            .collect();
        // and perturb a lower term
        if a.len() > 1 && t.bool() {
            let j = t.idx(a.len() - 1);
            v[j] = tape_coeff::<F>(t);
        }
        canon(v)
    };
    match t.weighted(&[4, 3, 3, 2, 2, 2, 2, 1]) {
        0 => (gen_sparse_model(t, maxdeg), "sparse=independent"),
        1 => (sparsify(t, a, F::one()), "sparse=same leading term"),
        2 => (sparsify(t, a, -F::one()), "sparse=opposite leading term"),
        3 => (a.to_vec(), "sparse=a"),
        4 => (m_neg(a), "sparse=-a"),
        5 => {
            // strictly higher degree
            let mut v = gen_sparse_model::<F>(t, maxdeg);
            let d = a.len() + t.below(4) as usize;
            if v.len() <= d {
                v.resize(d + 1, F::zero());
                v[d] = nonzero(tape_coeff::<F>(t));
            }
            (canon(v), "sparse=higher degree")
        },
        6 => {
            let d = a.len().saturating_sub(2);
            (gen_sparse_model(t, d), "sparse=lower degree")
        },
        _ => (vec![], "sparse=zero"),
    }
}

// ---------------------------------------------------------------------------------------------------------
// result checks
// ---------------------------------------------------------------------------------------------------------

fn show_m<F: std::fmt::Display + Zero>(m: &[F]) -> String {
    if m.is_empty() {
        return "0".into();
    }
    let mut s = String::new();
    let mut n = 0;
    for (i, c) in m.iter().enumerate().rev() {
        if c.is_zero() {
            continue;
        }
        n += 1;
        if n > 5 {
            s.push_str(" + …");
            break;
        }
        if !s.is_empty() {
            s.push_str(" + ");
        }
        let cs = c.to_string();
        let cs = if cs.len() > 14 { format!("{}…", &cs[..12]) } else { cs };
        match i {
            0 => s.push_str(&cs),
            1 => s.push_str(&format!("{}·x", cs)),
            _ => s.push_str(&format!("{}·x^{}", cs, i)),
        }
    }
    format!("[deg {}: {}]", m.len() - 1, s)
}

fn first_diff<F: PrimeField>(got: &[F], want: &[F]) -> String {
    let n = got.len().max(want.len());
    for i in (0..n).rev() {
        let g = got.get(i).copied().unwrap_or(F::zero());
        let w = want.get(i).copied().unwrap_or(F::zero());
        if g != w {
            return format!("highest differing coefficient: x^{}: got {} expected {}", i, g, w);
        }
    }
    "no coefficient differs".into()
}

fn err(sig: String, msg: String) -> Fail {
    Fail { sig, msg }
}

/// the result must be the canonical dense representation of `want`
fn chk_dense<F: PrimeField>(op: &str, p: &DensePolynomial<F>, want: &[F], pts: &[F]) -> R {
    let got = &p.coeffs;
    if got.as_slice() != want {
        let c = canon(got.clone());
        if c.as_slice() == want {
            return Err(err(
                format!("{}.noncanonical", op),
                format!("{}: result has {} coefficients with a zero leading coefficient; expected canonical {}", op, got.len(), show_m(want)),
            ));
        }
        return Err(err(format!("{}.value", op), format!("{}: got {} expected {}; {}", op, show_m(&c), show_m(want), first_diff(&c, want))));
    }
    let d = no_panic(&format!("{}.degree", op), || p.degree())?;
    ensure!(d == m_deg(want), format!("{}.degree", op), "{}: degree() = {} expected {}", op, d, m_deg(want));
    ensure!(p.is_zero() == want.is_empty(), format!("{}.is_zero", op), "{}: is_zero() = {}", op, p.is_zero());
    for x in pts {
        let v = no_panic(&format!("{}.evaluate", op), || p.evaluate(x))?;
        ensure!(v == m_eval(want, x), format!("{}.evaluate", op), "{}: result.evaluate({}) = {} expected {}", op, x, v, m_eval(want, x));
    }
    Ok(())
}

/// the result must be the canonical sparse representation of `want`
fn chk_sparse<F: PrimeField>(op: &str, p: &SparsePolynomial<F>, want: &[F], pts: &[F]) -> R {
    let terms: &[(usize, F)] = p;
    let mut dense = vec![F::zero(); terms.iter().map(|(i, _)| i + 1).max().unwrap_or(0)];
    for (i, c) in terms {
        dense[*i] += c;
    }
    let dense = canon(dense);
    if dense.as_slice() != want {
        return Err(err(format!("{}.value", op), format!("{}: got {} expected {}; {}", op, show_m(&dense), show_m(want), first_diff(&dense, want))));
    }
    for w in terms.windows(2) {
        ensure!(w[0].0 < w[1].0, format!("{}.noncanonical", op), "{}: term degrees not strictly increasing ({} then {})", op, w[0].0, w[1].0);
    }
    for (i, c) in terms {
        ensure!(!c.is_zero(), format!("{}.noncanonical", op), "{}: explicit zero coefficient at degree {}; expected {}", op, i, show_m(want));
    }
    ensure!(terms.len() == want.iter().filter(|c| !c.is_zero()).count(), format!("{}.noncanonical", op), "{}: number of terms", op);
    let d = no_panic(&format!("{}.degree", op), || p.degree())?;
    ensure!(d == m_deg(want), format!("{}.degree", op), "{}: degree() = {} expected {}", op, d, m_deg(want));
    ensure!(p.is_zero() == want.is_empty(), format!("{}.is_zero", op), "{}: is_zero() = {}", op, p.is_zero());
    for x in pts {
        let v = no_panic(&format!("{}.evaluate", op), || p.evaluate(x))?;
        ensure!(v == m_eval(want, x), format!("{}.evaluate", op), "{}: result.evaluate({}) = {} expected {}", op, x, v, m_eval(want, x));
    }
    Ok(())
}

fn points<F: PrimeField>(t: &mut Tape<'_>) -> Vec<F> {
    vec![F::zero(), F::one(), -F::one(), tape_coeff::<F>(t), stream_felt::<F>(t.u64(), 7)]
}

fn classify<F: Field>(o: &mut Obs, a: &[F], b: &[F], sum_like: &[&[F]]) {
    let both = !a.is_empty() && !b.is_empty();
    let eqdeg = both && a.len() == b.len();
    let cancel = both && sum_like.iter().any(|r| r.len() < a.len().max(b.len()));
    o.class_if(eqdeg, "equal degrees");
    o.class_if(cancel, "leading terms cancel");
    o.class_if(both && sum_like.iter().any(|r| r.is_empty()), "result is zero");
    o.class_if(a.is_empty() || b.is_empty(), "an operand is zero");
    o.class_if(both && a.len() > b.len(), "deg a > deg b");
    o.class_if(both && a.len() < b.len(), "deg a < deg b");
    o.nt(both && (eqdeg || cancel));
}

// ---------------------------------------------------------------------------------------------------------
// relations
// ---------------------------------------------------------------------------------------------------------

struct Cfg {
    field: &'static str,
    maxlen: usize,
    two_adicity: u32,
    /// size of the largest evaluation domain of the field: 2^TWO_ADICITY, times q^k when a small subgroup is declared
    /// (GeneralEvaluationDomain then falls back to a mixed-radix domain), capped at 2^60
    max_domain: u128,
}

fn max_domain<F: FftField>() -> u128 {
    let two = 1u128 << F::TWO_ADICITY.min(60);
    match (F::SMALL_SUBGROUP_BASE, F::SMALL_SUBGROUP_BASE_ADICITY, F::LARGE_SUBGROUP_ROOT_OF_UNITY) {
        (Some(q), Some(k), Some(_)) => two.saturating_mul((q as u128).saturating_pow(k)).min(1u128 << 60),
        _ => two,
    }
}

/// dense ∘ dense: + - neg *F += -= +=(f,·)
fn dense_linear<F: PrimeField>(cfg: &Cfg, t: &mut Tape<'_>, o: &mut Obs) -> R {
    let f = tape_coeff::<F>(t);
    let (am, bm, pc) = gen_pair::<F>(t, cfg.maxlen, f);
    let a = to_dense(t, &am);
    let b = to_dense(t, &bm);
    let pts = points::<F>(t);
    o.show(|| format!("{}: a={} b={} f={} [{}]", cfg.field, show_m(&am), show_m(&bm), f, pc));
    let sum = m_add(&am, &bm);
    let dif = m_sub(&am, &bm);
    let sadd = m_add(&am, &m_scale(&bm, f));
    o.class(pc);
    classify(o, &am, &bm, &[&sum, &dif, &sadd]);
    o.class_if(f.is_zero(), "f=0");
    o.class_if(am.is_empty() && f.is_zero() && !bm.is_empty(), "0 += (0, b)");
    o.evals(14);
    ensure_eq!(a.coeffs, am, "from_coefficients.canonical");
    chk_dense("dd.add", &no_panic("dd.add", || &a + &b)?, &sum, &pts)?;
    chk_dense("dd.add.owned", &no_panic("dd.add.owned", || a.clone() + b.clone())?, &sum, &[])?;
    chk_dense("dd.add.owned_ref", &no_panic("dd.add.owned_ref", || a.clone() + &b)?, &sum, &[])?;
    chk_dense("dd.add.ref_owned", &no_panic("dd.add.ref_owned", || &a + b.clone())?, &sum, &[])?;
    chk_dense("dd.sub", &no_panic("dd.sub", || &a - &b)?, &dif, &pts)?;
    chk_dense("dd.sub.owned", &no_panic("dd.sub.owned", || a.clone() - b.clone())?, &dif, &[])?;
    chk_dense("dd.sub.ref_owned", &no_panic("dd.sub.ref_owned", || &a - b.clone())?, &dif, &[])?;
    chk_dense("dd.sub.owned_ref", &no_panic("dd.sub.owned_ref", || a.clone() - &b)?, &dif, &[])?;
    chk_dense("d.neg", &no_panic("d.neg", || -a.clone())?, &m_neg(&am), &pts)?;
    chk_dense("d.scale", &no_panic("d.scale", || &a * f)?, &m_scale(&am, f), &pts)?;
    chk_dense("d.scale.owned", &no_panic("d.scale.owned", || b.clone() * f)?, &m_scale(&bm, f), &[])?;
    let mut x = a.clone();
    no_panic("dd.add_assign", || x += &b)?;
    chk_dense("dd.add_assign", &x, &sum, &[])?;
    let mut x = a.clone();
    no_panic("dd.sub_assign", || x -= &b)?;
    chk_dense("dd.sub_assign", &x, &dif, &[])?;
    let mut x = a.clone();
    no_panic("dd.add_assign_scaled", || x += (f, &b))?;
    chk_dense("dd.add_assign_scaled", &x, &sadd, &pts)?;
    Ok(())
}

/// dense ∘ sparse: + - += -=
fn dense_sparse_linear<F: PrimeField>(cfg: &Cfg, t: &mut Tape<'_>, o: &mut Obs) -> R {
    let am = if t.chance(1, 8) { vec![] } else { gen_model::<F>(t, cfg.maxlen) };
    let (sm, sc) = gen_sparse_for::<F>(t, &am, cfg.maxlen + 6);
    let a = to_dense(t, &am);
    let s = to_sparse(t, &sm);
    let pts = points::<F>(t);
    o.show(|| format!("{}: dense a={} sparse s={} (terms as given: {:?}) [{}]", cfg.field, show_m(&am), show_m(&sm), s.iter().map(|(i, _)| *i).collect::<Vec<_>>(), sc));
    let sum = m_add(&am, &sm);
    let dif = m_sub(&am, &sm);
    o.class(sc);
    classify(o, &am, &sm, &[&sum, &dif]);
    o.evals(6);
    chk_sparse("sparse.from_coefficients", &s, &sm, &[])?;
    chk_dense("ds.add", &no_panic("ds.add", || &a + &s)?, &sum, &pts)?;
    chk_dense("ds.sub", &no_panic("ds.sub", || &a - &s)?, &dif, &pts)?;
    let mut x = a.clone();
    no_panic("ds.add_assign", || x += &s)?;
    chk_dense("ds.add_assign", &x, &sum, &[])?;
    let mut x = a.clone();
    no_panic("ds.sub_assign", || x -= &s)?;
    chk_dense("ds.sub_assign", &x, &dif, &[])?;
    Ok(())
}

/// sparse ∘ sparse: + neg *F += -= +=(f,·)
fn sparse_linear<F: PrimeField>(cfg: &Cfg, t: &mut Tape<'_>, o: &mut Obs) -> R {
    let f = tape_coeff::<F>(t);
    let maxdeg = cfg.maxlen + 6;
    let (am, bm, pc) = match t.weighted(&[4, 3, 3, 2, 2, 2]) {
        0 => (gen_sparse_model::<F>(t, maxdeg), gen_sparse_model::<F>(t, maxdeg), "pair=independent"),
        1 => {
            let a = gen_sparse_model::<F>(t, maxdeg);
            let (b, _) = gen_sparse_for::<F>(t, &a, maxdeg);
            (a, b, "pair=sparse correlated")
        },
        2 => {
            // share the degrees, different coefficients
            let a = gen_sparse_model::<F>(t, maxdeg);
            let seed = t.u64();
            let b: Vec<F> = a.iter().enumerate().map(|(i, c)| if c.is_zero() { *c } else { nonzero(stream_felt::<F>(seed, i as u64)) }).collect();
            (a, b, "pair=same support")
        },
        3 => {
            let a = gen_sparse_model::<F>(t, maxdeg);
            match f.inverse() {
                Some(fi) => {
                    let mut b = m_scale(&a, -fi);
                    if b.len() > 1 && t.bool() {
                        let j = t.idx(b.len() - 1);
                        b[j] = tape_coeff::<F>(t);
                    }
                    (a, canon(b), "pair=b=-a/f+noise")
                },
                None => {
                    let b = gen_sparse_model::<F>(t, maxdeg);
                    (a, b, "pair=independent")
                },
            }
        },
        4 => {
            let a = gen_sparse_model::<F>(t, maxdeg);
            if t.bool() {
                (vec![], a, "pair=left zero")
            } else {
                (a, vec![], "pair=right zero")
            }
        },
        _ => {
            // dense-ish operands stored sparsely
            let (a, b, _) = gen_pair::<F>(t, cfg.maxlen.min(24), f);
            (a, b, "pair=dense models")
        },
    };
    let a = to_sparse(t, &am);
    let b = to_sparse(t, &bm);
    let pts = points::<F>(t);
    o.show(|| format!("{}: sparse a={} b={} f={} [{}]", cfg.field, show_m(&am), show_m(&bm), f, pc));
    let sum = m_add(&am, &bm);
    let dif = m_sub(&am, &bm);
    let sadd = m_add(&am, &m_scale(&bm, f));
    o.class(pc);
    classify(o, &am, &bm, &[&sum, &dif, &sadd]);
    o.class_if(f.is_zero(), "f=0");
    o.evals(9);
    chk_sparse("sparse.from_coefficients", &a, &am, &pts)?;
    chk_sparse("ss.add", &no_panic("ss.add", || &a + &b)?, &sum, &pts)?;
    chk_sparse("ss.add.owned", &no_panic("ss.add.owned", || a.clone() + b.clone())?, &sum, &[])?;
    chk_sparse("s.neg", &no_panic("s.neg", || -a.clone())?, &m_neg(&am), &pts)?;
    chk_sparse("s.scale", &no_panic("s.scale", || &a * f)?, &m_scale(&am, f), &pts)?;
    let mut x = a.clone();
    no_panic("ss.add_assign", || x += &b)?;
    chk_sparse("ss.add_assign", &x, &sum, &[])?;
    let mut x = a.clone();
    no_panic("ss.sub_assign", || x -= &b)?;
    chk_sparse("ss.sub_assign", &x, &dif, &pts)?;
    let mut x = a.clone();
    no_panic("ss.add_assign_scaled", || x += (f, &b))?;
    chk_sparse("ss.add_assign_scaled", &x, &sadd, &pts)?;
    Ok(())
}

/// naive_mul, FFT-based `*`, SparsePolynomial::mul
fn mul_rel<F: PrimeField>(cfg: &Cfg, t: &mut Tape<'_>, o: &mut Obs) -> R {
    let (am, bm, pc): (M<F>, M<F>, &'static str) = match t.weighted(&[5, 2, 2, 2, 2]) {
        0 => (gen_model(t, cfg.maxlen), gen_model(t, cfg.maxlen), "mul=independent"),
        1 => {
            // b(x) = a(-x): every odd-degree term of the product cancels
            let a = gen_model::<F>(t, cfg.maxlen);
            let b: Vec<F> = a.iter().enumerate().map(|(i, c)| if i % 2 == 1 { -*c } else { *c }).collect();
            (a, b, "mul=a(x)*a(-x)")
        },
        2 => {
            // (x^k + c)(x^k - c)
            let k = 1 + t.below(cfg.maxlen as u64 / 2) as usize;
            let c = nonzero(tape_coeff::<F>(t));
            let mut a = vec![F::zero(); k + 1];
            let mut b = a.clone();
            a[0] = c;
            a[k] = F::one();
            b[0] = -c;
            b[k] = F::one();
            (a, b, "mul=(x^k+c)(x^k-c)")
        },
        3 => (gen_sparse_model(t, cfg.maxlen), gen_sparse_model(t, cfg.maxlen), "mul=few terms"),
        _ => {
            let a = gen_model::<F>(t, cfg.maxlen);
            if t.bool() {
                (a, vec![], "mul=by zero")
            } else {
                (vec![], a, "mul=by zero")
            }
        },
    };
    let a = to_dense(t, &am);
    let b = to_dense(t, &bm);
    let sa = to_sparse(t, &am);
    let sb = to_sparse(t, &bm);
    let pts = points::<F>(t);
    o.show(|| format!("{}: a={} b={} [{}]", cfg.field, show_m(&am), show_m(&bm), pc));
    let prod = m_mul(&am, &bm);
    let both = !am.is_empty() && !bm.is_empty();
    let full_terms = both && prod.iter().all(|c| !c.is_zero());
    o.class(pc);
    o.class_if(both && !full_terms, "product has zero coefficients below its degree");
    o.nt(both && am.len() + bm.len() > 2);
    o.evals(4);
    chk_dense("naive_mul", &no_panic("naive_mul", || a.naive_mul(&b))?, &prod, &pts)?;
    chk_sparse("sparse_mul", &no_panic("sparse_mul", || sa.mul(&sb))?, &prod, &pts)?;
    // FFT multiplication needs a domain of size >= deg a + deg b + 1 (documented: panics when the field is not smooth enough)
    let need = if both { am.len() + bm.len() - 1 } else { 0 };
    let fits = (need as u128) <= cfg.max_domain;
    o.class_if(both && fits, "fft multiplication");
    o.class_if(both && fits && (need as u128) > (1u128 << cfg.two_adicity.min(60)), "fft multiplication over a mixed-radix domain");
    if fits {
        chk_dense("fft_mul", &no_panic("fft_mul", || &a * &b)?, &prod, &pts)?;
        chk_dense("fft_mul.owned", &no_panic("fft_mul.owned", || a.clone() * b.clone())?, &prod, &[])?;
        chk_dense("fft_mul.owned_ref", &no_panic("fft_mul.owned_ref", || a.clone() * &b)?, &prod, &[])?;
        chk_dense("fft_mul.ref_owned", &no_panic("fft_mul.ref_owned", || &a * b.clone())?, &prod, &[])?;
    }
    Ok(())
}

/// `/` and divide_with_q_and_r in all four dense/sparse mixes (divisor non-zero)
fn div_rel<F: PrimeField>(cfg: &Cfg, t: &mut Tape<'_>, o: &mut Obs) -> R {
    let maxlen = cfg.maxlen;
    let nz_model = |t: &mut Tape<'_>, maxlen: usize| -> M<F> {
        let m = gen_model::<F>(t, maxlen);
        if m.is_empty() {
            vec![nonzero(tape_coeff::<F>(t))]
        } else {
            m
        }
    };
    let (am, bm, pc): (M<F>, M<F>, &'static str) = match t.weighted(&[3, 4, 2, 2, 2, 2, 1]) {
        0 => (gen_model(t, maxlen), nz_model(t, maxlen), "div=independent"),
        1 => {
            // a = b*q0 + r0 with deg r0 < deg b
            let b = nz_model(t, maxlen / 2 + 1);
            let q0 = gen_model::<F>(t, maxlen / 2 + 1);
            let r0 = noise::<F>(t, b.len() - 1);
            let a = m_add(&m_mul(&b, &q0), &r0);
            (a, b, if r0.is_empty() { "div=exact multiple" } else { "div=b*q+r" })
        },
        2 => {
            let b = vec![nonzero(tape_coeff::<F>(t))];
            (gen_model(t, maxlen), b, "div=by constant")
        },
        3 => {
            // x^n - c (vanishing-polynomial shape) and monomials
            let n = 1 + t.below(maxlen as u64 / 2) as usize;
            let mut b = vec![F::zero(); n + 1];
            b[n] = nonzero(tape_coeff::<F>(t));
            b[0] = tape_coeff::<F>(t);
            (gen_model(t, maxlen), b, "div=by x^n-c")
        },
        4 => {
            let a = gen_model::<F>(t, maxlen);
            let b = fill::<F>(t, a.len().max(1));
            (a, b, "div=equal degree")
        },
        5 => (gen_model(t, maxlen), gen_sparse_model(t, maxlen / 2).pipe_nz(t), "div=by few terms"),
        _ => (vec![], nz_model(t, maxlen), "div=zero dividend"),
    };
    let a = to_dense(t, &am);
    let b = to_dense(t, &bm);
    let sa = to_sparse(t, &am);
    let sb = to_sparse(t, &bm);
    let pts = points::<F>(t);
    o.show(|| format!("{}: a={} b={} [{}]", cfg.field, show_m(&am), show_m(&bm), pc));
    let (q, r) = m_divrem(&am, &bm);
    // the oracle's own sanity: a = q b + r, deg r < deg b
    assert!(m_add(&m_mul(&q, &bm), &r) == am && r.len() < bm.len());
    o.class(pc);
    o.class_if(r.is_empty() && !am.is_empty(), "remainder zero");
    o.class_if(am.len() < bm.len(), "deg a < deg b");
    o.class_if(am.len() == bm.len(), "equal degrees");
    o.nt(!am.is_empty() && am.len() >= bm.len());
    o.evals(10);
    chk_dense("div", &no_panic("div", || &a / &b)?, &q, &pts)?;
    chk_dense("div.owned", &no_panic("div.owned", || a.clone() / b.clone())?, &q, &[])?;
    chk_dense("div.owned_ref", &no_panic("div.owned_ref", || a.clone() / &b)?, &q, &[])?;
    chk_dense("div.ref_owned", &no_panic("div.ref_owned", || &a / b.clone())?, &q, &[])?;
    let da = DenseOrSparsePolynomial::from(&a);
    let db = DenseOrSparsePolynomial::from(&b);
    let xa = DenseOrSparsePolynomial::from(&sa);
    let xb = DenseOrSparsePolynomial::from(&sb);
    for (name, x, y) in [("dd", &da, &db), ("ds", &da, &xb), ("sd", &xa, &db), ("ss", &xa, &xb)] {
        let op = format!("divide_with_q_and_r.{}", name);
        let res = no_panic(&op, || x.divide_with_q_and_r(y))?;
        let (gq, gr) = match res {
            Some(v) => v,
            None => return Err(err(format!("{}.none", op), format!("{} returned None for a non-zero divisor", op))),
        };
        chk_dense(&format!("{}.q", op), &gq, &q, &[])?;
        chk_dense(&format!("{}.r", op), &gr, &r, &pts[3..4])?;
        // a = q*b + r and deg r < deg b, stated on the returned values
        let back = m_add(&m_mul(&gq.coeffs, &bm), &gr.coeffs);
        ensure!(back == am, format!("{}.identity", op), "q*b + r != a");
        ensure!(gr.is_zero() || gr.degree() < m_deg(&bm), format!("{}.rdeg", op), "deg r = {} >= deg b = {}", gr.degree(), m_deg(&bm));
    }
    Ok(())
}

trait PipeNz<F> {
    fn pipe_nz(self, t: &mut Tape<'_>) -> Self;
}
impl<F: PrimeField> PipeNz<F> for Vec<F> {
    /// replace the zero polynomial by a non-zero constant
    fn pipe_nz(self, t: &mut Tape<'_>) -> Self {
        if self.is_empty() {
            vec![nonzero(tape_coeff::<F>(t))]
        } else {
            self
        }
    }
}

/// conversions, degree, evaluate, constructors
fn conv_rel<F: PrimeField>(cfg: &Cfg, t: &mut Tape<'_>, o: &mut Obs) -> R {
    let am = if t.bool() { gen_model::<F>(t, cfg.maxlen) } else { gen_sparse_model::<F>(t, cfg.maxlen + 40) };
    let pts = points::<F>(t);
    o.show(|| format!("{}: a={}", cfg.field, show_m(&am)));
    o.nt(am.len() >= 2);
    o.class_if(am.is_empty(), "zero");
    o.class_if(am.len() == 1, "constant");
    o.class_if(am.iter().filter(|c| c.is_zero()).count() > 0, "has zero coefficients");
    o.evals(10);
    let d = to_dense(t, &am);
    chk_dense("dense.from_coefficients", &d, &am, &pts)?;
    ensure!(d.coeffs() == am.as_slice(), "dense.coeffs", "coeffs()");
    let s = to_sparse(t, &am);
    chk_sparse("sparse.from_coefficients", &s, &am, &pts)?;
    let s2: SparsePolynomial<F> = no_panic("dense->sparse", || d.clone().into())?;
    chk_sparse("dense->sparse", &s2, &am, &[])?;
    ensure!(s2 == s, "sparse.eq", "two canonical sparse representations of the same polynomial differ");
    let d2: DensePolynomial<F> = no_panic("sparse->dense", || s.clone().into())?;
    chk_dense("sparse->dense", &d2, &am, &[])?;
    ensure!(d2 == d, "dense.eq", "two canonical dense representations of the same polynomial differ");
    // DenseOrSparsePolynomial
    let x = DenseOrSparsePolynomial::from(&d);
    let y = DenseOrSparsePolynomial::from(s.clone());
    ensure_eq!(x.is_zero(), am.is_empty(), "dos.is_zero.dense");
    ensure_eq!(y.is_zero(), am.is_empty(), "dos.is_zero.sparse");
    ensure_eq!(no_panic("dos.degree", || x.degree())?, m_deg(&am), "dos.degree.dense");
    ensure_eq!(no_panic("dos.degree", || y.degree())?, m_deg(&am), "dos.degree.sparse");
    let d3: DensePolynomial<F> = y.clone().into();
    chk_dense("dos->dense", &d3, &am, &[])?;
    let d4: DensePolynomial<F> = x.clone().into();
    chk_dense("dos->dense", &d4, &am, &[])?;
    let s3: Result<SparsePolynomial<F>, ()> = y.try_into();
    match s3 {
        Ok(s3) => chk_sparse("dos->sparse", &s3, &am, &[])?,
        Err(()) => return vh_core::fail("dos->sparse", "TryInto<SparsePolynomial> failed on the sparse variant"),
    }
    let s4: Result<SparsePolynomial<F>, ()> = x.try_into();
    ensure!(s4.is_err(), "dos->sparse", "TryInto<SparsePolynomial> on the dense variant is documented by its code to fail");
    // DenseUVPolynomial::rand(d): "a univariate polynomial of degree d", canonical
    let deg = m_deg(&am);
    let mut rng = ark_std::rand::rngs::StdRng::seed_from_u64(t.u64());
    let r = no_panic("dense.rand", || DensePolynomial::<F>::rand(deg, &mut rng))?;
    ensure!(r.coeffs.len() == deg + 1 && !r.coeffs[deg].is_zero(), "dense.rand", "rand({}) has {} coefficients / zero leading coefficient", deg, r.coeffs.len());
    ensure_eq!(no_panic("dense.rand.degree", || r.degree())?, deg, "dense.rand.degree");
    Ok(())
}

// ---- relations over an evaluation domain ----------------------------------------------------------------

trait Dom<F: FftField>: EvaluationDomain<F> + Send + Sync + 'static {
    const NAME: &'static str;
}
impl<F: FftField> Dom<F> for Radix2EvaluationDomain<F> {
    const NAME: &'static str = "radix2";
}
impl<F: FftField> Dom<F> for MixedRadixEvaluationDomain<F> {
    const NAME: &'static str = "mixed";
}
impl<F: FftField> Dom<F> for GeneralEvaluationDomain<F> {
    const NAME: &'static str = "general";
}

/// a domain of size <= maxsize (requested through any n) and a coset of it; returns (domain, offset, elements)
fn pick_domain<F: PrimeField, D: Dom<F>>(t: &mut Tape<'_>, o: &mut Obs, maxsize: usize) -> Result<(D, F, Vec<F>, &'static str), Fail> {
    // n = 0 gives size 1; the size is whatever the constructor returns (its minimality is C07's subject)
    let n = match t.weighted(&[1, 2, 2, 2, 2, 2, 2]) {
        0 => t.below(2),
        1 => 2,
        2 => 3 + t.below(2),
        3 => 5 + t.below(4),
        4 => 9 + t.below(8),
        5 => 17 + t.below(16),
        _ => t.below(maxsize as u64 + 1),
    } as usize;
    let n = n.min(maxsize);
    let d0 = match D::new(n) {
        Some(d) if d.size() <= 4 * maxsize => d,
        _ => D::new(1).expect("domain of size 1"),
    };
    let size = d0.size();
    let (h, hc) = match t.weighted(&[3, 2, 2, 2]) {
        0 => (F::one(), "offset=1"),
        1 => (F::GENERATOR, "offset=GENERATOR"),
        2 => (nonzero(tape_coeff::<F>(t)), "offset=tape"),
        _ => (d0.group_gen().pow([t.below(size as u64)]), "offset=in-subgroup"),
    };
    let d = d0.get_coset(h).ok_or_else(|| err("get_coset.none".into(), format!("get_coset({}) = None", h)))?;
    let mut elems = Vec::with_capacity(size);
    let mut x = h;
    for _ in 0..size {
        elems.push(x);
        x *= d0.group_gen();
    }
    o.class(hc);
    o.class_if(!h.is_one(), "coset domain");
    let mut hn = F::one();
    for _ in 0..size {
        hn *= h;
    }
    o.class_if(!hn.is_one(), "coset domain with h^n != 1");
    Ok((d, h, elems, hc))
}

/// a dense model whose length is chosen relative to the domain size n
fn gen_model_vs_domain<F: PrimeField>(t: &mut Tape<'_>, n: usize, maxlen: usize) -> (M<F>, &'static str) {
    let cap = (4 * n + 3).max(maxlen);
    let (len, c) = match t.weighted(&[1, 2, 2, 2, 2, 2, 2, 2, 2]) {
        0 => (0, "len=0"),
        1 => (t.below(n as u64) as usize, "len<n"),
        2 => (n, "len=n"),
        3 => (n + 1, "len=n+1"),
        4 => (n + 1 + t.below(n as u64) as usize, "n<len<=2n"),
        5 => (2 * n, "len=2n"),
        6 => (2 * n + 1 + t.below(2 * n as u64 + 2) as usize, "len>2n"),
        7 => ((2 + t.below(3) as usize) * n, "len=k*n"),
        _ => (t.below(cap as u64 + 1) as usize, "len=any"),
    };
    (fill(t, len.min(cap.max(4 * n + 3))), c)
}

/// mul_by_vanishing_poly / divide_by_vanishing_poly on subgroup and coset domains
fn vanishing_rel<F: PrimeField, D: Dom<F>>(cfg: &Cfg, maxsize: usize, t: &mut Tape<'_>, o: &mut Obs) -> R {
    let (d, h, elems, hc) = pick_domain::<F, D>(t, o, maxsize)?;
    let n = d.size();
    let (am, lc) = gen_model_vs_domain::<F>(t, n, cfg.maxlen);
    let a = to_dense(t, &am);
    let pts = points::<F>(t);
    o.show(|| format!("{}: {} domain of size {} {} (h={}) a={} [{}]", cfg.field, D::NAME, n, hc, h, show_m(&am), lc));
    // Z = x^n - h^n
    let mut hn = F::one();
    for _ in 0..n {
        hn *= h;
    }
    let mut z = vec![F::zero(); n + 1];
    z[0] = -hn;
    z[n] += F::one();
    let z = canon(z);
    o.class(lc);
    o.class_if(am.len() > 2 * n, "operand longer than 2n");
    o.nt(!am.is_empty() && am.len() >= n);
    o.evals(4 + n as u64);
    let prod = m_mul(&am, &z);
    let got = no_panic("mul_by_vanishing_poly", || a.mul_by_vanishing_poly(d))?;
    chk_dense("mul_by_vanishing_poly", &got, &prod, &pts)?;
    // the product vanishes on the domain
    for e in &elems {
        ensure!(got.evaluate(e).is_zero(), "mul_by_vanishing_poly.vanishes", "a*Z does not vanish at the domain element {}", e);
    }
    let (q, r) = m_divrem(&am, &z);
    let (gq, gr) = no_panic("divide_by_vanishing_poly", || a.divide_by_vanishing_poly(d))?;
    chk_dense("divide_by_vanishing_poly.q", &gq, &q, &pts[3..4])?;
    chk_dense("divide_by_vanishing_poly.r", &gr, &r, &pts[3..4])?;
    // round trip: (a*Z) / Z = (a, 0)
    let (bq, br) = no_panic("divide_by_vanishing_poly", || got.divide_by_vanishing_poly(d))?;
    chk_dense("divide_by_vanishing_poly.of-product.q", &bq, &am, &[])?;
    chk_dense("divide_by_vanishing_poly.of-product.r", &br, &[], &[])?;
    // the remainder agrees with a on the domain
    for e in elems.iter().take(8) {
        ensure!(gr.evaluate(e) == m_eval(&am, e), "divide_by_vanishing_poly.r.on-domain", "r(e) != a(e) at the domain element {}", e);
    }
    Ok(())
}

/// evaluate_over_domain(_by_ref) for dense (also longer than the domain) and sparse; Evaluations ops; interpolate
fn eval_domain_rel<F: PrimeField, D: Dom<F>>(cfg: &Cfg, maxsize: usize, t: &mut Tape<'_>, o: &mut Obs) -> R {
    let (d, h, elems, hc) = pick_domain::<F, D>(t, o, maxsize)?;
    let n = d.size();
    let (am, lc) = gen_model_vs_domain::<F>(t, n, cfg.maxlen);
    let (bm, bc): (M<F>, &'static str) = match t.weighted(&[3, 2, 2]) {
        0 => gen_model_vs_domain::<F>(t, n, cfg.maxlen),
        1 => (gen_sparse_model(t, 3 * n + 2), "sparse few terms"),
        _ => (m_add(&m_neg(&am), &noise(t, am.len())), "b=-a+noise"),
    };
    let f = tape_coeff::<F>(t);
    let a = to_dense(t, &am);
    let sb = to_sparse(t, &bm);
    let b = to_dense(t, &bm);
    o.show(|| format!("{}: {} domain of size {} {} (h={}) a={} [{}] b={} [{}] f={}", cfg.field, D::NAME, n, hc, h, show_m(&am), lc, show_m(&bm), bc, f));
    o.class(lc);
    o.class_if(am.len() > n, "dense operand longer than the domain");
    o.class_if(bm.len() > n, "sparse operand of degree >= n");
    o.nt(!am.is_empty() && !bm.is_empty() && (am.len() > n || bm.len() > n || am.len() == bm.len()));
    o.evals(3 * n as u64 + 12);
    let va: Vec<F> = elems.iter().map(|e| m_eval(&am, e)).collect();
    let vb: Vec<F> = elems.iter().map(|e| m_eval(&bm, e)).collect();
    let ea = no_panic("evaluate_over_domain_by_ref", || a.evaluate_over_domain_by_ref(d))?;
    ensure!(ea.evals == va, "evaluate_over_domain_by_ref.dense", "dense {} over a domain of size {} {}: got {:?}… expected {:?}…", lc, n, hc, ea.evals.iter().take(3).map(|x| x.to_string()).collect::<Vec<_>>(), va.iter().take(3).map(|x| x.to_string()).collect::<Vec<_>>());
    let ea2 = no_panic("evaluate_over_domain", || a.clone().evaluate_over_domain(d))?;
    ensure!(ea2.evals == va, "evaluate_over_domain.dense", "owned dense {} over a domain of size {} {}", lc, n, hc);
    ensure!(ea2.domain() == d, "evaluations.domain", "domain()");
    let eb = no_panic("evaluate_over_domain_by_ref", || sb.evaluate_over_domain_by_ref(d))?;
    ensure!(eb.evals == vb, "evaluate_over_domain_by_ref.sparse", "sparse over a domain of size {} {}", n, hc);
    let eb2 = no_panic("evaluate_over_domain", || sb.clone().evaluate_over_domain(d))?;
    ensure!(eb2.evals == vb, "evaluate_over_domain.sparse", "owned sparse over a domain of size {} {}", n, hc);
    let eb3 = no_panic("evaluate_over_domain", || DenseOrSparsePolynomial::evaluate_over_domain(&b, d))?;
    ensure!(eb3.evals == vb, "evaluate_over_domain.dos", "DenseOrSparsePolynomial::evaluate_over_domain(&dense)");
    for i in 0..n.min(4) {
        ensure!(ea[i] == va[i], "evaluations.index", "Index");
    }
    // interpolation returns the canonical remainder modulo the vanishing polynomial
    let mut hn = F::one();
    for _ in 0..n {
        hn *= h;
    }
    let mut z = vec![F::zero(); n + 1];
    z[0] = -hn;
    z[n] += F::one();
    let z = canon(z);
    let ra = m_divrem(&am, &z).1;
    chk_dense("interpolate_by_ref", &no_panic("interpolate_by_ref", || ea.interpolate_by_ref())?, &ra, &[])?;
    chk_dense("interpolate", &no_panic("interpolate", || ea.clone().interpolate())?, &ra, &[])?;
    let zero_ev = Evaluations::<F, D>::zero(d);
    ensure!(zero_ev.evals == vec![F::zero(); n], "evaluations.zero", "Evaluations::zero");
    // pointwise operations
    let pw = |g: &dyn Fn(F, F) -> F| -> Vec<F> { va.iter().zip(&vb).map(|(x, y)| g(*x, *y)).collect() };
    ensure!((&ea + &eb).evals == pw(&|x, y| x + y), "evaluations.add", "&a + &b");
    ensure!((&ea - &eb).evals == pw(&|x, y| x - y), "evaluations.sub", "&a - &b");
    ensure!((&ea * &eb).evals == pw(&|x, y| x * y), "evaluations.mul", "&a * &b");
    ensure!((&ea * f).evals == va.iter().map(|x| *x * f).collect::<Vec<_>>(), "evaluations.scale", "&a * f");
    let mut x = ea.clone();
    x += &eb;
    ensure!(x.evals == pw(&|x, y| x + y), "evaluations.add_assign", "a += &b");
    let mut x = ea.clone();
    x -= &eb;
    ensure!(x.evals == pw(&|x, y| x - y), "evaluations.sub_assign", "a -= &b");
    let mut x = ea.clone();
    x *= &eb;
    ensure!(x.evals == pw(&|x, y| x * y), "evaluations.mul_assign", "a *= &b");
    if vb.iter().all(|y| !y.is_zero()) {
        o.class("evaluations division");
        ensure!((&ea / &eb).evals == pw(&|x, y| x * y.inverse().unwrap()), "evaluations.div", "&a / &b");
        let mut x = ea.clone();
        x /= &eb;
        ensure!(x.evals == pw(&|x, y| x * y.inverse().unwrap()), "evaluations.div_assign", "a /= &b");
    }
    // the product of the evaluations interpolates to a*b mod Z
    let rp = m_divrem(&m_mul(&am, &bm), &z).1;
    chk_dense("evaluations.mul.interpolate", &no_panic("interpolate", || (&ea * &eb).interpolate())?, &rp, &[])?;
    Ok(())
}

// ---------------------------------------------------------------------------------------------------------
// registration
// ---------------------------------------------------------------------------------------------------------

fn field_rels<F: PrimeField>(out: &mut Vec<Rel>, name: &'static str, tier: Tier, maxlen: usize, tape: usize) {
    let cfg = std::sync::Arc::new(Cfg { field: name, maxlen, two_adicity: F::TWO_ADICITY, max_domain: max_domain::<F>() });
    let q = |n: u32| tier.pick(n, n * 20);
    macro_rules! rel {
        ($rname:expr, $cases:expr, $f:ident) => {{
            let c = cfg.clone();
            out.push(Rel::new(format!("{}/{}", $rname, name), q($cases), tape, move |t, o| $f::<F>(&c, t, o)).shrink_iters(1500));
        }};
    }
    rel!("dense.linear", 4000, dense_linear);
    rel!("dense-sparse.linear", 4000, dense_sparse_linear);
    rel!("sparse.linear", 4000, sparse_linear);
    rel!("mul", 1500, mul_rel);
    rel!("div", 2000, div_rel);
    rel!("conv", 1500, conv_rel);
}

fn domain_rels<F: PrimeField, D: Dom<F>>(out: &mut Vec<Rel>, name: &'static str, tier: Tier, maxlen: usize, maxsize: usize, tape: usize) {
    let cfg = std::sync::Arc::new(Cfg { field: name, maxlen, two_adicity: F::TWO_ADICITY, max_domain: max_domain::<F>() });
    let q = |n: u32| tier.pick(n, n * 20);
    let c = cfg.clone();
    out.push(Rel::new(format!("vanishing/{}.{}", name, D::NAME), q(2000), tape, move |t, o| vanishing_rel::<F, D>(&c, maxsize, t, o)).shrink_iters(1500));
    let c = cfg.clone();
    out.push(Rel::new(format!("eval-domain/{}.{}", name, D::NAME), q(1500), tape, move |t, o| eval_domain_rel::<F, D>(&c, maxsize, t, o)).shrink_iters(1500));
}

mod big;
mod highdeg;

fn relations(tier: Tier) -> Vec<Rel> {
    use ark_test_curves::bls12_381::Fr;
    use vh_core::zoo::{T97, X3_2, Y3_2};
    let mut out = Vec::new();
    let maxlen = tier.pick(71, 601);
    let tape = 96;
    field_rels::<Fr>(&mut out, "bls12_381.Fr", tier, maxlen, tape);
    field_rels::<T97>(&mut out, "T97", tier, maxlen, tape);
    let ms = tier.pick(32, 128);
    domain_rels::<Fr, Radix2EvaluationDomain<Fr>>(&mut out, "bls12_381.Fr", tier, maxlen, ms, tape);
    domain_rels::<Fr, GeneralEvaluationDomain<Fr>>(&mut out, "bls12_381.Fr", tier, maxlen, ms, tape);
    // the test-curves configuration of Fr declares the small subgroup 3^1: sizes 3, 6, 12, 24, ...
    domain_rels::<Fr, MixedRadixEvaluationDomain<Fr>>(&mut out, "bls12_381.Fr", tier, maxlen, ms, tape);
    // p = 97: two-adicity 5, domains up to size 32 (no small subgroup declared)
    domain_rels::<T97, Radix2EvaluationDomain<T97>>(&mut out, "T97", tier, maxlen, 32, tape);
    domain_rels::<T97, GeneralEvaluationDomain<T97>>(&mut out, "T97", tier, maxlen, 32, tape);
    // a toy mixed-radix field (p = 1657, 2^3 * 3^2): sizes 1..72
    domain_rels::<X3_2, MixedRadixEvaluationDomain<X3_2>>(&mut out, "X3_2", tier, maxlen, 72, tape);
    domain_rels::<X3_2, GeneralEvaluationDomain<X3_2>>(&mut out, "X3_2", tier, maxlen, 72, tape);
    // FFT multiplication where GeneralEvaluationDomain has to fall back to a mixed-radix domain: p = 1657 has 2-adicity 3,
    // products with 9..=72 coefficients are transformed over domains of size 9, 12, 18, 24, 36, 72
    {
        let cfg = std::sync::Arc::new(Cfg { field: "X3_2", maxlen: 38, two_adicity: X3_2::TWO_ADICITY, max_domain: max_domain::<X3_2>() });
        out.push(Rel::new("mul/X3_2", tier.pick(1500, 30000), tape, move |t, o| mul_rel::<X3_2>(&cfg, t, o)).shrink_iters(1500));
    }
    // a mixed-radix field with small-subgroup base 5 (2^3 * 5^2): sizes up to 200, among them multiples of 25, where the
    // radix-q merge passes use more than the first two twiddle powers
    domain_rels::<Y3_2, MixedRadixEvaluationDomain<Y3_2>>(&mut out, "Y3_2", tier, maxlen, 200, tape);
    domain_rels::<Y3_2, GeneralEvaluationDomain<Y3_2>>(&mut out, "Y3_2", tier, maxlen, 200, tape);
    {
        let cfg = std::sync::Arc::new(Cfg { field: "Y3_2", maxlen: 101, two_adicity: Y3_2::TWO_ADICITY, max_domain: max_domain::<Y3_2>() });
        out.push(Rel::new("mul/Y3_2", tier.pick(1500, 30000), tape, move |t, o| mul_rel::<Y3_2>(&cfg, t, o)).shrink_iters(1500));
    }
    // sparse polynomials of very high degree (vanishing polynomials of large domains, x^(2^k) +- ...): the dense model
    // cannot represent them; oracle = BTreeMap<degree, coefficient> and sum c * x^d with Field::pow
    out.push(Rel::new("sparse.highdeg/bls12_381.Fr", tier.pick(1500, 30000), tape, move |t, o| highdeg::highdeg_rel::<Fr>("bls12_381.Fr", t, o)).shrink_iters(1500));
    // large operands (big.rs)
    {
        use vh_core::zoo::Gold;
        let (mf, mg) = (tier.pick(1usize << 14, 1 << 16), tier.pick(1usize << 15, 1 << 17));
        out.push(Rel::new("big/bls12_381.Fr", tier.pick(8, 240), 160, move |t, o| big::big_rel::<Fr>("bls12_381.Fr", mf, t, o)).shrink_iters(60));
        out.push(Rel::new("big/Gold", tier.pick(14, 400), 160, move |t, o| big::big_rel::<Gold>("Gold", mg, t, o)).shrink_iters(60));
    }
    out.push(Rel::new("sparse.highdeg/T97", tier.pick(1500, 30000), tape, move |t, o| highdeg::highdeg_rel::<T97>("T97", t, o)).shrink_iters(1500));
    out
}

fn main() {
    vh_core::engine::main(PropSpec {
        id: "C08",
        rule: "Operands are canonical coefficient vectors (the model) over BLS12-381 Fr and over F_97 (frequent cancellations), 0..=70 coefficients (thorough 600): zero, constants, short, any length; coefficients uniform / edge values with many zeros / very sparse / {0,±1,2}; pairs are independent or correlated (b = -a + low-degree noise, b = a + noise, equal degree with opposite or equal leading coefficient, b = -a/f + noise for the scaled add, b = a, one side zero); sparse operands are built through SparsePolynomial::from_coefficients_vec/slice from distinct degrees with non-zero coefficients in ascending, descending or shuffled order, independent of the dense operand or sharing/negating its leading term, equal to ±a, of higher or lower degree; divisors are non-zero (a = b*q + r constructed, constants, x^n - c, equal degree, few terms); domains are radix-2/general/mixed subgroups and cosets (offset 1, GENERATOR, tape, subgroup element) of size <= 32 (72 on the toy mixed field) with operand lengths < n, = n, n+1, <= 2n, = 2n, > 2n, k*n. Every result is compared coefficient by coefficient with the schoolbook model's canonical vector (so a non-canonical result fails), degree()/is_zero()/evaluate at {0, 1, -1, two tape points} are checked on it, division results also through a = q*b + r and deg r < deg b. Non-trivial: both operands non-zero and (equal degrees or a leading-term cancellation) for the linear relations; both non-zero and not both constant (mul); dividend non-zero of degree >= deg divisor (div); operand non-zero with at least n coefficients (vanishing); both non-zero and longer than the domain or of equal length (eval-domain); at least two coefficients (conv). Added: every owned/borrowed spelling of dense + - * / (owned-owned, owned-ref, ref-owned, ref-ref); FFT multiplication over the toy field F_1657 (two-adicity 3, small subgroup 3^2), where products with 9..72 coefficients are transformed over mixed-radix domains (relation mul/X3_2, operands up to 38 coefficients; likewise mul/Y3_2 and the domain relations over the field with small subgroup 5^2, domains up to size 200 including the multiples of 25; products that fit no domain are not multiplied by FFT); sparse polynomials of very high degree (relation sparse.highdeg: 0..7 terms at degrees in 0..200, around 2^a +- 1 for a <= 61, uniform below 2^61; pairs sharing degrees with equal / opposite / fresh coefficients, b = +-a, b = -a/f) through constructors, degree, is_zero, evaluate, + += -= +=(f,.) neg *F, SparsePolynomial::mul, evaluate_over_domain(_by_ref) on cosets of size <= 16, against a BTreeMap<degree, coefficient> model and sum c*x^d with Field::pow; non-trivial there: >= 2 terms and degree >= 2^16. Large operands (relation big: up to 2^14 coefficients over BLS12-381 Fr, 2^15 over Goldilocks; thorough 2^16 / 2^17; lengths 2^k, 2^k +- 1, uniform; second operand independent, -a + noise, equal degree with opposite leading coefficient, short, medium, zero): linear operators, dense with few-term sparse, conversions and evaluate compared exactly with the model; products and quotients exactly when la*lb <= 2^20, otherwise through a(x)b(x) = p(x) and q(x)b(x) + r(x) = a(x) at five points plus degree and canonical-form conditions; mul_by_vanishing_poly exactly, divide_by_vanishing_poly through q*Z + r = a with the length conditions, evaluate_over_domain at 8 elements of a coset of size <= 2^13, interpolate = the remainder. distinct = distinct decoded choice sequences.",
        assumptions: &[
            "prime-field arithmetic is correct (C01); domain construction and fft/ifft are C07's subject (used here only through evaluate_over_domain/interpolate/FFT multiplication, whose results are compared with the model)",
            "sparse inputs: distinct degrees, non-zero coefficients, any order (the only input shape the constructor documents); dense inputs go through from_coefficients_vec/slice (which strips trailing zeros)",
            "division by the zero polynomial panics by documentation and is not generated; FFT multiplication is only requested when a domain of size >= deg a + deg b + 1 exists, i.e. up to 2^TWO_ADICITY, times q^k for a field with a declared small subgroup (documented panic otherwise); Evaluations division only with non-zero divisor evaluations",
            "coefficients beyond the first three and the leading one are expanded from one tape word by a fixed mixing function (pure function of the tape)",
            "for large operands whose schoolbook product is not affordable a wrong product/quotient of the right degree passes the five-point identity with probability <= 5*deg/|F| (|F| >= 2^64)",
            "high-degree sparse operands stay below degree 2^61 so that the degrees of a product do not overflow usize (an overflow there is outside any documented domain)",
        ],
        relations,
    })
}
