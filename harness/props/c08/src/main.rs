//! C08 — not implemented yet.
fn main() {
    eprintln!("C08: check not implemented");
    std::process::exit(2);
}
