//! C08, large operands (hundreds to tens of thousands of coefficients): every operator once more on operands far above
//! the 71 (601) coefficients of the other relations, so that a size-dependent path (chunked loops, a fast path above some
//! length) cannot hide. Linear operators are still compared coefficient by coefficient with the model (O(n)); products,
//! quotients and vanishing-polynomial helpers are compared exactly when the schoolbook model is affordable and otherwise
//! through polynomial identities evaluated by Horner at five points {0, 1, -1, two tape points} together with the
//! degree / canonical-form conditions (a = q*b + r with deg r < deg b determines q and r; a wrong product of the right
//! degree agrees with a(x)*b(x) at a random point with probability <= deg/|F|).
use super::*;

fn big_len(t: &mut Tape<'_>, maxlen: usize) -> usize {
    let kmax = ark_std::log2(maxlen) as u64; // ceil
    match t.weighted(&[3, 3, 1]) {
        0 => {
            let k = t.range(8, kmax.max(8));
            let x = 1usize << k;
            match t.below(4) {
                0 => x,
                1 => x - 1,
                2 => x + 1,
                _ => x + t.below(x as u64 / 2) as usize,
            }
        },
        1 => t.range(300, maxlen as u64) as usize,
        _ => maxlen - t.below(3) as usize,
    }
    .min(maxlen)
    .max(2)
}

fn eval_all<F: PrimeField>(m: &[F], pts: &[F]) -> Vec<F> {
    pts.iter().map(|x| m_eval(m, x)).collect()
}

fn canonical<F: PrimeField>(op: &str, p: &DensePolynomial<F>) -> R {
    ensure!(p.coeffs.last().map_or(true, |c| !c.is_zero()), format!("{}.noncanonical", op), "{}: result has {} coefficients with a zero leading coefficient", op, p.coeffs.len());
    Ok(())
}

pub(crate) fn big_rel<F: PrimeField>(field: &'static str, maxlen: usize, t: &mut Tape<'_>, o: &mut Obs) -> R {
    let la = big_len(t, maxlen);
    let f = tape_coeff::<F>(t);
    let am = fill::<F>(t, la);
    let (bm, bc): (M<F>, &'static str) = match t.weighted(&[3, 2, 2, 2, 1, 2]) {
        0 => {
            let l = big_len(t, maxlen);
            (fill(t, l), "big-b=independent")
        },
        1 => (m_add(&m_neg(&am), &noise(t, la)), "big-b=-a+noise"),
        2 => {
            let mut b = fill::<F>(t, la);
            *b.last_mut().unwrap() = -*am.last().unwrap();
            (b, "big-b=equal degree, opposite leading")
        },
        3 => {
            let l = 1 + t.below(8) as usize;
            (fill(t, l), "big-b=short")
        },
        4 => (vec![], "big-b=zero"),
        _ => {
            let l = 9 + t.below(192) as usize;
            (fill(t, l), "big-b=medium")
        },
    };
    let lb = bm.len();
    let a = to_dense(t, &am);
    let b = to_dense(t, &bm);
    let pts = points::<F>(t);
    o.show(|| format!("{}: a={} b={} f={} [{}]", field, show_m(&am), show_m(&bm), f, bc));
    o.class(bc);
    o.class_if(la >= 1 << 10, "big: >= 2^10 coefficients");
    o.class_if(la >= 1 << 12, "big: >= 2^12 coefficients");
    o.class_if(la >= 1 << 14, "big: >= 2^14 coefficients");
    o.nt(lb >= 1);
    o.evals(24);
    // ---- linear operators: exact --------------------------------------------------------------------------
    let sum = m_add(&am, &bm);
    let dif = m_sub(&am, &bm);
    let sadd = m_add(&am, &m_scale(&bm, f));
    chk_dense("big.add", &no_panic("big.add", || &a + &b)?, &sum, &pts)?;
    chk_dense("big.sub", &no_panic("big.sub", || &a - &b)?, &dif, &pts)?;
    chk_dense("big.sub.rev", &no_panic("big.sub.rev", || &b - &a)?, &m_neg(&dif), &[])?;
    chk_dense("big.neg", &no_panic("big.neg", || -a.clone())?, &m_neg(&am), &[])?;
    chk_dense("big.scale", &no_panic("big.scale", || &a * f)?, &m_scale(&am, f), &[])?;
    let mut x = a.clone();
    no_panic("big.add_assign", || x += &b)?;
    chk_dense("big.add_assign", &x, &sum, &[])?;
    let mut x = a.clone();
    no_panic("big.sub_assign", || x -= &b)?;
    chk_dense("big.sub_assign", &x, &dif, &[])?;
    let mut x = a.clone();
    no_panic("big.add_assign_scaled", || x += (f, &b))?;
    chk_dense("big.add_assign_scaled", &x, &sadd, &pts)?;
    // dense with a few-term sparse operand of degree up to 2*la
    let sm = gen_sparse_model::<F>(t, 2 * la);
    let s = to_sparse(t, &sm);
    chk_sparse("big.sparse.from_coefficients", &s, &sm, &pts[3..])?;
    chk_dense("big.ds.add", &no_panic("big.ds.add", || &a + &s)?, &m_add(&am, &sm), &[])?;
    chk_dense("big.ds.sub", &no_panic("big.ds.sub", || &a - &s)?, &m_sub(&am, &sm), &pts[3..])?;
    let mut x = a.clone();
    no_panic("big.ds.add_assign", || x += &s)?;
    chk_dense("big.ds.add_assign", &x, &m_add(&am, &sm), &[])?;
    let mut x = a.clone();
    no_panic("big.ds.sub_assign", || x -= &s)?;
    chk_dense("big.ds.sub_assign", &x, &m_sub(&am, &sm), &[])?;
    // sparse copy of the dense operand: conversions and sparse evaluation on thousands of terms
    let sa: SparsePolynomial<F> = a.clone().into();
    chk_sparse("big.dense->sparse", &sa, &am, &pts[3..])?;
    let back: DensePolynomial<F> = sa.clone().into();
    chk_dense("big.sparse->dense", &back, &am, &[])?;
    // ---- products ---------------------------------------------------------------------------------------------
    let (va, vb) = (eval_all(&am, &pts), eval_all(&bm, &pts));
    let both = la >= 1 && lb >= 1;
    let check_product = |op: &str, p: &DensePolynomial<F>, exact: Option<&M<F>>| -> R {
        canonical(op, p)?;
        if let Some(w) = exact {
            return chk_dense(op, p, w, &[]);
        }
        ensure!(p.is_zero() == !both, format!("{}.is_zero", op), "{}: is_zero", op);
        if both {
            ensure_eq!(p.degree(), la + lb - 2, format!("{}.degree", op));
        }
        for (i, x) in pts.iter().enumerate() {
            ensure!(p.evaluate(x) == va[i] * vb[i], format!("{}.value", op), "{}: (a*b)({}) != a({})*b({})", op, x, x, x);
        }
        Ok(())
    };
    let affordable = (la as u64) * (lb as u64) <= 1 << 20;
    let prod = if affordable { Some(m_mul(&am, &bm)) } else { None };
    o.class_if(affordable && both, "big: product compared exactly");
    let fits = !both || ((la + lb - 1) as u128) <= max_domain::<F>();
    if fits {
        check_product("big.fft_mul", &no_panic("big.fft_mul", || &a * &b)?, prod.as_ref())?;
    }
    if affordable {
        check_product("big.naive_mul", &no_panic("big.naive_mul", || a.naive_mul(&b))?, prod.as_ref())?;
    }
    // ---- division: a = q*b + r, deg r < deg b, at the points ---------------------------------------------------
    if lb >= 1 && affordable {
        let da = DenseOrSparsePolynomial::from(&a);
        let db = DenseOrSparsePolynomial::from(&b);
        let (q, r) = match no_panic("big.divide_with_q_and_r", || da.divide_with_q_and_r(&db))? {
            Some(x) => x,
            None => return vh_core::fail("big.divide_with_q_and_r.none", "None for a non-zero divisor"),
        };
        canonical("big.div.q", &q)?;
        canonical("big.div.r", &r)?;
        ensure!(r.coeffs.len() < lb, "big.div.rdeg", "remainder has {} coefficients, divisor {}", r.coeffs.len(), lb);
        ensure_eq!(q.coeffs.len(), if la >= lb { la - lb + 1 } else { 0 }, "big.div.qdeg");
        for (i, x) in pts.iter().enumerate() {
            ensure!(q.evaluate(x) * vb[i] + r.evaluate(x) == va[i], "big.div.identity", "q*b + r != a at {}", x);
        }
        let q2 = no_panic("big.div", || &a / &b)?;
        ensure!(q2 == q, "big.div", "`/` differs from divide_with_q_and_r");
    }
    // ---- vanishing-polynomial helpers and evaluation over a domain much smaller than the operand -------------
    if F::TWO_ADICITY >= 1 {
        let lg = t.below(F::TWO_ADICITY.min(13) as u64 + 1);
        let d0 = GeneralEvaluationDomain::<F>::new(1usize << lg).ok_or_else(|| err("big.domain".into(), "no domain".into()))?;
        let n = d0.size();
        let h = match t.below(3) {
            0 => F::one(),
            1 => F::GENERATOR,
            _ => nonzero(tape_coeff::<F>(t)),
        };
        let d = d0.get_coset(h).ok_or_else(|| err("big.domain".into(), "get_coset".into()))?;
        o.class_if(la > 2 * n, "operand longer than 2n");
        let hn = h.pow([n as u64]);
        let zv: Vec<F> = pts.iter().map(|x| x.pow([n as u64]) - hn).collect();
        let mut z = vec![F::zero(); n + 1];
        z[0] = -hn;
        z[n] += F::one();
        let want = m_mul(&canon(z), &am); // outer loop over the two non-zero terms of Z
        chk_dense("big.mul_by_vanishing_poly", &no_panic("big.mul_by_vanishing_poly", || a.mul_by_vanishing_poly(d))?, &want, &[])?;
        let (q, r) = no_panic("big.divide_by_vanishing_poly", || a.divide_by_vanishing_poly(d))?;
        canonical("big.divide_by_vanishing_poly.q", &q)?;
        canonical("big.divide_by_vanishing_poly.r", &r)?;
        ensure!(r.coeffs.len() <= n, "big.divide_by_vanishing_poly.rdeg", "remainder has {} coefficients, domain size {}", r.coeffs.len(), n);
        ensure_eq!(q.coeffs.len(), la.saturating_sub(n), "big.divide_by_vanishing_poly.qdeg");
        for (i, x) in pts.iter().enumerate() {
            ensure!(q.evaluate(x) * zv[i] + r.evaluate(x) == va[i], "big.divide_by_vanishing_poly.identity", "q*Z + r != a at {} (domain size {}, {} coefficients)", x, n, la);
        }
        // evaluate_over_domain: 8 sampled elements by Horner; interpolate gives the remainder just checked
        let ev = no_panic("big.evaluate_over_domain_by_ref", || a.evaluate_over_domain_by_ref(d))?;
        ensure_eq!(ev.evals.len(), n, "big.evaluate_over_domain.len");
        let ev2 = no_panic("big.evaluate_over_domain", || a.clone().evaluate_over_domain(d))?;
        ensure!(ev2.evals == ev.evals, "big.evaluate_over_domain.owned", "owned and borrowed evaluation differ");
        for k in 0..8 {
            let i = if k == 0 { 0 } else { t.idx(n) };
            let e = h * d0.group_gen().pow([i as u64]);
            ensure!(ev.evals[i] == m_eval(&am, &e), "big.evaluate_over_domain", "value {} of {} coefficients over a coset of size {}", i, la, n);
        }
        let ip = no_panic("big.interpolate", || ev.interpolate())?;
        ensure!(ip == r, "big.interpolate", "interpolate(evaluate_over_domain(a)) differs from a mod Z");
    }
    Ok(())
}
