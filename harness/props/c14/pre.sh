#!/bin/bash
# Builds the parallel peer (separate workspace, `parallel` feature on) against /repo's working tree.
set -u
HERE="$(cd "$(dirname "$0")" && pwd)"
cd "$HERE/../../par" || exit 2
unset CARGO_TARGET_DIR
export CARGO_NET_OFFLINE=true
cargo build --release > target-build.log 2>&1 || { mkdir -p target; tail -n 30 target-build.log; exit 2; }
exit 0
