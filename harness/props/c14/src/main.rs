//! C14 — not implemented yet.
fn main() {
    eprintln!("C14: check not implemented");
    std::process::exit(2);
}
