//! C14 — results do not depend on the parallel feature or on the number of threads.
//!
//! This binary is the *serial* build. Every case is computed here (serial code paths) and, through a
//! long-lived child process `c14p` (the same operations compiled with the `parallel` feature, built in the
//! separate workspace /verif/harness/par), inside rayon pools of 1, 2, 3, 4, 5, 6, 7, 8, 12, 16, 24, 32, 33 and 64
//! threads. All results must be byte-identical.
use c14_ops::{digest, ops};
use std::cell::RefCell;
use std::io::{BufRead, BufReader, Write};
use std::process::{Child, ChildStdin, ChildStdout, Command, Stdio};
use vh_core::engine::{Fail, PropSpec, Rel, Tier};

struct Peer {
    child: Child,
    stdin: ChildStdin,
    stdout: BufReader<ChildStdout>,
}

thread_local! {
    static PEER: RefCell<Option<Peer>> = const { RefCell::new(None) };
}

fn peer_path() -> std::path::PathBuf {
    if let Ok(p) = std::env::var("C14P_BIN") {
        return p.into();
    }
    let root = std::env::var("VERIF_ROOT").unwrap_or_else(|_| "/verif".into());
    std::path::Path::new(&root).join("harness/par/target/release/c14p")
}

fn spawn_peer() -> Result<Peer, String> {
    let path = peer_path();
    let mut child = Command::new(&path)
        .stdin(Stdio::piped())
        .stdout(Stdio::piped())
        .stderr(Stdio::null())
        .spawn()
        .map_err(|e| format!("cannot start parallel peer {}: {}", path.display(), e))?;
    let stdin = child.stdin.take().unwrap();
    let stdout = BufReader::new(child.stdout.take().unwrap());
    Ok(Peer { child, stdin, stdout })
}

/// ask the parallel build for the digests of one case under every pool size
fn ask_peer(op: usize, tape: &[u64]) -> Result<Vec<(usize, String)>, String> {
    PEER.with(|p| {
        let mut p = p.borrow_mut();
        if p.is_none() {
            *p = Some(spawn_peer()?);
        }
        let peer = p.as_mut().unwrap();
        let mut line = format!("{}", op);
        for w in tape {
            line.push_str(&format!(" {:x}", w));
        }
        line.push('\n');
        let io = (|| -> std::io::Result<String> {
            peer.stdin.write_all(line.as_bytes())?;
            peer.stdin.flush()?;
            let mut resp = String::new();
            peer.stdout.read_line(&mut resp)?;
            Ok(resp)
        })();
        match io {
            Ok(resp) if !resp.trim().is_empty() => {
                let mut out = Vec::new();
                for part in resp.trim().split(' ') {
                    let (n, d) = part.split_once('=').ok_or_else(|| format!("bad peer response {:?}", resp))?;
                    out.push((n.parse::<usize>().map_err(|_| format!("bad peer response {:?}", resp))?, d.to_string()));
                }
                Ok(out)
            },
            other => {
                let _ = peer.child.kill();
                let _ = peer.child.wait();
                *p = None;
                Err(format!("parallel peer died or answered nothing ({:?})", other.err()))
            },
        }
    })
}

fn relations(tier: Tier) -> Vec<Rel> {
    let mut out = Vec::new();
    for (idx, op) in ops().into_iter().enumerate() {
        let run = op.run;
        let name = op.name;
        let cases = tier.pick(op.cases_quick, op.cases_thorough);
        out.push(
            Rel::new(name, cases, op.tape_len, move |t, o| {
                let raw = t.snapshot();
                let serial = run(t);
                o.show(|| serial.desc.clone());
                o.nt(serial.above_threshold);
                o.class_if(serial.above_threshold, "above-parallel-threshold");
                o.class_if(serial.size == 0, "empty-input");
                let want = digest(&serial.bytes);
                let want = format!("{:016x}{:016x}:{}", want.0, want.1, want.2);
                let answers = ask_peer(idx, &raw).map_err(|e| Fail { sig: "peer".into(), msg: e })?;
                o.evals(answers.len() as u64);
                for (threads, d) in answers {
                    o.class_if(serial.size > 0 && threads > serial.size, "threads>input");
                    o.class_if(serial.size > 0 && serial.size % threads != 0, "threads-do-not-divide-input");
                    if d != want {
                        return Err(Fail {
                            sig: "serial!=parallel".into(),
                            msg: format!("{}: parallel build with {} threads gives {} but the serial build gives {}", serial.desc, threads, d, want),
                        });
                    }
                }
                Ok(())
            })
            .shrink_iters(200),
        );
    }
    out
}

fn main() {
    vh_core::engine::main(PropSpec {
        id: "C14",
        rule: "Each case (operation, sizes, data seed) is decoded from a proptest tape; sizes are biased towards the work-splitting thresholds of the parallel code (16-coefficient Horner chunks, 2^7 roots-of-unity recursion, 1024-element chunks, 2^10 butterfly gap, 32-term MSM window switch, 4-pair Miller-loop chunks). The serial build (this binary) computes the canonical serialization of the result; the parallel build (c14p) recomputes it inside rayon pools of 1,2,3,4,5,6,7,8,12,16,24,32,33,64 threads; all digests must agree. Non-trivial: input size above the operation's parallel threshold; distinct = distinct decoded choice sequences. evaluations counts serial-vs-pool comparisons.",
        assumptions: &[
            "work-stealing schedules are sampled (14 pools per case), not enumerated: all parallel code is data-parallel over disjoint chunks with deterministic reductions in a field/group, forbid(unsafe_code) + rayon's API exclude data races, so the result is a function of (input, pool size), which is what is generated",
            "correctness of the serial results themselves is the subject of C01/C03-C08/C17/C18",
            "digests: two independent 64-bit hashes + length of the canonical serialization",
        ],
        relations,
    })
}
