//! Operations with a parallel code path, as pure functions tape -> canonical result bytes.
//! Compiled twice: without `parallel` (inside /verif/harness, binary `c14`) and with `parallel`
//! (inside /verif/harness/par, binary `c14p`). The two builds must produce identical bytes.
#![allow(clippy::type_complexity)]
use ark_ec::pairing::Pairing;
use ark_ec::scalar_mul::variable_base::VariableBaseMSM;
use ark_ec::scalar_mul::{BatchMulPreprocessing, ScalarMul};
use ark_ec::{AffineRepr, CurveGroup, PrimeGroup};
#[allow(unused_imports)]
use ark_ff::Field;
use ark_ff::{AdditiveGroup, FftField, PrimeField, Zero};
use ark_poly::domain::{EvaluationDomain, GeneralEvaluationDomain, MixedRadixEvaluationDomain, Radix2EvaluationDomain};
use ark_poly::polynomial::multivariate::{SparsePolynomial as MvPoly, SparseTerm, Term};
use ark_poly::univariate::{DensePolynomial, SparsePolynomial};
use ark_poly::{DenseMVPolynomial, DenseMultilinearExtension, DenseUVPolynomial, Evaluations, MultilinearExtension, Polynomial, SparseMultilinearExtension};
use ark_serialize::{CanonicalDeserialize, CanonicalSerialize};
use vh_core::engine::Tape;

pub const PARALLEL_BUILD: bool = cfg!(feature = "parallel");

pub struct Outcome {
    pub bytes: Vec<u8>,
    pub desc: String,
    /// input size above the operation's parallel work-splitting threshold
    pub above_threshold: bool,
    pub size: usize,
}

pub struct Op {
    pub name: &'static str,
    pub tape_len: usize,
    pub cases_quick: u32,
    pub cases_thorough: u32,
    pub run: fn(&mut Tape<'_>) -> Outcome,
}

// ---------------------------------------------------------------------------------------
// deterministic expansion of tape words into bulk data (a pure function of the tape)
// ---------------------------------------------------------------------------------------
pub struct Stream(u64);
impl Stream {
    pub fn new(seed: u64) -> Self {
        Stream(seed)
    }
    pub fn next(&mut self) -> u64 {
        self.0 = self.0.wrapping_add(0x9e3779b97f4a7c15);
        let mut z = self.0;
        z = (z ^ (z >> 30)).wrapping_mul(0xbf58476d1ce4e5b9);
        z = (z ^ (z >> 27)).wrapping_mul(0x94d049bb133111eb);
        z ^ (z >> 31)
    }
    pub fn field<F: PrimeField>(&mut self) -> F {
        // sprinkle zeros / ones / minus ones
        match self.next() % 16 {
            0 => F::zero(),
            1 => F::one(),
            2 => -F::one(),
            _ => {
                let n = (F::MODULUS_BIT_SIZE as usize + 7) / 8 + 8;
                let mut b = Vec::with_capacity(n);
                while b.len() < n {
                    b.extend_from_slice(&self.next().to_le_bytes());
                }
                F::from_le_bytes_mod_order(&b[..n])
            },
        }
    }
    pub fn fields<F: PrimeField>(&mut self, n: usize) -> Vec<F> {
        (0..n).map(|_| self.field()).collect()
    }
}

fn ser<T: CanonicalSerialize>(t: &T) -> Vec<u8> {
    let mut v = Vec::new();
    t.serialize_uncompressed(&mut v).expect("serialize");
    v
}

fn size_from(t: &mut Tape<'_>, max: usize, marks: &[usize]) -> usize {
    // sizes: around the thresholds in `marks`, or uniform
    match t.weighted(&[2, 5, 3]) {
        0 => t.below(20) as usize,
        1 => {
            let m = marks[t.idx(marks.len())];
            let d = t.below(5) as usize;
            (m + d).saturating_sub(2).min(max)
        },
        _ => t.below(max as u64 + 1) as usize,
    }
}

// ---------------------------------------------------------------------------------------
// FFT family
// ---------------------------------------------------------------------------------------
/// every constructible size of the domain kind up to `max` (walks the {2^a q^b} lattice through the public API)
fn lattice_sizes<F: FftField, D: EvaluationDomain<F>>(max: usize) -> Vec<usize> {
    let mut out = Vec::new();
    let mut s = 1usize;
    while s <= max {
        match D::compute_size_of_domain(s) {
            Some(n) if n <= max => {
                out.push(n);
                s = n + 1;
            },
            _ => break,
        }
    }
    out
}

/// coefficient vectors with structure: dense, monomials, sparse, polynomials in x^m, a zero residue class
fn structured_coeffs<F: PrimeField>(t: &mut Tape<'_>, s: &mut Stream, len: usize) -> (Vec<F>, &'static str) {
    if len == 0 {
        return (Vec::new(), "empty");
    }
    match t.weighted(&[5, 2, 2, 2, 2]) {
        0 => (s.fields(len), "dense"),
        1 => {
            let mut v = vec![F::zero(); len];
            let k = t.below(len as u64) as usize;
            v[k] = s.field::<F>() + F::one();
            if t.bool() {
                v[0] += F::one();
            }
            (v, "monomial")
        },
        2 => ((0..len).map(|_| if s.next() % 8 == 0 { s.field() } else { F::zero() }).collect(), "sparse"),
        3 => {
            let m = [2usize, 3, 4, 5, 6, 7, 9, 16, 25][t.idx(9)];
            ((0..len).map(|i| if i % m == 0 { s.field() } else { F::zero() }).collect(), "poly-in-x^m")
        },
        _ => {
            // everything except one residue class modulo m is filled
            let m = [2usize, 3, 4, 5, 8, 9, 18, 25, 36][t.idx(9)];
            let r = t.below(m as u64) as usize;
            ((0..len).map(|i| if i % m == r { F::zero() } else { s.field::<F>() + F::one() }).collect(), "zero-residue-class")
        },
    }
}

fn fft_generic<F: FftField + PrimeField, D: EvaluationDomain<F>>(t: &mut Tape<'_>, max_size: usize, what: &str) -> Outcome {
    let req = match t.weighted(&[1, 3, 3, 5]) {
        0 => t.below(64) as usize,
        1 => 1usize << t.below((max_size.trailing_zeros() + 1) as u64),
        2 => t.below(max_size as u64 + 1) as usize,
        _ => {
            // uniform over the constructible sizes (so that sizes with a large odd part and little 2-adicity,
            // and every size in between, are as likely as powers of two)
            let l = lattice_sizes::<F, D>(max_size);
            if l.is_empty() { 1 } else { l[t.idx(l.len())] }
        },
    };
    let mut s = Stream::new(t.u64());
    let dom = match D::new(req) {
        Some(d) => d,
        None => {
            return Outcome { bytes: b"no-domain".to_vec(), desc: format!("{}: new({}) = None", what, req), above_threshold: false, size: req }
        },
    };
    let coset = t.below(3);
    let dom = match coset {
        0 => dom,
        1 => dom.get_coset(F::GENERATOR).unwrap(),
        _ => dom.get_coset(s.field::<F>() + F::from(2u64)).unwrap_or(dom),
    };
    let n = dom.size();
    let len = match t.weighted(&[1, 3, 2, 2]) {
        0 => 0,
        1 => n,
        2 => (n / 4 + t.below(3) as usize).saturating_sub(1).min(n),
        _ => t.below(n as u64 + 1) as usize,
    };
    let (coeffs, shape): (Vec<F>, &str) = structured_coeffs(t, &mut s, len);
    let mode = t.below(6);
    let mut out = Vec::new();
    match mode {
        0 => out = ser(&dom.fft(&coeffs)),
        1 => out = ser(&dom.ifft(&coeffs)),
        2 => {
            let e = dom.fft(&coeffs);
            out = ser(&dom.ifft(&e));
        },
        3 => {
            let tau = s.field::<F>();
            out = ser(&dom.evaluate_all_lagrange_coefficients(tau));
        },
        4 => {
            let els: Vec<F> = dom.elements().collect();
            out = ser(&els);
        },
        _ => {
            let mut c = coeffs.clone();
            let g = s.field::<F>();
            D::distribute_powers(&mut c, g);
            let mut c2 = coeffs.clone();
            D::distribute_powers_and_mul_by_const(&mut c2, g, s.field::<F>());
            out.extend(ser(&c));
            out.extend(ser(&c2));
        },
    }
    Outcome {
        bytes: out,
        desc: format!("{}: requested size {} -> domain {} coset={} input len {} ({}) mode {}", what, req, n, coset, len, shape, mode),
        above_threshold: n >= 1 << 10 || (mode == 5 && len >= 1024) || (mode == 3 && n >= 128),
        size: n,
    }
}

fn op_fft_gold(t: &mut Tape<'_>) -> Outcome {
    fft_generic::<vh_core::zoo::Gold, Radix2EvaluationDomain<vh_core::zoo::Gold>>(t, 1 << 14, "radix2/Goldilocks")
}
fn op_fft_fr(t: &mut Tape<'_>) -> Outcome {
    use ark_test_curves::bls12_381::Fr;
    fft_generic::<Fr, Radix2EvaluationDomain<Fr>>(t, 1 << 12, "radix2/bls12_381.Fr")
}
fn op_fft_mixed(t: &mut Tape<'_>) -> Outcome {
    use ark_test_curves::bn384_small_two_adicity::Fr;
    fft_generic::<Fr, MixedRadixEvaluationDomain<Fr>>(t, 4608, "mixed/bn384.Fr")
}
fn op_fft_mixed_mnt4753(t: &mut Tape<'_>) -> Outcome {
    use ark_test_curves::mnt4_753::Fr;
    fft_generic::<Fr, MixedRadixEvaluationDomain<Fr>>(t, 1600, "mixed/mnt4_753.Fr")
}
fn op_fft_mixed_mnt4298(t: &mut Tape<'_>) -> Outcome {
    use ark_mnt4_298::Fq;
    fft_generic::<Fq, MixedRadixEvaluationDomain<Fq>>(t, 3136, "mixed/mnt4_298.Fq")
}
fn op_fft_general(t: &mut Tape<'_>) -> Outcome {
    use ark_test_curves::bn384_small_two_adicity::Fr;
    fft_generic::<Fr, GeneralEvaluationDomain<Fr>>(t, 4608, "general/bn384.Fr")
}
fn op_fft_general_fr(t: &mut Tape<'_>) -> Outcome {
    use ark_test_curves::bls12_381::Fr;
    fft_generic::<Fr, GeneralEvaluationDomain<Fr>>(t, 1 << 12, "general/bls12_381.Fr")
}

/// FFT of group elements (DomainCoeff = curve points)
fn op_fft_points(t: &mut Tape<'_>) -> Outcome {
    use ark_test_curves::bls12_381::{Fr, G1Projective};
    let n = 1usize << (8 - t.below(9).min(8));
    let dom = Radix2EvaluationDomain::<Fr>::new(n).unwrap();
    let mut s = Stream::new(t.u64());
    let len = t.below(n as u64 + 1) as usize;
    let g = G1Projective::generator();
    let pts: Vec<G1Projective> = (0..len).map(|_| g * s.field::<Fr>()).collect();
    let e = dom.fft(&pts);
    let aff = G1Projective::normalize_batch(&e);
    Outcome { bytes: ser(&aff), desc: format!("fft of {} G1 points over a domain of {}", len, n), above_threshold: n >= 128, size: n }
}

// ---------------------------------------------------------------------------------------
// univariate polynomials
// ---------------------------------------------------------------------------------------
fn op_poly<F: FftField + PrimeField>(t: &mut Tape<'_>, max_deg: usize, what: &str) -> Outcome {
    let mut s = Stream::new(t.u64());
    let da = size_from(t, max_deg, &[16, 17, 32, 256, 1024, 2048]);
    let db = size_from(t, max_deg, &[16, 64, 1024]);
    let a = DensePolynomial::<F>::from_coefficients_vec(s.fields(da));
    let b = DensePolynomial::<F>::from_coefficients_vec(s.fields(db));
    let mode = t.below(8);
    let mut out = Vec::new();
    match mode {
        0 => {
            let x = s.field::<F>();
            out = ser(&a.evaluate(&x));
            out.extend(ser(&a.evaluate(&F::zero())));
        },
        1 => out = ser(&(&a * &b)),
        2 => {
            let n = 1usize << t.below(11);
            let d = GeneralEvaluationDomain::<F>::new(n).unwrap();
            let d = if t.bool() { d.get_coset(F::GENERATOR).unwrap() } else { d };
            out = ser(&a.mul_by_vanishing_poly(d));
            let (q, r) = a.divide_by_vanishing_poly(d);
            out.extend(ser(&q));
            out.extend(ser(&r));
        },
        3 => {
            let n = 1usize << t.below(12);
            let d = GeneralEvaluationDomain::<F>::new(n).unwrap();
            let e = a.clone().evaluate_over_domain(d);
            out = ser(&e.evals);
            out.extend(ser(&e.interpolate()));
        },
        4 => {
            let n = 1usize << t.below(12);
            let d = Radix2EvaluationDomain::<F>::new(n).unwrap();
            let ea = Evaluations::from_vec_and_domain(s.fields(n), d);
            let eb = Evaluations::from_vec_and_domain(s.fields(n), d);
            out = ser(&(&ea * &eb).evals);
            out.extend(ser(&(&ea + &eb).evals));
            out.extend(ser(&(&ea - &eb).evals));
            let mut ec = ea.clone();
            ec *= &eb;
            out.extend(ser(&ec.evals));
            let nz: Vec<F> = eb.evals.iter().map(|x| if x.is_zero() { F::one() } else { *x }).collect();
            let ed = Evaluations::from_vec_and_domain(nz, d);
            out.extend(ser(&(&ea / &ed).evals));
        },
        5 => {
            // sparse polynomial evaluation / scaling
            let terms = t.below(200) as usize;
            let mut cs: Vec<(usize, F)> = (0..terms).map(|i| (i * 7 + (s.next() % 7) as usize, s.field::<F>() + F::one())).filter(|(_, c)| !c.is_zero()).collect();
            cs.dedup_by_key(|x| x.0);
            let sp = SparsePolynomial::<F>::from_coefficients_vec(cs);
            let x = s.field::<F>();
            out = ser(&sp.evaluate(&x));
            out.extend(ser(&(&sp * s.field::<F>())));
            // sparse polynomial over a (coset) domain that is smaller than its degree: x^n - 1, x^(4n) + ..., random terms
            let n = 1usize << t.below(8);
            let d = GeneralEvaluationDomain::<F>::new(n).unwrap();
            let d = if t.chance(3, 4) { d.get_coset(F::GENERATOR).unwrap() } else { d };
            let extra = SparsePolynomial::<F>::from_coefficients_vec(vec![(0, -F::one()), (n * (1 + t.below(5) as usize), F::one()), (n + 3, s.field::<F>() + F::one())].into_iter().filter(|(_, c)| !c.is_zero()).collect());
            out.extend(ser(&sp.evaluate_over_domain_by_ref(d).evals));
            out.extend(ser(&extra.clone().evaluate_over_domain(d).evals));
            out.extend(ser(&extra.evaluate_over_domain_by_ref(d).evals));
        },
        6 => {
            let k = s.field::<F>();
            out = ser(&(&a * k));
            let mut c = a.clone();
            c += (k, &b);
            out.extend(ser(&c));
        },
        _ => {
            // DenseOrSparse evaluate_over_domain for a polynomial longer than the domain
            let n = 1usize << t.below(9);
            let d = GeneralEvaluationDomain::<F>::new(n).unwrap();
            let d = if t.bool() { d.get_coset(F::GENERATOR).unwrap() } else { d };
            let e = a.evaluate_over_domain_by_ref(d);
            out = ser(&e.evals);
        },
    }
    Outcome { bytes: out, desc: format!("{}: deg a {} deg b {} mode {}", what, da, db, mode), above_threshold: da >= 32 || db >= 32, size: da.max(db) }
}
fn op_poly_fr(t: &mut Tape<'_>) -> Outcome {
    op_poly::<ark_test_curves::bls12_381::Fr>(t, 3000, "poly/bls12_381.Fr")
}
fn op_poly_gold(t: &mut Tape<'_>) -> Outcome {
    op_poly::<vh_core::zoo::Gold>(t, 9000, "poly/Goldilocks")
}

// ---------------------------------------------------------------------------------------
// batch inversion
// ---------------------------------------------------------------------------------------
fn op_batch_inv<F: PrimeField>(t: &mut Tape<'_>, what: &str) -> Outcome {
    let mut s = Stream::new(t.u64());
    let n = size_from(t, 3000, &[1, 2, 7, 15, 16, 17, 33, 100, 1000]);
    let mut v: Vec<F> = s.fields(n);
    let k = s.field::<F>() + F::from(3u64);
    let mut w = v.clone();
    ark_ff::batch_inversion(&mut v);
    ark_ff::batch_inversion_and_mul(&mut w, &k);
    let mut out = ser(&v);
    out.extend(ser(&w));
    Outcome { bytes: out, desc: format!("{}: batch_inversion(_and_mul) of {} elements (with zeros)", what, n), above_threshold: n >= 2, size: n }
}
fn op_batch_inv_fr(t: &mut Tape<'_>) -> Outcome {
    op_batch_inv::<ark_test_curves::bls12_381::Fr>(t, "bls12_381.Fr")
}
fn op_batch_inv_fq(t: &mut Tape<'_>) -> Outcome {
    op_batch_inv::<ark_test_curves::bls12_381::Fq>(t, "bls12_381.Fq")
}

// ---------------------------------------------------------------------------------------
// MSM / batch_mul / normalize_batch
// ---------------------------------------------------------------------------------------
fn op_msm<G: CurveGroup + VariableBaseMSM<MulBase = <G as CurveGroup>::Affine>>(t: &mut Tape<'_>, max: usize, what: &str) -> Outcome
where
    G::ScalarField: PrimeField,
{
    let mut s = Stream::new(t.u64());
    let n = size_from(t, max, &[1, 31, 32, 33, 64, 128, 256, 512]);
    let g = G::generator();
    // bases: few distinct multiples (cheap), with identities and repeats
    let pool: Vec<G> = (0..8).map(|i| g * G::ScalarField::from(i as u64 * 3 + (i == 3) as u64)).collect();
    let mut acc = g;
    let bases_p: Vec<G> = (0..n)
        .map(|i| {
            if s.next() % 5 == 0 {
                pool[(s.next() % 8) as usize]
            } else {
                acc += pool[1 + i % 7];
                acc
            }
        })
        .collect();
    let bases = G::normalize_batch(&bases_p);
    let scalars: Vec<G::ScalarField> = s.fields(n);
    let mode = t.below(4);
    let out = match mode {
        0 => ser(&G::msm(&bases, &scalars).map(|x| x.into_affine()).map_err(|e| e as u64).unwrap_or_else(|_| G::zero().into_affine())),
        1 => {
            let k = t.below(n as u64 + 1) as usize;
            ser(&G::msm_unchecked(&bases[..k], &scalars).into_affine())
        },
        2 => {
            let bi: Vec<_> = scalars.iter().map(|x| x.into_bigint()).collect();
            ser(&G::msm_bigint(&bases, &bi).into_affine())
        },
        _ => ser(&G::msm_chunks(&bases.as_slice(), &scalars.as_slice()).into_affine()),
    };
    Outcome { bytes: out, desc: format!("{}: msm mode {} of {} terms", what, mode, n), above_threshold: n >= 32, size: n }
}
fn op_msm_g1(t: &mut Tape<'_>) -> Outcome {
    op_msm::<ark_test_curves::bls12_381::G1Projective>(t, 700, "msm/bls12_381.G1")
}
fn op_msm_te(t: &mut Tape<'_>) -> Outcome {
    op_msm::<ark_ed_on_bls12_381::EdwardsProjective>(t, 700, "msm/ed_on_bls12_381")
}

fn op_batch_mul<G: CurveGroup + ScalarMul<MulBase = <G as CurveGroup>::Affine>>(t: &mut Tape<'_>, what: &str) -> Outcome
where
    G::ScalarField: PrimeField,
{
    let mut s = Stream::new(t.u64());
    let n = size_from(t, 300, &[1, 16, 31, 32, 33, 100]);
    let g = G::generator() * (s.field::<G::ScalarField>() + G::ScalarField::from(2u64));
    let scalars: Vec<G::ScalarField> = s.fields(n);
    let mode = t.below(3);
    let out = match mode {
        0 => ser(&g.batch_mul(&scalars)),
        1 => {
            let hint = t.below(2000) as usize;
            let table = BatchMulPreprocessing::new(g, hint);
            ser(&table.batch_mul(&scalars))
        },
        _ => {
            let hint = t.below(2000) as usize;
            let bits = G::ScalarField::MODULUS_BIT_SIZE as usize + t.below(4) as usize;
            let table = BatchMulPreprocessing::with_num_scalars_and_scalar_size(g, hint, bits);
            ser(&G::batch_mul_with_preprocessing(&table, &scalars))
        },
    };
    Outcome { bytes: out, desc: format!("{}: batch_mul mode {} of {} scalars", what, mode, n), above_threshold: n >= 2, size: n }
}
fn op_batch_mul_g1(t: &mut Tape<'_>) -> Outcome {
    op_batch_mul::<ark_test_curves::bls12_381::G1Projective>(t, "batch_mul/bls12_381.G1")
}
fn op_batch_mul_te(t: &mut Tape<'_>) -> Outcome {
    op_batch_mul::<ark_ed_on_bls12_381::EdwardsProjective>(t, "batch_mul/ed_on_bls12_381")
}

fn op_normalize<G: CurveGroup>(t: &mut Tape<'_>, what: &str) -> Outcome
where
    G::ScalarField: PrimeField,
{
    let mut s = Stream::new(t.u64());
    let n = size_from(t, 600, &[1, 2, 16, 17, 100, 512]);
    let g = G::generator();
    let mut acc = g * s.field::<G::ScalarField>();
    let v: Vec<G> = (0..n)
        .map(|_| match s.next() % 6 {
            0 => G::zero(),
            1 => g,
            _ => {
                acc = acc.double() + g;
                acc
            },
        })
        .collect();
    let out = ser(&G::normalize_batch(&v));
    Outcome { bytes: out, desc: format!("{}: normalize_batch of {} points", what, n), above_threshold: n >= 2, size: n }
}
fn op_normalize_g1(t: &mut Tape<'_>) -> Outcome {
    op_normalize::<ark_test_curves::bls12_381::G1Projective>(t, "normalize/bls12_381.G1")
}
fn op_normalize_g2(t: &mut Tape<'_>) -> Outcome {
    op_normalize::<ark_test_curves::bls12_381::G2Projective>(t, "normalize/bls12_381.G2")
}
fn op_normalize_te(t: &mut Tape<'_>) -> Outcome {
    op_normalize::<ark_ed_on_bls12_381::EdwardsProjective>(t, "normalize/ed_on_bls12_381")
}

// ---------------------------------------------------------------------------------------
// multi pairings
// ---------------------------------------------------------------------------------------
fn op_multi_pairing<E: Pairing>(t: &mut Tape<'_>, max: usize, what: &str) -> Outcome {
    let mut s = Stream::new(t.u64());
    let n = t.below(max as u64 + 1) as usize;
    let g1 = E::G1::generator();
    let g2 = E::G2::generator();
    let mut ps = Vec::new();
    let mut qs = Vec::new();
    for _ in 0..n {
        let a = E::ScalarField::from(s.next() % 1000);
        let b = E::ScalarField::from(s.next() % 1000);
        ps.push(if s.next() % 7 == 0 { E::G1::zero().into_affine() } else { (g1 * a).into_affine() });
        qs.push(if s.next() % 7 == 0 { E::G2::zero().into_affine() } else { (g2 * b).into_affine() });
    }
    let ml = E::multi_miller_loop(ps.clone(), qs.clone());
    let mut out = ser(&ml.0);
    let r = E::multi_pairing(ps, qs);
    out.extend(ser(&r.0));
    Outcome { bytes: out, desc: format!("{}: multi_pairing of {} pairs", what, n), above_threshold: n >= 2, size: n }
}
fn op_mp_bls381(t: &mut Tape<'_>) -> Outcome {
    op_multi_pairing::<ark_test_curves::bls12_381::Bls12_381>(t, 10, "bls12_381")
}
fn op_mp_bls377(t: &mut Tape<'_>) -> Outcome {
    op_multi_pairing::<ark_bls12_377::Bls12_377>(t, 10, "bls12_377")
}
fn op_mp_bn254(t: &mut Tape<'_>) -> Outcome {
    op_multi_pairing::<ark_bn254::Bn254>(t, 10, "bn254")
}
fn op_mp_mnt4(t: &mut Tape<'_>) -> Outcome {
    op_multi_pairing::<ark_mnt4_298::MNT4_298>(t, 9, "mnt4_298")
}
fn op_mp_mnt6(t: &mut Tape<'_>) -> Outcome {
    op_multi_pairing::<ark_mnt6_298::MNT6_298>(t, 9, "mnt6_298")
}
fn op_mp_bw6(t: &mut Tape<'_>) -> Outcome {
    op_multi_pairing::<ark_bw6_761::BW6_761>(t, 10, "bw6_761")
}

// ---------------------------------------------------------------------------------------
// batched validity checks: Vec<Affine> checked deserialization
// ---------------------------------------------------------------------------------------
fn op_batch_check(t: &mut Tape<'_>) -> Outcome {
    use ark_test_curves::bls12_381::{Fq, Fr, G1Affine, G1Projective};
    let mut s = Stream::new(t.u64());
    let n = size_from(t, 600, &[1, 2, 8, 16, 33, 65, 129, 257, 513]);
    let g = G1Projective::generator();
    let mut acc = g * s.field::<Fr>();
    // the invalid element sits at one of the last positions (a remainder that a chunked split may drop), at the first
    // position, or anywhere
    let bad_at = if t.chance(2, 3) && n > 0 {
        Some(match t.weighted(&[4, 1, 3]) {
            0 => n - 1 - (t.below(4) as usize).min(n - 1),
            1 => 0,
            _ => t.below(n as u64) as usize,
        })
    } else {
        None
    };
    let mut pts: Vec<G1Affine> = Vec::new();
    for i in 0..n {
        acc = acc.double() + g;
        let mut p = acc.into_affine();
        if Some(i) == bad_at {
            // on curve, (almost surely) outside the prime-order subgroup
            let mut x = Fq::from(s.next());
            loop {
                if let Some(q) = G1Affine::get_point_from_x_unchecked(x, false) {
                    p = q;
                    break;
                }
                x += Fq::from(1u64);
            }
        }
        pts.push(p);
    }
    let mut bytes = Vec::new();
    pts.serialize_compressed(&mut bytes).unwrap();
    let r = Vec::<G1Affine>::deserialize_compressed(&bytes[..]);
    let mut out = vec![r.is_ok() as u8];
    if let Ok(v) = r {
        out.extend(ser(&v));
    }
    let r2 = Vec::<G1Affine>::deserialize_compressed_unchecked(&bytes[..]);
    out.push(r2.is_ok() as u8);
    Outcome { bytes: out, desc: format!("checked deserialization of Vec<G1Affine> of {} points, invalid point at {:?}", n, bad_at), above_threshold: n >= 2, size: n }
}

// ---------------------------------------------------------------------------------------
// multilinear extensions / multivariate polynomials
// ---------------------------------------------------------------------------------------
fn op_mle(t: &mut Tape<'_>) -> Outcome {
    use ark_test_curves::bls12_381::Fr;
    let mut s = Stream::new(t.u64());
    let nv = t.below(12) as usize;
    let a = DenseMultilinearExtension::<Fr>::from_evaluations_vec(nv, s.fields(1 << nv));
    let b = DenseMultilinearExtension::<Fr>::from_evaluations_vec(nv, s.fields(1 << nv));
    let pt: Vec<Fr> = s.fields(nv);
    let mode = t.below(4);
    let mut out = Vec::new();
    match mode {
        0 => {
            out = ser(&(&a + &b).evaluations);
            out.extend(ser(&(&a - &b).evaluations));
            out.extend(ser(&(-a.clone()).evaluations));
            let mut c = a.clone();
            c += (s.field::<Fr>(), &b);
            out.extend(ser(&c.evaluations));
        },
        1 => {
            let k = t.below(nv as u64 + 1) as usize;
            out = ser(&a.fix_variables(&pt[..k]).evaluations);
            out.extend(ser(&a.evaluate(&pt)));
        },
        2 => {
            // sparse
            let m = (1usize << nv).min(64);
            let ev: Vec<(usize, Fr)> = (0..m).map(|i| ((i * 37) % (1 << nv), s.field::<Fr>())).collect();
            let mut seen = std::collections::BTreeMap::new();
            for (i, v) in ev {
                seen.insert(i, v);
            }
            let ev: Vec<(usize, Fr)> = seen.into_iter().collect();
            let sp = SparseMultilinearExtension::<Fr>::from_evaluations(nv, &ev);
            let sp2 = &sp + &sp;
            out = ser(&sp2.to_evaluations());
            out.extend(ser(&(-sp.clone()).to_evaluations()));
            out.extend(ser(&sp.evaluate(&pt)));
            if nv >= 2 {
                out.extend(ser(&sp.relabel(0, nv - 1, 1).to_evaluations()));
            }
        },
        _ => {
            // multivariate sparse polynomial
            let nvars = (nv % 6) + 1;
            let nterms = t.below(300) as usize;
            let terms: Vec<(Fr, SparseTerm)> = (0..nterms)
                .map(|_| {
                    let k = (s.next() % 4) as usize;
                    let vars: Vec<(usize, usize)> = (0..k).map(|_| ((s.next() % nvars as u64) as usize, (s.next() % 4) as usize)).collect();
                    (s.field::<Fr>(), SparseTerm::new(vars))
                })
                .collect();
            let p = MvPoly::<Fr, SparseTerm>::from_coefficients_vec(nvars, terms);
            let x: Vec<Fr> = s.fields(nvars);
            out = ser(&p.evaluate(&x));
            out.extend(ser(&(&p + &p).evaluate(&x)));
        },
    }
    Outcome { bytes: out, desc: format!("mle/mv: {} variables mode {}", nv, mode), above_threshold: nv >= 4, size: 1 << nv }
}

// ---------------------------------------------------------------------------------------
// large inputs: several work-splitting rules only change behaviour when the input is large *per thread*
// (chunk caps, "about k chunks per thread" heuristics), so sizes must scale with the pool
// ---------------------------------------------------------------------------------------
fn large_len(t: &mut Tape<'_>, max: usize) -> usize {
    match t.weighted(&[3, 4, 3]) {
        // around c * 2^k boundaries, k = 12..20
        0 => {
            let k = t.range(12, 20);
            let c = [1usize, 2, 3, 5, 6, 7, 16][t.idx(7)];
            ((c << k) + t.below(5) as usize).saturating_sub(2).min(max)
        },
        1 => t.below(max as u64 + 1) as usize,
        _ => (1usize << t.range(10, 20)).min(max),
    }
}

fn op_poly_eval_large(t: &mut Tape<'_>) -> Outcome {
    use vh_core::zoo::Gold;
    let mut s = Stream::new(t.u64());
    let len = large_len(t, (1 << 20) + 70);
    let coeffs: Vec<Gold> = (0..len).map(|_| Gold::from(s.next())).collect();
    let p = DensePolynomial::<Gold>::from_coefficients_vec(coeffs);
    let x = Gold::from(s.next() | 2);
    let mut out = ser(&p.evaluate(&x));
    out.extend(ser(&p.evaluate(&Gold::from(1u64))));
    Outcome { bytes: out, desc: format!("poly-eval-large/Goldilocks: evaluate a polynomial with {} coefficients", len), above_threshold: len >= 32, size: len }
}

fn op_batch_inv_large(t: &mut Tape<'_>) -> Outcome {
    use vh_core::zoo::Gold;
    let mut s = Stream::new(t.u64());
    let len = large_len(t, 300_000);
    let mut v: Vec<Gold> = (0..len).map(|i| if i % 97 == 13 { Gold::from(0u64) } else { Gold::from(s.next()) }).collect();
    let k = Gold::from(s.next() | 1);
    ark_ff::batch_inversion_and_mul(&mut v, &k);
    Outcome { bytes: ser(&v), desc: format!("batch-inversion-large/Goldilocks: {} elements", len), above_threshold: len >= 2, size: len }
}

fn op_vanishing_large(t: &mut Tape<'_>) -> Outcome {
    use vh_core::zoo::Gold;
    let mut s = Stream::new(t.u64());
    let len = large_len(t, 200_000);
    let p = DensePolynomial::<Gold>::from_coefficients_vec((0..len).map(|_| Gold::from(s.next())).collect());
    // divide_by_vanishing_poly costs len^2 / n: keep len / n <= 64
    let kmin = (len / 64).max(4).next_power_of_two().trailing_zeros() as u64;
    let n = 1usize << t.range(kmin, kmin + 6);
    let d = Radix2EvaluationDomain::<Gold>::new(n).unwrap();
    let d = if t.bool() { d.get_coset(Gold::GENERATOR).unwrap() } else { d };
    let mut out = ser(&p.mul_by_vanishing_poly(d));
    let (q, r) = p.divide_by_vanishing_poly(d);
    out.extend(ser(&q));
    out.extend(ser(&r));
    let k = Gold::from(s.next());
    out.extend(ser(&(&p * k)));
    Outcome { bytes: out, desc: format!("vanishing-large/Goldilocks: {} coefficients, domain {}", len, n), above_threshold: len >= 2, size: len }
}

fn op_msm_large(t: &mut Tape<'_>) -> Outcome {
    op_msm::<ark_ed_on_bls12_381::EdwardsProjective>(t, 6000, "msm-large/ed_on_bls12_381")
}

fn op_normalize_large(t: &mut Tape<'_>) -> Outcome {
    use ark_ed_on_bls12_381::EdwardsProjective as G;
    let mut s = Stream::new(t.u64());
    let n = large_len(t, 20_000);
    let g = G::generator();
    let mut acc = g * <G as PrimeGroup>::ScalarField::from(s.next());
    let v: Vec<G> = (0..n)
        .map(|i| {
            if i % 53 == 7 {
                G::zero()
            } else {
                acc = acc.double() + g;
                acc
            }
        })
        .collect();
    Outcome { bytes: ser(&G::normalize_batch(&v)), desc: format!("normalize-large/ed_on_bls12_381: {} points", n), above_threshold: n >= 2, size: n }
}

/// multi-pairings with many pairs (chunking rules that depend on pairs per thread)
fn op_multi_pairing_many<E: Pairing>(t: &mut Tape<'_>, max: usize, what: &str) -> Outcome {
    let mut s = Stream::new(t.u64());
    let n = match t.weighted(&[2, 3]) {
        0 => t.range(11, max as u64) as usize,
        _ => ([16usize, 17, 32, 33, 48, 49, 64, 65][t.idx(8)] + t.below(2) as usize).min(max),
    };
    let g1 = E::G1::generator();
    let g2 = E::G2::generator();
    // few distinct points (cheap to build), many pairs
    let p1: Vec<E::G1Affine> = (0..5).map(|i| (g1 * E::ScalarField::from(3u64 + i)).into_affine()).collect();
    let p2: Vec<E::G2Affine> = (0..5).map(|i| (g2 * E::ScalarField::from(7u64 + i)).into_affine()).collect();
    let mut ps = Vec::new();
    let mut qs = Vec::new();
    for _ in 0..n {
        ps.push(if s.next() % 11 == 0 { E::G1::zero().into_affine() } else { p1[(s.next() % 5) as usize] });
        qs.push(if s.next() % 11 == 0 { E::G2::zero().into_affine() } else { p2[(s.next() % 5) as usize] });
    }
    let ml = E::multi_miller_loop(ps, qs);
    Outcome { bytes: ser(&ml.0), desc: format!("{}: multi_miller_loop of {} pairs", what, n), above_threshold: true, size: n }
}
fn op_mpm_bw6(t: &mut Tape<'_>) -> Outcome {
    op_multi_pairing_many::<ark_bw6_761::BW6_761>(t, 70, "multi-pairing-many/bw6_761")
}
fn op_mpm_bls381(t: &mut Tape<'_>) -> Outcome {
    op_multi_pairing_many::<ark_test_curves::bls12_381::Bls12_381>(t, 140, "multi-pairing-many/bls12_381")
}
fn op_mpm_bn254(t: &mut Tape<'_>) -> Outcome {
    op_multi_pairing_many::<ark_bn254::Bn254>(t, 140, "multi-pairing-many/bn254")
}
fn op_mpm_mnt4(t: &mut Tape<'_>) -> Outcome {
    op_multi_pairing_many::<ark_mnt4_298::MNT4_298>(t, 70, "multi-pairing-many/mnt4_298")
}

fn op_mle_large(t: &mut Tape<'_>) -> Outcome {
    use vh_core::zoo::Gold;
    let mut s = Stream::new(t.u64());
    let mode = t.below(5);
    let mut out = Vec::new();
    let (nv, what);
    match mode {
        0 | 1 | 2 => {
            nv = t.range(13, 19) as usize;
            let a = DenseMultilinearExtension::<Gold>::from_evaluations_vec(nv, (0..1u64 << nv).map(|_| Gold::from(s.next())).collect());
            match mode {
                0 => {
                    what = "dense + - neg scale";
                    let b = DenseMultilinearExtension::<Gold>::from_evaluations_vec(nv, (0..1u64 << nv).map(|_| Gold::from(s.next())).collect());
                    out = ser(&(&a + &b).evaluations);
                    out.extend(ser(&(&a - &b).evaluations));
                    out.extend(ser(&(-a.clone()).evaluations));
                    let mut c = a.clone();
                    c += (Gold::from(s.next()), &b);
                    out.extend(ser(&c.evaluations));
                },
                1 => {
                    what = "dense fix_variables / evaluate";
                    let pt: Vec<Gold> = (0..nv).map(|_| Gold::from(s.next())).collect();
                    let k = match t.below(3) {
                        0 => t.below(6) as usize,
                        1 => nv,
                        _ => t.below(nv as u64 + 1) as usize,
                    };
                    out = ser(&a.fix_variables(&pt[..k]).evaluations);
                    out.extend(ser(&a.evaluate(&pt)));
                },
                _ => {
                    what = "dense relabel";
                    let w = 1 + t.below((nv / 2) as u64) as usize;
                    let lo = t.below((nv - 2 * w + 1) as u64) as usize;
                    let hi = lo + w + t.below((nv - 2 * w - lo + 1) as u64) as usize;
                    out = ser(&a.relabel(lo, hi, w).evaluations);
                },
            }
        },
        _ => {
            nv = t.range(12, 18) as usize;
            what = if mode == 3 { "sparse relabel / add / neg" } else { "sparse fix_variables / evaluate" };
            let target = match t.below(3) {
                0 => t.range(1, 1200) as usize,
                1 => ((1usize << t.range(10, 13)) + t.below(9) as usize).saturating_sub(4),
                _ => t.range(1200, 12000) as usize,
            }
            .min(1 << nv);
            let mut m = std::collections::BTreeMap::new();
            while m.len() < target {
                m.insert((s.next() as usize) & ((1 << nv) - 1), Gold::from(s.next() | 1));
            }
            let ev: Vec<(usize, Gold)> = m.into_iter().collect();
            let sp = SparseMultilinearExtension::<Gold>::from_evaluations(nv, &ev);
            if mode == 3 {
                let w = 1 + t.below((nv / 2) as u64) as usize;
                let lo = t.below((nv - 2 * w + 1) as u64) as usize;
                let hi = lo + w + t.below((nv - 2 * w - lo + 1) as u64) as usize;
                let r = sp.relabel(lo, hi, w);
                out = ser(&r.evaluations.iter().map(|(i, v)| (*i as u64, *v)).collect::<Vec<_>>());
                let sum = &sp + &r;
                out.extend(ser(&sum.evaluations.iter().map(|(i, v)| (*i as u64, *v)).collect::<Vec<_>>()));
                out.extend(ser(&(-sp.clone()).evaluations.iter().map(|(i, v)| (*i as u64, *v)).collect::<Vec<_>>()));
            } else {
                let pt: Vec<Gold> = (0..nv).map(|_| Gold::from(s.next())).collect();
                let k = t.range(nv as u64 - 6, nv as u64) as usize;
                out = ser(&sp.fix_variables(&pt[..k]).to_evaluations());
                out.extend(ser(&sp.evaluate(&pt)));
            }
        },
    }
    Outcome { bytes: out, desc: format!("mle-large/Goldilocks: {} variables, {}", nv, what), above_threshold: true, size: 1 << nv }
}

fn op_poly_arith_large(t: &mut Tape<'_>) -> Outcome {
    use vh_core::zoo::Gold;
    let mut s = Stream::new(t.u64());
    let mode = t.below(4);
    let la = large_len(t, 1 << 17).max(1);
    let a = DensePolynomial::<Gold>::from_coefficients_vec((0..la).map(|_| Gold::from(s.next())).collect());
    let mut out;
    let what;
    match mode {
        0 => {
            what = "a * b (FFT multiplication)";
            let lb = large_len(t, 1 << 15).max(1);
            let b = DensePolynomial::<Gold>::from_coefficients_vec((0..lb).map(|_| Gold::from(s.next())).collect());
            out = ser(&(&a * &b));
        },
        1 => {
            what = "a * k, a += (k, b), a + b, a - b";
            let lb = large_len(t, 1 << 17).max(1);
            let b = DensePolynomial::<Gold>::from_coefficients_vec((0..lb).map(|_| Gold::from(s.next())).collect());
            let k = Gold::from(s.next());
            out = ser(&(&a * k));
            let mut c = a.clone();
            c += (k, &b);
            out.extend(ser(&c));
            out.extend(ser(&(&a + &b)));
            out.extend(ser(&(&a - &b)));
        },
        2 => {
            what = "sparse * scalar / sparse evaluate";
            let terms = large_len(t, 1 << 16).max(1);
            let cs: Vec<(usize, Gold)> = (0..terms).map(|i| (i * 3 + (s.next() % 3) as usize, Gold::from(s.next() | 1))).collect();
            let sp = SparsePolynomial::<Gold>::from_coefficients_vec(cs);
            out = ser(&sp.evaluate(&Gold::from(s.next() | 2)));
            out.extend(ser(&(&sp * Gold::from(s.next()))));
        },
        _ => {
            what = "evaluate_over_domain of a polynomial longer than the domain (owned and by reference), interpolate";
            let n = 1usize << t.range(4, 14);
            let d = GeneralEvaluationDomain::<Gold>::new(n).unwrap();
            let d = if t.bool() { d.get_coset(Gold::from(7u64)).unwrap() } else { d };
            let e = a.evaluate_over_domain_by_ref(d);
            out = ser(&e.evals);
            let e2 = a.clone().evaluate_over_domain(d);
            out.extend(ser(&e2.evals));
            out.extend(ser(&e2.interpolate()));
        },
    }
    Outcome { bytes: std::mem::take(&mut out), desc: format!("poly-arith-large/Goldilocks: {} coefficients, {}", la, what), above_threshold: true, size: la }
}

pub fn ops() -> Vec<Op> {
    vec![
        Op { name: "fft/radix2.Goldilocks", tape_len: 14, cases_quick: 240, cases_thorough: 3000, run: op_fft_gold },
        Op { name: "fft/radix2.bls12_381.Fr", tape_len: 14, cases_quick: 160, cases_thorough: 2000, run: op_fft_fr },
        Op { name: "fft/mixed.bn384.Fr", tape_len: 14, cases_quick: 160, cases_thorough: 2000, run: op_fft_mixed },
        Op { name: "fft/mixed.mnt4_753.Fr", tape_len: 14, cases_quick: 100, cases_thorough: 1000, run: op_fft_mixed_mnt4753 },
        Op { name: "fft/mixed.mnt4_298.Fq", tape_len: 14, cases_quick: 120, cases_thorough: 1200, run: op_fft_mixed_mnt4298 },
        Op { name: "fft/general.bn384.Fr", tape_len: 14, cases_quick: 120, cases_thorough: 1500, run: op_fft_general },
        Op { name: "fft/general.bls12_381.Fr", tape_len: 14, cases_quick: 120, cases_thorough: 1500, run: op_fft_general_fr },
        Op { name: "fft/points.bls12_381.G1", tape_len: 8, cases_quick: 12, cases_thorough: 300, run: op_fft_points },
        Op { name: "poly/bls12_381.Fr", tape_len: 16, cases_quick: 240, cases_thorough: 3000, run: op_poly_fr },
        Op { name: "poly/Goldilocks", tape_len: 16, cases_quick: 240, cases_thorough: 3000, run: op_poly_gold },
        Op { name: "batch_inversion/bls12_381.Fr", tape_len: 8, cases_quick: 240, cases_thorough: 3000, run: op_batch_inv_fr },
        Op { name: "batch_inversion/bls12_381.Fq", tape_len: 8, cases_quick: 160, cases_thorough: 2000, run: op_batch_inv_fq },
        Op { name: "msm/bls12_381.G1", tape_len: 10, cases_quick: 120, cases_thorough: 1500, run: op_msm_g1 },
        Op { name: "msm/ed_on_bls12_381", tape_len: 10, cases_quick: 120, cases_thorough: 1500, run: op_msm_te },
        Op { name: "batch_mul/bls12_381.G1", tape_len: 10, cases_quick: 80, cases_thorough: 1000, run: op_batch_mul_g1 },
        Op { name: "batch_mul/ed_on_bls12_381", tape_len: 10, cases_quick: 80, cases_thorough: 1000, run: op_batch_mul_te },
        Op { name: "normalize_batch/bls12_381.G1", tape_len: 8, cases_quick: 120, cases_thorough: 1500, run: op_normalize_g1 },
        Op { name: "normalize_batch/bls12_381.G2", tape_len: 8, cases_quick: 80, cases_thorough: 1000, run: op_normalize_g2 },
        Op { name: "normalize_batch/ed_on_bls12_381", tape_len: 8, cases_quick: 120, cases_thorough: 1500, run: op_normalize_te },
        Op { name: "multi_pairing/bls12_381", tape_len: 6, cases_quick: 48, cases_thorough: 600, run: op_mp_bls381 },
        Op { name: "multi_pairing/bls12_377", tape_len: 6, cases_quick: 40, cases_thorough: 500, run: op_mp_bls377 },
        Op { name: "multi_pairing/bn254", tape_len: 6, cases_quick: 48, cases_thorough: 600, run: op_mp_bn254 },
        Op { name: "multi_pairing/mnt4_298", tape_len: 6, cases_quick: 32, cases_thorough: 400, run: op_mp_mnt4 },
        Op { name: "multi_pairing/mnt6_298", tape_len: 6, cases_quick: 32, cases_thorough: 400, run: op_mp_mnt6 },
        Op { name: "multi_pairing/bw6_761", tape_len: 6, cases_quick: 20, cases_thorough: 250, run: op_mp_bw6 },
        Op { name: "batch_check/Vec<bls12_381.G1Affine>", tape_len: 8, cases_quick: 64, cases_thorough: 800, run: op_batch_check },
        Op { name: "poly-eval-large/Goldilocks", tape_len: 8, cases_quick: 40, cases_thorough: 400, run: op_poly_eval_large },
        Op { name: "batch-inversion-large/Goldilocks", tape_len: 8, cases_quick: 20, cases_thorough: 200, run: op_batch_inv_large },
        Op { name: "vanishing-large/Goldilocks", tape_len: 10, cases_quick: 20, cases_thorough: 200, run: op_vanishing_large },
        Op { name: "msm-large/ed_on_bls12_381", tape_len: 10, cases_quick: 6, cases_thorough: 60, run: op_msm_large },
        Op { name: "normalize-large/ed_on_bls12_381", tape_len: 8, cases_quick: 8, cases_thorough: 80, run: op_normalize_large },
        Op { name: "multi-pairing-many/bw6_761", tape_len: 6, cases_quick: 4, cases_thorough: 40, run: op_mpm_bw6 },
        Op { name: "multi-pairing-many/bls12_381", tape_len: 6, cases_quick: 6, cases_thorough: 60, run: op_mpm_bls381 },
        Op { name: "multi-pairing-many/bn254", tape_len: 6, cases_quick: 6, cases_thorough: 60, run: op_mpm_bn254 },
        Op { name: "multi-pairing-many/mnt4_298", tape_len: 6, cases_quick: 4, cases_thorough: 40, run: op_mpm_mnt4 },
        Op { name: "mle-large/Goldilocks", tape_len: 12, cases_quick: 30, cases_thorough: 400, run: op_mle_large },
        Op { name: "poly-arith-large/Goldilocks", tape_len: 12, cases_quick: 30, cases_thorough: 400, run: op_poly_arith_large },
        Op { name: "mle/bls12_381.Fr", tape_len: 10, cases_quick: 240, cases_thorough: 3000, run: op_mle },
    ]
}

/// two independent 64-bit digests of the result bytes
pub fn digest(b: &[u8]) -> (u64, u64, usize) {
    let mut h1: u64 = 0xcbf29ce484222325;
    let mut h2: u64 = 0x9e3779b97f4a7c15;
    for x in b {
        h1 ^= *x as u64;
        h1 = h1.wrapping_mul(0x100000001b3);
        h2 = (h2 ^ (*x as u64)).wrapping_mul(0xff51afd7ed558ccd);
        h2 ^= h2 >> 29;
    }
    (h1, h2, b.len())
}
