//! C06 — pairings are bilinear, non-degenerate and identity-preserving in every model.
//!
//! Oracle: target-group equalities only.  With g = e(G1, G2) (the value the engine itself returns for the two
//! generators), every pairing of P = a·G1, Q = b·G2 must equal g^(ab mod r), the exponent computed with BigUint
//! arithmetic and the power with a plain square-and-multiply loop over target-field multiplication (never the
//! cyclotomic paths of `PairingOutput`).
use ark_ec::pairing::{MillerLoopOutput, Pairing, PairingOutput};
use ark_ec::{AdditiveGroup, AffineRepr, CurveGroup, PrimeGroup};
use ark_ff::{Field, One, PrimeField, Zero};
use num_bigint::BigUint;
use std::sync::{Arc, OnceLock};
use vh_core::engine::{no_panic, Fail, Obs, PropSpec, Rel, Tape, Tier, R};
use vh_core::gen::edge_value;
use vh_core::modint::FieldCtx;
use vh_core::{ensure, ensure_eq};

// ---------------------------------------------------------------------------------------------------------------
// context
// ---------------------------------------------------------------------------------------------------------------

struct Ctx<E: Pairing> {
    name: &'static str,
    /// scalar field r as BigUint context (edge-value generator)
    fr: FieldCtx,
    /// e(G1, G2).0, computed once by the engine under test
    base: OnceLock<E::TargetField>,
    /// whether the identity of G2 is generated for this engine (false only for the out-of-scope extra CP6-782, see NOTES.md)
    g2_identity: bool,
    /// longest list of the multi-pairing relation
    max_len: u64,
}

impl<E: Pairing> Ctx<E> {
    fn new(name: &'static str, g2_identity: bool, max_len: u64) -> Self {
        let m = E::ScalarField::MODULUS;
        Ctx { name, fr: FieldCtx::new(&format!("{}.Fr", name), m.as_ref()), base: OnceLock::new(), g2_identity, max_len }
    }
    fn base(&self) -> Result<E::TargetField, Fail> {
        if let Some(b) = self.base.get() {
            return Ok(*b);
        }
        let b = no_panic("pairing.generators", || E::pairing(E::G1Affine::generator(), E::G2Affine::generator()))?.0;
        let _ = self.base.set(b);
        Ok(b)
    }
}

fn hx(v: &BigUint) -> String {
    format!("0x{:x}", v)
}

/// abbreviated rendering for long lists (the replay tape holds the exact values)
fn hx_short(v: &BigUint) -> String {
    let s = format!("{:x}", v);
    if s.len() <= 18 {
        format!("0x{}", s)
    } else {
        format!("0x{}..{}<{}b>", &s[..8], &s[s.len() - 6..], v.bits())
    }
}

/// plain left-to-right square-and-multiply with target-field multiplication only
fn plain_pow<F: Field>(x: &F, e: &BigUint) -> F {
    let mut acc = F::one();
    for i in (0..e.bits()).rev() {
        acc.square_in_place();
        if e.bit(i) {
            acc *= x;
        }
    }
    acc
}

/// edge-biased scalar in [0, r): 0, 1, 2, r-1, near r, (r±1)/2, 2^k(±1), edge limbs, small, uniform
/// `g2`: the scalar multiplies the generator of G2 (zero is replaced when the engine's G2 identity is not generated)
fn scalar<E: Pairing>(c: &Ctx<E>, t: &mut Tape<'_>, g2: bool) -> (E::ScalarField, BigUint, &'static str) {
    let (v, cls) = edge_value(t, &c.fr);
    let v = if g2 && !c.g2_identity && v.is_zero() { BigUint::from(3u32) } else { v };
    (E::ScalarField::from(v.clone()), v, cls)
}

// ---------------------------------------------------------------------------------------------------------------
// input forms and API entry points
// ---------------------------------------------------------------------------------------------------------------

enum In1<E: Pairing> {
    A(E::G1Affine),
    P(E::G1),
    R(E::G1Prepared),
}
enum In2<E: Pairing> {
    A(E::G2Affine),
    P(E::G2),
    R(E::G2Prepared),
}

const FORMS: [&str; 4] = ["affine", "projective", "prepared<-affine", "prepared<-projective"];

fn in1<E: Pairing>(p: E::G1, form: u64) -> Result<In1<E>, Fail> {
    Ok(match form {
        0 => In1::A(p.into_affine()),
        1 => In1::P(p),
        2 => In1::R(no_panic("G1Prepared::from(affine)", || E::G1Prepared::from(p.into_affine()))?),
        _ => In1::R(no_panic("G1Prepared::from(projective)", || E::G1Prepared::from(p))?),
    })
}
fn in2<E: Pairing>(q: E::G2, form: u64) -> Result<In2<E>, Fail> {
    Ok(match form {
        0 => In2::A(q.into_affine()),
        1 => In2::P(q),
        2 => In2::R(no_panic("G2Prepared::from(affine)", || E::G2Prepared::from(q.into_affine()))?),
        _ => In2::R(no_panic("G2Prepared::from(projective)", || E::G2Prepared::from(q))?),
    })
}

const APIS: [&str; 2] = ["pairing", "final_exponentiation(miller_loop)"];

fn fe<E: Pairing>(m: MillerLoopOutput<E>) -> Result<PairingOutput<E>, Fail> {
    match no_panic("final_exponentiation", || E::final_exponentiation(m))? {
        Some(x) => Ok(x),
        None => Err(Fail { sig: "final_exponentiation.none".into(), msg: "final_exponentiation returned None for a Miller loop output".into() }),
    }
}

fn call<E: Pairing, A: Into<E::G1Prepared>, B: Into<E::G2Prepared>>(api: u64, p: A, q: B) -> Result<PairingOutput<E>, Fail> {
    if api == 0 {
        no_panic("pairing", || E::pairing(p, q))
    } else {
        let m = no_panic("miller_loop", || E::miller_loop(p, q))?;
        fe::<E>(m)
    }
}

fn call_in<E: Pairing>(api: u64, p: In1<E>, q: In2<E>) -> Result<PairingOutput<E>, Fail> {
    match (p, q) {
        (In1::A(p), In2::A(q)) => call::<E, _, _>(api, p, q),
        (In1::A(p), In2::P(q)) => call::<E, _, _>(api, p, q),
        (In1::A(p), In2::R(q)) => call::<E, _, _>(api, p, q),
        (In1::P(p), In2::A(q)) => call::<E, _, _>(api, p, q),
        (In1::P(p), In2::P(q)) => call::<E, _, _>(api, p, q),
        (In1::P(p), In2::R(q)) => call::<E, _, _>(api, p, q),
        (In1::R(p), In2::A(q)) => call::<E, _, _>(api, p, q),
        (In1::R(p), In2::P(q)) => call::<E, _, _>(api, p, q),
        (In1::R(p), In2::R(q)) => call::<E, _, _>(api, p, q),
    }
}

/// e(p, q) through the entry point `api` with the inputs passed in the given forms
fn pair<E: Pairing>(p: E::G1, q: E::G2, fp: u64, fq: u64, api: u64) -> Result<PairingOutput<E>, Fail> {
    call_in::<E>(api, in1::<E>(p, fp)?, in2::<E>(q, fq)?)
}

const LIST_FORMS: [&str; 3] = ["affine lists", "projective lists", "prepared lists"];

fn call_multi<E: Pairing, A: Into<E::G1Prepared>, B: Into<E::G2Prepared>>(api: u64, ps: Vec<A>, qs: Vec<B>) -> Result<PairingOutput<E>, Fail> {
    if api == 0 {
        no_panic("multi_pairing", || E::multi_pairing(ps, qs))
    } else {
        let m = no_panic("multi_miller_loop", || E::multi_miller_loop(ps, qs))?;
        fe::<E>(m)
    }
}

/// multi-pairing of equal-length lists; `mask` decides per entry whether a prepared value is made from the affine or the projective form
fn multi<E: Pairing>(ps: &[E::G1], qs: &[E::G2], form: u64, mask: u64, api: u64) -> Result<PairingOutput<E>, Fail> {
    match form {
        0 => call_multi::<E, _, _>(api, ps.iter().map(|p| p.into_affine()).collect::<Vec<_>>(), qs.iter().map(|q| q.into_affine()).collect::<Vec<_>>()),
        1 => call_multi::<E, _, _>(api, ps.to_vec(), qs.to_vec()),
        _ => {
            let mut a = Vec::new();
            let mut b = Vec::new();
            for (i, (p, q)) in ps.iter().zip(qs).enumerate() {
                let r1 = match in1::<E>(*p, 2 + ((mask >> (2 * i)) & 1))? {
                    In1::R(r) => r,
                    _ => unreachable!(),
                };
                let r2 = match in2::<E>(*q, 2 + ((mask >> (2 * i + 1)) & 1))? {
                    In2::R(r) => r,
                    _ => unreachable!(),
                };
                a.push(r1);
                b.push(r2);
            }
            call_multi::<E, _, _>(api, a, b)
        },
    }
}

// ---------------------------------------------------------------------------------------------------------------
// relations
// ---------------------------------------------------------------------------------------------------------------

/// e(aG1, bG2) = g^(ab); two entry points / input forms agree; output has order dividing r; g != 1
fn bilinear<E: Pairing>(c: &Ctx<E>, t: &mut Tape<'_>, o: &mut Obs) -> R {
    let (a, av, ac) = scalar(c, t, false);
    let (b, bv, bc) = scalar(c, t, true);
    let (fp, fq, api) = (t.below(4), t.below(4), t.below(2));
    let (fp2, fq2) = (t.below(4), t.below(4));
    o.show(|| {
        format!(
            "{}: {}(P: {}, Q: {}) and {}(P: {}, Q: {}) with P = a*G1, Q = b*G2, a={} [{}] b={} [{}]",
            c.name, APIS[api as usize], FORMS[fp as usize], FORMS[fq as usize], APIS[1 - api as usize], FORMS[fp2 as usize], FORMS[fq2 as usize], hx(&av), ac, hx(&bv), bc
        )
    });
    let one = BigUint::one();
    o.nt(!av.is_zero() && !bv.is_zero() && (av > one || bv > one));
    o.class(ac);
    o.class_if(av.is_zero() || bv.is_zero(), "identity-operand");
    o.class_if(fp >= 2 || fq >= 2, "prepared-input");
    o.class_if(fp == 1 || fq == 1, "projective-input");
    o.evals(5);
    let p = E::G1::generator() * a;
    let q = E::G2::generator() * b;
    let g = c.base()?;
    ensure!(!g.is_one(), "nondegenerate", "e(G1, G2) is the identity of the target group");
    let want = plain_pow(&g, &((&av * &bv) % &c.fr.p));
    let got = pair::<E>(p, q, fp, fq, api)?;
    ensure!(got.0 == want, "bilinear", "e(aG1, bG2) != e(G1,G2)^(ab): a={} b={} via {} ({}, {})", hx(&av), hx(&bv), APIS[api as usize], FORMS[fp as usize], FORMS[fq as usize]);
    if av.is_zero() || bv.is_zero() {
        ensure!(got.is_zero() && got.0.is_one(), "identity", "pairing with an identity operand is not the identity");
    }
    let got2 = pair::<E>(p, q, fp2, fq2, 1 - api)?;
    ensure!(got2 == got, "forms", "{}({}, {}) != {}({}, {}) for a={} b={}", APIS[1 - api as usize], FORMS[fp2 as usize], FORMS[fq2 as usize], APIS[api as usize], FORMS[fp as usize], FORMS[fq as usize], hx(&av), hx(&bv));
    ensure!(plain_pow(&got.0, &c.fr.p).is_one(), "order", "output^r != 1 for a={} b={}", hx(&av), hx(&bv));
    Ok(())
}

/// additivity in each slot
fn additive<E: Pairing>(c: &Ctx<E>, t: &mut Tape<'_>, o: &mut Obs) -> R {
    let slot = t.below(2);
    // slot 0: x1, x2 multiply G1 and y multiplies G2; slot 1: the other way round
    let (_, a1v, ac) = scalar(c, t, slot == 1);
    let r = &c.fr.p;
    let (a2v, rel) = match t.weighted(&[6, 1, 1, 1]) {
        0 => (scalar(c, t, slot == 1).1, "independent"),
        1 => (a1v.clone(), "same"),
        2 if c.g2_identity || slot == 0 => ((r - &a1v) % r, "negation"),
        _ => ((r + r - &a1v - 1u32) % r, "negation-1"),
    };
    let (_, bv, _) = scalar(c, t, slot == 0);
    let forms = [t.below(4), t.below(4), t.below(4), t.below(4), t.below(4), t.below(4)];
    let api = t.below(2);
    o.show(|| {
        format!(
            "{}: additivity in slot {}: x1={} [{}] x2={} [{}] other={} via {}",
            c.name, slot + 1, hx(&a1v), ac, hx(&a2v), rel, hx(&bv), APIS[api as usize]
        )
    });
    let one = BigUint::one();
    let sum = (&a1v + &a2v) % r;
    o.nt(!a1v.is_zero() && !a2v.is_zero() && !bv.is_zero() && (a1v > one || a2v > one || bv > one));
    o.class(rel);
    o.class_if(sum.is_zero(), "sum-is-identity");
    o.class_if(slot == 0, "slot-G1");
    o.class_if(slot == 1, "slot-G2");
    o.evals(4);
    let (s1, s2, sb) = (E::ScalarField::from(a1v.clone()), E::ScalarField::from(a2v.clone()), E::ScalarField::from(bv.clone()));
    let (e1, e2, es) = if slot == 0 {
        let (p1, p2, q) = (E::G1::generator() * s1, E::G1::generator() * s2, E::G2::generator() * sb);
        (pair::<E>(p1, q, forms[0], forms[1], api)?, pair::<E>(p2, q, forms[2], forms[3], api)?, pair::<E>(p1 + p2, q, forms[4], forms[5], api)?)
    } else {
        let (q1, q2, p) = (E::G2::generator() * s1, E::G2::generator() * s2, E::G1::generator() * sb);
        (pair::<E>(p, q1, forms[0], forms[1], api)?, pair::<E>(p, q2, forms[2], forms[3], api)?, pair::<E>(p, q1 + q2, forms[4], forms[5], api)?)
    };
    ensure!(es.0 == e1.0 * e2.0, "additive", "e(X1+X2, Y) != e(X1,Y)*e(X2,Y) in slot {}: x1={} x2={} y={}", slot + 1, hx(&a1v), hx(&a2v), hx(&bv));
    ensure!(e1 + e2 == es, "additive.output-add", "PairingOutput sum differs from the pairing of the sum");
    let g = c.base()?;
    ensure!(es.0 == plain_pow(&g, &((&sum * &bv) % r)), "additive.value", "e(X1+X2, Y) != g^((x1+x2)y): x1={} x2={} y={}", hx(&a1v), hx(&a2v), hx(&bv));
    Ok(())
}

/// multi_pairing / multi_miller_loop+final_exponentiation over lists of 0..=9 pairs = sum of the pairings = g^(sum a_i b_i)
fn multi_rel<E: Pairing>(c: &Ctx<E>, t: &mut Tape<'_>, o: &mut Obs) -> R {
    let n = match t.weighted(&[1, 1, 3, 2, 3, 2]) {
        0 => 0,
        1 => 1,
        2 => t.range(2, 4),
        3 => 5,
        4 => t.range(6, 8),
        _ => 9,
    }
    .min(c.max_len) as usize;
    let r = &c.fr.p;
    // pools of three scalars per group; entries pick identity / generator / a pool element, so repeats are frequent
    let pool1: Vec<BigUint> = (0..3).map(|_| scalar(c, t, false).1).collect();
    let pool2: Vec<BigUint> = (0..3).map(|_| scalar(c, t, true).1).collect();
    let id_w = if c.g2_identity { 1 } else { 0 };
    let mut ks1 = Vec::new();
    let mut ks2 = Vec::new();
    let mut sel = Vec::new();
    for _ in 0..n {
        let i = t.weighted(&[1, 2, 2, 2, 1]);
        let j = t.weighted(&[1, 2, 2, 2, id_w]);
        let pick = |i: usize, pool: &Vec<BigUint>| match i {
            0 => BigUint::one(),
            4 => BigUint::zero(),
            k => pool[k - 1].clone(),
        };
        ks1.push(pick(i, &pool1));
        ks2.push(pick(j, &pool2));
        sel.push((i, j));
    }
    let form_a = t.below(3);
    let form_b = t.below(3);
    let mask = t.below(1 << 20);
    let api = t.below(2);
    let n_id = ks1.iter().zip(&ks2).filter(|(a, b)| a.is_zero() || b.is_zero()).count();
    let mut seen = std::collections::BTreeSet::new();
    let repeated = sel.iter().any(|s| !seen.insert(*s));
    o.show(|| {
        format!(
            "{}: {} pairs (a_i, b_i) = {:?}; {} over {} vs {} over {}; {} identity pairs",
            c.name,
            n,
            ks1.iter().zip(&ks2).map(|(a, b)| format!("({},{})", hx_short(a), hx_short(b))).collect::<Vec<_>>(),
            if api == 0 { "multi_pairing" } else { "final_exponentiation(multi_miller_loop)" },
            LIST_FORMS[form_a as usize],
            if api == 1 { "multi_pairing" } else { "final_exponentiation(multi_miller_loop)" },
            LIST_FORMS[form_b as usize],
            n_id
        )
    });
    o.nt(n >= 2);
    o.class(match n {
        0 => "len-0",
        1 => "len-1",
        2..=4 => "len-2..4",
        5..=8 => "len-5..8",
        _ => "len-9",
    });
    o.class_if(n_id > 0, "list-with-identity");
    o.class_if(n - n_id >= 5, ">=5-live-pairs");
    o.class_if(n > 0 && n_id == n, "all-identity");
    o.class_if(repeated, "repeated-pair");
    o.class_if(form_a == 2 || form_b == 2, "prepared-lists");
    o.evals(3);
    let ps: Vec<E::G1> = ks1.iter().enumerate().map(|(i, k)| point::<E::G1>(k, i)).collect();
    let qs: Vec<E::G2> = ks2.iter().enumerate().map(|(i, k)| point::<E::G2>(k, i + 1)).collect();
    let g = c.base()?;
    let mut exp = BigUint::zero();
    for (a, b) in ks1.iter().zip(&ks2) {
        exp = (exp + a * b) % r;
    }
    let want = plain_pow(&g, &exp);
    let got = multi::<E>(&ps, &qs, form_a, mask, api)?;
    // sum of the individual pairings (memoised per distinct selector pair)
    let mut memo: std::collections::BTreeMap<(usize, usize), E::TargetField> = Default::default();
    let mut prod = E::TargetField::one();
    for (k, s) in sel.iter().enumerate() {
        let v = match memo.get(s) {
            Some(v) => *v,
            None => {
                let v = pair::<E>(ps[k], qs[k], (mask >> k) & 1, (mask >> (k + 1)) & 1, 0)?.0;
                memo.insert(*s, v);
                v
            },
        };
        prod *= v;
    }
    let desc = || format!("{} pairs, {} with an identity, selectors {:?}", n, n_id, sel);
    ensure!(got.0 == prod, "multi.sum", "{} != product of the individual pairings ({})", if api == 0 { "multi_pairing" } else { "fe(multi_miller_loop)" }, desc());
    ensure!(got.0 == want, "multi.value", "multi-pairing != g^(sum a_i b_i) ({})", desc());
    let got2 = multi::<E>(&ps, &qs, form_b, mask >> 3, 1 - api)?;
    ensure!(got2 == got, "multi.forms", "multi_pairing and final_exponentiation(multi_miller_loop) disagree ({} / {}; {})", LIST_FORMS[form_a as usize], LIST_FORMS[form_b as usize], desc());
    if n == 0 || n_id == n {
        ensure!(got.is_zero(), "multi.identity", "multi-pairing of identity pairs / the empty list is not the identity");
    }
    ensure!(plain_pow(&got.0, r).is_one(), "order", "multi-pairing output^r != 1");
    Ok(())
}

/// k·G; the identity is produced in alternating representations (zero(), X - X)
fn point<G: CurveGroup>(k: &BigUint, i: usize) -> G {
    if k.is_zero() {
        if i % 2 == 0 {
            G::zero()
        } else {
            let x = G::generator().double();
            x - x
        }
    } else {
        G::generator() * G::ScalarField::from(k.clone())
    }
}

const KINDS: [&str; 7] = ["affine identity", "projective zero()", "projective X-X", "prepared<-affine identity", "prepared<-projective zero", "generator (affine)", "k*generator (projective)"];

/// every representation of the identity in either slot, through both entry points: the result is the identity, returned not panicked
fn identity_rel<E: Pairing>(c: &Ctx<E>, t: &mut Tape<'_>, o: &mut Obs) -> R {
    let kp = t.below(7);
    let kq = if c.g2_identity { t.below(7) } else { 5 + t.below(2) };
    let api = t.below(2);
    let k1 = 2 + t.below(1 << 16);
    let k2 = 2 + t.below(1 << 16);
    o.show(|| format!("{}: {}(P: {}, Q: {}) k1={} k2={}", c.name, APIS[api as usize], KINDS[kp as usize], KINDS[kq as usize], k1, k2));
    o.nt(kp >= 5 && kq >= 5 && (kp == 6 || kq == 6));
    o.class_if(kp < 5 && kq < 5, "both-identity");
    o.class_if((kp < 5) != (kq < 5), "one-identity");
    o.class_if(kp == 5 && kq == 5, "generators");
    let x1 = {
        let x = E::G1::generator() * E::ScalarField::from(k1);
        x - x
    };
    let x2 = {
        let x = E::G2::generator() * E::ScalarField::from(k2);
        x - x
    };
    let (p, s1): (In1<E>, u64) = match kp {
        0 => (In1::A(E::G1Affine::zero()), 0),
        1 => (In1::P(E::G1::zero()), 0),
        2 => (In1::P(x1), 0),
        3 => (in1::<E>(E::G1::zero(), 2)?, 0),
        4 => (in1::<E>(x1, 3)?, 0),
        5 => (In1::A(E::G1Affine::generator()), 1),
        _ => (In1::P(E::G1::generator() * E::ScalarField::from(k1)), k1),
    };
    let (q, s2): (In2<E>, u64) = match kq {
        0 => (In2::A(E::G2Affine::zero()), 0),
        1 => (In2::P(E::G2::zero()), 0),
        2 => (In2::P(x2), 0),
        3 => (in2::<E>(E::G2::zero(), 2)?, 0),
        4 => (in2::<E>(x2, 3)?, 0),
        5 => (In2::A(E::G2Affine::generator()), 1),
        _ => (In2::P(E::G2::generator() * E::ScalarField::from(k2)), k2),
    };
    let got = call_in::<E>(api, p, q)?;
    if s1 == 0 || s2 == 0 {
        ensure!(got.0.is_one() && got == PairingOutput::<E>::zero(), "identity", "{}({}, {}) is not the identity of the target group", APIS[api as usize], KINDS[kp as usize], KINDS[kq as usize]);
    } else {
        ensure!(!got.0.is_one(), "nondegenerate", "{}({} , {}) with k1={} k2={} is the identity", APIS[api as usize], KINDS[kp as usize], KINDS[kq as usize], s1, s2);
        let g = c.base()?;
        ensure!(got.0 == plain_pow(&g, &BigUint::from(s1 as u128 * s2 as u128)), "bilinear", "e({}G1, {}G2) != g^({}*{})", s1, s2, s1, s2);
        ensure!(plain_pow(&got.0, &c.fr.p).is_one(), "order", "output^r != 1");
    }
    Ok(())
}

/// PairingOutput group structure (written additively) against multiplication / inversion in the target field
fn grouplaws<E: Pairing>(c: &Ctx<E>, t: &mut Tape<'_>, o: &mut Obs) -> R {
    let r = &c.fr.p;
    let (s1, c1) = edge_value(t, &c.fr);
    let (s2, rel) = match t.weighted(&[6, 1, 1]) {
        0 => (edge_value(t, &c.fr).0, "independent"),
        1 => (s1.clone(), "same"),
        _ => ((r - &s1) % r, "negation"),
    };
    o.show(|| format!("{}: x = g^{} [{}], y = g^{} [{}]", c.name, hx(&s1), c1, hx(&s2), rel));
    let one = BigUint::one();
    o.nt(s1 > one && s2 > one);
    o.class(rel);
    o.class(c1);
    o.evals(16);
    let g = c.base()?;
    let fx = plain_pow(&g, &s1);
    let fy = plain_pow(&g, &s2);
    let (x, y) = (PairingOutput::<E>(fx), PairingOutput::<E>(fy));
    // inverses in the target field, validated by multiplication (so the oracle does not rest on `inverse`)
    let ix = fx.inverse().ok_or(Fail { sig: "oracle".into(), msg: "target element not invertible".into() })?;
    let iy = fy.inverse().ok_or(Fail { sig: "oracle".into(), msg: "target element not invertible".into() })?;
    ensure!((fx * ix).is_one() && (fy * iy).is_one(), "oracle", "field inverse is not an inverse");
    let fone = E::TargetField::one();
    // zero
    ensure!(PairingOutput::<E>::zero().0 == fone, "zero", "zero() is not the one of the target field");
    ensure!(<PairingOutput<E> as AdditiveGroup>::ZERO.0 == fone, "zero.const", "ZERO is not one");
    ensure!(PairingOutput::<E>::default().0 == fone, "zero.default", "default() is not one");
    ensure_eq!(x.is_zero(), fx == fone, "is_zero");
    // add
    let w = fx * fy;
    ensure!((x + y).0 == w, "add", "x + y != x.0 * y.0");
    ensure!((x + &y).0 == w, "add.ref", "x + &y");
    ensure!((&x + &y).0 == w, "add.refref", "&x + &y");
    let mut z = x;
    z += y;
    ensure!(z.0 == w, "add_assign", "x += y");
    let mut z = x;
    z += &y;
    ensure!(z.0 == w, "add_assign.ref", "x += &y");
    // sub
    let w = fx * iy;
    ensure!((x - y).0 == w, "sub", "x - y != x.0 * y.0^-1");
    ensure!((x - &y).0 == w, "sub.ref", "x - &y");
    ensure!((&x - &y).0 == w, "sub.refref", "&x - &y");
    let mut z = x;
    z -= y;
    ensure!(z.0 == w, "sub_assign", "x -= y");
    let mut z = x;
    z -= &y;
    ensure!(z.0 == w, "sub_assign.ref", "x -= &y");
    // neg
    ensure!((-x).0 == ix, "neg", "-x != x.0^-1");
    ensure!((x - x).0 == fone, "sub.self", "x - x != 0");
    ensure!((x + (-x)).0 == fone, "neg.add", "x + (-x) != 0");
    // double
    let w = fx * fx;
    ensure!(x.double().0 == w, "double", "x.double() != x.0^2");
    let mut z = x;
    z.double_in_place();
    ensure!(z.0 == w, "double_in_place", "double_in_place");
    // neutral element
    ensure!(x + PairingOutput::<E>::zero() == x, "add.zero", "x + 0 != x");
    // iterator sum
    let s: PairingOutput<E> = [x, y, x].iter().sum();
    ensure!(s.0 == fx * fy * fx, "sum", "iter().sum()");
    Ok(())
}

// ---------------------------------------------------------------------------------------------------------------
// registration
// ---------------------------------------------------------------------------------------------------------------

#[derive(Clone, Copy, PartialEq)]
enum Speed {
    /// a few ms per pairing at this optimisation level (BLS12, BN254, MNT-298)
    Fast,
    /// BW6
    Medium,
    /// MNT-753
    Slow,
    /// CP6-782 (affine Miller loop with a field inversion per step: ~1 s per pairing)
    VerySlow,
}

fn engine<E: Pairing>(out: &mut Vec<Rel>, name: &'static str, tier: Tier, speed: Speed, g2_identity: bool) {
    let max_len = if speed == Speed::VerySlow { tier.pick(3, 5) } else { 9 };
    let c = Arc::new(Ctx::<E>::new(name, g2_identity, max_len));
    let n = c.fr.n;
    let sw = 2 * n + 8; // words per edge scalar
    let q = |counts: [u32; 4]| {
        let b = counts[speed as usize];
        tier.pick(b, b * 15)
    };
    let cc = c.clone();
    out.push(Rel::new(format!("bilinear/{}", name), q([240, 120, 50, 10]), 2 * sw + 8, move |t, o| bilinear::<E>(&cc, t, o)).shrink_iters(60));
    let cc = c.clone();
    out.push(Rel::new(format!("additive/{}", name), q([120, 60, 24, 5]), 3 * sw + 12, move |t, o| additive::<E>(&cc, t, o)).shrink_iters(60));
    let cc = c.clone();
    out.push(Rel::new(format!("multi/{}", name), q([100, 60, 30, 4]), 6 * sw + 32, move |t, o| multi_rel::<E>(&cc, t, o)).shrink_iters(60));
    {
        let cc = c.clone();
        let full = speed == Speed::Fast || speed == Speed::Medium || tier == Tier::Thorough;
        let kqs: Vec<u64> = if g2_identity { (0..7).collect() } else { vec![0, 1] }; // exact mode: 5 + (kq % 2)
        out.push(
            Rel::new(format!("identity/{}", name), q([40, 30, 10, 4]), 5, move |t, o| identity_rel::<E>(&cc, t, o))
                .shrink_iters(60)
                .exhaustive(move || {
                    let kqs = kqs.clone();
                    Box::new((0..7u64).flat_map(move |kp| {
                        kqs.clone().into_iter().flat_map(move |kq| {
                            let apis: Vec<u64> = if full { vec![0, 1] } else { vec![(kp + kq) % 2] };
                            apis.into_iter().map(move |api| vec![kp, kq, api, 3 * kp + kq, 5 * kq + kp + 1])
                        })
                    }))
                }),
        );
    }
    let cc = c.clone();
    out.push(Rel::new(format!("grouplaws/{}", name), q([300, 100, 60, 40]), 2 * sw + 4, move |t, o| grouplaws::<E>(&cc, t, o)).shrink_iters(200));
}

fn relations(tier: Tier) -> Vec<Rel> {
    use Speed::*;
    let mut out = Vec::new();
    // slow engines first so that the long relations start early.
    // CP6-782 (hand-written pairing in the curve crate, not one of the model families of the statement) used to panic on
    // the identity of G2; repaired in /repo by commit c8f18f2, so identities are generated for it as for every engine.
    engine::<ark_cp6_782::CP6_782>(&mut out, "cp6_782", tier, VerySlow, true);
    engine::<ark_mnt6_753::MNT6_753>(&mut out, "mnt6_753", tier, Slow, true);
    engine::<ark_mnt4_753::MNT4_753>(&mut out, "mnt4_753", tier, Slow, true);
    engine::<ark_bw6_761::BW6_761>(&mut out, "bw6_761", tier, Medium, true);
    engine::<ark_bw6_767::BW6_767>(&mut out, "bw6_767", tier, Medium, true);
    engine::<ark_bls12_381::Bls12_381>(&mut out, "bls12_381", tier, Fast, true);
    engine::<ark_test_curves::bls12_381::Bls12_381>(&mut out, "test.bls12_381", tier, Fast, true);
    engine::<ark_bls12_377::Bls12_377>(&mut out, "bls12_377", tier, Fast, true);
    engine::<ark_bn254::Bn254>(&mut out, "bn254", tier, Fast, true);
    engine::<ark_mnt4_298::MNT4_298>(&mut out, "mnt4_298", tier, Fast, true);
    engine::<ark_mnt6_298::MNT6_298>(&mut out, "mnt6_298", tier, Fast, true);
    out
}

fn main() {
    vh_core::engine::main(PropSpec {
        id: "C06",
        rule: "Points are P = a*G1, Q = b*G2 with edge-biased scalars a, b in [0, r) (0, 1, 2, r-1, near r, (r±1)/2, 2^k(±1), edge limbs, small, uniform) plus explicit identity representations (affine identity, projective zero(), X-X, prepared from either), passed as affine, projective or prepared (from affine / from projective) values through pairing, miller_loop+final_exponentiation, multi_pairing and multi_miller_loop+final_exponentiation; lists have 0..=9 equal-length entries drawn from a pool of three points per group, the generator and the identity (so repeats and identities at arbitrary positions are frequent). Oracle: g = e(G1,G2) != 1 and every output equals g^(sum a_i*b_i mod r) computed by plain square-and-multiply in the target field, outputs agree across entry points and input forms, the multi-pairing equals the product of the individual pairings, output^r = 1, PairingOutput +,-,neg,zero,double equal field multiplication / inversion. A case is non-trivial when both points are non-identity and (a,b) is outside {0,1}^2, or the list has length >= 2 (group laws: both exponents outside {0,1}); distinct = distinct decoded choice sequences.",
        assumptions: &[
            "scalar multiplication and addition in G1/G2 (C03/C04), target-field multiplication/squaring (C02) and num-bigint are trusted as oracle ingredients",
            "e(G1,G2) as returned by the engine under test is the reference value g (a defect that rescales every output of an engine by the same bilinear, non-degenerate map of order r is invisible by design: it is still a pairing)",
            "CP6-782 is an extra engine outside the six model families of the statement",
        ],
        relations,
    })
}
