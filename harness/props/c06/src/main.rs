//! C06 — pairings are bilinear, non-degenerate and identity-preserving in every model.
//!
//! Oracle: target-group equalities only.  With g = e(G1, G2) (the value the engine itself returns for the two
//! generators), every pairing of P = a·G1, Q = b·G2 must equal g^(ab mod r), the exponent computed with BigUint
//! arithmetic and the power with a plain square-and-multiply loop over target-field multiplication (never the
//! cyclotomic paths of `PairingOutput`).
use ark_ec::pairing::{prepare_g1, prepare_g2, MillerLoopOutput, Pairing, PairingOutput};
use ark_serialize::{CanonicalDeserialize, CanonicalSerialize, Compress, Valid, Validate};
use ark_ec::{AdditiveGroup, AffineRepr, CurveGroup, PrimeGroup};
use ark_ff::{Field, One, PrimeField, Zero};
use num_bigint::BigUint;
use std::sync::{Arc, OnceLock};
use vh_core::engine::{no_panic, Fail, Obs, PropSpec, Rel, Tape, Tier, R};
use vh_core::gen::edge_value;
use vh_core::modint::FieldCtx;
use vh_core::{ensure, ensure_eq};

// ---------------------------------------------------------------------------------------------------------------
// context
// ---------------------------------------------------------------------------------------------------------------

struct Ctx<E: Pairing> {
    name: &'static str,
    /// scalar field r as BigUint context (edge-value generator)
    fr: FieldCtx,
    /// e(G1, G2).0, computed once by the engine under test
    base: OnceLock<E::TargetField>,
    /// whether the identity of G2 is generated for this engine (false only for the out-of-scope extra CP6-782, see NOTES.md)
    g2_identity: bool,
    /// longest list of the multi-pairing relation
    max_len: u64,
    /// non-identity points of the order-r groups with affine x-coordinate 0 (computed once; empty for most engines)
    x0_g1: OnceLock<Vec<E::G1Affine>>,
    x0_g2: OnceLock<Vec<E::G2Affine>>,
    /// per-engine class names for the evidence file
    cls_x0: [&'static str; 3],
}

impl<E: Pairing> Ctx<E> {
    fn new(name: &'static str, g2_identity: bool, max_len: u64) -> Self {
        let m = E::ScalarField::MODULUS;
        let leak = |x: String| -> &'static str { Box::leak(x.into_boxed_str()) };
        let cls_x0 = [leak(format!("x=0 point in G1: {}", name)), leak(format!("x=0 point in G2: {}", name)), leak(format!("no x=0 point in G1/G2: {}", name))];
        Ctx { name, fr: FieldCtx::new(&format!("{}.Fr", name), m.as_ref()), base: OnceLock::new(), g2_identity, max_len, x0_g1: OnceLock::new(), x0_g2: OnceLock::new(), cls_x0 }
    }
    fn base(&self) -> Result<E::TargetField, Fail> {
        if let Some(b) = self.base.get() {
            return Ok(*b);
        }
        let b = no_panic("pairing.generators", || E::pairing(E::G1Affine::generator(), E::G2Affine::generator()))?.0;
        let _ = self.base.set(b);
        Ok(b)
    }
}

fn hx(v: &BigUint) -> String {
    format!("0x{:x}", v)
}

/// abbreviated rendering for long lists (the replay tape holds the exact values)
fn hx_short(v: &BigUint) -> String {
    let s = format!("{:x}", v);
    if s.len() <= 18 {
        format!("0x{}", s)
    } else {
        format!("0x{}..{}<{}b>", &s[..8], &s[s.len() - 6..], v.bits())
    }
}

/// plain left-to-right square-and-multiply with target-field multiplication only
fn plain_pow<F: Field>(x: &F, e: &BigUint) -> F {
    let mut acc = F::one();
    for i in (0..e.bits()).rev() {
        acc.square_in_place();
        if e.bit(i) {
            acc *= x;
        }
    }
    acc
}

/// edge-biased scalar in [0, r): 0, 1, 2, r-1, near r, (r±1)/2, 2^k(±1), edge limbs, small, uniform
/// `g2`: the scalar multiplies the generator of G2 (zero is replaced when the engine's G2 identity is not generated)
fn scalar<E: Pairing>(c: &Ctx<E>, t: &mut Tape<'_>, g2: bool) -> (E::ScalarField, BigUint, &'static str) {
    let (v, cls) = edge_value(t, &c.fr);
    let v = if g2 && !c.g2_identity && v.is_zero() { BigUint::from(3u32) } else { v };
    (E::ScalarField::from(v.clone()), v, cls)
}

// ---------------------------------------------------------------------------------------------------------------
// input forms and API entry points
// ---------------------------------------------------------------------------------------------------------------

enum In1<E: Pairing> {
    A(E::G1Affine),
    P(E::G1),
    R(E::G1Prepared),
}
enum In2<E: Pairing> {
    A(E::G2Affine),
    P(E::G2),
    R(E::G2Prepared),
}

const FORMS: [&str; 4] = ["affine", "projective", "prepared<-affine", "prepared<-projective"];

fn in1<E: Pairing>(p: E::G1, form: u64) -> Result<In1<E>, Fail> {
    Ok(match form {
        0 => In1::A(p.into_affine()),
        1 => In1::P(p),
        2 => In1::R(no_panic("G1Prepared::from(affine)", || E::G1Prepared::from(p.into_affine()))?),
        _ => In1::R(no_panic("G1Prepared::from(projective)", || E::G1Prepared::from(p))?),
    })
}
fn in2<E: Pairing>(q: E::G2, form: u64) -> Result<In2<E>, Fail> {
    Ok(match form {
        0 => In2::A(q.into_affine()),
        1 => In2::P(q),
        2 => In2::R(no_panic("G2Prepared::from(affine)", || E::G2Prepared::from(q.into_affine()))?),
        _ => In2::R(no_panic("G2Prepared::from(projective)", || E::G2Prepared::from(q))?),
    })
}

const APIS: [&str; 2] = ["pairing", "final_exponentiation(miller_loop)"];

fn fe<E: Pairing>(m: MillerLoopOutput<E>) -> Result<PairingOutput<E>, Fail> {
    match no_panic("final_exponentiation", || E::final_exponentiation(m))? {
        Some(x) => Ok(x),
        None => Err(Fail { sig: "final_exponentiation.none".into(), msg: "final_exponentiation returned None for a Miller loop output".into() }),
    }
}

fn call<E: Pairing, A: Into<E::G1Prepared>, B: Into<E::G2Prepared>>(api: u64, p: A, q: B) -> Result<PairingOutput<E>, Fail> {
    if api == 0 {
        no_panic("pairing", || E::pairing(p, q))
    } else {
        let m = no_panic("miller_loop", || E::miller_loop(p, q))?;
        fe::<E>(m)
    }
}

fn call_in<E: Pairing>(api: u64, p: In1<E>, q: In2<E>) -> Result<PairingOutput<E>, Fail> {
    match (p, q) {
        (In1::A(p), In2::A(q)) => call::<E, _, _>(api, p, q),
        (In1::A(p), In2::P(q)) => call::<E, _, _>(api, p, q),
        (In1::A(p), In2::R(q)) => call::<E, _, _>(api, p, q),
        (In1::P(p), In2::A(q)) => call::<E, _, _>(api, p, q),
        (In1::P(p), In2::P(q)) => call::<E, _, _>(api, p, q),
        (In1::P(p), In2::R(q)) => call::<E, _, _>(api, p, q),
        (In1::R(p), In2::A(q)) => call::<E, _, _>(api, p, q),
        (In1::R(p), In2::P(q)) => call::<E, _, _>(api, p, q),
        (In1::R(p), In2::R(q)) => call::<E, _, _>(api, p, q),
    }
}

/// e(p, q) through the entry point `api` with the inputs passed in the given forms
fn pair<E: Pairing>(p: E::G1, q: E::G2, fp: u64, fq: u64, api: u64) -> Result<PairingOutput<E>, Fail> {
    call_in::<E>(api, in1::<E>(p, fp)?, in2::<E>(q, fq)?)
}

const LIST_FORMS: [&str; 3] = ["affine lists", "projective lists", "prepared lists"];

fn call_multi<E: Pairing, A: Into<E::G1Prepared>, B: Into<E::G2Prepared>>(api: u64, ps: Vec<A>, qs: Vec<B>) -> Result<PairingOutput<E>, Fail> {
    if api == 0 {
        no_panic("multi_pairing", || E::multi_pairing(ps, qs))
    } else {
        let m = no_panic("multi_miller_loop", || E::multi_miller_loop(ps, qs))?;
        fe::<E>(m)
    }
}

/// multi-pairing of equal-length lists; `mask` decides per entry whether a prepared value is made from the affine or the projective form
fn multi<E: Pairing>(ps: &[E::G1], qs: &[E::G2], form: u64, mask: u64, api: u64) -> Result<PairingOutput<E>, Fail> {
    match form {
        0 => call_multi::<E, _, _>(api, ps.iter().map(|p| p.into_affine()).collect::<Vec<_>>(), qs.iter().map(|q| q.into_affine()).collect::<Vec<_>>()),
        1 => call_multi::<E, _, _>(api, ps.to_vec(), qs.to_vec()),
        _ => {
            let mut a = Vec::new();
            let mut b = Vec::new();
            for (i, (p, q)) in ps.iter().zip(qs).enumerate() {
                let r1 = match in1::<E>(*p, 2 + ((mask >> ((2 * i) % 64)) & 1))? {
                    In1::R(r) => r,
                    _ => unreachable!(),
                };
                let r2 = match in2::<E>(*q, 2 + ((mask >> ((2 * i + 1) % 64)) & 1))? {
                    In2::R(r) => r,
                    _ => unreachable!(),
                };
                a.push(r1);
                b.push(r2);
            }
            call_multi::<E, _, _>(api, a, b)
        },
    }
}

// ---------------------------------------------------------------------------------------------------------------
// relations
// ---------------------------------------------------------------------------------------------------------------

/// e(aG1, bG2) = g^(ab); two entry points / input forms agree; output has order dividing r; g != 1
fn bilinear<E: Pairing>(c: &Ctx<E>, t: &mut Tape<'_>, o: &mut Obs) -> R {
    let (a, av, ac) = scalar(c, t, false);
    let (b, bv, bc) = scalar(c, t, true);
    let (fp, fq, api) = (t.below(4), t.below(4), t.below(2));
    let (fp2, fq2) = (t.below(4), t.below(4));
    o.show(|| {
        format!(
            "{}: {}(P: {}, Q: {}) and {}(P: {}, Q: {}) with P = a*G1, Q = b*G2, a={} [{}] b={} [{}]",
            c.name, APIS[api as usize], FORMS[fp as usize], FORMS[fq as usize], APIS[1 - api as usize], FORMS[fp2 as usize], FORMS[fq2 as usize], hx(&av), ac, hx(&bv), bc
        )
    });
    let one = BigUint::one();
    o.nt(!av.is_zero() && !bv.is_zero() && (av > one || bv > one));
    o.class(ac);
    o.class_if(av.is_zero() || bv.is_zero(), "identity-operand");
    o.class_if(fp >= 2 || fq >= 2, "prepared-input");
    o.class_if(fp == 1 || fq == 1, "projective-input");
    o.evals(5);
    let p = E::G1::generator() * a;
    let q = E::G2::generator() * b;
    let g = c.base()?;
    ensure!(!g.is_one(), "nondegenerate", "e(G1, G2) is the identity of the target group");
    let want = plain_pow(&g, &((&av * &bv) % &c.fr.p));
    let got = pair::<E>(p, q, fp, fq, api)?;
    ensure!(got.0 == want, "bilinear", "e(aG1, bG2) != e(G1,G2)^(ab): a={} b={} via {} ({}, {})", hx(&av), hx(&bv), APIS[api as usize], FORMS[fp as usize], FORMS[fq as usize]);
    if av.is_zero() || bv.is_zero() {
        ensure!(got.is_zero() && got.0.is_one(), "identity", "pairing with an identity operand is not the identity");
    }
    let got2 = pair::<E>(p, q, fp2, fq2, 1 - api)?;
    ensure!(got2 == got, "forms", "{}({}, {}) != {}({}, {}) for a={} b={}", APIS[1 - api as usize], FORMS[fp2 as usize], FORMS[fq2 as usize], APIS[api as usize], FORMS[fp as usize], FORMS[fq as usize], hx(&av), hx(&bv));
    ensure!(plain_pow(&got.0, &c.fr.p).is_one(), "order", "output^r != 1 for a={} b={}", hx(&av), hx(&bv));
    Ok(())
}

/// additivity in each slot
fn additive<E: Pairing>(c: &Ctx<E>, t: &mut Tape<'_>, o: &mut Obs) -> R {
    let slot = t.below(2);
    // slot 0: x1, x2 multiply G1 and y multiplies G2; slot 1: the other way round
    let (_, a1v, ac) = scalar(c, t, slot == 1);
    let r = &c.fr.p;
    let (a2v, rel) = match t.weighted(&[6, 1, 1, 1]) {
        0 => (scalar(c, t, slot == 1).1, "independent"),
        1 => (a1v.clone(), "same"),
        2 if c.g2_identity || slot == 0 => ((r - &a1v) % r, "negation"),
        _ => ((r + r - &a1v - 1u32) % r, "negation-1"),
    };
    let (_, bv, _) = scalar(c, t, slot == 0);
    let forms = [t.below(4), t.below(4), t.below(4), t.below(4), t.below(4), t.below(4)];
    let api = t.below(2);
    o.show(|| {
        format!(
            "{}: additivity in slot {}: x1={} [{}] x2={} [{}] other={} via {}",
            c.name, slot + 1, hx(&a1v), ac, hx(&a2v), rel, hx(&bv), APIS[api as usize]
        )
    });
    let one = BigUint::one();
    let sum = (&a1v + &a2v) % r;
    o.nt(!a1v.is_zero() && !a2v.is_zero() && !bv.is_zero() && (a1v > one || a2v > one || bv > one));
    o.class(rel);
    o.class_if(sum.is_zero(), "sum-is-identity");
    o.class_if(slot == 0, "slot-G1");
    o.class_if(slot == 1, "slot-G2");
    o.evals(4);
    let (s1, s2, sb) = (E::ScalarField::from(a1v.clone()), E::ScalarField::from(a2v.clone()), E::ScalarField::from(bv.clone()));
    let (e1, e2, es) = if slot == 0 {
        let (p1, p2, q) = (E::G1::generator() * s1, E::G1::generator() * s2, E::G2::generator() * sb);
        (pair::<E>(p1, q, forms[0], forms[1], api)?, pair::<E>(p2, q, forms[2], forms[3], api)?, pair::<E>(p1 + p2, q, forms[4], forms[5], api)?)
    } else {
        let (q1, q2, p) = (E::G2::generator() * s1, E::G2::generator() * s2, E::G1::generator() * sb);
        (pair::<E>(p, q1, forms[0], forms[1], api)?, pair::<E>(p, q2, forms[2], forms[3], api)?, pair::<E>(p, q1 + q2, forms[4], forms[5], api)?)
    };
    ensure!(es.0 == e1.0 * e2.0, "additive", "e(X1+X2, Y) != e(X1,Y)*e(X2,Y) in slot {}: x1={} x2={} y={}", slot + 1, hx(&a1v), hx(&a2v), hx(&bv));
    ensure!(e1 + e2 == es, "additive.output-add", "PairingOutput sum differs from the pairing of the sum");
    let g = c.base()?;
    ensure!(es.0 == plain_pow(&g, &((&sum * &bv) % r)), "additive.value", "e(X1+X2, Y) != g^((x1+x2)y): x1={} x2={} y={}", hx(&a1v), hx(&a2v), hx(&bv));
    Ok(())
}

/// multi_pairing / multi_miller_loop+final_exponentiation over lists of 0..=9 pairs = sum of the pairings = g^(sum a_i b_i)
fn multi_rel<E: Pairing>(c: &Ctx<E>, t: &mut Tape<'_>, o: &mut Obs) -> R {
    let n = match t.weighted(&[1, 1, 3, 2, 3, 2]) {
        0 => 0,
        1 => 1,
        2 => t.range(2, 4),
        3 => 5,
        4 => t.range(6, 8),
        _ => 9,
    }
    .min(c.max_len) as usize;
    let r = &c.fr.p;
    // pools of three scalars per group; entries pick identity / generator / a pool element, so repeats are frequent
    let pool1: Vec<BigUint> = (0..3).map(|_| scalar(c, t, false).1).collect();
    let pool2: Vec<BigUint> = (0..3).map(|_| scalar(c, t, true).1).collect();
    let id_w = if c.g2_identity { 1 } else { 0 };
    let mut ks1 = Vec::new();
    let mut ks2 = Vec::new();
    let mut sel = Vec::new();
    for _ in 0..n {
        let i = t.weighted(&[1, 2, 2, 2, 1]);
        let j = t.weighted(&[1, 2, 2, 2, id_w]);
        let pick = |i: usize, pool: &Vec<BigUint>| match i {
            0 => BigUint::one(),
            4 => BigUint::zero(),
            k => pool[k - 1].clone(),
        };
        ks1.push(pick(i, &pool1));
        ks2.push(pick(j, &pool2));
        sel.push((i, j));
    }
    let form_a = t.below(3);
    let form_b = t.below(3);
    let mask = t.below(1 << 20);
    let api = t.below(2);
    let n_id = ks1.iter().zip(&ks2).filter(|(a, b)| a.is_zero() || b.is_zero()).count();
    let mut seen = std::collections::BTreeSet::new();
    let repeated = sel.iter().any(|s| !seen.insert(*s));
    o.show(|| {
        format!(
            "{}: {} pairs (a_i, b_i) = {:?}; {} over {} vs {} over {}; {} identity pairs",
            c.name,
            n,
            ks1.iter().zip(&ks2).map(|(a, b)| format!("({},{})", hx_short(a), hx_short(b))).collect::<Vec<_>>(),
            if api == 0 { "multi_pairing" } else { "final_exponentiation(multi_miller_loop)" },
            LIST_FORMS[form_a as usize],
            if api == 1 { "multi_pairing" } else { "final_exponentiation(multi_miller_loop)" },
            LIST_FORMS[form_b as usize],
            n_id
        )
    });
    o.nt(n >= 2);
    o.class(match n {
        0 => "len-0",
        1 => "len-1",
        2..=4 => "len-2..4",
        5..=8 => "len-5..8",
        _ => "len-9",
    });
    o.class_if(n_id > 0, "list-with-identity");
    o.class_if(n - n_id >= 5, ">=5-live-pairs");
    o.class_if(n > 0 && n_id == n, "all-identity");
    o.class_if(repeated, "repeated-pair");
    o.class_if(form_a == 2 || form_b == 2, "prepared-lists");
    o.evals(3);
    let ps: Vec<E::G1> = ks1.iter().enumerate().map(|(i, k)| point::<E::G1>(k, i)).collect();
    let qs: Vec<E::G2> = ks2.iter().enumerate().map(|(i, k)| point::<E::G2>(k, i + 1)).collect();
    let g = c.base()?;
    let mut exp = BigUint::zero();
    for (a, b) in ks1.iter().zip(&ks2) {
        exp = (exp + a * b) % r;
    }
    let want = plain_pow(&g, &exp);
    let got = multi::<E>(&ps, &qs, form_a, mask, api)?;
    // sum of the individual pairings (memoised per distinct selector pair)
    let mut memo: std::collections::BTreeMap<(usize, usize), E::TargetField> = Default::default();
    let mut prod = E::TargetField::one();
    for (k, s) in sel.iter().enumerate() {
        let v = match memo.get(s) {
            Some(v) => *v,
            None => {
                let v = pair::<E>(ps[k], qs[k], (mask >> k) & 1, (mask >> (k + 1)) & 1, 0)?.0;
                memo.insert(*s, v);
                v
            },
        };
        prod *= v;
    }
    let desc = || format!("{} pairs, {} with an identity, selectors {:?}", n, n_id, sel);
    ensure!(got.0 == prod, "multi.sum", "{} != product of the individual pairings ({})", if api == 0 { "multi_pairing" } else { "fe(multi_miller_loop)" }, desc());
    ensure!(got.0 == want, "multi.value", "multi-pairing != g^(sum a_i b_i) ({})", desc());
    let got2 = multi::<E>(&ps, &qs, form_b, mask >> 3, 1 - api)?;
    ensure!(got2 == got, "multi.forms", "multi_pairing and final_exponentiation(multi_miller_loop) disagree ({} / {}; {})", LIST_FORMS[form_a as usize], LIST_FORMS[form_b as usize], desc());
    if n == 0 || n_id == n {
        ensure!(got.is_zero(), "multi.identity", "multi-pairing of identity pairs / the empty list is not the identity");
    }
    ensure!(plain_pow(&got.0, r).is_one(), "order", "multi-pairing output^r != 1");
    Ok(())
}

/// k·G; the identity is produced in alternating representations (zero(), X - X)
fn point<G: CurveGroup>(k: &BigUint, i: usize) -> G {
    if k.is_zero() {
        if i % 2 == 0 {
            G::zero()
        } else {
            let x = G::generator().double();
            x - x
        }
    } else {
        G::generator() * G::ScalarField::from(k.clone())
    }
}

const KINDS: [&str; 7] = ["affine identity", "projective zero()", "projective X-X", "prepared<-affine identity", "prepared<-projective zero", "generator (affine)", "k*generator (projective)"];

/// every representation of the identity in either slot, through both entry points: the result is the identity, returned not panicked
fn identity_rel<E: Pairing>(c: &Ctx<E>, t: &mut Tape<'_>, o: &mut Obs) -> R {
    let kp = t.below(7);
    let kq = if c.g2_identity { t.below(7) } else { 5 + t.below(2) };
    let api = t.below(2);
    let k1 = 2 + t.below(1 << 16);
    let k2 = 2 + t.below(1 << 16);
    o.show(|| format!("{}: {}(P: {}, Q: {}) k1={} k2={}", c.name, APIS[api as usize], KINDS[kp as usize], KINDS[kq as usize], k1, k2));
    o.nt(kp >= 5 && kq >= 5 && (kp == 6 || kq == 6));
    o.class_if(kp < 5 && kq < 5, "both-identity");
    o.class_if((kp < 5) != (kq < 5), "one-identity");
    o.class_if(kp == 5 && kq == 5, "generators");
    let x1 = {
        let x = E::G1::generator() * E::ScalarField::from(k1);
        x - x
    };
    let x2 = {
        let x = E::G2::generator() * E::ScalarField::from(k2);
        x - x
    };
    let (p, s1): (In1<E>, u64) = match kp {
        0 => (In1::A(E::G1Affine::zero()), 0),
        1 => (In1::P(E::G1::zero()), 0),
        2 => (In1::P(x1), 0),
        3 => (in1::<E>(E::G1::zero(), 2)?, 0),
        4 => (in1::<E>(x1, 3)?, 0),
        5 => (In1::A(E::G1Affine::generator()), 1),
        _ => (In1::P(E::G1::generator() * E::ScalarField::from(k1)), k1),
    };
    let (q, s2): (In2<E>, u64) = match kq {
        0 => (In2::A(E::G2Affine::zero()), 0),
        1 => (In2::P(E::G2::zero()), 0),
        2 => (In2::P(x2), 0),
        3 => (in2::<E>(E::G2::zero(), 2)?, 0),
        4 => (in2::<E>(x2, 3)?, 0),
        5 => (In2::A(E::G2Affine::generator()), 1),
        _ => (In2::P(E::G2::generator() * E::ScalarField::from(k2)), k2),
    };
    let got = call_in::<E>(api, p, q)?;
    if s1 == 0 || s2 == 0 {
        ensure!(got.0.is_one() && got == PairingOutput::<E>::zero(), "identity", "{}({}, {}) is not the identity of the target group", APIS[api as usize], KINDS[kp as usize], KINDS[kq as usize]);
    } else {
        ensure!(!got.0.is_one(), "nondegenerate", "{}({} , {}) with k1={} k2={} is the identity", APIS[api as usize], KINDS[kp as usize], KINDS[kq as usize], s1, s2);
        let g = c.base()?;
        ensure!(got.0 == plain_pow(&g, &BigUint::from(s1 as u128 * s2 as u128)), "bilinear", "e({}G1, {}G2) != g^({}*{})", s1, s2, s1, s2);
        ensure!(plain_pow(&got.0, &c.fr.p).is_one(), "order", "output^r != 1");
    }
    Ok(())
}

/// PairingOutput group structure (written additively) against multiplication / inversion in the target field
fn grouplaws<E: Pairing>(c: &Ctx<E>, t: &mut Tape<'_>, o: &mut Obs) -> R {
    let r = &c.fr.p;
    let (s1, c1) = edge_value(t, &c.fr);
    let (s2, rel) = match t.weighted(&[6, 1, 1]) {
        0 => (edge_value(t, &c.fr).0, "independent"),
        1 => (s1.clone(), "same"),
        _ => ((r - &s1) % r, "negation"),
    };
    o.show(|| format!("{}: x = g^{} [{}], y = g^{} [{}]", c.name, hx(&s1), c1, hx(&s2), rel));
    let one = BigUint::one();
    o.nt(s1 > one && s2 > one);
    o.class(rel);
    o.class(c1);
    o.evals(16);
    let g = c.base()?;
    let fx = plain_pow(&g, &s1);
    let fy = plain_pow(&g, &s2);
    let (x, y) = (PairingOutput::<E>(fx), PairingOutput::<E>(fy));
    // inverses in the target field, validated by multiplication (so the oracle does not rest on `inverse`)
    let ix = fx.inverse().ok_or(Fail { sig: "oracle".into(), msg: "target element not invertible".into() })?;
    let iy = fy.inverse().ok_or(Fail { sig: "oracle".into(), msg: "target element not invertible".into() })?;
    ensure!((fx * ix).is_one() && (fy * iy).is_one(), "oracle", "field inverse is not an inverse");
    let fone = E::TargetField::one();
    // zero
    ensure!(PairingOutput::<E>::zero().0 == fone, "zero", "zero() is not the one of the target field");
    ensure!(<PairingOutput<E> as AdditiveGroup>::ZERO.0 == fone, "zero.const", "ZERO is not one");
    ensure!(PairingOutput::<E>::default().0 == fone, "zero.default", "default() is not one");
    ensure_eq!(x.is_zero(), fx == fone, "is_zero");
    // add
    let w = fx * fy;
    ensure!((x + y).0 == w, "add", "x + y != x.0 * y.0");
    ensure!((x + &y).0 == w, "add.ref", "x + &y");
    ensure!((&x + &y).0 == w, "add.refref", "&x + &y");
    let mut z = x;
    z += y;
    ensure!(z.0 == w, "add_assign", "x += y");
    let mut z = x;
    z += &y;
    ensure!(z.0 == w, "add_assign.ref", "x += &y");
    // sub
    let w = fx * iy;
    ensure!((x - y).0 == w, "sub", "x - y != x.0 * y.0^-1");
    ensure!((x - &y).0 == w, "sub.ref", "x - &y");
    ensure!((&x - &y).0 == w, "sub.refref", "&x - &y");
    let mut z = x;
    z -= y;
    ensure!(z.0 == w, "sub_assign", "x -= y");
    let mut z = x;
    z -= &y;
    ensure!(z.0 == w, "sub_assign.ref", "x -= &y");
    // neg
    ensure!((-x).0 == ix, "neg", "-x != x.0^-1");
    ensure!((x - x).0 == fone, "sub.self", "x - x != 0");
    ensure!((x + (-x)).0 == fone, "neg.add", "x + (-x) != 0");
    // double
    let w = fx * fx;
    ensure!(x.double().0 == w, "double", "x.double() != x.0^2");
    let mut z = x;
    z.double_in_place();
    ensure!(z.0 == w, "double_in_place", "double_in_place");
    // neutral element
    ensure!(x + PairingOutput::<E>::zero() == x, "add.zero", "x + 0 != x");
    // iterator sum
    let s: PairingOutput<E> = [x, y, x].iter().sum();
    ensure!(s.0 == fx * fy * fx, "sum", "iter().sum()");
    Ok(())
}

// ---------------------------------------------------------------------------------------------------------------
// API spellings that the `Pairing` trait bounds do not expose (conversions from references, `is_zero` of prepared
// values, lists passed as slices) - implemented per engine by `spell!`
// ---------------------------------------------------------------------------------------------------------------

trait Spell: Pairing {
    fn g1p_ref_affine(p: &Self::G1Affine) -> Self::G1Prepared;
    fn g1p_ref_proj(p: &Self::G1) -> Self::G1Prepared;
    fn g2p_ref_affine(q: &Self::G2Affine) -> Self::G2Prepared;
    fn g2p_ref_proj(q: &Self::G2) -> Self::G2Prepared;
    /// `is_zero()` of the prepared values, where the model has it
    fn g1p_is_zero(p: &Self::G1Prepared) -> Option<bool>;
    fn g2p_is_zero(q: &Self::G2Prepared) -> Option<bool>;
    /// lists passed as slices: the items are references
    fn multi_pairing_slices_affine(ps: &[Self::G1Affine], qs: &[Self::G2Affine]) -> PairingOutput<Self>;
    fn multi_pairing_slices_proj(ps: &[Self::G1], qs: &[Self::G2]) -> PairingOutput<Self>;
    fn multi_miller_loop_slices_mixed(ps: &[Self::G1], qs: &[Self::G2Affine]) -> MillerLoopOutput<Self>;
    /// the points (0, y) of the curve of G1 / G2 that are non-identity elements of the order-r group (empty for most curves)
    fn g1_x0() -> Vec<Self::G1Affine>;
    fn g2_x0() -> Vec<Self::G2Affine>;
}

macro_rules! spell {
    ($e:ty, $z1:expr, $z2:expr) => {
        impl Spell for $e {
            fn g1p_ref_affine(p: &Self::G1Affine) -> Self::G1Prepared {
                <<$e as Pairing>::G1Prepared>::from(p)
            }
            fn g1p_ref_proj(p: &Self::G1) -> Self::G1Prepared {
                <<$e as Pairing>::G1Prepared>::from(p)
            }
            fn g2p_ref_affine(q: &Self::G2Affine) -> Self::G2Prepared {
                <<$e as Pairing>::G2Prepared>::from(q)
            }
            fn g2p_ref_proj(q: &Self::G2) -> Self::G2Prepared {
                <<$e as Pairing>::G2Prepared>::from(q)
            }
            fn g1p_is_zero(p: &Self::G1Prepared) -> Option<bool> {
                let f: fn(&<$e as Pairing>::G1Prepared) -> Option<bool> = $z1;
                f(p)
            }
            fn g2p_is_zero(q: &Self::G2Prepared) -> Option<bool> {
                let f: fn(&<$e as Pairing>::G2Prepared) -> Option<bool> = $z2;
                f(q)
            }
            fn multi_pairing_slices_affine(ps: &[Self::G1Affine], qs: &[Self::G2Affine]) -> PairingOutput<Self> {
                Self::multi_pairing(ps, qs)
            }
            fn multi_pairing_slices_proj(ps: &[Self::G1], qs: &[Self::G2]) -> PairingOutput<Self> {
                Self::multi_pairing(ps.iter(), qs.iter())
            }
            fn multi_miller_loop_slices_mixed(ps: &[Self::G1], qs: &[Self::G2Affine]) -> MillerLoopOutput<Self> {
                Self::multi_miller_loop(ps, qs.iter())
            }
            fn g1_x0() -> Vec<Self::G1Affine> {
                let mut v = Vec::new();
                for greatest in [false, true] {
                    let zero = <<<$e as Pairing>::G1Affine as AffineRepr>::BaseField as Zero>::zero();
                    if let Some(p) = <<$e as Pairing>::G1Affine>::get_point_from_x_unchecked(zero, greatest) {
                        if p.is_on_curve() && !p.is_zero() && p.mul_bigint(<<$e as Pairing>::ScalarField as PrimeField>::MODULUS).is_zero() && !v.contains(&p) {
                            v.push(p);
                        }
                    }
                }
                v
            }
            fn g2_x0() -> Vec<Self::G2Affine> {
                let mut v = Vec::new();
                for greatest in [false, true] {
                    let zero = <<<$e as Pairing>::G2Affine as AffineRepr>::BaseField as Zero>::zero();
                    if let Some(p) = <<$e as Pairing>::G2Affine>::get_point_from_x_unchecked(zero, greatest) {
                        if p.is_on_curve() && !p.is_zero() && p.mul_bigint(<<$e as Pairing>::ScalarField as PrimeField>::MODULUS).is_zero() && !v.contains(&p) {
                            v.push(p);
                        }
                    }
                }
                v
            }
        }
    };
}

spell!(ark_bls12_381::Bls12_381, |p| Some(p.is_zero()), |q| Some(q.is_zero()));
spell!(ark_test_curves::bls12_381::Bls12_381, |p| Some(p.is_zero()), |q| Some(q.is_zero()));
spell!(ark_bls12_377::Bls12_377, |p| Some(p.is_zero()), |q| Some(q.is_zero()));
spell!(ark_bn254::Bn254, |p| Some(p.is_zero()), |q| Some(q.is_zero()));
spell!(ark_bw6_761::BW6_761, |p| Some(p.is_zero()), |q| Some(q.is_zero()));
spell!(ark_bw6_767::BW6_767, |p| Some(p.is_zero()), |q| Some(q.is_zero()));
spell!(ark_cp6_782::CP6_782, |p| Some(p.is_zero()), |q| Some(q.is_zero()));
spell!(ark_mnt4_298::MNT4_298, |_| None, |_| None);
spell!(ark_mnt4_753::MNT4_753, |_| None, |_| None);
spell!(ark_mnt6_298::MNT6_298, |_| None, |_| None);
spell!(ark_mnt6_753::MNT6_753, |_| None, |_| None);

fn roundtrip<T: CanonicalSerialize + CanonicalDeserialize>(x: &T, compress: Compress, what: &str) -> Result<T, Fail> {
    let mut bytes = Vec::new();
    if let Err(e) = x.serialize_with_mode(&mut bytes, compress) {
        return Err(Fail { sig: format!("{}.serialize", what), msg: format!("{:?}", e) });
    }
    if bytes.len() != x.serialized_size(compress) {
        return Err(Fail { sig: format!("{}.serialized_size", what), msg: format!("wrote {} bytes, serialized_size says {}", bytes.len(), x.serialized_size(compress)) });
    }
    match T::deserialize_with_mode(&bytes[..], compress, Validate::Yes) {
        Ok(y) => Ok(y),
        Err(e) => Err(Fail { sig: format!("{}.deserialize", what), msg: format!("{:?}", e) }),
    }
}

const SPELLS: [&str; 6] = [
    "Prepared::from(&affine)",
    "Prepared::from(&projective)",
    "prepare_g1/prepare_g2(affine)",
    "prepare_g1/prepare_g2(projective)",
    "prepared -> serialize -> deserialize (compressed)",
    "prepared -> serialize -> deserialize (uncompressed)",
];

/// The same pairing through the remaining public spellings: prepared values made from references, by `prepare_g1` /
/// `prepare_g2`, or read back from their canonical serialization; lists passed as slices (items are references);
/// `is_zero()` of prepared values; `PairingOutput::generator()`, `Valid::check` of outputs; the `&mut` operand forms and
/// the owned `Sum` of `PairingOutput`.  Oracle: g^(ab) / g^(sum a_i b_i) by plain square-and-multiply, as everywhere.
fn spellings<E: Spell>(c: &Ctx<E>, t: &mut Tape<'_>, o: &mut Obs) -> R {
    let (a, av, ac) = scalar(c, t, false);
    let (b, bv, bc) = scalar(c, t, true);
    let (s1, s2) = (t.below(6), t.below(6));
    let api = t.below(2);
    let k = 1 + t.below(1 << 20);
    o.show(|| format!("{}: {}(P via {}, Q via {}) and slice lists, P = a*G1, Q = b*G2, a={} [{}] b={} [{}] k={}", c.name, APIS[api as usize], SPELLS[s1 as usize], SPELLS[s2 as usize], hx(&av), ac, hx(&bv), bc, k));
    let one = BigUint::one();
    o.nt(!av.is_zero() && !bv.is_zero() && (av > one || bv > one));
    o.class_if(av.is_zero() || bv.is_zero(), "identity-operand");
    o.class_if(s1 <= 1 || s2 <= 1, "spell:from-reference");
    o.class_if((2..=3).contains(&s1) || (2..=3).contains(&s2), "spell:prepare_g1/g2");
    o.class_if(s1 >= 4 || s2 >= 4, "spell:serialized-prepared");
    o.evals(12);
    let r = &c.fr.p;
    let p = E::G1::generator() * a;
    let q = E::G2::generator() * b;
    let (pa, qa) = (p.into_affine(), q.into_affine());
    let g = c.base()?;
    // single pairing through the chosen spellings
    let p1: E::G1Prepared = match s1 {
        0 => no_panic("G1Prepared::from(&affine)", || E::g1p_ref_affine(&pa))?,
        1 => no_panic("G1Prepared::from(&projective)", || E::g1p_ref_proj(&p))?,
        2 => no_panic("prepare_g1(affine)", || prepare_g1::<E>(pa))?,
        3 => no_panic("prepare_g1(projective)", || prepare_g1::<E>(p))?,
        4 => roundtrip(&E::G1Prepared::from(pa), Compress::Yes, "G1Prepared")?,
        _ => roundtrip(&E::G1Prepared::from(p), Compress::No, "G1Prepared")?,
    };
    let q1: E::G2Prepared = match s2 {
        0 => no_panic("G2Prepared::from(&affine)", || E::g2p_ref_affine(&qa))?,
        1 => no_panic("G2Prepared::from(&projective)", || E::g2p_ref_proj(&q))?,
        2 => no_panic("prepare_g2(affine)", || prepare_g2::<E>(qa))?,
        3 => no_panic("prepare_g2(projective)", || prepare_g2::<E>(q))?,
        4 => roundtrip(&E::G2Prepared::from(qa), Compress::Yes, "G2Prepared")?,
        _ => roundtrip(&E::G2Prepared::from(q), Compress::No, "G2Prepared")?,
    };
    if let Some(z) = E::g1p_is_zero(&p1) {
        ensure!(z == av.is_zero(), "prepared.is_zero.g1", "G1Prepared::is_zero() = {} for a = {}", z, hx(&av));
    }
    if let Some(z) = E::g2p_is_zero(&q1) {
        ensure!(z == bv.is_zero(), "prepared.is_zero.g2", "G2Prepared::is_zero() = {} for b = {}", z, hx(&bv));
    }
    let want = plain_pow(&g, &((&av * &bv) % r));
    let got = call::<E, _, _>(api, p1, q1)?;
    ensure!(got.0 == want, "spelling.single", "{}(P via {}, Q via {}) != g^(ab) for a={} b={}", APIS[api as usize], SPELLS[s1 as usize], SPELLS[s2 as usize], hx(&av), hx(&bv));
    ensure!(got.check().is_ok(), "output.check", "Valid::check rejects a pairing output (a={} b={})", hx(&av), hx(&bv));
    // lists as slices: (P,Q), (k*G1, Q), (P, G2)  ->  g^(ab + kb + a)
    let kg = E::G1::generator() * E::ScalarField::from(k);
    let e3 = (&av * &bv + BigUint::from(k) * &bv + &av) % r;
    let want3 = plain_pow(&g, &e3);
    let ps = [p, kg, p];
    let qs = [q, q, E::G2::generator()];
    let psa: Vec<E::G1Affine> = ps.iter().map(|x| x.into_affine()).collect();
    let qsa: Vec<E::G2Affine> = qs.iter().map(|x| x.into_affine()).collect();
    let m1 = no_panic("multi_pairing(&[affine])", || E::multi_pairing_slices_affine(&psa, &qsa))?;
    ensure!(m1.0 == want3, "spelling.slices.affine", "multi_pairing(&[G1Affine], &[G2Affine]) != g^(ab+kb+a) for a={} b={} k={}", hx(&av), hx(&bv), k);
    let m2 = no_panic("multi_pairing(iter of &projective)", || E::multi_pairing_slices_proj(&ps, &qs))?;
    ensure!(m2.0 == want3, "spelling.slices.projective", "multi_pairing(ps.iter(), qs.iter()) != g^(ab+kb+a) for a={} b={} k={}", hx(&av), hx(&bv), k);
    let m3 = fe::<E>(no_panic("multi_miller_loop(&[projective], iter of &affine)", || E::multi_miller_loop_slices_mixed(&ps, &qsa))?)?;
    ensure!(m3.0 == want3, "spelling.slices.mixed", "final_exponentiation(multi_miller_loop(&[G1], qs.iter())) != g^(ab+kb+a) for a={} b={} k={}", hx(&av), hx(&bv), k);
    // the generator of the target group is e(G1, G2)
    if t.below(8) == 0 {
        let gen = no_panic("PairingOutput::generator", || <PairingOutput<E> as PrimeGroup>::generator())?;
        ensure!(gen.0 == g && !gen.is_zero(), "output.generator", "PairingOutput::generator() is not e(G1, G2) / is the identity");
    }
    // remaining operand forms of the target group, against field multiplication
    let (x, y) = (got, m1);
    let mut ym = y;
    let w = x.0 * y.0;
    ensure!((x + &mut ym).0 == w, "add.mutref", "x + &mut y");
    let mut z = x;
    z += &mut ym;
    ensure!(z.0 == w, "add_assign.mutref", "x += &mut y");
    let back = z - &mut ym;
    ensure!(back.0 == x.0, "sub.mutref", "(x + y) - &mut y != x");
    let mut z2 = z;
    z2 -= &mut ym;
    ensure!(z2.0 == x.0, "sub_assign.mutref", "(x + y) -= &mut y != x");
    let s: PairingOutput<E> = vec![x, y, y].into_iter().sum();
    ensure!(s.0 == x.0 * y.0 * y.0, "sum.owned", "into_iter().sum()");
    Ok(())
}

/// Group elements with a zero affine coordinate.  On curves with cofactor one and a square coefficient b (the MNT G1
/// groups) the points (0, +-sqrt b) are ordinary elements of G1; on the j = 0 curves they are 3-torsion and outside the
/// order-r group, and points with y = 0 have order 2, so they never lie in a group of odd prime order.  The generator
/// asks every engine for the points with x = 0 of both curves (`get_point_from_x_unchecked(0, .)`), keeps those that
/// are on the curve, non-identity and killed by r, and uses them as P0 / Q0.  Their discrete logarithms are unknown,
/// so the oracle is relative to pairings of *moved* points (k*P0, P0 + P', whose coordinates are generic):
///   e(P0, Q0) != 1 (non-degenerate: P0, Q0 are non-identity elements of the cyclic groups of prime order r),
///   e(k*P0, l*Q0) = e(P0, Q0)^(kl),   e(P0, l*Q0)^k = e(k*P0, Q0)^l,
///   e(P0 + P', Q0) = e(P0, Q0) e(P', Q0),   e(P0, Q0 + Q') = e(P0, Q0) e(P0, Q'),
///   multi_pairing[(P0,Q0),(P',Q0)] = e(P0 + P', Q0),   multi_pairing[(P0,Q0),(P',Q')] = e(P0,Q0) e(P',Q'),   output^r = 1.
/// When an engine has no such point the other slot uses a*G1 / b*G2 with non-zero edge scalars; when it has none in
/// either group the case is empty (class "no x=0 point").
fn zero_coordinate<E: Spell>(c: &Ctx<E>, t: &mut Tape<'_>, o: &mut Obs) -> R {
    let s1 = c.x0_g1.get_or_init(|| E::g1_x0());
    let s2 = c.x0_g2.get_or_init(|| E::g2_x0());
    if s1.is_empty() && s2.is_empty() {
        o.class(c.cls_x0[2]);
        o.show(|| format!("{}: neither curve has a point with x = 0 in its order-r group", c.name));
        return Ok(());
    }
    let slot = if !s1.is_empty() && !s2.is_empty() { t.below(3) } else if !s1.is_empty() { 0 } else { 1 };
    let r = &c.fr.p;
    let nz = |v: BigUint| if v.is_zero() { BigUint::one() } else { v };
    let (_, av, _) = scalar(c, t, false);
    let (_, bv, _) = scalar(c, t, true);
    let (av, bv) = (nz(av), nz(bv));
    let (_, a2, _) = scalar(c, t, false);
    let (_, b2, _) = scalar(c, t, true);
    let k = 2 + t.below(1 << 16);
    let l = match t.weighted(&[2, 1]) {
        0 => BigUint::from(2 + t.below(1 << 16)),
        _ => nz(scalar(c, t, true).1),
    };
    let i1 = t.idx(s1.len().max(1));
    let i2 = t.idx(s2.len().max(1));
    let forms = [t.below(4), t.below(4), t.below(4), t.below(4)];
    let api = t.below(2);
    let lf = t.below(3);
    let p0: E::G1 = if slot != 1 { s1[i1].into() } else { E::G1::generator() * E::ScalarField::from(av.clone()) };
    let q0: E::G2 = if slot != 0 { s2[i2].into() } else { E::G2::generator() * E::ScalarField::from(bv.clone()) };
    o.show(|| {
        format!(
            "{}: P0 = {}, Q0 = {}, k={} l={} P'={}*G1 Q'={}*G2 via {}",
            c.name,
            if slot != 1 { format!("{}", p0.into_affine()) } else { format!("{}*G1", hx(&av)) },
            if slot != 0 { format!("{}", q0.into_affine()) } else { format!("{}*G2", hx(&bv)) },
            k,
            hx(&l),
            hx(&a2),
            hx(&b2),
            APIS[api as usize]
        )
    });
    o.nt(true);
    o.class_if(slot != 1, c.cls_x0[0]);
    o.class_if(slot != 0, c.cls_x0[1]);
    o.class_if(a2.is_zero() || b2.is_zero(), "identity-operand");
    o.evals(9);
    let ks = E::ScalarField::from(k);
    let ls = E::ScalarField::from(l.clone());
    let e0 = pair::<E>(p0, q0, forms[0], forms[1], api)?;
    ensure!(!e0.0.is_one(), "zero-coordinate.nondegenerate", "e(P0, Q0) is the identity for non-identity P0 = {}, Q0 = {}", p0.into_affine(), q0.into_affine());
    ensure!(plain_pow(&e0.0, r).is_one(), "order", "e(P0, Q0)^r != 1");
    let e1 = pair::<E>(p0 * ks, q0 * ls, forms[2], forms[3], 1 - api)?;
    ensure!(e1.0 == plain_pow(&e0.0, &((BigUint::from(k) * &l) % r)), "zero-coordinate.bilinear", "e(k*P0, l*Q0) != e(P0, Q0)^(kl) for k={} l={}", k, hx(&l));
    let e2 = pair::<E>(p0, q0 * ls, forms[1], forms[2], api)?;
    let e3 = pair::<E>(p0 * ks, q0, forms[3], forms[0], api)?;
    ensure!(plain_pow(&e2.0, &BigUint::from(k)) == plain_pow(&e3.0, &l), "zero-coordinate.scalars", "e(P0, l*Q0)^k != e(k*P0, Q0)^l for k={} l={}", k, hx(&l));
    let pp = E::G1::generator() * E::ScalarField::from(a2.clone());
    let qq = E::G2::generator() * E::ScalarField::from(b2.clone());
    let e_pp_q0 = pair::<E>(pp, q0, forms[0], forms[2], api)?;
    let e_sum1 = pair::<E>(p0 + pp, q0, forms[1], forms[3], api)?;
    ensure!(e_sum1.0 == e0.0 * e_pp_q0.0, "zero-coordinate.additive.g1", "e(P0 + P', Q0) != e(P0, Q0) e(P', Q0) for P' = {}*G1", hx(&a2));
    let e_p0_qq = pair::<E>(p0, qq, forms[2], forms[0], api)?;
    let e_sum2 = pair::<E>(p0, q0 + qq, forms[3], forms[1], api)?;
    ensure!(e_sum2.0 == e0.0 * e_p0_qq.0, "zero-coordinate.additive.g2", "e(P0, Q0 + Q') != e(P0, Q0) e(P0, Q') for Q' = {}*G2", hx(&b2));
    let m1 = multi::<E>(&[p0, pp], &[q0, q0], lf, k, api)?;
    ensure!(m1.0 == e_sum1.0, "zero-coordinate.multi.sum", "multi_pairing[(P0,Q0),(P',Q0)] != e(P0 + P', Q0)");
    let g = c.base()?;
    let m2 = multi::<E>(&[pp, p0, pp], &[qq, q0, q0], (lf + 1) % 3, k >> 3, 1 - api)?;
    let want2 = plain_pow(&g, &((&a2 * &b2) % r)) * e_sum1.0;
    ensure!(m2.0 == want2, "zero-coordinate.multi.value", "multi_pairing[(P',Q'),(P0,Q0),(P',Q0)] != g^(a'b') e(P0 + P', Q0)");
    Ok(())
}

/// Long lists: 10..=40 pairs (the chunked Miller loops of BLS12/BN/BW6 take 3..=10 chunks of 4), entries k_i*G1, l_i*G2
/// with small multipliers of two pool scalars, the generator or the identity.  Oracle: g^(sum a_i b_i); the two entry
/// points over independently chosen list forms agree; the list split at an arbitrary position multiplies.
fn multi_long<E: Pairing>(c: &Ctx<E>, lens: &[u64], t: &mut Tape<'_>, o: &mut Obs) -> R {
    let n = t.pick(lens) as usize;
    let r = &c.fr.p;
    let (_, a0, _) = scalar(c, t, false);
    let (_, b0, _) = scalar(c, t, true);
    let id_w = if c.g2_identity { 1 } else { 0 };
    let mut ks1 = Vec::new();
    let mut ks2 = Vec::new();
    for _ in 0..n {
        let ka = match t.weighted(&[6, 2, 1]) {
            0 => (&a0 * BigUint::from(1 + t.below(7))) % r,
            1 => BigUint::from(1 + t.below(1 << 16)),
            _ => BigUint::zero(),
        };
        let kb = match t.weighted(&[6, 2, id_w]) {
            0 => (&b0 * BigUint::from(1 + t.below(7))) % r,
            1 => BigUint::from(1 + t.below(1 << 16)),
            _ => BigUint::zero(),
        };
        ks1.push(ka);
        ks2.push(if kb.is_zero() && !c.g2_identity { BigUint::one() } else { kb });
    }
    let (form_a, form_b) = (t.below(3), t.below(3));
    let mask = t.u64();
    let api = t.below(2);
    let cut = t.below(n as u64 + 1) as usize;
    let n_id = ks1.iter().zip(&ks2).filter(|(a, b)| a.is_zero() || b.is_zero()).count();
    o.show(|| format!("{}: {} pairs ({} with an identity), a0={} b0={}, {} over {}, split at {}", c.name, n, n_id, hx_short(&a0), hx_short(&b0), if api == 0 { "multi_pairing" } else { "fe(multi_miller_loop)" }, LIST_FORMS[form_a as usize], cut));
    o.nt(true);
    o.class(match n {
        0..=12 => "len-10..12",
        13..=16 => "len-13..16",
        17..=32 => "len-17..32",
        _ => "len>=33",
    });
    o.class_if(n_id > 0, "list-with-identity");
    o.class_if((n - n_id) % 4 == 0, "live-pairs-multiple-of-4");
    o.class_if((n - n_id) % 4 == 1, "live-pairs=1-mod-4");
    o.evals(4);
    let ps: Vec<E::G1> = ks1.iter().enumerate().map(|(i, k)| point::<E::G1>(k, i)).collect();
    let qs: Vec<E::G2> = ks2.iter().enumerate().map(|(i, k)| point::<E::G2>(k, i + 1)).collect();
    let g = c.base()?;
    let mut exp = BigUint::zero();
    for (a, b) in ks1.iter().zip(&ks2) {
        exp = (exp + a * b) % r;
    }
    let want = plain_pow(&g, &exp);
    // prepared lists use one mask bit pair per entry (the mask has 64 bits: entries >= 32 reuse the pattern)
    let got = multi::<E>(&ps, &qs, form_a, mask, api)?;
    ensure!(got.0 == want, "multi-long.value", "multi-pairing of {} pairs != g^(sum a_i b_i) ({} with an identity)", n, n_id);
    let got2 = multi::<E>(&ps, &qs, form_b, mask >> 7, 1 - api)?;
    ensure!(got2 == got, "multi-long.forms", "multi_pairing and final_exponentiation(multi_miller_loop) disagree on {} pairs ({} / {})", n, LIST_FORMS[form_a as usize], LIST_FORMS[form_b as usize]);
    let left = multi::<E>(&ps[..cut], &qs[..cut], form_b, mask >> 3, api)?;
    let right = multi::<E>(&ps[cut..], &qs[cut..], form_a, mask >> 5, api)?;
    ensure!(left.0 * right.0 == got.0, "multi-long.split", "multi-pairing of {} pairs != product of the multi-pairings of the first {} and the remaining pairs", n, cut);
    ensure!(plain_pow(&got.0, r).is_one(), "order", "multi-pairing output^r != 1");
    Ok(())
}

// ---------------------------------------------------------------------------------------------------------------
// registration
// ---------------------------------------------------------------------------------------------------------------

#[derive(Clone, Copy, PartialEq)]
enum Speed {
    /// a few ms per pairing at this optimisation level (BLS12, BN254, MNT-298)
    Fast,
    /// BW6
    Medium,
    /// MNT-753
    Slow,
    /// CP6-782 (affine Miller loop with a field inversion per step: ~1 s per pairing)
    VerySlow,
}

fn engine<E: Spell>(out: &mut Vec<Rel>, name: &'static str, tier: Tier, speed: Speed, g2_identity: bool) {
    let max_len = if speed == Speed::VerySlow { tier.pick(3, 5) } else { 9 };
    let c = Arc::new(Ctx::<E>::new(name, g2_identity, max_len));
    let n = c.fr.n;
    let sw = 2 * n + 8; // words per edge scalar
    let q = |counts: [u32; 4]| {
        let b = counts[speed as usize];
        tier.pick(b, b * 15)
    };
    let cc = c.clone();
    out.push(Rel::new(format!("bilinear/{}", name), q([240, 120, 50, 10]), 2 * sw + 8, move |t, o| bilinear::<E>(&cc, t, o)).shrink_iters(60));
    let cc = c.clone();
    out.push(Rel::new(format!("additive/{}", name), q([120, 60, 24, 5]), 3 * sw + 12, move |t, o| additive::<E>(&cc, t, o)).shrink_iters(60));
    let cc = c.clone();
    out.push(Rel::new(format!("multi/{}", name), q([100, 60, 30, 4]), 6 * sw + 32, move |t, o| multi_rel::<E>(&cc, t, o)).shrink_iters(60));
    {
        let cc = c.clone();
        let full = speed == Speed::Fast || speed == Speed::Medium || tier == Tier::Thorough;
        let kqs: Vec<u64> = if g2_identity { (0..7).collect() } else { vec![0, 1] }; // exact mode: 5 + (kq % 2)
        out.push(
            Rel::new(format!("identity/{}", name), q([40, 30, 10, 4]), 5, move |t, o| identity_rel::<E>(&cc, t, o))
                .shrink_iters(60)
                .exhaustive(move || {
                    let kqs = kqs.clone();
                    Box::new((0..7u64).flat_map(move |kp| {
                        kqs.clone().into_iter().flat_map(move |kq| {
                            let apis: Vec<u64> = if full { vec![0, 1] } else { vec![(kp + kq) % 2] };
                            apis.into_iter().map(move |api| vec![kp, kq, api, 3 * kp + kq, 5 * kq + kp + 1])
                        })
                    }))
                }),
        );
    }
    let cc = c.clone();
    out.push(Rel::new(format!("grouplaws/{}", name), q([300, 100, 60, 40]), 2 * sw + 4, move |t, o| grouplaws::<E>(&cc, t, o)).shrink_iters(200));
    let cc = c.clone();
    out.push(Rel::new(format!("spellings/{}", name), q([60, 30, 10, 3]), 2 * sw + 8, move |t, o| spellings::<E>(&cc, t, o)).shrink_iters(60));
    let cc = c.clone();
    out.push(Rel::new(format!("zero-coordinate/{}", name), q([40, 20, 8, 2]), 5 * sw + 16, move |t, o| zero_coordinate::<E>(&cc, t, o)).shrink_iters(40));
    // long lists: 10..=40 pairs for the fast and medium engines, 10..=17 for the 753-bit MNT curves, CP6-782 only in the thorough tier
    let lens: &'static [u64] = match speed {
        Speed::Fast | Speed::Medium => &[10, 11, 12, 13, 16, 17, 20, 32, 33, 40],
        Speed::Slow => &[10, 13, 17],
        Speed::VerySlow => &[10],
    };
    let n_long = match speed {
        Speed::VerySlow => tier.pick(0, 2),
        _ => q([24, 12, 3, 0]),
    };
    if n_long > 0 {
        let cc = c.clone();
        out.push(Rel::new(format!("multi-long/{}", name), n_long, 2 * sw + 4 * 40 + 16, move |t, o| multi_long::<E>(&cc, lens, t, o)).shrink_iters(40));
    }
}

fn relations(tier: Tier) -> Vec<Rel> {
    use Speed::*;
    let mut out = Vec::new();
    // slow engines first so that the long relations start early.
    // CP6-782 (hand-written pairing in the curve crate, not one of the model families of the statement) used to panic on
    // the identity of G2; repaired in /repo by commit c8f18f2, so identities are generated for it as for every engine.
    engine::<ark_cp6_782::CP6_782>(&mut out, "cp6_782", tier, VerySlow, true);
    engine::<ark_mnt6_753::MNT6_753>(&mut out, "mnt6_753", tier, Slow, true);
    engine::<ark_mnt4_753::MNT4_753>(&mut out, "mnt4_753", tier, Slow, true);
    engine::<ark_bw6_761::BW6_761>(&mut out, "bw6_761", tier, Medium, true);
    engine::<ark_bw6_767::BW6_767>(&mut out, "bw6_767", tier, Medium, true);
    engine::<ark_bls12_381::Bls12_381>(&mut out, "bls12_381", tier, Fast, true);
    engine::<ark_test_curves::bls12_381::Bls12_381>(&mut out, "test.bls12_381", tier, Fast, true);
    engine::<ark_bls12_377::Bls12_377>(&mut out, "bls12_377", tier, Fast, true);
    engine::<ark_bn254::Bn254>(&mut out, "bn254", tier, Fast, true);
    engine::<ark_mnt4_298::MNT4_298>(&mut out, "mnt4_298", tier, Fast, true);
    engine::<ark_mnt6_298::MNT6_298>(&mut out, "mnt6_298", tier, Fast, true);
    out
}

fn main() {
    vh_core::engine::main(PropSpec {
        id: "C06",
        rule: "Points are P = a*G1, Q = b*G2 with edge-biased scalars a, b in [0, r) (0, 1, 2, r-1, near r, (r±1)/2, 2^k(±1), edge limbs, small, uniform) plus explicit identity representations (affine identity, projective zero(), X-X, prepared from either), passed as affine, projective or prepared (from affine / from projective) values through pairing, miller_loop+final_exponentiation, multi_pairing and multi_miller_loop+final_exponentiation; lists have 0..=9 equal-length entries drawn from a pool of three points per group, the generator and the identity (so repeats and identities at arbitrary positions are frequent). Relation multi-long/* uses lists of 10..=40 pairs (10..=17 for the 753-bit MNT engines; CP6-782 only in the thorough tier) with entries k_i*a0*G1, l_i*b0*G2 (k_i, l_i in 1..=7), small multiples of the generators or the identity, and additionally checks that a list split at an arbitrary position multiplies. Relation zero-coordinate/* uses the group elements with affine x = 0 (get_point_from_x_unchecked(0, .) on the curves of G1 and G2, kept when on the curve, non-identity and killed by r: non-empty for the G1 groups of the four MNT engines, where the cofactor is one and b is a square; points with y = 0 have order 2 and are never in a group of odd prime order) as P0 / Q0 with an oracle relative to pairings of moved points: e(P0,Q0) != 1, e(kP0,lQ0) = e(P0,Q0)^(kl), e(P0,lQ0)^k = e(kP0,Q0)^l, additivity in both slots against a*G1 / b*G2, multi_pairing[(P0,Q0),(P',Q0)] = e(P0+P',Q0) and [(P',Q'),(P0,Q0),(P',Q0)] = g^(a'b') e(P0+P',Q0), output^r = 1. Relation spellings/* reaches the entry points outside the trait bounds: G1Prepared/G2Prepared::from(&affine) and ::from(&projective), prepare_g1/prepare_g2, prepared values read back from their canonical serialization (compressed / uncompressed, Validate::Yes), is_zero() of prepared values, lists passed as slices or iterators of references (multi_pairing(&[affine]), multi_pairing(iter of &projective), multi_miller_loop(&[projective], iter of &affine)), PairingOutput::generator(), Valid::check of outputs, the &mut operand forms and the owned Sum of PairingOutput. Oracle: g = e(G1,G2) != 1 and every output equals g^(sum a_i*b_i mod r) computed by plain square-and-multiply in the target field, outputs agree across entry points and input forms, the multi-pairing equals the product of the individual pairings, output^r = 1, PairingOutput +,-,neg,zero,double equal field multiplication / inversion. A case is non-trivial when both points are non-identity and (a,b) is outside {0,1}^2, or the list has length >= 2 (group laws: both exponents outside {0,1}); distinct = distinct decoded choice sequences.",
        assumptions: &[
            "scalar multiplication and addition in G1/G2 (C03/C04), target-field multiplication/squaring (C02) and num-bigint are trusted as oracle ingredients",
            "e(G1,G2) as returned by the engine under test is the reference value g (a defect that rescales every output of an engine by the same bilinear, non-degenerate map of order r is invisible by design: it is still a pairing)",
            "CP6-782 is an extra engine outside the six model families of the statement",
        ],
        relations,
    })
}
