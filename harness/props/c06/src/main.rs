//! C06 — not implemented yet.
fn main() {
    eprintln!("C06: check not implemented");
    std::process::exit(2);
}
