//! C11 — not implemented yet.
fn main() {
    eprintln!("C11: check not implemented");
    std::process::exit(2);
}
