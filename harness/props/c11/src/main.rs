//! C11 — square roots and quadratic-residue tests are exact (fields and curve-coordinate helpers).
#[path = "../../c02/src/orc.rs"]
mod orc;
#[path = "../../c02/src/toy_cfg.rs"]
mod toy_cfg;
#[path = "../../c02/src/zoo_cfg.rs"]
pub mod zoo_cfg;

use ark_ec::models::short_weierstrass::{Affine as SwAffine, SWCurveConfig};
use ark_ec::models::twisted_edwards::{Affine as TeAffine, TECurveConfig};
use ark_ff::fields::fp6_2over3 as f6q;
use ark_ff::fields::{Fp, Fp12, Fp2, Fp3, Fp4, Fp6, LegendreSymbol, MontBackend, MontConfig, SqrtPrecomputation};
use ark_ff::{FftField, Field, PrimeField};
use num_bigint::BigUint;
use num_traits::{One, Zero};
use orc::*;
use std::cmp::Ordering;
use std::sync::{Arc, OnceLock};
use vh_core::engine::{no_panic, Obs, PropSpec, Rel, Tape, Tier, R};
use vh_core::gen::{big_below, edge_value};
use vh_core::tower::{Elem, OracleRepr};
use vh_core::{ensure, fail};

// ---------------------------------------------------------------------------------------------
// oracle side
// ---------------------------------------------------------------------------------------------

fn flat(e: &Elem, out: &mut Vec<BigUint>) {
    match e {
        Elem::P(x) => out.push(x.clone()),
        Elem::E(v) => v.iter().for_each(|x| flat(x, out)),
    }
}

fn show(e: &Elem) -> String {
    let mut v = Vec::new();
    flat(e, &mut v);
    let s: Vec<String> = v.iter().map(|x| format!("0x{:x}", x)).collect();
    format!("[{}]", s.join(", "))
}

/// the documented lexicographic order: integers for a prime field; for extensions the highest coefficient is the
/// most significant (c1 before c0, c2 before c1 before c0), recursively
fn ocmp(a: &Elem, b: &Elem) -> Ordering {
    let (mut x, mut y) = (Vec::new(), Vec::new());
    flat(a, &mut x);
    flat(b, &mut y);
    x.reverse();
    y.reverse();
    x.cmp(&y)
}

/// per-field constants found by the oracle: a quadratic non-residue n, q - 1 = 2^s * t, zeta = n^t (order exactly 2^s)
struct K {
    n: Elem,
    s: u32,
    zeta: Elem,
}

struct Fld {
    c: Arc<Ctx>,
    k: OnceLock<K>,
}

impl Fld {
    fn new<F: OracleRepr>(name: &str) -> Arc<Fld> {
        Arc::new(Fld { c: Ctx::new::<F>(name), k: OnceLock::new() })
    }
    fn k(&self) -> &K {
        self.k.get_or_init(|| {
            let c = &self.c;
            let tw = &c.tw;
            // smallest non-residue among k (prime field) / e_i + k (extensions)
            let mut n = None;
            'outer: for k in 0u32..200 {
                for i in (if c.d == 1 { 0 } else { 1 })..c.d {
                    let cand = if c.d == 1 { tw.from_int(&BigUint::from(k)) } else { tw.add(&c.basis(i), &tw.from_int(&BigUint::from(k))) };
                    if !tw.is_zero(&cand) && !c.euler_is_square(&cand) {
                        n = Some(cand);
                        break 'outer;
                    }
                }
            }
            let n = n.expect("a quadratic non-residue among the first candidates");
            let q1 = tw.order() - 1u32;
            let s = q1.trailing_zeros().unwrap() as u32;
            let t = &q1 >> (s as usize);
            let zeta = tw.pow(&n, &t);
            K { n, s, zeta }
        })
    }
    /// x^(2^s) == 1
    fn has_two_power_order(&self, x: &Elem) -> bool {
        let mut y = x.clone();
        for _ in 0..self.k().s {
            y = self.c.tw.mul(&y, &y);
        }
        self.c.is_one(&y)
    }
    fn in_proper_subfield(&self, x: &Elem) -> bool {
        if self.c.d == 1 {
            return false;
        }
        let mut v = Vec::new();
        flat(x, &mut v);
        v[self.c.base_d..].iter().all(|z| z.is_zero())
    }
}

/// exponent j of zeta: 1 (order 2^s, non-residue), 2 (residue with the maximal number of rounds), 2^m, odd, arbitrary
fn gen_j(t: &mut Tape<'_>, s: u32) -> BigUint {
    let top = BigUint::one() << (s as usize);
    match t.weighted(&[2, 3, 2, 2, 2]) {
        0 => BigUint::one(),
        1 => BigUint::from(2u32) % &top,
        2 => BigUint::one() << (t.below(s as u64) as usize),
        3 => (big_below(t, &top) | BigUint::one()) % &top,
        _ => big_below(t, &top),
    }
}

/// (element, class, constructed-with-2-power-order)
fn gen_input(t: &mut Tape<'_>, f: &Fld) -> (Elem, &'static str, bool) {
    let c = &f.c;
    let tw = &c.tw;
    match t.weighted(&[1, 1, 1, 4, 4, 4, 3, 3, 3]) {
        0 => (tw.zero(), "zero", false),
        1 => (tw.one(), "one", false),
        2 => (tw.neg(&tw.one()), "minus-one", false),
        3 => {
            let (e, _) = gen_elem(t, c);
            (e, "arbitrary", false)
        },
        4 => {
            let (s, _) = gen_elem(t, c);
            (tw.mul(&s, &s), "square", false)
        },
        5 => {
            let (s, _) = gen_nonzero(t, c);
            (tw.mul(&f.k().n, &tw.mul(&s, &s)), "nonresidue*square", false)
        },
        6 => {
            let k = f.k();
            (tw.pow(&k.zeta, &gen_j(t, k.s)), "zeta^j", true)
        },
        7 => {
            let k = f.k();
            let (s, _) = gen_nonzero(t, c);
            (tw.mul(&tw.pow(&k.zeta, &gen_j(t, k.s)), &tw.mul(&s, &s)), "zeta^j*square", false)
        },
        _ => {
            if c.d == 1 {
                let (e, _) = gen_elem(t, c);
                return (e, "arbitrary", false);
            }
            let m = c.prefixes[t.idx(c.prefixes.len())];
            let mut co = vec![BigUint::zero(); c.d];
            for x in co.iter_mut().take(m) {
                *x = edge_value(t, &c.prime).0;
            }
            (tw.unflatten(&co), "subfield-element", false)
        },
    }
}

// ---------------------------------------------------------------------------------------------
// field relations
// ---------------------------------------------------------------------------------------------

fn sqrt_on<F: OracleRepr>(f: &Fld, xe: &Elem, two_power: bool, o: &mut Obs) -> R {
    let c = &f.c;
    let tw = &c.tw;
    let x = F::from_o(xe);
    let zero = tw.is_zero(xe);
    let sq = c.euler_is_square(xe);
    let sub = f.in_proper_subfield(xe);
    o.nt(!zero && !c.is_one(xe) && (!sq || sub || two_power));
    o.class_if(!sq, "non-residue");
    o.class_if(sq && !zero, "residue");
    o.class_if(sub && !zero, "in-proper-subfield");
    o.class_if(two_power, "2-power-order");
    o.evals(4);

    // Legendre symbol vs Euler's criterion
    let want = if zero {
        LegendreSymbol::Zero
    } else if sq {
        LegendreSymbol::QuadraticResidue
    } else {
        LegendreSymbol::QuadraticNonResidue
    };
    let got = no_panic("legendre", || x.legendre())?;
    ensure!(got == want, "legendre", "legendre({}) = {:?}, Euler's criterion says {:?}", show(xe), got, want);
    ensure!(got.is_zero() == zero && got.is_qr() == (sq && !zero) && got.is_qnr() == !sq, "legendre.predicates", "is_zero/is_qr/is_qnr inconsistent for {:?}", got);

    // sqrt
    match no_panic("sqrt", || x.sqrt())? {
        Some(r) => {
            ensure!(sq, "sqrt.some-for-non-residue", "sqrt({}) = Some({}) but x^((q-1)/2) != 1", show(xe), show(&r.to_o()));
            ensure!(r.canonical(), "sqrt.noncanonical", "root with a coordinate >= p: {:?}", r);
            let re = r.to_o();
            ensure!(tw.mul(&re, &re) == *xe, "sqrt.wrong-root", "sqrt({}) = {} whose square is {}", show(xe), show(&re), show(&tw.mul(&re, &re)));
            if zero {
                ensure!(tw.is_zero(&re), "sqrt.zero", "sqrt(0) = {}", show(&re));
            }
        },
        None => ensure!(!sq, "sqrt.none-for-square", "sqrt({}) = None but x^((q-1)/2) = 1{}", show(xe), if zero { " (x = 0)" } else { "" }),
    }
    // sqrt_in_place
    let mut y = x;
    let r = no_panic("sqrt_in_place", || y.sqrt_in_place().is_some())?;
    if r {
        ensure!(sq, "sqrt_in_place.some-for-non-residue", "sqrt_in_place({}) succeeded for a non-residue", show(xe));
        let ye = y.to_o();
        ensure!(y.canonical() && tw.mul(&ye, &ye) == *xe, "sqrt_in_place.wrong-root", "sqrt_in_place({}) left {}", show(xe), show(&ye));
    } else {
        ensure!(!sq, "sqrt_in_place.none-for-square", "sqrt_in_place({}) = None for a square", show(xe));
    }
    Ok(())
}

fn sqrt_rel<F: OracleRepr>(f: &Fld, t: &mut Tape<'_>, o: &mut Obs) -> R {
    let (xe, cls, tp) = gen_input(t, f);
    o.show(|| format!("{}: x={} [{}]", f.c.name, show(&xe), cls));
    o.class(cls);
    sqrt_on::<F>(f, &xe, tp, o)
}

/// exact mode: tape = the d coordinates of x
fn sqrt_all<F: OracleRepr>(f: &Fld, t: &mut Tape<'_>, o: &mut Obs) -> R {
    let p = f.c.p.to_u64_digits()[0];
    let co: Vec<BigUint> = (0..f.c.d).map(|_| BigUint::from(t.below(p))).collect();
    let xe = f.c.tw.unflatten(&co);
    o.show(|| format!("{}: x={}", f.c.name, show(&xe)));
    let tp = !f.c.tw.is_zero(&xe) && f.has_two_power_order(&xe);
    sqrt_on::<F>(f, &xe, tp, o)
}

fn all_tapes(p: u64, n: usize) -> Box<dyn Iterator<Item = Vec<u64>>> {
    let total = p.pow(n as u32);
    Box::new((0..total).map(move |mut i| {
        let mut v = Vec::with_capacity(n);
        for _ in 0..n {
            v.push(i % p);
            i /= p;
        }
        v
    }))
}

fn words(f: &Fld) -> usize {
    3 * f.c.d * (f.c.prime.n + 6) + 24
}

fn field_rels<F: OracleRepr>(out: &mut Vec<Rel>, name: &str, cases: u32) {
    let f = Fld::new::<F>(name);
    let w = words(&f);
    out.push(Rel::new(format!("sqrt/{}", name), cases, w, move |t, o| sqrt_rel::<F>(&f, t, o)).shrink_iters(600));
}

fn field_all<F: OracleRepr>(out: &mut Vec<Rel>, name: &str) {
    let f = Fld::new::<F>(name);
    let p = f.c.p.to_u64_digits()[0];
    let d = f.c.d;
    out.push(Rel::new(format!("sqrt-all/{}", name), 0, d, move |t, o| sqrt_all::<F>(&f, t, o)).exhaustive(move || all_tapes(p, d)));
}

/// `legendre()` alone, for the towers without a square-root algorithm (Fp6-3over2, Fp12: `sqrt` is unimplemented there,
/// the residue test is not)
fn legendre_rel<F: OracleRepr>(f: &Fld, t: &mut Tape<'_>, o: &mut Obs) -> R {
    let (xe, cls, _) = gen_input(t, f);
    o.show(|| format!("{}: legendre(x), x={} [{}]", f.c.name, show(&xe), cls));
    o.class(cls);
    let c = &f.c;
    let zero = c.tw.is_zero(&xe);
    let sq = c.euler_is_square(&xe);
    o.nt(!zero && !c.is_one(&xe) && (!sq || f.in_proper_subfield(&xe)));
    o.class_if(!sq, "non-residue");
    o.class_if(sq && !zero, "residue");
    o.class_if(f.in_proper_subfield(&xe) && !zero, "in-proper-subfield");
    o.evals(1);
    let want = if zero {
        LegendreSymbol::Zero
    } else if sq {
        LegendreSymbol::QuadraticResidue
    } else {
        LegendreSymbol::QuadraticNonResidue
    };
    let got = no_panic("legendre", || F::from_o(&xe).legendre())?;
    ensure!(got == want, "legendre", "legendre({}) = {:?}, Euler's criterion says {:?}", show(&xe), got, want);
    Ok(())
}

fn legendre_rels<F: OracleRepr>(out: &mut Vec<Rel>, name: &str, cases: u32) {
    let f = Fld::new::<F>(name);
    let w = words(&f);
    out.push(Rel::new(format!("legendre/{}", name), cases, w, move |t, o| legendre_rel::<F>(&f, t, o)).shrink_iters(200));
}

/// Both public precomputation variants called directly on a prime field (`SqrtPrecomputation::sqrt` is a public
/// function): Tonelli-Shanks assembled from the field's public constants for *every* p - also p = 3 mod 4, where
/// `Field::sqrt` never takes it (two-adicity 1) - and Case3Mod4 with the exponent (p+1)/4 computed by the oracle.
struct Pre<F: Field> {
    ts: SqrtPrecomputation<F>,
    c34: Option<SqrtPrecomputation<F>>,
}

fn precomp_rel<C: MontConfig<N>, const N: usize>(f: &Fld, pre: &Pre<Pf<C, N>>, t: &mut Tape<'_>, o: &mut Obs) -> R {
    let (xe, cls, tp) = gen_input(t, f);
    o.show(|| format!("{}: SqrtPrecomputation::sqrt(x), x={} [{}]", f.c.name, show(&xe), cls));
    o.class(cls);
    let c = &f.c;
    let tw = &c.tw;
    let x = Pf::<C, N>::from_o(&xe);
    let zero = tw.is_zero(&xe);
    let sq = c.euler_is_square(&xe);
    o.nt(!zero && !c.is_one(&xe) && (!sq || tp));
    o.class_if(!sq, "non-residue");
    o.class_if(sq && !zero, "residue");
    o.class_if(pre.c34.is_some(), "p = 3 mod 4");
    o.evals(3);
    let judge = |what: &str, r: Option<Pf<C, N>>| -> R {
        match r {
            Some(r) => {
                ensure!(sq, format!("{}.some-for-non-residue", what), "{}: Some({}) for the non-residue {}", what, show(&r.to_o()), show(&xe));
                let re = r.to_o();
                ensure!(r.canonical() && tw.mul(&re, &re) == xe, format!("{}.wrong-root", what), "{}: sqrt({}) = {}", what, show(&xe), show(&re));
                ensure!(!zero || tw.is_zero(&re), format!("{}.zero", what), "{}: sqrt(0) = {}", what, show(&re));
            },
            None => ensure!(!sq, format!("{}.none-for-square", what), "{}: None for the square {}", what, show(&xe)),
        }
        Ok(())
    };
    judge("tonelli_shanks", no_panic("tonelli_shanks", || pre.ts.sqrt(&x))?)?;
    if let Some(p34) = &pre.c34 {
        judge("case3mod4", no_panic("case3mod4", || p34.sqrt(&x))?)?;
    }
    // the configured precomputation has the documented shape
    let three = &c.p % 4u32 == BigUint::from(3u32);
    match Pf::<C, N>::SQRT_PRECOMP {
        Some(SqrtPrecomputation::Case3Mod4 { modulus_plus_one_div_four }) => {
            ensure!(three, "SQRT_PRECOMP.variant", "Case3Mod4 configured for p = 1 mod 4");
            ensure!(vh_core::modint::big(modulus_plus_one_div_four) == (&c.p + 1u32) >> 2, "SQRT_PRECOMP.exponent", "(p+1)/4 = {:x?}", modulus_plus_one_div_four);
        },
        Some(SqrtPrecomputation::TonelliShanks { two_adicity, trace_of_modulus_minus_one_div_two, .. }) => {
            ensure!(two_adicity == f.k().s, "SQRT_PRECOMP.two_adicity", "{} vs {}", two_adicity, f.k().s);
            let tr = (&c.p - 1u32) >> (f.k().s as usize);
            ensure!(vh_core::modint::big(trace_of_modulus_minus_one_div_two) == (&tr - 1u32) >> 1, "SQRT_PRECOMP.trace", "(t-1)/2 = {:x?}", trace_of_modulus_minus_one_div_two);
        },
        _ => return fail("SQRT_PRECOMP.none", "no square-root precomputation configured for a prime field"),
    }
    Ok(())
}

fn precomp_rels<C: MontConfig<N>, const N: usize>(out: &mut Vec<Rel>, name: &str, cases: u32) {
    let f = Fld::new::<Pf<C, N>>(name);
    let w = words(&f);
    let trace: &'static [u64] = Box::leak(<Pf<C, N> as PrimeField>::TRACE_MINUS_ONE_DIV_TWO.0.to_vec().into_boxed_slice());
    let ts = SqrtPrecomputation::TonelliShanks {
        two_adicity: <Pf<C, N> as FftField>::TWO_ADICITY,
        quadratic_nonresidue_to_trace: <Pf<C, N> as FftField>::TWO_ADIC_ROOT_OF_UNITY,
        trace_of_modulus_minus_one_div_two: trace,
    };
    let c34 = if &f.c.p % 4u32 == BigUint::from(3u32) {
        let e: BigUint = (&f.c.p + 1u32) >> 2;
        let mut l = e.to_u64_digits();
        l.resize(N, 0);
        let l: &'static [u64] = Box::leak(l.into_boxed_slice());
        Some(SqrtPrecomputation::Case3Mod4 { modulus_plus_one_div_four: l })
    } else {
        None
    };
    let pre = Pre { ts, c34 };
    out.push(Rel::new(format!("sqrt-precomp/{}", name), cases, w, move |t, o| precomp_rel::<C, N>(&f, &pre, t, o)).shrink_iters(400));
}

// ---------------------------------------------------------------------------------------------
// curve-coordinate helpers
// ---------------------------------------------------------------------------------------------

struct Crv {
    f: Arc<Fld>,
    name: String,
    /// (a, b) for short Weierstrass, (a, d) for twisted Edwards
    k0: Elem,
    k1: Elem,
    /// coordinate of the configured generator that the helper takes as input
    gen: Elem,
}

fn max_of(tw: &vh_core::tower::Tower, y: &Elem) -> (Elem, Elem) {
    let n = tw.neg(y);
    if ocmp(y, &n) == Ordering::Greater {
        (n, y.clone())
    } else {
        (y.clone(), n)
    }
}

fn sw_on<P: SWCurveConfig>(cv: &Crv, xe: &Elem, o: &mut Obs) -> R
where
    P::BaseField: OracleRepr,
{
    let c = &cv.f.c;
    let tw = &c.tw;
    // g(x) = x^3 + a x + b
    let g = tw.add(&tw.add(&tw.mul(&tw.mul(xe, xe), xe), &tw.mul(&cv.k0, xe)), &cv.k1);
    let sq = c.euler_is_square(&g);
    let x = P::BaseField::from_o(xe);
    o.nt(!sq || tw.is_zero(&g) || cv.f.in_proper_subfield(&g));
    o.class_if(!sq, "x-off-curve");
    o.class_if(sq, "x-on-curve");
    o.class_if(tw.is_zero(&g), "g(x)=0");
    o.evals(3);
    match no_panic("get_ys_from_x_unchecked", || SwAffine::<P>::get_ys_from_x_unchecked(x))? {
        Some((y0, y1)) => {
            ensure!(sq, "get_ys.some-off-curve", "x={}: Some(..) but x^3+ax+b = {} is a non-residue", show(xe), show(&g));
            ensure!(y0.canonical() && y1.canonical(), "get_ys.noncanonical", "non canonical coordinates");
            let (e0, e1) = (y0.to_o(), y1.to_o());
            ensure!(tw.mul(&e0, &e0) == g, "get_ys.not-on-curve", "x={}: y0={} but y0^2 != x^3+ax+b = {}", show(xe), show(&e0), show(&g));
            ensure!(e1 == tw.neg(&e0), "get_ys.not-negatives", "x={}: y0={} y1={}", show(xe), show(&e0), show(&e1));
            ensure!(ocmp(&e0, &e1) != Ordering::Greater, "get_ys.order", "x={}: (y0, y1) = ({}, {}) is not sorted", show(xe), show(&e0), show(&e1));
            o.class_if(c.d == 1 && e0 == Elem::P((&c.p - 1u32) >> 1), "root (p-1)/2 (sign boundary)");
        },
        None => ensure!(!sq, "get_ys.none-on-curve", "x={}: None but x^3+ax+b = {} is a square", show(xe), show(&g)),
    }
    for greatest in [false, true] {
        match no_panic("get_point_from_x_unchecked", || SwAffine::<P>::get_point_from_x_unchecked(x, greatest))? {
            Some(pt) => {
                ensure!(sq, "get_point_from_x.some-off-curve", "x={}: Some(..) for a non-residue", show(xe));
                ensure!(!pt.infinity && pt.x.to_o() == *xe, "get_point_from_x.x", "x={}: point has x={} infinity={}", show(xe), show(&pt.x.to_o()), pt.infinity);
                let ye = pt.y.to_o();
                ensure!(pt.y.canonical() && tw.mul(&ye, &ye) == g, "get_point_from_x.not-on-curve", "x={}: y={}", show(xe), show(&ye));
                let (lo, hi) = max_of(tw, &ye);
                let want = if greatest { hi } else { lo };
                ensure!(ye == want, "get_point_from_x.choice", "x={} greatest={}: got y={} expected {}", show(xe), greatest, show(&ye), show(&want));
            },
            None => ensure!(!sq, "get_point_from_x.none-on-curve", "x={}: None for a square", show(xe)),
        }
    }
    Ok(())
}

fn gen_coord(t: &mut Tape<'_>, cv: &Crv) -> (Elem, &'static str) {
    let c = &cv.f.c;
    let tw = &c.tw;
    match t.weighted(&[1, 2, 2, 8]) {
        0 => (tw.zero(), "zero"),
        1 => (cv.gen.clone(), "generator-coordinate"),
        2 => (tw.add(&cv.gen, &tw.from_int(&BigUint::from(1 + t.below(64)))), "near-generator"),
        _ => {
            let (e, _) = gen_elem(t, c);
            (e, "arbitrary")
        },
    }
}

fn sw_rel<P: SWCurveConfig>(cv: &Crv, t: &mut Tape<'_>, o: &mut Obs) -> R
where
    P::BaseField: OracleRepr,
{
    let (xe, cls) = gen_coord(t, cv);
    o.show(|| format!("{}: x={} [{}]", cv.name, show(&xe), cls));
    o.class(cls);
    sw_on::<P>(cv, &xe, o)
}

fn te_on<P: TECurveConfig>(cv: &Crv, ye: &Elem, o: &mut Obs) -> R
where
    P::BaseField: OracleRepr,
{
    let c = &cv.f.c;
    let tw = &c.tw;
    // x^2 (a - d y^2) = 1 - y^2
    let y2 = tw.mul(ye, ye);
    let num = tw.sub(&tw.one(), &y2);
    let den = tw.sub(&cv.k0, &tw.mul(&cv.k1, &y2));
    let y = P::BaseField::from_o(ye);
    // den = 0: no x at all (num != 0 then, as a != d); otherwise x^2 = num / den
    let x2 = c.inv(&den).map(|i| tw.mul(&num, &i));
    if x2.is_none() && tw.is_zero(&num) {
        // a = d: degenerate, not a twisted Edwards curve
        return fail("oracle.degenerate-curve", "a - d y^2 = 0 and 1 - y^2 = 0");
    }
    let sq = x2.as_ref().map(|v| c.euler_is_square(v)).unwrap_or(false);
    o.nt(!sq || x2.as_ref().map(|v| tw.is_zero(v)).unwrap_or(false));
    o.class_if(!sq, "y-off-curve");
    o.class_if(sq, "y-on-curve");
    o.class_if(x2.is_none(), "a-dy^2=0");
    o.evals(3);
    let on_curve = |xe: &Elem| {
        let xx = tw.mul(xe, xe);
        tw.add(&tw.mul(&cv.k0, &xx), &y2) == tw.add(&tw.one(), &tw.mul(&cv.k1, &tw.mul(&xx, &y2)))
    };
    match no_panic("get_xs_from_y_unchecked", || TeAffine::<P>::get_xs_from_y_unchecked(y))? {
        Some((x0, x1)) => {
            ensure!(sq, "get_xs.some-off-curve", "y={}: Some(..) but (1-y^2)/(a-dy^2) is not a square", show(ye));
            ensure!(x0.canonical() && x1.canonical(), "get_xs.noncanonical", "non canonical coordinates");
            let (e0, e1) = (x0.to_o(), x1.to_o());
            ensure!(on_curve(&e0), "get_xs.not-on-curve", "y={}: x0={} does not satisfy the curve equation", show(ye), show(&e0));
            ensure!(e1 == tw.neg(&e0), "get_xs.not-negatives", "y={}: x0={} x1={}", show(ye), show(&e0), show(&e1));
            ensure!(ocmp(&e0, &e1) != Ordering::Greater, "get_xs.order", "y={}: (x0, x1) = ({}, {}) is not sorted", show(ye), show(&e0), show(&e1));
            o.class_if(c.d == 1 && e0 == Elem::P((&c.p - 1u32) >> 1), "root (p-1)/2 (sign boundary)");
        },
        None => ensure!(!sq, "get_xs.none-on-curve", "y={}: None but x^2 = {} is a square", show(ye), show(x2.as_ref().unwrap())),
    }
    for greatest in [false, true] {
        match no_panic("get_point_from_y_unchecked", || TeAffine::<P>::get_point_from_y_unchecked(y, greatest))? {
            Some(pt) => {
                ensure!(sq, "get_point_from_y.some-off-curve", "y={}: Some(..) for a non-residue", show(ye));
                ensure!(pt.y.to_o() == *ye, "get_point_from_y.y", "y={}: point has y={}", show(ye), show(&pt.y.to_o()));
                let xe = pt.x.to_o();
                ensure!(pt.x.canonical() && on_curve(&xe), "get_point_from_y.not-on-curve", "y={}: x={}", show(ye), show(&xe));
                let (lo, hi) = max_of(tw, &xe);
                let want = if greatest { hi } else { lo };
                ensure!(xe == want, "get_point_from_y.choice", "y={} greatest={}: got x={} expected {}", show(ye), greatest, show(&xe), show(&want));
            },
            None => ensure!(!sq, "get_point_from_y.none-on-curve", "y={}: None for a square", show(ye)),
        }
    }
    Ok(())
}

fn te_rel<P: TECurveConfig>(cv: &Crv, t: &mut Tape<'_>, o: &mut Obs) -> R
where
    P::BaseField: OracleRepr,
{
    let (ye, cls) = if t.chance(1, 8) {
        let one = cv.f.c.tw.one();
        if t.bool() {
            (one, "one")
        } else {
            (cv.f.c.tw.neg(&one), "minus-one")
        }
    } else {
        gen_coord(t, cv)
    };
    o.show(|| format!("{}: y={} [{}]", cv.name, show(&ye), cls));
    o.class(cls);
    te_on::<P>(cv, &ye, o)
}

fn sw_crv<P: SWCurveConfig>(name: &str) -> Arc<Crv>
where
    P::BaseField: OracleRepr,
{
    Arc::new(Crv {
        f: Fld::new::<P::BaseField>(name),
        name: name.to_string(),
        k0: P::COEFF_A.to_o(),
        k1: P::COEFF_B.to_o(),
        gen: P::GENERATOR.x.to_o(),
    })
}

fn te_crv<P: TECurveConfig>(name: &str) -> Arc<Crv>
where
    P::BaseField: OracleRepr,
{
    Arc::new(Crv {
        f: Fld::new::<P::BaseField>(name),
        name: name.to_string(),
        k0: P::COEFF_A.to_o(),
        k1: P::COEFF_D.to_o(),
        gen: P::GENERATOR.y.to_o(),
    })
}

/// Coordinates of points that are on the curve by construction (k*G through the group law, which multiplies by the
/// coefficient a through `mul_by_a`, never through the helper under test): the helper must return the known other
/// coordinate among its two roots. Independent of the COEFF_* constants the value oracle above is built from.
fn sw_known<P: SWCurveConfig>(name: &str, t: &mut Tape<'_>, o: &mut Obs) -> R {
    use ark_ec::{AffineRepr, CurveGroup};
    let k = 1 + t.below(1 << 20);
    let pt = (SwAffine::<P>::generator().mul_bigint([k])).into_affine();
    o.show(|| format!("{}: [{}]G", name, k));
    o.nt(k > 1);
    let (x, y) = match pt.xy() {
        Some(c) => c,
        None => return Ok(()),
    };
    match no_panic("get_ys_from_x_unchecked", || SwAffine::<P>::get_ys_from_x_unchecked(x))? {
        Some((y0, y1)) => ensure!(y0 == y || y1 == y, "known-point.get_ys", "[{}]G = ({:?}, {:?}): roots returned for this x do not contain y", k, x, y),
        None => return fail("known-point.get_ys.none", format!("[{}]G has x = {:?} but no y is found for it", k, x)),
    }
    for greatest in [false, true] {
        match no_panic("get_point_from_x_unchecked", || SwAffine::<P>::get_point_from_x_unchecked(x, greatest))? {
            Some(q) => ensure!(q.x == x && (q.y == y || q.y == -y), "known-point.get_point_from_x", "[{}]G: point from x has other coordinates", k),
            None => return fail("known-point.get_point_from_x.none", format!("[{}]G: no point for its x", k)),
        }
    }
    Ok(())
}

fn te_known<P: TECurveConfig>(name: &str, t: &mut Tape<'_>, o: &mut Obs) -> R {
    use ark_ec::{AffineRepr, CurveGroup};
    let k = 1 + t.below(1 << 20);
    let pt = (TeAffine::<P>::generator().mul_bigint([k])).into_affine();
    o.show(|| format!("{}: [{}]G", name, k));
    o.nt(k > 1);
    let (x, y) = (pt.x, pt.y);
    match no_panic("get_xs_from_y_unchecked", || TeAffine::<P>::get_xs_from_y_unchecked(y))? {
        Some((x0, x1)) => ensure!(x0 == x || x1 == x, "known-point.get_xs", "[{}]G = ({:?}, {:?}): roots returned for this y do not contain x", k, x, y),
        None => return fail("known-point.get_xs.none", format!("[{}]G has y = {:?} but no x is found for it", k, y)),
    }
    for greatest in [false, true] {
        match no_panic("get_point_from_y_unchecked", || TeAffine::<P>::get_point_from_y_unchecked(y, greatest))? {
            Some(q) => ensure!(q.y == y && (q.x == x || q.x == -x), "known-point.get_point_from_y", "[{}]G: point from y has other coordinates", k),
            None => return fail("known-point.get_point_from_y.none", format!("[{}]G: no point for its y", k)),
        }
    }
    Ok(())
}

fn sw_rels<P: SWCurveConfig>(out: &mut Vec<Rel>, name: &str, cases: u32)
where
    P::BaseField: OracleRepr,
{
    let cv = sw_crv::<P>(name);
    let w = words(&cv.f);
    out.push(Rel::new(format!("sw-from-x/{}", name), cases, w, move |t, o| sw_rel::<P>(&cv, t, o)).shrink_iters(400));
    let nm = name.to_string();
    out.push(Rel::new(format!("sw-known-points/{}", name), (cases / 8).max(12), 2, move |t, o| sw_known::<P>(&nm, t, o)).shrink_iters(60));
}

fn te_rels<P: TECurveConfig>(out: &mut Vec<Rel>, name: &str, cases: u32)
where
    P::BaseField: OracleRepr,
{
    let cv = te_crv::<P>(name);
    let w = words(&cv.f);
    out.push(Rel::new(format!("te-from-y/{}", name), cases, w, move |t, o| te_rel::<P>(&cv, t, o)).shrink_iters(400));
    let nm = name.to_string();
    out.push(Rel::new(format!("te-known-points/{}", name), (cases / 8).max(12), 2, move |t, o| te_known::<P>(&nm, t, o)).shrink_iters(60));
}

// ---------------------------------------------------------------------------------------------
// registration
// ---------------------------------------------------------------------------------------------

type Pf<C, const N: usize> = Fp<MontBackend<C, N>, N>;

fn relations(tier: Tier) -> Vec<Rel> {
    let mut out = Vec::new();
    let q = |n: u32| tier.pick(n, n * 25);

    // expensive extension fields first
    macro_rules! ext {
        ($ty:ty, $name:expr, $cases:expr) => {
            field_rels::<$ty>(&mut out, $name, q($cases));
        };
    }
    ext!(f6q::Fp6<ark_bw6_761::Fq6Config>, "bw6_761.Fq6", 24);
    ext!(f6q::Fp6<ark_bw6_767::Fq6Config>, "bw6_767.Fq6", 24);
    ext!(f6q::Fp6<ark_cp6_782::Fq6Config>, "cp6_782.Fq6", 24);
    ext!(f6q::Fp6<ark_mnt6_753::Fq6Config>, "mnt6_753.Fq6", 24);
    ext!(f6q::Fp6<ark_mnt6_298::Fq6Config>, "mnt6_298.Fq6", 120);
    ext!(Fp4<ark_mnt4_753::Fq4Config>, "mnt4_753.Fq4", 40);
    ext!(Fp4<ark_mnt4_298::Fq4Config>, "mnt4_298.Fq4", 240);
    ext!(Fp3<ark_bw6_761::Fq3Config>, "bw6_761.Fq3", 60);
    ext!(Fp3<ark_bw6_767::Fq3Config>, "bw6_767.Fq3", 60);
    ext!(Fp3<ark_cp6_782::Fq3Config>, "cp6_782.Fq3", 60);
    ext!(Fp3<ark_mnt6_753::Fq3Config>, "mnt6_753.Fq3", 60);
    ext!(Fp3<ark_test_curves::mnt6_753::Fq3Config>, "test.mnt6_753.Fq3", 60);
    ext!(Fp3<ark_mnt6_298::Fq3Config>, "mnt6_298.Fq3", 400);
    ext!(Fp2<ark_mnt4_753::Fq2Config>, "mnt4_753.Fq2", 120);
    ext!(Fp2<ark_mnt4_298::Fq2Config>, "mnt4_298.Fq2", 600);
    ext!(Fp2<ark_bls12_381::Fq2Config>, "bls12_381.Fq2", 400);
    ext!(Fp2<ark_bls12_377::Fq2Config>, "bls12_377.Fq2", 400);
    ext!(Fp2<ark_bn254::Fq2Config>, "bn254.Fq2", 800);
    ext!(Fp2<ark_test_curves::bls12_381::Fq2Config>, "test.bls12_381.Fq2", 400);

    // towers over zoo prime fields with unusual modulus shapes / hand-written configurations (Fp3 over Goldilocks:
    // two-adicity 32; Fp3 with q = 3 mod 4: Tonelli-Shanks with two-adicity 1)
    macro_rules! z2 {
        ($cfg:ty, $name:expr) => {
            field_rels::<Fp2<$cfg>>(&mut out, $name, q(1000));
        };
    }
    for_each_zoo_fp2!(z2);
    macro_rules! z3 {
        ($cfg:ty, $name:expr) => {
            field_rels::<Fp3<$cfg>>(&mut out, $name, q(600));
        };
    }
    for_each_zoo_fp3!(z3);
    // residue test of the towers that have no square-root algorithm
    legendre_rels::<Fp12<ark_bls12_381::Fq12Config>>(&mut out, "bls12_381.Fq12", q(60));
    legendre_rels::<Fp12<ark_bls12_377::Fq12Config>>(&mut out, "bls12_377.Fq12", q(60));
    legendre_rels::<Fp12<ark_bn254::Fq12Config>>(&mut out, "bn254.Fq12", q(80));
    legendre_rels::<Fp6<ark_bls12_381::Fq6Config>>(&mut out, "bls12_381.Fq6", q(150));
    legendre_rels::<Fp6<ark_bls12_377::Fq6Config>>(&mut out, "bls12_377.Fq6", q(150));
    legendre_rels::<Fp6<ark_bn254::Fq6Config>>(&mut out, "bn254.Fq6", q(200));
    legendre_rels::<Fp12<toy_cfg::S12_7>>(&mut out, "toy.Fp12_7", q(600));
    legendre_rels::<Fp6<toy_cfg::S6c_7>>(&mut out, "toy.Fp6c_7", q(1000));
    legendre_rels::<Fp6<toy_cfg::S6c_13>>(&mut out, "toy.Fp6c_13", q(1000));

    // curve-coordinate helpers on shipped curves
    sw_rels::<ark_cp6_782::g1::Config>(&mut out, "cp6_782.G1", q(100));
    sw_rels::<ark_mnt6_753::g1::Config>(&mut out, "mnt6_753.G1", q(150));
    sw_rels::<ark_bw6_767::g1::Config>(&mut out, "bw6_767.G1", q(150));
    sw_rels::<ark_bw6_767::g2::Config>(&mut out, "bw6_767.G2", q(150));
    sw_rels::<ark_secp256r1::Config>(&mut out, "secp256r1", q(600));
    sw_rels::<ark_secp384r1::Config>(&mut out, "secp384r1", q(400));
    sw_rels::<ark_secq256k1::Config>(&mut out, "secq256k1", q(600));
    sw_rels::<ark_vesta::VestaConfig>(&mut out, "vesta", q(600));
    te_rels::<ark_curve25519::Curve25519Config>(&mut out, "curve25519", q(600));
    te_rels::<ark_ed_on_mnt4_753::EdwardsConfig>(&mut out, "ed_on_mnt4_753", q(200));
    sw_rels::<ark_mnt6_753::g2::Config>(&mut out, "mnt6_753.G2", q(20));
    sw_rels::<ark_cp6_782::g2::Config>(&mut out, "cp6_782.G2", q(20));
    sw_rels::<ark_mnt4_753::g2::Config>(&mut out, "mnt4_753.G2", q(40));
    sw_rels::<ark_mnt6_298::g2::Config>(&mut out, "mnt6_298.G2", q(150));
    sw_rels::<ark_mnt4_298::g2::Config>(&mut out, "mnt4_298.G2", q(200));
    sw_rels::<ark_bls12_381::g2::Config>(&mut out, "bls12_381.G2", q(200));
    sw_rels::<ark_bls12_377::g2::Config>(&mut out, "bls12_377.G2", q(200));
    sw_rels::<ark_bn254::g2::Config>(&mut out, "bn254.G2", q(300));
    sw_rels::<ark_test_curves::bls12_381::g2::Config>(&mut out, "test.bls12_381.G2", q(200));
    sw_rels::<ark_bw6_761::g1::Config>(&mut out, "bw6_761.G1", q(200));
    sw_rels::<ark_bw6_761::g2::Config>(&mut out, "bw6_761.G2", q(200));
    sw_rels::<ark_mnt4_753::g1::Config>(&mut out, "mnt4_753.G1", q(200));
    sw_rels::<ark_bls12_381::g1::Config>(&mut out, "bls12_381.G1", q(500));
    sw_rels::<ark_bls12_377::g1::Config>(&mut out, "bls12_377.G1", q(400));
    sw_rels::<ark_bn254::g1::Config>(&mut out, "bn254.G1", q(800));
    sw_rels::<ark_mnt4_298::g1::Config>(&mut out, "mnt4_298.G1", q(600));
    sw_rels::<ark_mnt6_298::g1::Config>(&mut out, "mnt6_298.G1", q(600));
    sw_rels::<ark_secp256k1::Config>(&mut out, "secp256k1", q(800));
    sw_rels::<ark_pallas::PallasConfig>(&mut out, "pallas", q(600));
    sw_rels::<ark_grumpkin::GrumpkinConfig>(&mut out, "grumpkin", q(600));
    sw_rels::<ark_ed_on_bls12_381::JubjubConfig>(&mut out, "jubjub.sw", q(600));
    sw_rels::<ark_ed_on_bls12_381_bandersnatch::BandersnatchConfig>(&mut out, "bandersnatch.sw", q(600));
    te_rels::<ark_ed_on_bls12_381::JubjubConfig>(&mut out, "jubjub", q(600));
    te_rels::<ark_ed_on_bls12_381_bandersnatch::BandersnatchConfig>(&mut out, "bandersnatch", q(600));
    te_rels::<ark_ed25519::EdwardsConfig>(&mut out, "ed25519", q(600));
    te_rels::<ark_ed_on_bn254::EdwardsConfig>(&mut out, "ed_on_bn254", q(600));
    te_rels::<ark_ed_on_bls12_377::EdwardsConfig>(&mut out, "ed_on_bls12_377", q(600));
    // the twisted Edwards model of BLS12-377 G1 (a second TECurveConfig on the curve crate's G1 configuration)
    te_rels::<ark_bls12_377::g1::Config>(&mut out, "bls12_377.G1.TE", q(300));
    te_rels::<ark_ed_on_mnt4_298::EdwardsConfig>(&mut out, "ed_on_mnt4_298", q(500));
    te_rels::<ark_ed_on_cp6_782::EdwardsConfig>(&mut out, "ed_on_cp6_782", q(400));
    te_rels::<ark_test_curves::ed_on_bls12_381::EdwardsConfig>(&mut out, "test.ed_on_bls12_381", q(600));

    // shipped prime fields (their own GENERATOR / TWO_ADIC_ROOT_OF_UNITY constants)
    macro_rules! shipped {
        ($cfg:ty, $n:expr, $name:expr, $cases:expr) => {
            field_rels::<Pf<$cfg, $n>>(&mut out, $name, q($cases));
        };
    }
    shipped!(ark_bw6_761::FqConfig, 12, "bw6_761.Fq", 300);
    shipped!(ark_mnt4_753::FqConfig, 12, "mnt4_753.Fq", 300);
    shipped!(ark_mnt4_753::FrConfig, 12, "mnt4_753.Fr", 300);
    shipped!(ark_bls12_381::FqConfig, 6, "bls12_381.Fq", 1000);
    shipped!(ark_bls12_381::FrConfig, 4, "bls12_381.Fr", 1500);
    shipped!(ark_bls12_377::FqConfig, 6, "bls12_377.Fq", 1000);
    shipped!(ark_bls12_377::FrConfig, 4, "bls12_377.Fr", 1500);
    shipped!(ark_bn254::FqConfig, 4, "bn254.Fq", 1500);
    shipped!(ark_bn254::FrConfig, 4, "bn254.Fr", 1500);
    shipped!(ark_mnt6_298::FqConfig, 5, "mnt6_298.Fq", 1000);
    shipped!(ark_secp256k1::FqConfig, 4, "secp256k1.Fq", 1500);
    shipped!(ark_secp256k1::FrConfig, 4, "secp256k1.Fr", 1500);
    shipped!(ark_pallas::FqConfig, 4, "pallas.Fq", 1500);
    shipped!(ark_pallas::FrConfig, 4, "pallas.Fr", 1500);
    shipped!(ark_ed25519::FqConfig, 4, "ed25519.Fq", 1500);
    shipped!(ark_ed25519::FrConfig, 4, "ed25519.Fr", 1500);
    shipped!(ark_test_curves::bn384_small_two_adicity::FqConfig, 6, "test.bn384.Fq", 1000);
    shipped!(ark_test_curves::bn384_small_two_adicity::FrConfig, 6, "test.bn384.Fr", 1000);
    shipped!(ark_cp6_782::FqConfig, 13, "cp6_782.Fq", 250);
    shipped!(ark_bw6_767::FqConfig, 12, "bw6_767.Fq", 300);
    shipped!(ark_ed_on_mnt4_753::FrConfig, 12, "ed_on_mnt4_753.Fr", 300);
    shipped!(ark_mnt4_298::FqConfig, 5, "mnt4_298.Fq", 1000);
    shipped!(ark_secp256r1::FqConfig, 4, "secp256r1.Fq", 1500);
    shipped!(ark_secp256r1::FrConfig, 4, "secp256r1.Fr", 1500);
    shipped!(ark_secp384r1::FqConfig, 6, "secp384r1.Fq", 1000);
    shipped!(ark_secp384r1::FrConfig, 6, "secp384r1.Fr", 1000);
    shipped!(ark_curve25519::FrConfig, 4, "curve25519.Fr", 1500);
    shipped!(ark_ed_on_bls12_381::FrConfig, 4, "ed_on_bls12_381.Fr", 1500);
    shipped!(ark_ed_on_bls12_381_bandersnatch::FrConfig, 4, "bandersnatch.Fr", 1500);
    shipped!(ark_ed_on_bn254::FrConfig, 4, "ed_on_bn254.Fr", 1500);
    shipped!(ark_ed_on_bls12_377::FrConfig, 4, "ed_on_bls12_377.Fr", 1500);
    shipped!(ark_ed_on_mnt4_298::FrConfig, 5, "ed_on_mnt4_298.Fr", 1000);
    shipped!(ark_ed_on_cp6_782::FrConfig, 6, "ed_on_cp6_782.Fr", 1000);

    // the zoo: every field (two-adicity ladder A1..A47, p = 3 mod 4, no spare bit, hand-written configurations)
    macro_rules! zoo {
        ($ty:ty, $cfg:ty, $n:expr, $name:expr, $g:expr, $s:expr) => {
            field_rels::<$ty>(&mut out, &format!("zoo.{}", $name), q(if $n <= 1 { 2500 } else if $n <= 4 { 1500 } else if $n <= 8 { 700 } else { 300 }));
        };
    }
    vh_core::for_each_zoo_field!(zoo);
    // both SqrtPrecomputation variants called directly, on every zoo field
    macro_rules! zoo_pre {
        ($ty:ty, $cfg:ty, $n:expr, $name:expr, $g:expr, $s:expr) => {
            precomp_rels::<$cfg, $n>(&mut out, &format!("zoo.{}", $name), q(if $n <= 1 { 1500 } else if $n <= 4 { 800 } else if $n <= 8 { 300 } else { 120 }));
        };
    }
    vh_core::for_each_zoo_field!(zoo_pre);
    macro_rules! tiny {
        ($ty:ty, $cfg:ty, $n:expr, $name:expr, $g:expr, $s:expr) => {
            field_all::<$ty>(&mut out, &format!("zoo.{}", $name));
        };
    }
    vh_core::for_each_tiny_field!(tiny);

    // toy towers: every element
    use toy_cfg::*;
    field_all::<Fp2<Q7>>(&mut out, "toy.Fp2_7");
    field_all::<Fp2<Q13>>(&mut out, "toy.Fp2_13");
    field_all::<Fp3<C7>>(&mut out, "toy.Fp3_7");
    field_all::<Fp3<C13>>(&mut out, "toy.Fp3_13");
    field_all::<Fp4<Q4_13>>(&mut out, "toy.Fp4_13");
    if tier == Tier::Thorough {
        field_all::<f6q::Fp6<S6q_13>>(&mut out, "toy.Fp6q_13");
    }
    field_rels::<f6q::Fp6<S6q_13>>(&mut out, "toy.Fp6q_13", q(2000));
    field_rels::<Fp4<Q4_13>>(&mut out, "toy.Fp4_13", q(2000));
    field_rels::<Fp3<C13>>(&mut out, "toy.Fp3_13", q(2000));
    field_rels::<Fp2<Q13>>(&mut out, "toy.Fp2_13", q(1000));

    // toy curves: every x / every y
    macro_rules! toysw {
        ($cfg:ty, $name:expr, $p:expr, $a:expr, $b:expr, $h:expr, $r:expr, $big:expr) => {{
            let cv = sw_crv::<$cfg>(&format!("toy.{}", $name));
            out.push(
                Rel::new(format!("sw-from-x-all/toy.{}", $name), 0, 1, move |t, o| {
                    let xe = Elem::P(BigUint::from(t.below($p)));
                    o.show(|| format!("{}: x={}", cv.name, show(&xe)));
                    sw_on::<$cfg>(&cv, &xe, o)
                })
                .exhaustive(move || all_tapes($p, 1)),
            );
        }};
    }
    vh_core::for_each_toy_sw!(toysw);
    macro_rules! toyte {
        ($cfg:ty, $name:expr, $p:expr, $a:expr, $d:expr, $h:expr, $r:expr, $complete:expr, $big:expr) => {{
            let cv = te_crv::<$cfg>(&format!("toy.{}", $name));
            out.push(
                Rel::new(format!("te-from-y-all/toy.{}", $name), 0, 1, move |t, o| {
                    let ye = Elem::P(BigUint::from(t.below($p)));
                    o.show(|| format!("{}: y={}", cv.name, show(&ye)));
                    te_on::<$cfg>(&cv, &ye, o)
                })
                .exhaustive(move || all_tapes($p, 1)),
            );
        }};
    }
    vh_core::for_each_toy_te!(toyte);
    // toy curves over F_49 and F_343: every x of the extension field (lexicographic order of the two roots, roots
    // with a zero top coefficient, g(x) in the prime subfield)
    macro_rules! toyext {
        ($cfg:ty, $name:expr, $n:expr, $h:expr, $r:expr) => {{
            let cv = sw_crv::<$cfg>(&format!("toy.{}", $name));
            let d = cv.f.c.d;
            out.push(
                Rel::new(format!("sw-from-x-all/toy.{}", $name), 0, d, move |t, o| {
                    let co: Vec<BigUint> = (0..cv.f.c.d).map(|_| BigUint::from(t.below(7))).collect();
                    let xe = cv.f.c.tw.unflatten(&co);
                    o.show(|| format!("{}: x={}", cv.name, show(&xe)));
                    sw_on::<$cfg>(&cv, &xe, o)
                })
                .exhaustive(move || all_tapes(7, d)),
            );
        }};
    }
    vh_core::for_each_toy_sw_ext!(toyext);
    out
}

fn main() {
    vh_core::engine::main(PropSpec {
        id: "C11",
        rule: "x is decoded from a proptest tape into one of: 0, 1, -1, an edge-biased arbitrary element, a square s^2, n*s^2 for a quadratic non-residue n found by the oracle, zeta^j and zeta^j*s^2 for zeta = n^t of order exactly 2^s (q-1 = 2^s t; j = 1, 2, 2^m, odd, arbitrary: worst-case Tonelli-Shanks rounds), an element of a proper subfield of an extension; over the zoo prime fields (two-adicity 1..47, p = 3 mod 4, no spare bit, top limb 2^63, hand-written configs), 33 shipped prime fields, every shipped Fp2/Fp3/Fp4/Fp6-2over3, toy towers, and 15 towers over zoo prime fields with unusual modulus shapes (Fp2 x10, Fp3 x5: Fp3 over Goldilocks with two-adicity 32, Fp3 with q = 3 mod 4, hand-written base configurations); tiny fields and toy towers exhaustively. sqrt-precomp/ calls both public SqrtPrecomputation variants directly on every zoo field: Tonelli-Shanks assembled from TWO_ADICITY, TWO_ADIC_ROOT_OF_UNITY and TRACE_MINUS_ONE_DIV_TWO for every p (also p = 3 mod 4, where Field::sqrt never takes it) and Case3Mod4 with (p+1)/4 computed by the oracle, and compares the configured SQRT_PRECOMP constants with the oracle's. legendre/ checks the residue symbol alone on Fp6-3over2 and Fp12 (shipped bls12_381, bls12_377, bn254 and toy), which have no square-root algorithm. Whether x is a square is decided exactly by Euler's criterion x^((q-1)/2) (BigUint modpow in prime fields; in towers the inner power x^(1+p+..+p^(d-1)) through the schoolbook oracle Frobenius); a reported root must square to x under the oracle product. Curve helpers: x (y) = 0, the generator's coordinate, neighbours of it, arbitrary; toy curves all x / all y (prime fields up to 1021, F_49 and F_343: every x of the extension field; the class `root (p-1)/2` counts the cases at the sign boundary); the curve equation is evaluated by the oracle and the pair must be {r, -r}, on the curve and sorted in the documented lexicographic order. A case is non-trivial when x is outside {0,1} and is a non-residue, lies in a proper subfield of an extension, or has 2-power order; for helpers when the input is off the curve or yields a 2-torsion/ x = 0 solution. distinct = distinct decoded choice sequences.",
        assumptions: &[
            "num-bigint arithmetic is correct (oracle)",
            "tower multiplication/Frobenius oracle of C02 (schoolbook, NONRESIDUE constants only)",
            "fields without a configured algorithm (Fp6-3over2, Fp12: SQRT_PRECOMP = None, `sqrt` is `unimplemented!()`) are out of scope and never called",
            "zoo configurations above 64 bits declare the smallest quadratic non-residue as `generator` (all Tonelli-Shanks needs)",
        ],
        relations,
    })
}
