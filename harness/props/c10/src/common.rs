//! Helpers shared by C09 and C10 (this file is kept identical in props/c09/src and props/c10/src):
//! harness-defined `Flags`, a counting reader, and an *independent* description of the byte layouts
//! (segments of little/big-endian integers with flag bits in the most significant byte).
#![allow(dead_code)]
use ark_serialize::Flags;
use num_bigint::BigUint;
use num_traits::Zero;

/// Permissive harness flags of `B` bits: every bit pattern is a valid flag value.
#[derive(Default, Clone, Copy, PartialEq, Eq, Debug)]
pub struct HF<const B: usize>(pub u8);

impl<const B: usize> Flags for HF<B> {
    const BIT_SIZE: usize = B;
    fn u8_bitmask(&self) -> u8 {
        ((self.0 as u16) << (8 - B)) as u8
    }
    fn from_u8(value: u8) -> Option<Self> {
        Some(HF(((value as u16) >> (8 - B)) as u8))
    }
}

/// Restrictive 3-bit harness flags: only the patterns 000, 001, 010, 100 and 111 (top three bits) exist.
#[derive(Default, Clone, Copy, PartialEq, Eq, Debug)]
pub struct HR3(pub u8);

impl Flags for HR3 {
    const BIT_SIZE: usize = 3;
    fn u8_bitmask(&self) -> u8 {
        self.0 << 5
    }
    fn from_u8(value: u8) -> Option<Self> {
        match value >> 5 {
            v @ (0 | 1 | 2 | 4 | 7) => Some(HR3(v)),
            _ => None,
        }
    }
}

/// (valid, invalid) bit masks (already shifted into the top `BIT_SIZE` bits) of a flag type.
pub fn flag_masks<Fl: Flags>() -> (Vec<u8>, Vec<u8>) {
    let b = Fl::BIT_SIZE;
    let mut ok = Vec::new();
    let mut bad = Vec::new();
    for v in 0..(1u16 << b) {
        let m = if b == 0 { 0 } else { (v << (8 - b)) as u8 };
        match Fl::from_u8(m) {
            Some(f) if f.u8_bitmask() == m => ok.push(m),
            Some(_) => bad.push(m),
            None => bad.push(m),
        }
    }
    (ok, bad)
}

/// `Read` wrapper that counts the bytes handed out.
pub struct CountRead<'a> {
    pub data: &'a [u8],
    pub pos: usize,
}

impl<'a> CountRead<'a> {
    pub fn new(data: &'a [u8]) -> Self {
        CountRead { data, pos: 0 }
    }
}

impl CountRead<'_> {
    /// a deterministic, input-dependent coin: which spelling of the same call is used for this byte string
    pub fn via_wrapper(&self) -> bool {
        self.data.iter().fold(0u32, |a, b| a.wrapping_mul(31).wrapping_add(*b as u32)).count_ones() % 2 == 1
    }
}

/// `deserialize_with_mode(c, val)` or, for about half of the byte strings, the convenience method documented as its
/// synonym (`deserialize_compressed`, `deserialize_compressed_unchecked`, `deserialize_uncompressed`,
/// `deserialize_uncompressed_unchecked`) — the spelling most callers use.
pub fn deser<T: ark_serialize::CanonicalDeserialize, X>(rd: &mut CountRead<'_>, c: ark_serialize::Compress, val: ark_serialize::Validate) -> Result<T, ark_serialize::SerializationError> {
    use ark_serialize::{Compress, Validate};
    if !rd.via_wrapper() {
        return T::deserialize_with_mode(rd, c, val);
    }
    match (c, val) {
        (Compress::Yes, Validate::Yes) => T::deserialize_compressed(rd),
        (Compress::Yes, Validate::No) => T::deserialize_compressed_unchecked(rd),
        (Compress::No, Validate::Yes) => T::deserialize_uncompressed(rd),
        (Compress::No, Validate::No) => T::deserialize_uncompressed_unchecked(rd),
    }
}

impl std::io::Read for CountRead<'_> {
    fn read(&mut self, buf: &mut [u8]) -> std::io::Result<usize> {
        let n = buf.len().min(self.data.len() - self.pos);
        buf[..n].copy_from_slice(&self.data[self.pos..self.pos + n]);
        self.pos += n;
        Ok(n)
    }
}

/// One integer of an encoding: `len` bytes at `off`, little- or big-endian; the top `flag_bits` bits of its
/// most significant byte do not belong to the integer.
#[derive(Clone, Debug)]
pub struct Seg {
    pub off: usize,
    pub len: usize,
    pub be: bool,
    pub flag_bits: usize,
}

impl Seg {
    pub fn area_bits(&self) -> usize {
        8 * self.len - self.flag_bits
    }
    pub fn msb_index(&self) -> usize {
        if self.be {
            self.off
        } else {
            self.off + self.len - 1
        }
    }
    pub fn flag_mask(&self) -> u8 {
        if self.flag_bits == 0 {
            0
        } else {
            (0xffu16 << (8 - self.flag_bits)) as u8
        }
    }
    /// the integer stored in the segment (flag bits masked off)
    pub fn get(&self, bytes: &[u8]) -> BigUint {
        let mut s = bytes[self.off..self.off + self.len].to_vec();
        let i = if self.be { 0 } else { self.len - 1 };
        s[i] &= !self.flag_mask();
        if self.be {
            BigUint::from_bytes_be(&s)
        } else {
            BigUint::from_bytes_le(&s)
        }
    }
    /// store `n` (< 2^area_bits) keeping the flag bits that are present in `bytes`
    pub fn put(&self, bytes: &mut [u8], n: &BigUint) {
        assert!(n.bits() as usize <= self.area_bits(), "integer does not fit the segment");
        let keep = bytes[self.msb_index()] & self.flag_mask();
        let mut le = if n.is_zero() { vec![] } else { n.to_bytes_le() };
        le.resize(self.len, 0);
        if self.be {
            le.reverse();
        }
        bytes[self.off..self.off + self.len].copy_from_slice(&le);
        bytes[self.msb_index()] |= keep;
    }
}

fn ceil8(bits: usize) -> usize {
    (bits + 7) / 8
}

/// arkworks' generic field layout: `deg` little-endian integers of ceil(bits/8) bytes, the last one of
/// ceil((bits+flag_bits)/8) bytes with the flags in the top bits of its last byte.
pub fn field_layout(off: usize, deg: usize, bits: usize, flag_bits: usize) -> Vec<Seg> {
    let mut v = Vec::new();
    let mut o = off;
    for i in 0..deg {
        let last = i + 1 == deg;
        let len = if last { ceil8(bits + flag_bits) } else { ceil8(bits) };
        v.push(Seg { off: o, len, be: false, flag_bits: if last { flag_bits } else { 0 } });
        o += len;
    }
    v
}

pub fn layout_len(l: &[Seg]) -> usize {
    l.iter().map(|s| s.off + s.len).max().unwrap_or(0)
}

/// generic short-Weierstrass layout: compressed = x with 2 flag bits; uncompressed = x, then y with 2 flag bits
pub fn sw_layout(deg: usize, bits: usize, compressed: bool) -> Vec<Seg> {
    if compressed {
        field_layout(0, deg, bits, 2)
    } else {
        let mut v = field_layout(0, deg, bits, 0);
        let o = layout_len(&v);
        v.extend(field_layout(o, deg, bits, 2));
        v
    }
}

/// generic twisted-Edwards layout: compressed = y with 1 flag bit; uncompressed = x, y without flags
pub fn te_layout(deg: usize, bits: usize, compressed: bool) -> Vec<Seg> {
    if compressed {
        field_layout(0, deg, bits, 1)
    } else {
        let mut v = field_layout(0, deg, bits, 0);
        let o = layout_len(&v);
        v.extend(field_layout(o, deg, bits, 0));
        v
    }
}

/// zcash layout of curves/bls12_381: big-endian 48-byte integers (c1 before c0), three flag bits in byte 0
pub fn zcash_layout(deg: usize, compressed: bool) -> Vec<Seg> {
    let n = if compressed { deg } else { 2 * deg };
    (0..n).map(|i| Seg { off: 48 * i, len: 48, be: true, flag_bits: if i == 0 { 3 } else { 0 } }).collect()
}

pub fn hex(b: &[u8]) -> String {
    let mut s = String::with_capacity(2 * b.len());
    for x in b {
        s.push_str(&format!("{:02x}", x));
    }
    s
}
