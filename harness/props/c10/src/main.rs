//! C10 — checked deserialization only yields valid group elements and never panics.
mod common;
mod curves;

use ark_ec::models::short_weierstrass::{Affine as SwAffine, Projective as SwProj, SWCurveConfig, SWFlags};
use ark_ec::models::twisted_edwards::{Affine as TeAffine, Projective as TeProj, TECurveConfig};
use ark_ec::pairing::{Pairing, PairingOutput};
use ark_ec::AffineRepr;
use ark_ff::fields::{Fp2, Fp2Config};
use ark_ff::{AdditiveGroup, Field, MontFp, One, PrimeField, Zero};
use ark_serialize::{CanonicalDeserialize, CanonicalDeserializeWithFlags, CanonicalSerialize, Compress, SerializationError, Validate};
use common::*;
use num_bigint::BigUint;
use std::sync::{Arc, OnceLock};
use vh_core::curve::*;
use vh_core::engine::{no_panic, Obs, PropSpec, Rel, Tape, Tier, R};
use vh_core::modint::{big, pow2, to_limbs};
use vh_core::tower::{edge_elem, OracleRepr, TowerOf};
use vh_core::{ensure, fail, Fail};

fn cname(c: Compress) -> &'static str {
    if c == Compress::Yes {
        "compressed"
    } else {
        "uncompressed"
    }
}
fn vname(v: Validate) -> &'static str {
    if v == Validate::Yes {
        "checked"
    } else {
        "unchecked"
    }
}

pub struct ZSecpFq2Cfg;
impl Fp2Config for ZSecpFq2Cfg {
    type Fp = vh_core::zoo::Secp256k1;
    const NONRESIDUE: Self::Fp = MontFp!("-1");
    const FROBENIUS_COEFF_FP2_C1: &'static [Self::Fp] = &[MontFp!("1"), MontFp!("-1")];
}
pub type ZSecpFq2 = Fp2<ZSecpFq2Cfg>;

/// reference scalar multiplication: plain double-and-add over `double_in_place` / `+=` (no GLV, no wNAF)
fn ref_mul<G: AdditiveGroup>(base: &G, k: &BigUint) -> G {
    let mut r = G::zero();
    for i in (0..k.bits()).rev() {
        r.double_in_place();
        if k.bit(i) {
            r += base;
        }
    }
    r
}

/// reference power: square-and-multiply over `square_in_place` / `*=`
fn ref_pow<F: Field>(base: &F, k: &BigUint) -> F {
    let mut r = F::one();
    for i in (0..k.bits()).rev() {
        r.square_in_place();
        if k.bit(i) {
            r *= base;
        }
    }
    r
}

fn field_order<F: OracleRepr>(tw: &TowerOf<F>) -> BigUint {
    tw.t.order()
}

/// Euler criterion evaluated by the harness: v = 0 or v^((q-1)/2) = 1
fn is_square<F: Field>(v: &F, half: &BigUint) -> bool {
    v.is_zero() || ref_pow(v, half).is_one()
}

/// inverse of a modulo m (extended Euclid on signed big integers), None when gcd != 1
fn modinv(a: &BigUint, m: &BigUint) -> Option<BigUint> {
    use num_bigint::BigInt as I;
    let (mut r0, mut r1) = (I::from(m.clone()), I::from(a.clone()));
    let (mut t0, mut t1) = (I::from(0), I::from(1));
    while r1 != I::from(0) {
        let q = &r0 / &r1;
        let r2 = &r0 - &q * &r1;
        r0 = std::mem::replace(&mut r1, r2);
        let t2 = &t0 - &q * &t1;
        t0 = std::mem::replace(&mut t1, t2);
    }
    if r0 != I::from(1) {
        return None;
    }
    let mi = I::from(m.clone());
    (((t0 % &mi) + &mi) % &mi).to_biguint()
}

fn hash_of<T: std::hash::Hash>(v: &T) -> u64 {
    use std::hash::Hasher;
    let mut h = std::collections::hash_map::DefaultHasher::new();
    v.hash(&mut h);
    h.finish()
}

fn small_prime_factors(h: &BigUint) -> Vec<u64> {
    let mut out = Vec::new();
    let mut n = h.clone();
    let mut p = 2u64;
    while p < 2000 && !n.is_one() {
        if (&n % p).is_zero() {
            out.push(p);
            while (&n % p).is_zero() {
                n /= p;
            }
        }
        p += if p == 2 { 1 } else { 2 };
    }
    out
}

/// Mutations that are independent of the value type: applied to a valid encoding.
/// Returns (bytes, label, must_err_when_checked)
fn nonreduced(bytes: &[u8], lay: &[Seg], p: &BigUint, bits: usize, t: &mut Tape<'_>) -> (Vec<u8>, &'static str) {
    let mut out = bytes.to_vec();
    let seg = &lay[t.idx(lay.len())];
    let area = seg.area_bits();
    let room = pow2(area) - p;
    let v = seg.get(&out);
    if area > bits && t.chance(1, 3) {
        let pos = bits + t.idx(area - bits);
        seg.put(&mut out, &(v | pow2(pos)));
        (out, "non-reduced.high-bit")
    } else {
        let n = (&v % &room) + p;
        seg.put(&mut out, &n);
        (out, "non-reduced.plus-p")
    }
}

fn flip_bits(bytes: &[u8], t: &mut Tape<'_>) -> Vec<u8> {
    let mut out = bytes.to_vec();
    if out.is_empty() {
        return out;
    }
    for _ in 0..t.range(1, 3) {
        let b = t.idx(8 * out.len());
        out[b / 8] ^= 1 << (b % 8);
    }
    out
}

/// overwrite the flag bits of the segment that carries them with an arbitrary pattern
fn mutate_flags(bytes: &[u8], lay: &[Seg], t: &mut Tape<'_>) -> Vec<u8> {
    let mut out = bytes.to_vec();
    if let Some(seg) = lay.iter().find(|s| s.flag_bits > 0) {
        let i = seg.msb_index();
        let fm = seg.flag_mask();
        out[i] = (out[i] & !fm) | ((t.below(256) as u8) & fm);
    } else {
        let i = out.len() - 1;
        out[i] ^= 0x80;
    }
    out
}

fn plausible(lay: &[Seg], total: usize, p: &BigUint, nlimbs: usize, t: &mut Tape<'_>) -> Vec<u8> {
    let mut out = vec![0u8; total];
    for s in lay {
        let n = big(&t.limbs(nlimbs + 1)) % p;
        s.put(&mut out, &n);
    }
    for s in lay.iter().filter(|s| s.flag_bits > 0) {
        let i = s.msb_index();
        out[i] |= (t.below(256) as u8) & s.flag_mask();
    }
    out
}

struct Expect<V> {
    /// the encoding is a valid one of this value: Ok(value) required in every mode
    value: Option<V>,
    /// with Validate::Yes the input must be rejected
    must_err: bool,
    label: &'static str,
}

// ------------------------------------------------------------------------------------------
// field elements and towers
// ------------------------------------------------------------------------------------------

fn field_hostile<F: OracleRepr>(tw: &TowerOf<F>, name: &str, t: &mut Tape<'_>, o: &mut Obs) -> R {
    let bits = tw.prime.bits;
    let p = &tw.prime.p;
    let d = tw.t.degree();
    let fb = match t.below(3) {
        0 => 0,
        1 => 2,
        _ => 8,
    };
    let lay = field_layout(0, d, bits, fb);
    let total = layout_len(&lay);
    let (e, _) = edge_elem(t, &tw.t, &tw.prime);
    let v = F::from_o(&e);
    let mut enc = Vec::new();
    let adv = match fb {
        0 => {
            v.serialize_compressed(&mut enc).map_err(|e| Fail { sig: "serialize.err".into(), msg: format!("{:?}", e) })?;
            v.compressed_size()
        },
        2 => {
            v.serialize_with_flags(&mut enc, SWFlags::YIsNegative).map_err(|e| Fail { sig: "serialize.err".into(), msg: format!("{:?}", e) })?;
            v.serialized_size_with_flags::<SWFlags>()
        },
        _ => {
            v.serialize_with_flags(&mut enc, HF::<8>(0xa5)).map_err(|e| Fail { sig: "serialize.err".into(), msg: format!("{:?}", e) })?;
            v.serialized_size_with_flags::<HF<8>>()
        },
    };
    ensure!(adv == total && enc.len() == total, "size.layout", "advertised {} written {} expected layout {}", adv, enc.len(), total);
    let (mut input, label, must_err, valid): (Vec<u8>, &'static str, bool, bool) = match t.weighted(&[2, 3, 4, 3, 3, 3, 1]) {
        0 => (enc.clone(), "a.valid", false, true),
        1 => (flip_bits(&enc, t), "b.bit-flip", false, false),
        2 => {
            let (b, l) = nonreduced(&enc, &lay, p, bits, t);
            (b, l, true, false)
        },
        3 => {
            let l = t.idx(total);
            (enc[..l].to_vec(), "g.truncated", false, false)
        },
        4 => (t.bytes(total), "h.uniform", false, false),
        5 => (plausible(&lay, total, p, tw.prime.n, t), "h.plausible", false, false),
        _ => (vec![if t.bool() { 0xff } else { 0 }; total], "h.constant", false, false),
    };
    let truncated = label == "g.truncated";
    if !truncated {
        let pad = t.idx(17);
        input.extend(t.bytes(pad));
    }
    o.class(label);
    o.nt(!valid);
    o.show(|| format!("{}: {} flag bits {}: {}", name, label, fb, hex(&input)));
    o.evals(4);
    for c in [Compress::Yes, Compress::No] {
        for val in [Validate::Yes, Validate::No] {
            let mut rd = CountRead::new(&input);
            let res: Result<F, SerializationError> = match fb {
                0 => no_panic("deserialize", || deser::<F, ()>(&mut rd, c, val))?,
                2 => no_panic("deserialize_with_flags", || F::deserialize_with_flags::<_, SWFlags>(&mut rd).map(|x| x.0))?,
                _ => no_panic("deserialize_with_flags", || F::deserialize_with_flags::<_, HF<8>>(&mut rd).map(|x| x.0))?,
            };
            ensure!(rd.pos <= total, "read-past-size", "{} bytes consumed, advertised size {}", rd.pos, total);
            match res {
                Ok(x) => {
                    o.class("ok");
                    ensure!(x.canonical(), "field.not-below-modulus", "deserialized element has limbs >= p: input {}", hex(&input));
                    ensure!(!must_err, format!("accepted.{}", label), "{}: input {} accepted as {:?}", label, hex(&input), x.to_o());
                    if valid {
                        ensure!(x.to_o() == e, "valid.decodes-differently", "{} -> {:?}", hex(&input), x.to_o());
                    }
                },
                Err(err) => ensure!(!valid, "valid.rejected", "valid encoding {} rejected: {:?}", hex(&input), err),
            }
        }
    }
    Ok(())
}

fn field_rels<F: OracleRepr>(out: &mut Vec<Rel>, name: &'static str, tier: Tier, weight: u32) {
    let cell: Arc<OnceLock<TowerOf<F>>> = Arc::new(OnceLock::new());
    let d = F::extension_degree() as usize;
    let n = (F::BasePrimeField::MODULUS_BIT_SIZE as usize + 63) / 64;
    let words = 2 * d * (2 * n + 8) + 48;
    let cases = (tier.pick(3000u32, 60000) / weight).max(100);
    out.push(Rel::new(format!("field/{}", name), cases, words, move |t, o| field_hostile::<F>(cell.get_or_init(TowerOf::<F>::new), name, t, o)));
}

// ------------------------------------------------------------------------------------------
// short Weierstrass
// ------------------------------------------------------------------------------------------

struct SwCtx<P: SWCurveConfig>
where
    P::BaseField: OracleRepr,
{
    tw: TowerOf<P::BaseField>,
    r: BigUint,
    toy: bool,
    pool: Vec<Sw<P::BaseField>>,
    /// on-curve points outside the prime-order subgroup (verified by reference multiplication)
    outside: Vec<(Sw<P::BaseField>, &'static str)>,
    /// x coordinates without a point (verified with the harness' Euler criterion)
    noroot: Vec<P::BaseField>,
    half: BigUint,
    lay: [Vec<Seg>; 2],
    size: [usize; 2],
    /// toy curves: every point with subgroup membership, indexed by the integer x
    all: Vec<(Sw<P::BaseField>, bool)>,
}

fn ci(c: Compress) -> usize {
    if c == Compress::Yes {
        0
    } else {
        1
    }
}

fn f_u64<F: Field>(x: &F) -> u64 {
    x.to_base_prime_field_elements().next().unwrap().into_bigint().as_ref()[0]
}

fn lift_sw<P: SWCurveConfig>(q: &Sw<P::BaseField>) -> SwProj<P> {
    let one = P::BaseField::one();
    sw_to_proj::<P>(q, &one, &one, &one)
}

impl<P: SWCurveConfig> SwCtx<P>
where
    P::BaseField: OracleRepr,
{
    fn insub(&self, q: &Sw<P::BaseField>) -> bool {
        if self.toy {
            sw_mul(&P::COEFF_A, q, &self.r) == Sw::Inf
        } else {
            sw_from_proj::<P>(&ref_mul(&lift_sw::<P>(q), &self.r)) == Sw::Inf
        }
    }
    fn on_curve(q: &Sw<P::BaseField>) -> bool {
        sw_on_curve(&P::COEFF_A, &P::COEFF_B, q)
    }
    fn rhs(x: &P::BaseField) -> P::BaseField {
        x.square() * x + P::COEFF_A * x + P::COEFF_B
    }

    fn new(zcash: bool, toy: bool) -> Self {
        let tw = TowerOf::<P::BaseField>::new();
        let r = big(P::ScalarField::MODULUS.as_ref());
        let h = big(P::COFACTOR);
        let d = tw.t.degree();
        let bits = tw.prime.bits;
        let half = (field_order(&tw) - 1u32) >> 1;
        let lay = if zcash { [zcash_layout(d, true), zcash_layout(d, false)] } else { [sw_layout(d, bits, true), sw_layout(d, bits, false)] };
        let g = sw_from_affine::<P>(&P::GENERATOR);
        let ga = P::GENERATOR;
        let size = [ga.serialized_size(Compress::Yes), ga.serialized_size(Compress::No)];
        let mut cx = SwCtx { tw, r: r.clone(), toy, pool: vec![g], outside: vec![], noroot: vec![], half, lay, size, all: vec![] };
        assert!(Self::on_curve(&g) && cx.insub(&g), "generator");
        let gp = lift_sw::<P>(&g);
        for k in [2u64, 3, 0xffff_ffff_ffff_fff1] {
            cx.pool.push(sw_from_proj::<P>(&ref_mul(&gp, &BigUint::from(k))));
        }
        cx.pool.push(sw_from_proj::<P>(&ref_mul(&gp, &((&r - 1u32) >> 1))));
        cx.pool.push(sw_from_proj::<P>(&ref_mul(&gp, &(&r - 1u32))));
        // x without a root / points from small x
        let mut raw: Vec<Sw<P::BaseField>> = Vec::new();
        for xi in 0u64..200 {
            if cx.noroot.len() >= 3 && raw.len() >= 4 {
                break;
            }
            let x = P::BaseField::from(xi);
            if !is_square(&Self::rhs(&x), &cx.half) {
                if cx.noroot.len() < 3 {
                    cx.noroot.push(x);
                }
            } else if raw.len() < 4 {
                if let Some(q) = SwAffine::<P>::get_point_from_x_unchecked(x, xi % 2 == 0) {
                    let q = sw_from_affine::<P>(&q);
                    if Self::on_curve(&q) {
                        raw.push(q);
                    }
                }
            }
        }
        if !h.is_one() {
            let primes = small_prime_factors(&h);
            // order-l points obtained from the different raw points, per prime l
            let mut by_l: std::collections::BTreeMap<u64, Vec<Sw<P::BaseField>>> = Default::default();
            for q in &raw {
                if !cx.insub(q) {
                    cx.outside.push((*q, "d.from-small-x"));
                }
                // r R has order dividing h
                let tq = sw_from_proj::<P>(&ref_mul(&lift_sw::<P>(q), &r));
                if tq != Sw::Inf && !cx.insub(&tq) {
                    cx.outside.push((tq, "d.order-divides-h"));
                    cx.outside.push((sw_add(&P::COEFF_A, &tq, &cx.pool[1]), "d.subgroup+torsion"));
                    for l in primes.iter().take(2) {
                        // order-l component of tq: divide out the full power of l (h / l alone kills the l-part
                        // whenever the l-torsion is not cyclic), then push down to order exactly l
                        let lb = BigUint::from(*l);
                        let mut e = h.clone();
                        while (&e % &lb).is_zero() {
                            e /= &lb;
                        }
                        let mut sp = ref_mul(&lift_sw::<P>(&tq), &e);
                        // bounded: with a wrong COFACTOR constant the chain never reaches the identity
                        for _ in 0..4096 {
                            let next = ref_mul(&sp, &lb);
                            if next.is_zero() {
                                break;
                            }
                            sp = next;
                        }
                        let s = sw_from_proj::<P>(&sp);
                        if s != Sw::Inf && !cx.insub(&s) {
                            cx.outside.push((s, "d.small-order"));
                            cx.outside.push((sw_add(&P::COEFF_A, &s, &cx.pool[2]), "d.subgroup+small-order"));
                            by_l.entry(*l).or_default().push(s);
                        }
                    }
                }
            }
            // when the l-torsion is two-dimensional, a subgroup test built on an endomorphism can be wrong on a single
            // eigenline only: with two independent order-l points T1, T2 every line <a T1 + b T2> gets a representative
            for (l, ts) in &by_l {
                if ts.len() < 2 || *l > 64 {
                    continue;
                }
                let t1 = ts[0];
                let a = P::COEFF_A;
                let mut multiples = Vec::new();
                let mut acc = Sw::Inf;
                for _ in 0..*l {
                    multiples.push(acc);
                    acc = sw_add(&a, &acc, &t1);
                }
                // the first of the other order-l points that is not a multiple of T1 (none: the l-torsion seen is cyclic)
                let t2 = match ts[1..].iter().find(|t| !multiples.contains(t)) {
                    Some(t) => *t,
                    None => continue,
                };
                for b in 0..*l {
                    // T2 + b T1 (the line through T1 itself is already present as "d.small-order")
                    let s = sw_add(&a, &t2, &multiples[b as usize]);
                    if s != Sw::Inf && !cx.insub(&s) {
                        cx.outside.push((s, "d.small-order-line"));
                        cx.outside.push((sw_add(&a, &s, &cx.pool[3]), "d.subgroup+small-order-line"));
                    }
                }
            }
            for (q, _) in &cx.outside {
                assert!(Self::on_curve(q));
            }
            if std::env::var_os("VH_DEBUG_SPECIAL").is_some() {
                let mut counts: std::collections::BTreeMap<&str, usize> = Default::default();
                for (_, l) in &cx.outside {
                    *counts.entry(*l).or_default() += 1;
                }
                eprintln!("outside[{}]: primes {:?} by_l {:?} {:?}", std::any::type_name::<P>(), primes, by_l.iter().map(|(l, v)| (*l, v.len())).collect::<Vec<_>>(), counts);
            }
        }
        if toy {
            let pm = f_u64(&-P::BaseField::one()) + 1;
            for xi in 0..pm {
                let x = P::BaseField::from(xi);
                let rhs = Self::rhs(&x);
                for yi in 0..pm {
                    let y = P::BaseField::from(yi);
                    if y.square() == rhs {
                        let q = Sw::Aff(x, y);
                        let s = cx.insub(&q);
                        cx.all.push((q, s));
                    }
                }
            }
        }
        cx
    }
}

/// run one byte string through Affine/Projective deserialization in one compression mode, both validation modes
fn sw_run<P: SWCurveConfig>(cx: &SwCtx<P>, input: &[u8], c: Compress, ex: &Expect<Sw<P::BaseField>>, projective: bool, o: &mut Obs) -> R
where
    P::BaseField: OracleRepr,
{
    let size = cx.size[ci(c)];
    for val in [Validate::Yes, Validate::No] {
        let mut rd = CountRead::new(input);
        let res: Result<(Sw<P::BaseField>, bool), SerializationError> = if projective {
            no_panic("deserialize.projective", || deser::<SwProj<P>, ()>(&mut rd, c, val))?.map(|q| (sw_from_proj::<P>(&q), q.x.canonical() && q.y.canonical() && q.z.canonical()))
        } else {
            let r = no_panic("deserialize.affine", || deser::<SwAffine<P>, ()>(&mut rd, c, val))?;
            if let Ok(q) = &r {
                // whatever the mode: a decoded value that denotes the identity must be *the* identity value (equal to it and
                // hashing like it), not a second representation with left-over coordinates
                if q.is_zero() {
                    ensure!(
                        *q == SwAffine::<P>::identity() && hash_of(q) == hash_of(&SwAffine::<P>::identity()),
                        format!("identity-not-canonical.{}.{}", cname(c), vname(val)),
                        "input {} decodes to a value with is_zero() that differs from Affine::identity(): {:?}",
                        hex(input),
                        q
                    );
                }
            }
            r.map(|q| (sw_from_affine::<P>(&q), q.x.canonical() && q.y.canonical()))
        };
        let mn = format!("{}.{}", cname(c), vname(val));
        ensure!(rd.pos <= size, format!("read-past-size.{}", cname(c)), "{}: {} bytes consumed, advertised size {}", mn, rd.pos, size);
        match res {
            Ok((q, canon)) => {
                o.class(if val == Validate::Yes { "ok.checked" } else { "ok.unchecked" });
                if val == Validate::Yes {
                    ensure!(canon, format!("coordinates-not-reduced.{}", mn), "{}: input {} gives coordinates with limbs >= p", mn, hex(input));
                    ensure!(
                        !ex.must_err,
                        format!("accepted.{}.{}", ex.label, mn),
                        "{}: class {} input {} accepted as {:?}",
                        mn,
                        ex.label,
                        hex(input),
                        q
                    );
                    ensure!(SwCtx::<P>::on_curve(&q), format!("off-curve.{}", mn), "{}: input {} accepted as {:?} which does not satisfy the curve equation", mn, hex(input), q);
                    ensure!(cx.insub(&q), format!("outside-subgroup.{}", mn), "{}: input {} accepted as {:?} but r*P != O", mn, hex(input), q);
                }
                if let Some(v) = &ex.value {
                    ensure!(q == *v, format!("valid.decodes-differently.{}", mn), "{}: encoding {} of {:?} decodes to {:?}", mn, hex(input), v, q);
                }
            },
            Err(err) => {
                ensure!(ex.value.is_none(), format!("valid.rejected.{}", mn), "{}: valid encoding {} of {:?} rejected: {:?}", mn, hex(input), ex.value, err);
            },
        }
    }
    Ok(())
}

fn ser<T: CanonicalSerialize>(v: &T, c: Compress) -> Result<Vec<u8>, Fail> {
    let mut b = Vec::new();
    v.serialize_with_mode(&mut b, c).map_err(|e| Fail { sig: "serialize.err".into(), msg: format!("{:?}", e) })?;
    Ok(b)
}

fn sw_hostile<P: SWCurveConfig>(cx: &SwCtx<P>, name: &str, t: &mut Tape<'_>, o: &mut Obs) -> R
where
    P::BaseField: OracleRepr,
{
    let a = P::COEFF_A;
    let mut c = if t.bool() { Compress::Yes } else { Compress::No };
    let projective = t.chance(1, 4);
    // a valid point
    let base: Sw<P::BaseField> = match t.weighted(&[1, 6, 2]) {
        0 => Sw::Inf,
        1 => {
            let s = sw_add(&a, &cx.pool[t.idx(cx.pool.len())], &cx.pool[t.idx(cx.pool.len())]);
            if t.bool() {
                sw_neg(&s)
            } else {
                s
            }
        },
        _ => cx.pool[t.idx(cx.pool.len())],
    };
    let p = cx.tw.prime.p.clone();
    let bits = cx.tw.prime.bits;
    let mut ex = Expect { value: None, must_err: false, label: "" };
    let mut cls = t.weighted(&[2, 3, 2, 3, 4, 4, 3, 2, 3]);
    if cls == 4 && cx.outside.is_empty() && P::cofactor_is_one() {
        cls = 5;
    }
    let mut input: Vec<u8> = match cls {
        0 => {
            ex.value = Some(base);
            ex.label = "a.valid";
            ser(&sw_to_affine::<P>(&base), c)?
        },
        1 => {
            ex.label = "b.bit-flip";
            flip_bits(&ser(&sw_to_affine::<P>(&base), c)?, t)
        },
        2 => {
            ex.label = "b.flags";
            mutate_flags(&ser(&sw_to_affine::<P>(&base), c)?, &cx.lay[ci(c)], t)
        },
        3 => {
            // x without a root, compressed
            c = Compress::Yes;
            let x = if t.chance(1, 2) && !cx.noroot.is_empty() {
                cx.noroot[t.idx(cx.noroot.len())]
            } else {
                let (e, _) = edge_elem(t, &cx.tw.t, &cx.tw.prime);
                let mut x = P::BaseField::from_o(&e);
                let mut found = None;
                for _ in 0..3 {
                    if !is_square(&SwCtx::<P>::rhs(&x), &cx.half) {
                        found = Some(x);
                        break;
                    }
                    x += P::BaseField::one();
                }
                found.unwrap_or(cx.noroot[0])
            };
            ex.label = "c.no-root";
            ex.must_err = true;
            let y = if t.bool() { P::BaseField::one() } else { -P::BaseField::one() };
            ser(&SwAffine::<P>::new_unchecked(x, y), c)?
        },
        4 => {
            // on the curve, outside the subgroup
            let q = if !cx.outside.is_empty() && t.chance(2, 3) {
                let (q, l) = cx.outside[t.idx(cx.outside.len())];
                ex.label = l;
                Some(if t.bool() { sw_neg(&q) } else { q })
            } else {
                let (e, _) = edge_elem(t, &cx.tw.t, &cx.tw.prime);
                let mut x = P::BaseField::from_o(&e);
                let mut found = None;
                for _ in 0..8 {
                    if let Some(q) = SwAffine::<P>::get_point_from_x_unchecked(x, t.bool()) {
                        let q = sw_from_affine::<P>(&q);
                        if SwCtx::<P>::on_curve(&q) && !cx.insub(&q) {
                            found = Some(q);
                        }
                        break;
                    }
                    x += P::BaseField::one();
                }
                ex.label = "d.from-x";
                found
            };
            match q {
                Some(q) => {
                    ex.must_err = true;
                    ser(&sw_to_affine::<P>(&q), c)?
                },
                None => {
                    ex.label = "a.valid";
                    ex.value = Some(base);
                    ser(&sw_to_affine::<P>(&base), c)?
                },
            }
        },
        5 => {
            // off the curve, uncompressed
            c = Compress::No;
            let (bx, by) = match base {
                Sw::Aff(x, y) => (x, y),
                Sw::Inf => match cx.pool[0] {
                    Sw::Aff(x, y) => (x, y),
                    _ => unreachable!(),
                },
            };
            let one = P::BaseField::one();
            let (x, y, l): (P::BaseField, P::BaseField, &'static str) = match t.weighted(&[4, 2, 2, 2]) {
                0 => {
                    // image on the isomorphic curve y^2 = x^3 + a t^4 x + b t^6, t in the prime subfield
                    let tv = match t.below(3) {
                        0 => P::BaseField::from(2u64),
                        1 => P::BaseField::from(t.range(2, 1 << 16)),
                        _ => {
                            let v = vh_core::gen::big_below(t, &p);
                            P::BaseField::from_base_prime_field(<<P::BaseField as Field>::BasePrimeField as From<BigUint>>::from(v))
                        },
                    };
                    let t2 = tv.square();
                    (bx * t2, by * t2 * tv, "e.isomorphic-curve")
                },
                1 => (bx, by + one, "e.y+1"),
                2 => (bx + one, by, "e.x+1"),
                _ => {
                    let (e1, _) = edge_elem(t, &cx.tw.t, &cx.tw.prime);
                    let (e2, _) = edge_elem(t, &cx.tw.t, &cx.tw.prime);
                    (P::BaseField::from_o(&e1), P::BaseField::from_o(&e2), "e.random-xy")
                },
            };
            let q = Sw::Aff(x, y);
            if SwCtx::<P>::on_curve(&q) {
                ex.label = "e.happens-to-be-on-curve";
            } else {
                ex.label = l;
                ex.must_err = true;
            }
            ser(&SwAffine::<P>::new_unchecked(x, y), c)?
        },
        6 => {
            let enc = ser(&sw_to_affine::<P>(&base), c)?;
            let (b, l) = nonreduced(&enc, &cx.lay[ci(c)], &p, bits, t);
            ex.label = if l == "non-reduced.plus-p" { "f.non-reduced.plus-p" } else { "f.non-reduced.high-bit" };
            ex.must_err = true;
            b
        },
        7 => {
            let enc = ser(&sw_to_affine::<P>(&base), c)?;
            let l = t.idx(enc.len());
            ex.label = "g.truncated";
            enc[..l].to_vec()
        },
        _ => {
            let total = cx.size[ci(c)];
            match t.below(3) {
                0 => {
                    ex.label = "h.uniform";
                    t.bytes(total)
                },
                1 => {
                    ex.label = "h.plausible";
                    plausible(&cx.lay[ci(c)], total, &p, cx.tw.prime.n, t)
                },
                _ => {
                    ex.label = "h.constant";
                    vec![if t.bool() { 0xff } else { 0 }; total]
                },
            }
        },
    };
    ensure!(
        layout_len(&cx.lay[ci(c)]) == cx.size[ci(c)],
        "size.layout",
        "serialized_size({}) = {}, layout expects {}",
        cname(c),
        cx.size[ci(c)],
        layout_len(&cx.lay[ci(c)])
    );
    if ex.label != "g.truncated" {
        let pad = t.idx(17);
        input.extend(t.bytes(pad));
    }
    o.class(ex.label);
    o.class(cname(c));
    o.nt(ex.label != "a.valid");
    o.show(|| format!("{}: {} {} {}", name, ex.label, cname(c), hex(&input)));
    o.evals(2);
    sw_run::<P>(cx, &input, c, &ex, projective, o)
}

/// toy curves over a prime field: expectation for an arbitrary byte string, decoded with the harness' layout
fn sw_toy_expect<P: SWCurveConfig>(cx: &SwCtx<P>, input: &[u8], c: Compress) -> Expect<Sw<P::BaseField>>
where
    P::BaseField: OracleRepr,
{
    let lay = &cx.lay[ci(c)];
    let p = &cx.tw.prime.p;
    let mut ex = Expect { value: None, must_err: false, label: "exhaustive" };
    let fl = input[input.len() - 1] & 0xc0;
    if fl == 0xc0 || fl == 0x40 {
        ex.label = "exhaustive.infinity-or-both-flags";
        return ex;
    }
    let ints: Vec<BigUint> = lay.iter().map(|s| s.get(input)).collect();
    if ints.iter().any(|n| n >= p) {
        ex.must_err = true;
        ex.label = "exhaustive.non-reduced";
        return ex;
    }
    let x = ints[0].to_u64_digits().first().copied().unwrap_or(0);
    let fx = P::BaseField::from(x);
    if c == Compress::Yes {
        let pts: Vec<&(Sw<P::BaseField>, bool)> = cx.all.iter().filter(|(q, _)| matches!(q, Sw::Aff(qx, _) if *qx == fx)).collect();
        if pts.is_empty() {
            ex.must_err = true;
            ex.label = "exhaustive.no-root";
        } else if !pts[0].1 {
            ex.must_err = true;
            ex.label = "exhaustive.outside-subgroup";
        } else {
            ex.label = "exhaustive.subgroup-point";
        }
    } else {
        let y = ints[1].to_u64_digits().first().copied().unwrap_or(0);
        let q = Sw::Aff(fx, P::BaseField::from(y));
        match cx.all.iter().find(|(z, _)| *z == q) {
            None => {
                ex.must_err = true;
                ex.label = "exhaustive.off-curve";
            },
            Some((_, false)) => {
                ex.must_err = true;
                ex.label = "exhaustive.outside-subgroup";
            },
            Some((_, true)) => {
                ex.label = "exhaustive.subgroup-point";
                ex.value = Some(q);
            },
        }
    }
    ex
}

fn sw_toy_bytes<P: SWCurveConfig>(cx: &SwCtx<P>, name: &str, c: Compress, t: &mut Tape<'_>, o: &mut Obs) -> R
where
    P::BaseField: OracleRepr,
{
    let n = cx.size[ci(c)];
    let input: Vec<u8> = (0..n).map(|_| t.below(256) as u8).collect();
    let ex = sw_toy_expect::<P>(cx, &input, c);
    o.class(ex.label);
    o.nt(true);
    o.show(|| format!("{}: {} {} {}", name, ex.label, cname(c), hex(&input)));
    o.evals(2);
    sw_run::<P>(cx, &input, c, &ex, false, o)
}

fn sw_rels<P: SWCurveConfig>(out: &mut Vec<Rel>, name: &'static str, tier: Tier, weight: u32, zcash: bool, toy: bool)
where
    P::BaseField: OracleRepr,
{
    let cell: Arc<OnceLock<SwCtx<P>>> = Arc::new(OnceLock::new());
    let d = P::BaseField::extension_degree() as usize;
    let n = (<P::BaseField as Field>::BasePrimeField::MODULUS_BIT_SIZE as usize + 63) / 64;
    let words = 4 * d * (2 * n + 8) + 64;
    let cases = (tier.pick(1600u32, 32000) / weight).max(40);
    let c = cell.clone();
    out.push(Rel::new(format!("hostile/{}", name), cases, words, move |t, o| sw_hostile::<P>(c.get_or_init(|| SwCtx::<P>::new(zcash, toy)), name, t, o)));
    if !toy {
        // every constructed on-curve point outside the subgroup (torsion points, one per line of E[l], sums with subgroup
        // points, ...), each sign, both compression modes, affine and projective target: run in full on every run
        let c = cell.clone();
        let c2 = cell.clone();
        out.push(
            Rel::new(format!("outside-all/{}", name), 0, 4, move |t, o| {
                let cx = c.get_or_init(|| SwCtx::<P>::new(zcash, toy));
                if cx.outside.is_empty() {
                    return Ok(());
                }
                let (q, l) = cx.outside[t.idx(cx.outside.len())];
                let q = if t.bool() { sw_neg(&q) } else { q };
                let comp = if t.bool() { Compress::Yes } else { Compress::No };
                let projective = t.bool();
                o.class(l);
                o.nt(true);
                o.show(|| format!("{}: {} {:?} ({}, {})", name, l, q, cname(comp), if projective { "projective" } else { "affine" }));
                let input = ser(&sw_to_affine::<P>(&q), comp)?;
                let ex = Expect { value: None, must_err: true, label: l };
                sw_run::<P>(cx, &input, comp, &ex, projective, o)
            })
            .exhaustive(move || {
                let n = c2.get_or_init(|| SwCtx::<P>::new(zcash, toy)).outside.len().max(1) as u64;
                Box::new((0..n).flat_map(|i| (0..8u64).map(move |b| vec![i, b & 1, (b >> 1) & 1, (b >> 2) & 1])))
            }),
        );
    }
    if toy {
        let ga = P::GENERATOR;
        let sc = ga.serialized_size(Compress::Yes);
        let su = ga.serialized_size(Compress::No);
        if sc == 2 {
            let c = cell.clone();
            out.push(
                Rel::new(format!("all-bytes.compressed/{}", name), 0, 2, move |t, o| {
                    sw_toy_bytes::<P>(c.get_or_init(|| SwCtx::<P>::new(zcash, true)), name, Compress::Yes, t, o)
                })
                .exhaustive(|| Box::new((0..256u64).flat_map(|a| (0..256u64).map(move |b| vec![a, b])))),
            );
        }
        if su == 3 {
            let c = cell.clone();
            const LAST_Q: &[u64] = &[0x00, 0x40, 0x80, 0xc0, 0x01];
            const LAST_T: &[u64] = &[0x00, 0x40, 0x80, 0xc0, 0x01, 0x41, 0x81, 0xc1, 0x20, 0xa0, 0x3f, 0xbf];
            let last: &'static [u64] = tier.pick(LAST_Q, LAST_T);
            out.push(
                Rel::new(format!("all-bytes.uncompressed/{}", name), 0, 3, move |t, o| {
                    sw_toy_bytes::<P>(c.get_or_init(|| SwCtx::<P>::new(zcash, true)), name, Compress::No, t, o)
                })
                .exhaustive(move || Box::new((0..256u64).flat_map(move |a| (0..256u64).flat_map(move |b| last.iter().map(move |l| vec![a, b, *l]))))),
            );
        }
    }
}

// ------------------------------------------------------------------------------------------
// twisted Edwards
// ------------------------------------------------------------------------------------------

struct TeCtx<P: TECurveConfig>
where
    P::BaseField: OracleRepr,
{
    tw: TowerOf<P::BaseField>,
    r: BigUint,
    toy: bool,
    pool: Vec<Te<P::BaseField>>,
    outside: Vec<(Te<P::BaseField>, &'static str)>,
    /// y coordinates without a point
    noroot: Vec<P::BaseField>,
    half: BigUint,
    lay: [Vec<Seg>; 2],
    size: [usize; 2],
    all: Vec<(Te<P::BaseField>, bool)>,
}

fn lift_te<P: TECurveConfig>(q: &Te<P::BaseField>) -> TeProj<P> {
    te_to_proj::<P>(q, &P::BaseField::one())
}

impl<P: TECurveConfig> TeCtx<P>
where
    P::BaseField: OracleRepr,
{
    fn a() -> P::BaseField {
        <P as TECurveConfig>::COEFF_A
    }
    fn d() -> P::BaseField {
        <P as TECurveConfig>::COEFF_D
    }
    fn on_curve(q: &Te<P::BaseField>) -> bool {
        te_on_curve(&Self::a(), &Self::d(), q)
    }
    /// r q = (0, 1)?  Toy curves and context construction: affine oracle law (an undefined addition means the
    /// multiple left the affine curve, so q is not in the odd-order subgroup). Otherwise double-and-add over the
    /// extended coordinates, decoded through raw coordinates.
    fn insub_exact(&self, q: &Te<P::BaseField>) -> bool {
        matches!(te_mul(&Self::a(), &Self::d(), q, &self.r), Some(z) if z == te_identity())
    }
    fn insub(&self, q: &Te<P::BaseField>) -> bool {
        if self.toy {
            return self.insub_exact(q);
        }
        let m = ref_mul(&lift_te::<P>(q), &self.r);
        matches!(te_from_proj::<P>(&m), Some((z, _)) if z == te_identity())
    }
    /// does an x exist for this y (harness evaluation of x^2 = (1 - y^2) / (a - d y^2))
    fn has_x(&self, y: &P::BaseField) -> bool {
        let y2 = y.square();
        let den = Self::a() - Self::d() * y2;
        match den.inverse() {
            None => false,
            Some(di) => is_square(&((P::BaseField::one() - y2) * di), &self.half),
        }
    }

    fn new(toy: bool) -> Self {
        let tw = TowerOf::<P::BaseField>::new();
        let r = big(P::ScalarField::MODULUS.as_ref());
        let h = big(P::COFACTOR);
        let d = tw.t.degree();
        let bits = tw.prime.bits;
        let half = (field_order(&tw) - 1u32) >> 1;
        let lay = [te_layout(d, bits, true), te_layout(d, bits, false)];
        let ga = <P as TECurveConfig>::GENERATOR;
        let g = te_from_affine::<P>(&ga);
        let size = [ga.serialized_size(Compress::Yes), ga.serialized_size(Compress::No)];
        let mut cx = TeCtx { tw, r: r.clone(), toy, pool: vec![g], outside: vec![], noroot: vec![], half, lay, size, all: vec![] };
        assert!(Self::on_curve(&g) && cx.insub_exact(&g), "generator");
        let gp = lift_te::<P>(&g);
        let dec = |q: &TeProj<P>| te_from_proj::<P>(q).expect("Z != 0").0;
        for k in [2u64, 3, 0xffff_ffff_ffff_fff1] {
            cx.pool.push(dec(&ref_mul(&gp, &BigUint::from(k))));
        }
        cx.pool.push(dec(&ref_mul(&gp, &((&r - 1u32) >> 1))));
        cx.pool.push(dec(&ref_mul(&gp, &(&r - 1u32))));
        for q in &cx.pool {
            assert!(Self::on_curve(q));
        }
        let one = P::BaseField::one();
        let zero = P::BaseField::zero();
        cx.outside.push((Te(zero, -one), "d.order-2"));
        if let Some(x) = Self::a().inverse().and_then(|ai| ai.sqrt()) {
            if Self::on_curve(&Te(x, zero)) {
                cx.outside.push((Te(x, zero), "d.order-4"));
            }
        }
        let mut raw: Vec<Te<P::BaseField>> = Vec::new();
        for yi in 2u64..200 {
            if cx.noroot.len() >= 3 && raw.len() >= 2 {
                break;
            }
            let y = P::BaseField::from(yi);
            if !cx.has_x(&y) {
                if cx.noroot.len() < 3 {
                    cx.noroot.push(y);
                }
            } else if raw.len() < 2 {
                if let Some(q) = TeAffine::<P>::get_point_from_y_unchecked(y, yi % 2 == 0) {
                    let q = te_from_affine::<P>(&q);
                    if Self::on_curve(&q) {
                        raw.push(q);
                    }
                }
            }
        }
        let (a, dd) = (Self::a(), Self::d());
        let primes = small_prime_factors(&h);
        for q in &raw {
            if !cx.insub_exact(q) {
                cx.outside.push((*q, "d.from-small-y"));
            }
            if let Some(tq) = te_mul(&a, &dd, q, &r) {
                if tq != te_identity() && !cx.insub_exact(&tq) {
                    cx.outside.push((tq, "d.order-divides-h"));
                    if let Some(s) = te_add(&a, &dd, &tq, &cx.pool[1]) {
                        cx.outside.push((s, "d.subgroup+torsion"));
                    }
                    for l in primes.iter().take(2) {
                        if let Some(s) = te_mul(&a, &dd, &tq, &(&h / *l)) {
                            if s != te_identity() && !cx.insub_exact(&s) {
                                cx.outside.push((s, "d.small-order"));
                            }
                        }
                    }
                }
            }
        }
        for (q, _) in &cx.outside {
            assert!(Self::on_curve(q) && !cx.insub_exact(q));
        }
        if toy {
            let pm = f_u64(&-P::BaseField::one()) + 1;
            for xi in 0..pm {
                for yi in 0..pm {
                    let q = Te(P::BaseField::from(xi), P::BaseField::from(yi));
                    if Self::on_curve(&q) {
                        let s = cx.insub_exact(&q);
                        cx.all.push((q, s));
                    }
                }
            }
        }
        cx
    }
}

fn te_run<P: TECurveConfig>(cx: &TeCtx<P>, input: &[u8], c: Compress, ex: &Expect<Te<P::BaseField>>, projective: bool, o: &mut Obs) -> R
where
    P::BaseField: OracleRepr,
{
    let size = cx.size[ci(c)];
    for val in [Validate::Yes, Validate::No] {
        let mut rd = CountRead::new(input);
        let mn = format!("{}.{}", cname(c), vname(val));
        let res: Result<(Te<P::BaseField>, bool), SerializationError> = if projective {
            let r = no_panic("deserialize.projective", || deser::<TeProj<P>, ()>(&mut rd, c, val))?;
            match r {
                Ok(q) => match te_from_proj::<P>(&q) {
                    Some((z, tok)) => Ok((z, tok && q.x.canonical() && q.y.canonical() && q.z.canonical() && q.t.canonical())),
                    None => return fail(format!("projective.z=0.{}", mn), format!("{}: input {} gives Z = 0", mn, hex(input))),
                },
                Err(e) => Err(e),
            }
        } else {
            no_panic("deserialize.affine", || deser::<TeAffine<P>, ()>(&mut rd, c, val))?.map(|q| (te_from_affine::<P>(&q), q.x.canonical() && q.y.canonical()))
        };
        ensure!(rd.pos <= size, format!("read-past-size.{}", cname(c)), "{}: {} bytes consumed, advertised size {}", mn, rd.pos, size);
        match res {
            Ok((q, canon)) => {
                o.class(if val == Validate::Yes { "ok.checked" } else { "ok.unchecked" });
                if val == Validate::Yes {
                    ensure!(canon, format!("coordinates-not-reduced.{}", mn), "{}: input {} gives non-reduced or inconsistent coordinates", mn, hex(input));
                    ensure!(
                        !ex.must_err,
                        format!("accepted.{}.{}", ex.label, mn),
                        "{}: class {} input {} accepted as {:?}",
                        mn,
                        ex.label,
                        hex(input),
                        q
                    );
                    ensure!(TeCtx::<P>::on_curve(&q), format!("off-curve.{}", mn), "{}: input {} accepted as {:?} which does not satisfy the curve equation", mn, hex(input), q);
                    ensure!(cx.insub(&q), format!("outside-subgroup.{}", mn), "{}: input {} accepted as {:?} but r*P != O", mn, hex(input), q);
                }
                if let Some(v) = &ex.value {
                    ensure!(q == *v, format!("valid.decodes-differently.{}", mn), "{}: encoding {} of {:?} decodes to {:?}", mn, hex(input), v, q);
                }
            },
            Err(err) => {
                ensure!(ex.value.is_none(), format!("valid.rejected.{}", mn), "{}: valid encoding {} of {:?} rejected: {:?}", mn, hex(input), ex.value, err);
            },
        }
    }
    Ok(())
}

fn te_hostile<P: TECurveConfig>(cx: &TeCtx<P>, name: &str, t: &mut Tape<'_>, o: &mut Obs) -> R
where
    P::BaseField: OracleRepr,
{
    let (a, d) = (TeCtx::<P>::a(), TeCtx::<P>::d());
    let mut c = if t.bool() { Compress::Yes } else { Compress::No };
    let projective = t.chance(1, 4);
    let base: Te<P::BaseField> = match t.weighted(&[1, 6, 2]) {
        0 => te_identity(),
        1 => {
            let s = te_add(&a, &d, &cx.pool[t.idx(cx.pool.len())], &cx.pool[t.idx(cx.pool.len())]).unwrap_or(cx.pool[0]);
            if t.bool() {
                te_neg(&s)
            } else {
                s
            }
        },
        _ => cx.pool[t.idx(cx.pool.len())],
    };
    let p = cx.tw.prime.p.clone();
    let bits = cx.tw.prime.bits;
    let mut ex = Expect { value: None, must_err: false, label: "" };
    let cls = t.weighted(&[2, 3, 2, 3, 4, 4, 3, 2, 3]);
    let mut input: Vec<u8> = match cls {
        0 => {
            ex.value = Some(base);
            ex.label = "a.valid";
            ser(&te_to_affine::<P>(&base), c)?
        },
        1 => {
            ex.label = "b.bit-flip";
            flip_bits(&ser(&te_to_affine::<P>(&base), c)?, t)
        },
        2 => {
            ex.label = "b.flags";
            mutate_flags(&ser(&te_to_affine::<P>(&base), c)?, &cx.lay[ci(c)], t)
        },
        3 => {
            c = Compress::Yes;
            let y = if t.chance(1, 2) && !cx.noroot.is_empty() {
                cx.noroot[t.idx(cx.noroot.len())]
            } else {
                let (e, _) = edge_elem(t, &cx.tw.t, &cx.tw.prime);
                let mut y = P::BaseField::from_o(&e);
                let mut found = None;
                for _ in 0..3 {
                    if !cx.has_x(&y) {
                        found = Some(y);
                        break;
                    }
                    y += P::BaseField::one();
                }
                found.unwrap_or(cx.noroot[0])
            };
            ex.label = "c.no-root";
            ex.must_err = true;
            let x = if t.bool() { P::BaseField::one() } else { -P::BaseField::one() };
            ser(&TeAffine::<P>::new_unchecked(x, y), c)?
        },
        4 => {
            let q = if t.chance(2, 3) {
                let (q, l) = cx.outside[t.idx(cx.outside.len())];
                ex.label = l;
                Some(if t.bool() { te_neg(&q) } else { q })
            } else {
                let (e, _) = edge_elem(t, &cx.tw.t, &cx.tw.prime);
                let mut y = P::BaseField::from_o(&e);
                let mut found = None;
                for _ in 0..8 {
                    if let Some(q) = TeAffine::<P>::get_point_from_y_unchecked(y, t.bool()) {
                        let q = te_from_affine::<P>(&q);
                        if TeCtx::<P>::on_curve(&q) && !cx.insub(&q) {
                            found = Some(q);
                        }
                        break;
                    }
                    y += P::BaseField::one();
                }
                ex.label = "d.from-y";
                found
            };
            match q {
                Some(q) => {
                    ex.must_err = true;
                    ser(&te_to_affine::<P>(&q), c)?
                },
                None => {
                    ex.label = "a.valid";
                    ex.value = Some(base);
                    ser(&te_to_affine::<P>(&base), c)?
                },
            }
        },
        5 => {
            c = Compress::No;
            let one = P::BaseField::one();
            let (x, y, l): (P::BaseField, P::BaseField, &'static str) = match t.weighted(&[2, 2, 2, 2]) {
                0 => (base.0, base.1 + one, "e.y+1"),
                1 => (base.0 + one, base.1, "e.x+1"),
                2 => (base.1, base.0, "e.swapped"),
                _ => {
                    let (e1, _) = edge_elem(t, &cx.tw.t, &cx.tw.prime);
                    let (e2, _) = edge_elem(t, &cx.tw.t, &cx.tw.prime);
                    (P::BaseField::from_o(&e1), P::BaseField::from_o(&e2), "e.random-xy")
                },
            };
            let q = Te(x, y);
            if TeCtx::<P>::on_curve(&q) {
                ex.label = "e.happens-to-be-on-curve";
            } else {
                ex.label = l;
                ex.must_err = true;
            }
            ser(&TeAffine::<P>::new_unchecked(x, y), c)?
        },
        6 => {
            let enc = ser(&te_to_affine::<P>(&base), c)?;
            let (b, l) = nonreduced(&enc, &cx.lay[ci(c)], &p, bits, t);
            ex.label = if l == "non-reduced.plus-p" { "f.non-reduced.plus-p" } else { "f.non-reduced.high-bit" };
            ex.must_err = true;
            b
        },
        7 => {
            let enc = ser(&te_to_affine::<P>(&base), c)?;
            let l = t.idx(enc.len());
            ex.label = "g.truncated";
            enc[..l].to_vec()
        },
        _ => {
            let total = cx.size[ci(c)];
            match t.below(3) {
                0 => {
                    ex.label = "h.uniform";
                    t.bytes(total)
                },
                1 => {
                    ex.label = "h.plausible";
                    plausible(&cx.lay[ci(c)], total, &p, cx.tw.prime.n, t)
                },
                _ => {
                    ex.label = "h.constant";
                    vec![if t.bool() { 0xff } else { 0 }; total]
                },
            }
        },
    };
    ensure!(
        layout_len(&cx.lay[ci(c)]) == cx.size[ci(c)],
        "size.layout",
        "serialized_size({}) = {}, layout expects {}",
        cname(c),
        cx.size[ci(c)],
        layout_len(&cx.lay[ci(c)])
    );
    if ex.label != "g.truncated" {
        let pad = t.idx(17);
        input.extend(t.bytes(pad));
    }
    o.class(ex.label);
    o.class(cname(c));
    o.nt(ex.label != "a.valid");
    o.show(|| format!("{}: {} {} {}", name, ex.label, cname(c), hex(&input)));
    o.evals(2);
    te_run::<P>(cx, &input, c, &ex, projective, o)
}

fn te_toy_expect<P: TECurveConfig>(cx: &TeCtx<P>, input: &[u8], c: Compress) -> Expect<Te<P::BaseField>>
where
    P::BaseField: OracleRepr,
{
    let lay = &cx.lay[ci(c)];
    let p = &cx.tw.prime.p;
    let mut ex = Expect { value: None, must_err: false, label: "exhaustive" };
    let ints: Vec<BigUint> = lay.iter().map(|s| s.get(input)).collect();
    if ints.iter().any(|n| n >= p) {
        ex.must_err = true;
        ex.label = "exhaustive.non-reduced";
        return ex;
    }
    let v0 = P::BaseField::from(ints[0].to_u64_digits().first().copied().unwrap_or(0));
    if c == Compress::Yes {
        let pts: Vec<&(Te<P::BaseField>, bool)> = cx.all.iter().filter(|(q, _)| q.1 == v0).collect();
        if pts.is_empty() {
            ex.must_err = true;
            ex.label = "exhaustive.no-root";
        } else if !pts[0].1 {
            ex.must_err = true;
            ex.label = "exhaustive.outside-subgroup";
        } else {
            ex.label = "exhaustive.subgroup-point";
        }
    } else {
        let q = Te(v0, P::BaseField::from(ints[1].to_u64_digits().first().copied().unwrap_or(0)));
        match cx.all.iter().find(|(z, _)| *z == q) {
            None => {
                ex.must_err = true;
                ex.label = "exhaustive.off-curve";
            },
            Some((_, false)) => {
                ex.must_err = true;
                ex.label = "exhaustive.outside-subgroup";
            },
            Some((_, true)) => {
                ex.label = "exhaustive.subgroup-point";
                ex.value = Some(q);
            },
        }
    }
    ex
}

fn te_toy_bytes<P: TECurveConfig>(cx: &TeCtx<P>, name: &str, c: Compress, t: &mut Tape<'_>, o: &mut Obs) -> R
where
    P::BaseField: OracleRepr,
{
    let n = cx.size[ci(c)];
    let input: Vec<u8> = (0..n).map(|_| t.below(256) as u8).collect();
    let ex = te_toy_expect::<P>(cx, &input, c);
    o.class(ex.label);
    o.nt(true);
    o.show(|| format!("{}: {} {} {}", name, ex.label, cname(c), hex(&input)));
    o.evals(2);
    te_run::<P>(cx, &input, c, &ex, false, o)
}

fn te_rels<P: TECurveConfig>(out: &mut Vec<Rel>, name: &'static str, tier: Tier, weight: u32, toy: bool)
where
    P::BaseField: OracleRepr,
{
    let cell: Arc<OnceLock<TeCtx<P>>> = Arc::new(OnceLock::new());
    let d = P::BaseField::extension_degree() as usize;
    let n = (<P::BaseField as Field>::BasePrimeField::MODULUS_BIT_SIZE as usize + 63) / 64;
    let words = 4 * d * (2 * n + 8) + 64;
    let cases = (tier.pick(1600u32, 32000) / weight).max(40);
    let c = cell.clone();
    out.push(Rel::new(format!("hostile/{}", name), cases, words, move |t, o| te_hostile::<P>(c.get_or_init(|| TeCtx::<P>::new(toy)), name, t, o)));
    if toy {
        let ga = <P as TECurveConfig>::GENERATOR;
        for (mode, sz) in [(Compress::Yes, ga.serialized_size(Compress::Yes)), (Compress::No, ga.serialized_size(Compress::No))] {
            if sz > 2 {
                continue;
            }
            let c = cell.clone();
            out.push(
                Rel::new(format!("all-bytes.{}/{}", cname(mode), name), 0, 2, move |t, o| te_toy_bytes::<P>(c.get_or_init(|| TeCtx::<P>::new(true)), name, mode, t, o)).exhaustive(
                    move || {
                        if sz == 1 {
                            Box::new((0..256u64).map(|a| vec![a]))
                        } else {
                            Box::new((0..256u64).flat_map(|a| (0..256u64).map(move |b| vec![a, b])))
                        }
                    },
                ),
            );
        }
    }
}

// ------------------------------------------------------------------------------------------
// pairing outputs
// ------------------------------------------------------------------------------------------

struct GtCtx<E: Pairing>
where
    E::TargetField: OracleRepr,
{
    tw: TowerOf<E::TargetField>,
    r: BigUint,
    /// powers g, g^2, g^3, g^(2^64-15), g^(r-1) of g = e(G1, G2)
    pool: Vec<E::TargetField>,
    lay: Vec<Seg>,
    size: usize,
    /// elements of small prime order l (l < 200, l | q^k - 1, l != r): w^((q^k-1)/l) for a few small w
    small: Vec<(u32, E::TargetField)>,
}

impl<E: Pairing> GtCtx<E>
where
    E::TargetField: OracleRepr,
{
    fn new() -> Self {
        let tw = TowerOf::<E::TargetField>::new();
        let r = big(E::ScalarField::MODULUS.as_ref());
        let g = E::pairing(E::G1Affine::generator(), E::G2Affine::generator()).0;
        assert!(!g.is_one() && ref_pow(&g, &r).is_one(), "e(G1,G2) must have order r");
        let mut pool = vec![g];
        for k in [2u64, 3, 0xffff_ffff_ffff_fff1] {
            pool.push(ref_pow(&g, &BigUint::from(k)));
        }
        pool.push(ref_pow(&g, &(&r - 1u32)));
        let lay = field_layout(0, tw.t.degree(), tw.prime.bits, 0);
        let size = PairingOutput::<E>(g).serialized_size(Compress::Yes);
        // small-order elements of the multiplicative group of the target field
        let order = field_order(&tw) - 1u32;
        let d = E::TargetField::extension_degree() as usize;
        let mut small = Vec::new();
        for l in 2u32..200 {
            if (2..l).any(|m| l % m == 0) || !(&order % l).is_zero() || BigUint::from(l) == r {
                continue;
            }
            let e = &order / l;
            for w0 in 2u64..6 {
                let mut cs = vec![<E::TargetField as Field>::BasePrimeField::zero(); d];
                cs[0] = <E::TargetField as Field>::BasePrimeField::from(w0);
                cs[d - 1] += <E::TargetField as Field>::BasePrimeField::one();
                if d > 2 {
                    cs[1] = <E::TargetField as Field>::BasePrimeField::from(w0 + 1);
                }
                let w = E::TargetField::from_base_prime_field_elems(cs).unwrap();
                let z = ref_pow(&w, &e);
                if !z.is_one() && !z.is_zero() {
                    small.push((l, z));
                    break;
                }
            }
        }
        // r-th roots of elements "close to one" of the subfield of half degree (r does not divide its group order, so
        // the root exists and is unique there): f = h^(1/r mod (q^(k/2) - 1)) has f^r = h != 1
        {
            let q = tw.prime.p.clone();
            let sub_order = q.pow((d / 2) as u32) - 1u32;
            if let Some(inv) = modinv(&(&r % &sub_order), &sub_order) {
                for j in 0..d / 2 {
                    for m in [1u64, 2] {
                        let mut cs = vec![<E::TargetField as Field>::BasePrimeField::zero(); d];
                        cs[0] = <E::TargetField as Field>::BasePrimeField::one();
                        cs[j] += <E::TargetField as Field>::BasePrimeField::from(m);
                        let hh = E::TargetField::from_base_prime_field_elems(cs).unwrap();
                        if hh.to_o() == E::TargetField::one().to_o() || hh.is_zero() {
                            continue;
                        }
                        let f = ref_pow(&hh, &inv);
                        if ref_pow(&f, &r).to_o() == hh.to_o() {
                            small.push((0, f));
                        }
                    }
                }
            }
        }
        GtCtx { tw, r, pool, lay, size, small }
    }
}

fn gt_hostile<E: Pairing>(cx: &GtCtx<E>, name: &str, t: &mut Tape<'_>, o: &mut Obs) -> R
where
    E::TargetField: OracleRepr,
{
    let p = cx.tw.prime.p.clone();
    let bits = cx.tw.prime.bits;
    ensure!(layout_len(&cx.lay) == cx.size, "size.layout", "serialized_size = {}, layout expects {}", cx.size, layout_len(&cx.lay));
    let base = cx.pool[t.idx(cx.pool.len())] * cx.pool[t.idx(cx.pool.len())];
    let one = E::TargetField::one();
    let enc_of = |f: &E::TargetField| ser(&PairingOutput::<E>(*f), Compress::Yes);
    // (element, label); membership is decided below by the reference power
    let (mut input, label, elem): (Vec<u8>, &'static str, Option<E::TargetField>) = match t.weighted(&[3, 1, 2, 2, 2, 1, 2, 3, 2, 3, 3]) {
        10 if !cx.small.is_empty() => {
            // valid element (or 1) times an element of small prime order of the target field's multiplicative group
            let (_, z) = cx.small[t.idx(cx.small.len())];
            let f = if t.chance(1, 4) { z } else { base * z };
            (enc_of(&f)?, "d.valid-times-small-order", Some(f))
        },
        0 => (enc_of(&base)?, "a.valid", Some(base)),
        1 => (enc_of(&one)?, "a.identity", Some(one)),
        2 => {
            let f = -base;
            (enc_of(&f)?, "d.minus-valid", Some(f))
        },
        3 => {
            // valid element times an element of the prime subfield
            let c = E::TargetField::from(t.range(2, 1 << 16));
            let f = base * c;
            (enc_of(&f)?, "d.valid-times-subfield", Some(f))
        },
        4 => {
            let (e, _) = edge_elem(t, &cx.tw.t, &cx.tw.prime);
            let f = E::TargetField::from_o(&e);
            (enc_of(&f)?, "d.arbitrary-element", Some(f))
        },
        5 => {
            let f = E::TargetField::zero();
            (enc_of(&f)?, "d.zero", Some(f))
        },
        6 => (flip_bits(&enc_of(&base)?, t), "b.bit-flip", None),
        7 => {
            let (b, l) = nonreduced(&enc_of(&base)?, &cx.lay, &p, bits, t);
            (b, if l == "non-reduced.plus-p" { "f.non-reduced.plus-p" } else { "f.non-reduced.high-bit" }, None)
        },
        8 => {
            let e = enc_of(&base)?;
            let l = t.idx(e.len());
            (e[..l].to_vec(), "g.truncated", None)
        },
        _ => (plausible(&cx.lay, cx.size, &p, cx.tw.prime.n, t), "h.plausible", None),
    };
    // decided on the oracle representation (coefficient by coefficient), not through the field's own `is_one`
    let one_o = E::TargetField::one().to_o();
    let in_gt = elem.map(|f| ref_pow(&f, &cx.r).to_o() == one_o);
    let must_err = in_gt == Some(false) || label.starts_with("f.");
    if label != "g.truncated" {
        let pad = t.idx(17);
        input.extend(t.bytes(pad));
    }
    o.class(label);
    o.class_if(in_gt == Some(true), "element-of-order-dividing-r");
    o.nt(!label.starts_with("a."));
    o.show(|| format!("{}: {} {}…", name, label, &hex(&input)[..64.min(2 * input.len())]));
    o.evals(4);
    for c in [Compress::Yes, Compress::No] {
        for val in [Validate::Yes, Validate::No] {
            let mn = format!("{}.{}", cname(c), vname(val));
            let mut rd = CountRead::new(&input);
            let res = no_panic("deserialize", || deser::<PairingOutput<E>, ()>(&mut rd, c, val))?;
            ensure!(rd.pos <= cx.size, "read-past-size", "{}: {} bytes consumed, advertised size {}", mn, rd.pos, cx.size);
            match res {
                Ok(f) => {
                    o.class(if val == Validate::Yes { "ok.checked" } else { "ok.unchecked" });
                    if val == Validate::Yes {
                        ensure!(f.0.canonical(), format!("coordinates-not-reduced.{}", mn), "non-reduced coefficients accepted");
                        ensure!(!must_err, format!("accepted.{}.{}", label, mn), "{}: class {} accepted: {:?}", mn, label, f.0.to_o());
                        ensure!(ref_pow(&f.0, &cx.r).to_o() == one_o, format!("not-in-target-group.{}", mn), "{}: accepted element with f^r != 1: {:?}", mn, f.0.to_o());
                    }
                    if let (Some(e), Some(true)) = (elem, in_gt) {
                        ensure!(f.0 == e, format!("valid.decodes-differently.{}", mn), "valid encoding decodes to a different element");
                    }
                },
                Err(err) => ensure!(in_gt != Some(true), format!("valid.rejected.{}", mn), "{}: encoding of an element with f^r = 1 rejected: {:?}", mn, err),
            }
        }
    }
    Ok(())
}

fn gt_rels<E: Pairing>(out: &mut Vec<Rel>, name: &'static str, tier: Tier, weight: u32)
where
    E::TargetField: OracleRepr,
{
    let cell: Arc<OnceLock<GtCtx<E>>> = Arc::new(OnceLock::new());
    let d = E::TargetField::extension_degree() as usize;
    let n = (<E::TargetField as Field>::BasePrimeField::MODULUS_BIT_SIZE as usize + 63) / 64;
    let words = 2 * d * (2 * n + 8) + 64;
    let cases = (tier.pick(600u32, 12000) / weight).max(30);
    out.push(Rel::new(format!("pairing-output/{}", name), cases, words, move |t, o| gt_hostile::<E>(cell.get_or_init(GtCtx::<E>::new), name, t, o)).shrink_iters(200));
}

// ------------------------------------------------------------------------------------------
// Vec<Affine>: the path real callers use (length prefix, elements read unchecked, batch_check afterwards)
// ------------------------------------------------------------------------------------------

fn vec_hostile<P: SWCurveConfig>(cx: &SwCtx<P>, name: &str, t: &mut Tape<'_>, o: &mut Obs) -> R
where
    P::BaseField: OracleRepr,
{
    let a = P::COEFF_A;
    let c = if t.bool() { Compress::Yes } else { Compress::No };
    let n = t.range(0, 6) as usize;
    let bad_at = if n > 0 && t.chance(3, 5) { Some(t.idx(n)) } else { None };
    let mut body = Vec::new();
    let mut pts = Vec::new();
    let mut bad_label = "all-valid";
    for i in 0..n {
        let q = sw_add(&a, &cx.pool[t.idx(cx.pool.len())], &cx.pool[t.idx(cx.pool.len())]);
        if Some(i) == bad_at {
            // off-curve (uncompressed), outside the subgroup, or without root (compressed)
            let k = t.below(3);
            if k == 0 && !cx.outside.is_empty() {
                let (z, _) = cx.outside[t.idx(cx.outside.len())];
                bad_label = "one-outside-subgroup";
                body.extend(ser(&sw_to_affine::<P>(&z), c)?);
            } else if c == Compress::No {
                let (x, y) = match cx.pool[0] {
                    Sw::Aff(x, y) => (x, y),
                    _ => unreachable!(),
                };
                let four = P::BaseField::from(4u64);
                bad_label = "one-off-curve";
                body.extend(ser(&SwAffine::<P>::new_unchecked(x * four, y * four.double()), c)?);
            } else {
                bad_label = "one-without-root";
                body.extend(ser(&SwAffine::<P>::new_unchecked(cx.noroot[0], P::BaseField::one()), c)?);
            }
        } else {
            body.extend(ser(&sw_to_affine::<P>(&q), c)?);
        }
        pts.push(q);
    }
    // length prefix: honest, or hostile (huge / larger than the data)
    let (len, llabel): (u64, &'static str) = match t.weighted(&[6, 1, 1, 1]) {
        0 => (n as u64, "honest-length"),
        1 => (u64::MAX, "length=2^64-1"),
        2 => (1 << t.range(20, 62), "length=2^k"),
        _ => (n as u64 + 1 + t.below(4), "length>data"),
    };
    let mut input = len.to_le_bytes().to_vec();
    input.extend(&body);
    let honest = llabel == "honest-length";
    if honest {
        let pad = t.idx(9);
        input.extend(t.bytes(pad));
    }
    o.class(bad_label);
    o.class(llabel);
    o.nt(bad_at.is_some() || !honest);
    o.show(|| format!("{}: Vec<Affine> {} n={} {} {} ({} bytes)", name, cname(c), n, bad_label, llabel, input.len()));
    let limit = 8 + (n + 8) * cx.size[ci(c)];
    for val in [Validate::Yes, Validate::No] {
        let mut rd = CountRead::new(&input);
        let res = no_panic("deserialize.vec", || deser::<Vec<SwAffine<P>>, ()>(&mut rd, c, val))?;
        ensure!(rd.pos <= limit, "read-past-size", "{} bytes consumed", rd.pos);
        match res {
            Ok(v) => {
                ensure!(honest, format!("vec.accepted.{}", llabel), "a vector whose length prefix exceeds the data was accepted ({} elements)", v.len());
                ensure!(v.len() == n, "vec.length", "{} elements for prefix {}", v.len(), n);
                if val == Validate::Yes {
                    ensure!(bad_at.is_none(), format!("vec.accepted.{}.{}", bad_label, cname(c)), "vector with an invalid element at {:?} accepted", bad_at);
                    for (q, want) in v.iter().zip(&pts) {
                        let q = sw_from_affine::<P>(q);
                        ensure!(SwCtx::<P>::on_curve(&q) && cx.insub(&q), "vec.invalid-element", "accepted element {:?} is not a subgroup point", q);
                        ensure!(q == *want, "vec.decodes-differently", "element decodes to {:?}, expected {:?}", q, want);
                    }
                }
            },
            Err(err) => ensure!(!(honest && bad_at.is_none()), "vec.valid-rejected", "valid vector rejected: {:?}", err),
        }
    }
    Ok(())
}

fn vec_rels<P: SWCurveConfig>(out: &mut Vec<Rel>, name: &'static str, tier: Tier, zcash: bool)
where
    P::BaseField: OracleRepr,
{
    let cell: Arc<OnceLock<SwCtx<P>>> = Arc::new(OnceLock::new());
    let cases = tier.pick(250u32, 5000);
    out.push(Rel::new(format!("vec/{}", name), cases, 64, move |t, o| vec_hostile::<P>(cell.get_or_init(|| SwCtx::<P>::new(zcash, false)), name, t, o)).isolated(64 << 20));
}

// ------------------------------------------------------------------------------------------
// containers of points: validation of the elements goes through `Valid::batch_check`, which `Projective` overrides
// (normalize_batch + Affine::batch_check), and through `Projective::check` (elements of tuples); neither is reached
// by deserializing a single point (that validates the affine point before converting it)
// ------------------------------------------------------------------------------------------

/// container shapes, encoded by the harness from the element encodings: `Vec<Proj>` (u64 length prefix),
/// `[Proj; 3]` (no prefix), `Vec<(Proj, Affine)>` (prefix = number of pairs), `Vec<Affine>`
const SHAPES: [&str; 4] = ["Vec<Projective>", "[Projective;3]", "Vec<(Projective,Affine)>", "Vec<Affine>"];

fn batch_len(shape: usize, big: u64, t: &mut Tape<'_>) -> (usize, &'static str) {
    if shape == 1 {
        return (3, "len=3");
    }
    let (n, l) = match t.weighted(&[5, 3, 1]) {
        0 => (t.range(1, 4), "len<=4"),
        1 => (t.range(5, 12), "len=5..12"),
        _ => (t.range(20, big), "len>=20"),
    };
    let n = n as usize;
    (if shape == 2 { 2 * ((n + 1) / 2) } else { n }, l)
}

fn batch_frame(shape: usize, n: usize, body: &[u8], t: &mut Tape<'_>) -> (Vec<u8>, usize) {
    let mut input = Vec::new();
    if shape != 1 {
        input.extend(((if shape == 2 { n / 2 } else { n }) as u64).to_le_bytes());
    }
    input.extend(body);
    let honest = input.len();
    let pad = t.idx(9);
    input.extend(t.bytes(pad));
    (input, honest)
}

/// `want[i]` = the point element i must decode to (None: the invalid element). `bad` = label of the invalid element.
fn batch_run<T: CanonicalDeserialize, Pt: PartialEq + std::fmt::Debug>(
    shape: &str,
    input: &[u8],
    honest: usize,
    c: Compress,
    want: &[Option<Pt>],
    bad: Option<&'static str>,
    decode: &dyn Fn(&T) -> Vec<Pt>,
) -> R {
    for val in [Validate::Yes, Validate::No] {
        let mut rd = CountRead::new(input);
        let res = no_panic("deserialize.container", || deser::<T, ()>(&mut rd, c, val))?;
        ensure!(rd.pos <= honest, "batch.read-past-size", "{}: {} bytes consumed of a {}-byte encoding", shape, rd.pos, honest);
        match res {
            Ok(v) => {
                if val == Validate::Yes {
                    ensure!(
                        bad.is_none(),
                        format!("batch.accepted.{}.{}", bad.unwrap_or(""), cname(c)),
                        "{} ({}, checked) with an invalid element ({}) at position {:?} of {} was accepted",
                        shape,
                        cname(c),
                        bad.unwrap_or(""),
                        want.iter().position(|w| w.is_none()),
                        want.len()
                    );
                }
                let got = decode(&v);
                ensure!(got.len() == want.len(), "batch.length", "{}: {} elements decoded, {} encoded", shape, got.len(), want.len());
                for (i, (g, w)) in got.iter().zip(want).enumerate() {
                    if let Some(w) = w {
                        ensure!(g == w, "batch.decodes-differently", "{} ({}, {}): element {} decodes to {:?}, expected {:?}", shape, cname(c), vname(val), i, g, w);
                    }
                }
            },
            Err(err) => ensure!(bad.is_some(), format!("batch.valid-rejected.{}", vname(val)), "{} ({}, {}) of {} valid subgroup points rejected: {:?}", shape, cname(c), vname(val), want.len(), err),
        }
    }
    Ok(())
}

fn batch_sw<P: SWCurveConfig>(cx: &SwCtx<P>, name: &str, big: u64, t: &mut Tape<'_>, o: &mut Obs) -> R
where
    P::BaseField: OracleRepr,
{
    let a = P::COEFF_A;
    let c = if t.bool() { Compress::Yes } else { Compress::No };
    let shape = t.weighted(&[4, 2, 3, 1]);
    let (n, llabel) = batch_len(shape, big, t);
    let bad_at = if t.chance(3, 5) { Some(t.idx(n)) } else { None };
    let mut body = Vec::new();
    let mut want: Vec<Option<Sw<P::BaseField>>> = Vec::new();
    let mut bad: Option<&'static str> = None;
    let mut n_id = 0;
    for i in 0..n {
        if Some(i) == bad_at {
            let k = t.below(3);
            if k == 0 && !cx.outside.is_empty() {
                let (z, _) = cx.outside[t.idx(cx.outside.len())];
                bad = Some("outside-subgroup");
                body.extend(ser(&sw_to_affine::<P>(&z), c)?);
            } else if c == Compress::No {
                let (x, y) = match cx.pool[t.idx(cx.pool.len())] {
                    Sw::Aff(x, y) => (x, y),
                    _ => unreachable!(),
                };
                // (4x, 8y) lies on y^2 = x^3 + 16 a x + 64 b; fall back to (x, y + 1) should that be the same curve
                let four = P::BaseField::from(4u64);
                let mut q = Sw::Aff(x * four, y * four.double());
                if SwCtx::<P>::on_curve(&q) {
                    q = Sw::Aff(x, y + P::BaseField::one());
                }
                assert!(!SwCtx::<P>::on_curve(&q));
                let Sw::Aff(qx, qy) = q else { unreachable!() };
                bad = Some("off-curve");
                body.extend(ser(&SwAffine::<P>::new_unchecked(qx, qy), c)?);
            } else {
                bad = Some("without-root");
                body.extend(ser(&SwAffine::<P>::new_unchecked(cx.noroot[t.idx(cx.noroot.len())], P::BaseField::one()), c)?);
            }
            want.push(None);
        } else {
            let q = if t.chance(1, 7) {
                n_id += 1;
                Sw::Inf
            } else {
                sw_add(&a, &cx.pool[t.idx(cx.pool.len())], &cx.pool[t.idx(cx.pool.len())])
            };
            body.extend(ser(&sw_to_affine::<P>(&q), c)?);
            want.push(Some(q));
        }
    }
    let (input, honest) = batch_frame(shape, n, &body, t);
    o.class(SHAPES[shape]);
    o.class(llabel);
    o.class(bad.unwrap_or("all-valid"));
    o.class(cname(c));
    o.class_if(n_id > 0, "contains-identity");
    o.class_if(bad_at == Some(n - 1), "invalid-element-last");
    o.class_if(bad_at == Some(0), "invalid-element-first");
    o.nt(bad.is_some() || n >= 2);
    o.evals(2);
    o.show(|| format!("{}: {} {} n={} {} at {:?} ({} bytes)", name, SHAPES[shape], cname(c), n, bad.unwrap_or("all-valid"), bad_at, input.len()));
    match shape {
        0 => batch_run::<Vec<SwProj<P>>, _>(SHAPES[0], &input, honest, c, &want, bad, &|v| v.iter().map(|q| sw_from_proj::<P>(q)).collect()),
        1 => batch_run::<[SwProj<P>; 3], _>(SHAPES[1], &input, honest, c, &want, bad, &|v| v.iter().map(|q| sw_from_proj::<P>(q)).collect()),
        2 => batch_run::<Vec<(SwProj<P>, SwAffine<P>)>, _>(SHAPES[2], &input, honest, c, &want, bad, &|v| {
            v.iter().flat_map(|(q, r)| [sw_from_proj::<P>(q), sw_from_affine::<P>(r)]).collect()
        }),
        _ => batch_run::<Vec<SwAffine<P>>, _>(SHAPES[3], &input, honest, c, &want, bad, &|v| v.iter().map(|q| sw_from_affine::<P>(q)).collect()),
    }
}

fn batch_te<P: TECurveConfig>(cx: &TeCtx<P>, name: &str, big: u64, t: &mut Tape<'_>, o: &mut Obs) -> R
where
    P::BaseField: OracleRepr,
{
    let (a, d) = (TeCtx::<P>::a(), TeCtx::<P>::d());
    let c = if t.bool() { Compress::Yes } else { Compress::No };
    let shape = t.weighted(&[4, 2, 3, 3]);
    let (n, llabel) = batch_len(shape, big, t);
    let bad_at = if t.chance(3, 5) { Some(t.idx(n)) } else { None };
    let mut body = Vec::new();
    let mut want: Vec<Option<Te<P::BaseField>>> = Vec::new();
    let mut bad: Option<&'static str> = None;
    let mut n_id = 0;
    let one = P::BaseField::one();
    for i in 0..n {
        if Some(i) == bad_at {
            let k = t.below(3);
            if k == 0 || (c == Compress::Yes && cx.noroot.is_empty()) {
                let (z, _) = cx.outside[t.idx(cx.outside.len())];
                bad = Some("outside-subgroup");
                body.extend(ser(&te_to_affine::<P>(&z), c)?);
            } else if c == Compress::No {
                let Te(x, y) = cx.pool[t.idx(cx.pool.len())];
                let mut q = Te(x + one, y);
                if TeCtx::<P>::on_curve(&q) {
                    q = Te(x + one + one, y);
                }
                assert!(!TeCtx::<P>::on_curve(&q));
                bad = Some("off-curve");
                body.extend(ser(&TeAffine::<P>::new_unchecked(q.0, q.1), c)?);
            } else {
                bad = Some("without-root");
                body.extend(ser(&TeAffine::<P>::new_unchecked(P::BaseField::zero(), cx.noroot[t.idx(cx.noroot.len())]), c)?);
            }
            want.push(None);
        } else {
            let q = if t.chance(1, 7) {
                n_id += 1;
                te_identity()
            } else {
                let i = t.idx(cx.pool.len());
                te_add(&a, &d, &cx.pool[i], &cx.pool[t.idx(cx.pool.len())]).unwrap_or(cx.pool[i])
            };
            body.extend(ser(&te_to_affine::<P>(&q), c)?);
            want.push(Some(q));
        }
    }
    let (input, honest) = batch_frame(shape, n, &body, t);
    o.class(SHAPES[shape]);
    o.class(llabel);
    o.class(bad.unwrap_or("all-valid"));
    o.class(cname(c));
    o.class_if(n_id > 0, "contains-identity");
    o.class_if(bad_at == Some(n - 1), "invalid-element-last");
    o.class_if(bad_at == Some(0), "invalid-element-first");
    o.nt(bad.is_some() || n >= 2);
    o.evals(2);
    o.show(|| format!("{}: {} {} n={} {} at {:?} ({} bytes)", name, SHAPES[shape], cname(c), n, bad.unwrap_or("all-valid"), bad_at, input.len()));
    let dp = |q: &TeProj<P>| te_from_proj::<P>(q).map(|z| z.0).unwrap_or(Te(P::BaseField::zero(), P::BaseField::zero()));
    match shape {
        0 => batch_run::<Vec<TeProj<P>>, _>(SHAPES[0], &input, honest, c, &want, bad, &|v| v.iter().map(dp).collect()),
        1 => batch_run::<[TeProj<P>; 3], _>(SHAPES[1], &input, honest, c, &want, bad, &|v| v.iter().map(dp).collect()),
        2 => batch_run::<Vec<(TeProj<P>, TeAffine<P>)>, _>(SHAPES[2], &input, honest, c, &want, bad, &|v| v.iter().flat_map(|(q, r)| [dp(q), te_from_affine::<P>(r)]).collect()),
        _ => batch_run::<Vec<TeAffine<P>>, _>(SHAPES[3], &input, honest, c, &want, bad, &|v| v.iter().map(|q| te_from_affine::<P>(q)).collect()),
    }
}

fn batch_sw_rels<P: SWCurveConfig>(out: &mut Vec<Rel>, name: &'static str, tier: Tier, weight: u32, zcash: bool)
where
    P::BaseField: OracleRepr,
{
    let cell: Arc<OnceLock<SwCtx<P>>> = Arc::new(OnceLock::new());
    let cases = (tier.pick(400u32, 8000) / weight).max(40);
    let big = tier.pick(40u64, 120);
    out.push(
        Rel::new(format!("batch/{}", name), cases, 6 * big as usize + 64, move |t, o| batch_sw::<P>(cell.get_or_init(|| SwCtx::<P>::new(zcash, false)), name, big, t, o)).shrink_iters(200),
    );
}

fn batch_te_rels<P: TECurveConfig>(out: &mut Vec<Rel>, name: &'static str, tier: Tier, weight: u32)
where
    P::BaseField: OracleRepr,
{
    let cell: Arc<OnceLock<TeCtx<P>>> = Arc::new(OnceLock::new());
    let cases = (tier.pick(400u32, 8000) / weight).max(40);
    let big = tier.pick(40u64, 120);
    out.push(Rel::new(format!("batch/{}", name), cases, 6 * big as usize + 64, move |t, o| batch_te::<P>(cell.get_or_init(|| TeCtx::<P>::new(false)), name, big, t, o)).shrink_iters(200));
}

// ------------------------------------------------------------------------------------------

fn relations(tier: Tier) -> Vec<Rel> {
    let mut out = Vec::new();
    macro_rules! zf {
        ($($n:ident),*) => { $( field_rels::<vh_core::zoo::$n>(&mut out, concat!("zoo.", stringify!($n)), tier, 1); )* };
    }
    zf!(T3, T251, M31, P64, P65, P128, P250, C25519, Secp256k1, B5, N6, B8, N13, H1n);
    macro_rules! tower {
        ($ty:ty, $name:expr, $w:expr) => {
            field_rels::<$ty>(&mut out, $name, tier, $w);
        };
    }
    tower!(ZSecpFq2, "harness.Fp2(secp256k1 modulus)", 2);
    tower!(ark_bls12_381::Fq2, "bls12_381.Fq2", 2);
    tower!(ark_bls12_381::Fq12, "bls12_381.Fq12", 12);
    tower!(ark_mnt6_298::Fq3, "mnt6_298.Fq3", 3);
    tower!(ark_mnt6_298::Fq6, "mnt6_298.Fq6", 6);
    tower!(ark_mnt4_753::Fq4, "mnt4_753.Fq4", 8);

    macro_rules! sw {
        ($cfg:ty, $name:expr, $z:expr, $w:expr) => {
            sw_rels::<$cfg>(&mut out, $name, tier, $w, $z, false);
        };
    }
    for_each_shipped_sw!(sw);
    for_each_helper_sw!(sw);
    macro_rules! te {
        ($cfg:ty, $name:expr, $z:expr, $w:expr) => {
            te_rels::<$cfg>(&mut out, $name, tier, $w, false);
        };
    }
    for_each_shipped_te!(te);
    for_each_helper_te!(te);
    macro_rules! toysw {
        ($cfg:ty, $name:expr, $p:expr, $a:expr, $b:expr, $h:expr, $r:expr, $big:expr) => {
            sw_rels::<$cfg>(&mut out, concat!("toy.", $name), tier, 1, false, true);
        };
    }
    vh_core::for_each_toy_sw!(toysw);
    macro_rules! toyte {
        ($cfg:ty, $name:expr, $p:expr, $a:expr, $d:expr, $h:expr, $r:expr, $complete:expr, $big:expr) => {
            te_rels::<$cfg>(&mut out, concat!("toy.", $name), tier, 1, true);
        };
    }
    vh_core::for_each_toy_te!(toyte);

    gt_rels::<ark_bls12_381::Bls12_381>(&mut out, "bls12_381", tier, 3);
    gt_rels::<ark_bn254::Bn254>(&mut out, "bn254", tier, 2);
    gt_rels::<ark_bls12_377::Bls12_377>(&mut out, "bls12_377", tier, 3);
    gt_rels::<ark_mnt4_298::MNT4_298>(&mut out, "mnt4_298", tier, 1);
    gt_rels::<ark_mnt6_298::MNT6_298>(&mut out, "mnt6_298", tier, 2);
    gt_rels::<ark_bw6_761::BW6_761>(&mut out, "bw6_761", tier, 6);
    gt_rels::<ark_bw6_767::BW6_767>(&mut out, "bw6_767", tier, 6);
    gt_rels::<ark_cp6_782::CP6_782>(&mut out, "cp6_782", tier, 8);
    gt_rels::<ark_mnt4_753::MNT4_753>(&mut out, "mnt4_753", tier, 8);
    gt_rels::<ark_mnt6_753::MNT6_753>(&mut out, "mnt6_753", tier, 8);

    vec_rels::<ark_bls12_381::g1::Config>(&mut out, "bls12_381.G1", tier, true);
    vec_rels::<ark_bn254::g1::Config>(&mut out, "bn254.G1", tier, false);
    vec_rels::<ark_bls12_377::g1::Config>(&mut out, "bls12_377.G1", tier, false);

    batch_sw_rels::<ark_bls12_381::g1::Config>(&mut out, "bls12_381.G1", tier, 2, true);
    batch_sw_rels::<ark_bn254::g2::Config>(&mut out, "bn254.G2", tier, 3, false);
    batch_sw_rels::<ark_bls12_377::g1::Config>(&mut out, "bls12_377.G1", tier, 2, false);
    batch_sw_rels::<ark_secp256k1::Config>(&mut out, "secp256k1", tier, 1, false);
    batch_te_rels::<ark_ed_on_bls12_381::JubjubConfig>(&mut out, "jubjub.TE", tier, 1);
    batch_te_rels::<ark_ed_on_bls12_381_bandersnatch::BandersnatchConfig>(&mut out, "bandersnatch.TE", tier, 1);
    batch_te_rels::<ark_ed25519::EdwardsConfig>(&mut out, "ed25519", tier, 1);
    out
}

fn main() {
    vh_core::engine::main(PropSpec {
        id: "C10",
        rule: "Byte strings are built by class and fed to deserialize_with_mode or, for about half of the strings (a hash of the bytes decides), to the convenience method documented as its synonym (deserialize_compressed / _unchecked / deserialize_uncompressed / _unchecked) (Affine 3/4, Projective 1/4) in one compression mode and both validation modes, behind a counting reader, followed by 0..16 random padding bytes: (a) valid encodings of subgroup points; (b) 1..3 bit flips, arbitrary flag patterns (generic 2-bit SW / 1-bit TE flags, 3-flag zcash header of curves/bls12_381); (c) compressed x (resp. y) without square root by the harness' Euler criterion; (d) on-curve points outside the subgroup (from small/edge x, r*R, points of small prime order (for l <= 64 with two-dimensional l-torsion one point on every line of E[l]), subgroup point + torsion point; TE: orders 2 and 4), verified by reference multiplication; (e) off-curve (x,y) uncompressed: (t^2 x, t^3 y) with t in the prime subfield, y+1, x+1, random, verified with the harness' curve equation; (f) coordinates + p or with an unused high bit set; (g) truncation to a shorter length; (h) uniform / plausible (all coordinates reduced) / constant bytes. Same for 14 prime fields, 6 towers and PairingOutput of 10 pairings (-g, g*c with c in F_p, g*z and z for z of small prime order l < 200 in the target field's multiplicative group or an r-th root of an element 1 + m*e_j of the half-degree subfield, arbitrary elements, 0). Toy curves additionally: every 2-byte (1-byte) compressed string and every (x byte, y byte, 5 values of the flag byte) uncompressed string exhaustively, with the expectation derived from the harness' own decoding and point table. Vec<Affine> with hostile length prefixes runs in a child process under an allocation guard. Containers whose element validation goes through Projective::batch_check / Projective::check (batch/*: Vec<Projective>, [Projective;3], Vec<(Projective,Affine)>, Vec<Affine> of 1..40 (thorough 120) elements on 4 SW and 3 TE curves, framed by the harness from element encodings: subgroup points, identities and at most one invalid element - outside the subgroup incl. the order-2 point with x = 0, off-curve, without root - at a random position) must be rejected with Validate::Yes exactly when an invalid element is present and otherwise decode element-wise to the encoded points. The curve lists include the SWU-isogenous helper curves of bls12_381 / bls12_377 (WBConfig::IsogenousCurve) and test-curves' secp256k1 and ed_on_bls12_381. Oracles: no panic; bytes consumed <= serialized_size; Validate::Yes and Ok(P) => coordinates reduced, curve equation holds as evaluated by vh_core::curve, r*P = O by double-and-add over double_in_place/+= (toy: affine oracle law); classes (c)-(f) must be Err with Validate::Yes; class (a) must be Ok with the same point; PairingOutput: f^r = 1 by square-and-multiply. Non-trivial: class other than (a); distinct = distinct decoded choice sequences.",
        assumptions: &[
            "hostile encodings of (c)-(e) are produced with arkworks' own serializer from unchecked points (C09 checks the serializer); (f) and flag mutations use the harness' description of the byte layout (size.layout fails if it disagrees with serialized_size)",
            "Validate::No carries no validity requirement (only no panic / bounded read); truncated inputs carry no Err requirement beyond the generic oracle",
            "reference multiplication uses arkworks' projective addition/doubling (C03's subject); on twisted-Edwards curves with an incomplete law the context points are classified with the affine oracle law",
            "compressed infinity with a non-zero x and the sign flag in uncompressed form are accepted encodings of valid points (not a violation of the statement)",
        ],
        relations,
    })
}
