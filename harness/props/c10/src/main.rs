//! C10 — not implemented yet.
fn main() {
    eprintln!("C10: check not implemented");
    std::process::exit(2);
}
