#!/bin/bash
# thorough tier: coverage-guided stage (libFuzzer target with in-target oracle), see tools/fuzz_stage.sh
[ "${1:-quick}" = "thorough" ] || exit 0
ROOT="${VERIF_ROOT:-/verif}"
exec "$ROOT/tools/fuzz_stage.sh" C10 point_deser 400000 300 8
