//! Short-Weierstrass curves: membership test, cofactor clearing, constants, sampling.
use crate::common::*;
use ark_ec::short_weierstrass::{Affine, Projective, SWCurveConfig};
use ark_ec::{AffineRepr, CurveGroup, PrimeGroup};
use ark_ff::{One, PrimeField, UniformRand, Zero};
use ark_std::rand::{rngs::StdRng, SeedableRng};
use num_bigint::BigUint;
use std::sync::Arc;
use vh_core::curve::{sw_from_affine, sw_on_curve};
use vh_core::engine::{no_panic, Obs, Tape, R};
use vh_core::gen::big_below;
use vh_core::{ensure, fail};

pub type Src<P> = Arc<dyn Fn(&mut Tape<'_>) -> (Affine<P>, &'static str) + Send + Sync>;

pub struct SwCtx<P: SWCurveConfig> {
    pub name: String,
    pub r: BigUint,
    pub h: BigUint,
    /// the integer the documentation gives for `clear_cofactor` (the cofactor unless the curve crate says otherwise)
    pub c: Option<BigUint>,
    /// where `c` comes from (goes into the failure signature)
    pub c_doc: &'static str,
    pub src: Src<P>,
    #[allow(dead_code)]
    pub do_rand: bool,
}

pub fn cofactor_of<P: SWCurveConfig>() -> BigUint {
    vh_core::modint::big(P::COFACTOR)
}

/// first point with abscissa x, x+1, x+2, ... (x drawn from a generator seeded by the tape)
pub fn from_x<P: SWCurveConfig>(t: &mut Tape<'_>) -> Affine<P> {
    let mut rng = StdRng::seed_from_u64(t.u64());
    let mut x = P::BaseField::rand(&mut rng);
    let greatest = t.bool();
    for _ in 0..512 {
        if let Some(p) = Affine::<P>::get_point_from_x_unchecked(x, greatest) {
            return p;
        }
        x += P::BaseField::one();
    }
    P::GENERATOR
}

/// points of the whole curve for a shipped configuration
pub fn shipped_src<P: SWCurveConfig>() -> Src<P> {
    let r = modulus_of::<P::ScalarField>();
    let h = cofactor_of::<P>();
    let ells = small_prime_factors(&h);
    let n = &r * &h;
    Arc::new(move |t| {
        let g = Projective::<P>::generator();
        let cls = t.weighted(&[1, 1, 3, 8, 3, 3, 3, 2, 1]);
        match cls {
            0 => (Affine::<P>::identity(), "P=identity"),
            1 => (P::GENERATOR, "P=G"),
            2 => (ref_mul(&g, &big_below(t, &r)).into_affine(), "P=subgroup"),
            3 => (from_x::<P>(t), "P=from-x"),
            8 => {
                // the points with a zero abscissa (0, +-sqrt b), where they exist (in the subgroup on cofactor-one curves,
                // of order 3 on the j = 0 curves), alone or added to a subgroup point; otherwise an ordinary from-x point
                let greatest = t.bool();
                match Affine::<P>::get_point_from_x_unchecked(<P::BaseField as Zero>::zero(), greatest) {
                    Some(z) => {
                        if t.bool() {
                            let s = ref_mul(&g, &big_below(t, &r));
                            ((s + z).into_affine(), "P=subgroup+x-zero")
                        } else {
                            (z, "P=x-zero")
                        }
                    },
                    None => (from_x::<P>(t), "P=from-x"),
                }
            },
            _ => {
                let rr: Projective<P> = from_x::<P>(t).into();
                // a point of small prime order l | h, or the whole cofactor-torsion component of R
                let (tors, small) = if !ells.is_empty() && (cls == 4 || cls == 6) {
                    let l = ells[t.idx(ells.len())];
                    (order_l_component::<P>(&rr, &n, l), true)
                } else {
                    (ref_mul(&rr, &r), false)
                };
                if cls >= 6 {
                    let s = ref_mul(&g, &big_below(t, &r));
                    ((s + tors).into_affine(), if small { "P=subgroup+small-order" } else { "P=subgroup+torsion" })
                } else {
                    (tors.into_affine(), if small { "P=small-order" } else { "P=torsion" })
                }
            },
        }
    })
}

/// The l-primary component of `r` pushed down to order l: (n / l^v) * R lies in the l-Sylow subgroup (l^v || n);
/// multiplying by l while the result stays non-zero leaves an element of order exactly l (or the identity).
/// (Multiplying by n / l instead would kill the whole l-part whenever the l-torsion is not cyclic.)
fn order_l_component<P: SWCurveConfig>(rr: &Projective<P>, n: &BigUint, l: u64) -> Projective<P> {
    let lb = BigUint::from(l);
    let mut e = n.clone();
    while (&e % &lb).is_zero() {
        e /= &lb;
    }
    let mut t = ref_mul(rr, &e);
    // at most v_l(n) steps when n annihilates the curve; bounded in any case (a wrong COFACTOR constant must surface as a
    // violation of the relations, not as an endless loop of the generator)
    for _ in 0..4096 {
        let next = ref_mul(&t, &lb);
        if next.is_zero() {
            return t;
        }
        t = next;
    }
    t
}

/// Points whose cofactor component runs over *all* of E[l] (not just one random element of it): for a small prime
/// l | h, T = a*T1 + b*T2 with T1, T2 the order-l components of two fixed curve points and (a, b) from the tape.
/// When l^2 | h the l-torsion can be two-dimensional and an endomorphism-based membership test can be wrong on a
/// single eigenline only; enumerating (a, b) reaches every line.
pub fn torsion_src<P: SWCurveConfig>() -> Src<P> {
    let r = modulus_of::<P::ScalarField>();
    let h = cofactor_of::<P>();
    // every prime factor of the cofactor below 2^21 (BLS12-381 G1: 3, 11, 10177, 859267; G2: 13, 23, 2713, 11953, 262069;
    // BN254 G2: 10069; ...): for the larger ones (a, b) is a random element of (Z/l)^2 instead of a sweep
    let ells = prime_factors_below(&h, 1 << 21);
    let n = &r * &h;
    let fixed = |seed: u64| -> Projective<P> {
        let words = [seed, 0];
        let mut t = Tape::new(&words, false);
        from_x::<P>(&mut t).into()
    };
    let (r1, r2) = (fixed(0x5eed_0001), fixed(0x5eed_0002));
    // the two order-l points per l are a pure function of (curve, l): computed once and kept
    let cache: std::sync::Mutex<std::collections::BTreeMap<u64, (Projective<P>, Projective<P>)>> = Default::default();
    Arc::new(move |t| {
        if ells.is_empty() {
            return (from_x::<P>(t), "P=from-x");
        }
        let l = ells[t.idx(ells.len())];
        let cached = cache.lock().unwrap().get(&l).copied();
        let (t1, t2) = match cached {
            Some(v) => v,
            None => {
                let v = (order_l_component::<P>(&r1, &n, l), order_l_component::<P>(&r2, &n, l));
                cache.lock().unwrap().insert(l, v);
                v
            },
        };
        let a = t.below(l);
        let b = t.below(l);
        let tors = ref_mul(&t1, &BigUint::from(a)) + ref_mul(&t2, &BigUint::from(b));
        let big_l = l >= 2000;
        if t.bool() {
            let g = Projective::<P>::generator();
            let s = ref_mul(&g, &big_below(t, &r));
            ((s + tors).into_affine(), if big_l { "P=subgroup+l-torsion-combination(l>=2000)" } else { "P=subgroup+l-torsion-combination" })
        } else {
            (tors.into_affine(), if big_l { "P=l-torsion-combination(l>=2000)" } else { "P=l-torsion-combination" })
        }
    })
}

fn on_curve<P: SWCurveConfig>(p: &Affine<P>) -> bool {
    sw_on_curve(&P::COEFF_A, &P::COEFF_B, &sw_from_affine(p))
}

pub fn member<P: SWCurveConfig>(c: &SwCtx<P>, t: &mut Tape<'_>, o: &mut Obs) -> R {
    let (p, cls) = (c.src)(t);
    o.show(|| format!("{}: is_in_correct_subgroup_assuming_on_curve({}) [{}]", c.name, p, cls));
    o.class(cls);
    ensure!(on_curve(&p), "generator.off-curve", "generated point {} is not on the curve", p);
    let want = ref_mul(&p.into_group(), &c.r).is_zero();
    o.nt(!want);
    o.class_if(want, "in-subgroup");
    o.class_if(!want, "outside-subgroup");
    let got = no_panic("is_in_correct_subgroup", || p.is_in_correct_subgroup_assuming_on_curve())?;
    if got != want {
        let sig = if got { "membership.accepts-outside" } else { "membership.rejects-inside" };
        return fail(sig, format!("is_in_correct_subgroup_assuming_on_curve({}) = {} but r·P {} the identity [{}]", p, got, if want { "is" } else { "is not" }, cls));
    }
    let got2 = no_panic("config.is_in_correct_subgroup", || P::is_in_correct_subgroup_assuming_on_curve(&p))?;
    ensure!(got2 == want, "membership.config", "P::is_in_correct_subgroup_assuming_on_curve({}) = {}", p, got2);
    Ok(())
}

pub fn clear<P: SWCurveConfig>(c: &SwCtx<P>, t: &mut Tape<'_>, o: &mut Obs) -> R {
    let (p, pc) = (c.src)(t);
    let (q, qc) = (c.src)(t);
    let k = match t.weighted(&[2, 2, 3]) {
        0 => BigUint::from(t.range(2, 9)),
        1 => BigUint::from(t.u64()),
        _ => big_below(t, &c.r),
    };
    o.show(|| format!("{}: clear_cofactor P={} [{}] Q={} [{}] k=0x{:x}", c.name, p, pc, q, qc, k));
    o.class(pc);
    ensure!(on_curve(&p) && on_curve(&q), "generator.off-curve", "generated point is not on the curve");
    let pg = p.into_group();
    let outside = !ref_mul(&pg, &c.r).is_zero();
    o.nt(outside);
    o.class_if(outside, "outside-subgroup");
    o.evals(8);
    let cp = no_panic("clear_cofactor", || p.clear_cofactor())?;
    ensure!(on_curve(&cp), "clear.off-curve", "clear_cofactor({}) = {} is not on the curve", p, cp);
    // the configuration-level spelling and the trait-qualified one are the same map
    let cp2 = no_panic("config.clear_cofactor", || P::clear_cofactor(&p))?;
    ensure!(cp2 == cp, "clear.config", "P::clear_cofactor(&P) = {} but P.clear_cofactor() = {}", cp2, cp);
    let cp3 = no_panic("AffineRepr::clear_cofactor", || <Affine<P> as AffineRepr>::clear_cofactor(&p))?;
    ensure!(cp3 == cp, "clear.trait", "AffineRepr::clear_cofactor(&P) = {} but P.clear_cofactor() = {}", cp3, cp);
    ensure!(ref_mul(&cp.into_group(), &c.r).is_zero(), "clear.not-in-subgroup", "clear_cofactor({}) = {} is not killed by r", p, cp);
    ensure!(no_panic("is_in_correct_subgroup", || cp.is_in_correct_subgroup_assuming_on_curve())?, "clear.membership", "membership test rejects clear_cofactor({}) = {}", p, cp);
    if let Some(cc) = &c.c {
        let want = ref_mul(&pg, cc).into_affine();
        if cp != want {
            return fail(format!("clear.equals-{}", c.c_doc), format!("clear_cofactor({}) = {} but [{}]P = {} (c = 0x{:x})", p, cp, c.c_doc, want, cc));
        }
    }
    // additive
    let cq = no_panic("clear_cofactor", || q.clear_cofactor())?;
    let sum = (pg + q).into_affine();
    let csum = no_panic("clear_cofactor", || sum.clear_cofactor())?;
    ensure!(csum == (cp.into_group() + cq).into_affine(), "clear.additive", "clear(P+Q) = {} but clear(P)+clear(Q) = {} for P={} Q={}", csum, (cp.into_group() + cq).into_affine(), p, q);
    // commutes with scalars
    let kp = ref_mul(&pg, &k).into_affine();
    let ckp = no_panic("clear_cofactor", || kp.clear_cofactor())?;
    let kcp = ref_mul(&cp.into_group(), &k).into_affine();
    ensure!(ckp == kcp, "clear.scalar", "clear([k]P) = {} but [k]clear(P) = {} for P={} k=0x{:x}", ckp, kcp, p, k);
    // multiplication by the cofactor and by its inverse
    let hp = ref_mul(&pg, &c.h);
    let got = no_panic("mul_by_cofactor", || p.mul_by_cofactor())?;
    ensure!(got == hp.into_affine(), "mul_by_cofactor", "mul_by_cofactor({}) = {} expected {}", p, got, hp.into_affine());
    let got = no_panic("mul_by_cofactor_to_group", || p.mul_by_cofactor_to_group())?;
    ensure!(got == hp, "mul_by_cofactor_to_group", "mul_by_cofactor_to_group({}) = {} expected {}", p, got.into_affine(), hp.into_affine());
    // on the subgroup: inverse of the cofactor undoes the cofactor
    let s = if outside { cp } else { p };
    let back = no_panic("mul_by_cofactor_inv", || s.mul_by_cofactor().mul_by_cofactor_inv())?;
    ensure!(back == s, "cofactor_inv.roundtrip", "mul_by_cofactor_inv(mul_by_cofactor(S)) = {} for the subgroup point S = {}", back, s);
    let back = no_panic("mul_by_cofactor_inv", || s.mul_by_cofactor_inv().mul_by_cofactor())?;
    ensure!(back == s, "cofactor_inv.roundtrip2", "mul_by_cofactor(mul_by_cofactor_inv(S)) = {} for the subgroup point S = {}", back, s);
    Ok(())
}

/// constants: one deterministic case
pub fn consts<P: SWCurveConfig>(c: &SwCtx<P>, _t: &mut Tape<'_>, o: &mut Obs) -> R {
    let hinv = fr_big(&P::COFACTOR_INV);
    o.show(|| format!("{}: COFACTOR=0x{:x} COFACTOR_INV=0x{:x} r=0x{:x}", c.name, c.h, hinv, c.r));
    o.nt(c.h > BigUint::one());
    o.evals(5);
    ensure!(!(&c.h % &c.r).is_zero(), "consts.cofactor-multiple-of-r", "COFACTOR is a multiple of r");
    ensure!((&c.h * &hinv) % &c.r == BigUint::one(), "consts.cofactor_inv", "COFACTOR * COFACTOR_INV = 0x{:x} (mod r), expected 1", (&c.h * &hinv) % &c.r);
    {
        // COFACTOR * r annihilates the curve: two fixed points of the whole curve
        let n = &c.h * &c.r;
        for seed in [0x5eed_0011u64, 0x5eed_0012] {
            let words = [seed, 0];
            let mut tt = Tape::new(&words, false);
            let rr: Projective<P> = from_x::<P>(&mut tt).into();
            ensure!(ref_mul(&rr, &n).is_zero(), "consts.cofactor.kills-curve", "(COFACTOR * r) * R is not the identity for the curve point R = {}", rr.into_affine());
        }
    }
    ensure!(P::cofactor_is_one() == c.h.is_one(), "consts.cofactor_is_one", "cofactor_is_one() = {} for COFACTOR = 0x{:x}", P::cofactor_is_one(), c.h);
    let g = P::GENERATOR;
    ensure!(on_curve(&g) && !g.is_zero(), "consts.generator.on-curve", "generator is not a finite point of the curve");
    ensure!(ref_mul(&g.into_group(), &c.r).is_zero(), "consts.generator.order", "r·G is not the identity");
    ensure!(g.is_in_correct_subgroup_assuming_on_curve(), "consts.generator.membership", "membership test rejects the generator");
    ensure!(!no_panic("clear_cofactor", || g.clear_cofactor())?.is_zero(), "clear.kills-generator", "clear_cofactor(G) is the identity");
    ensure!(Affine::<P>::identity().is_in_correct_subgroup_assuming_on_curve(), "membership.identity", "membership test rejects the identity");
    ensure!(Affine::<P>::identity().clear_cofactor().is_zero(), "clear.identity", "clear_cofactor(identity) is not the identity");
    if let Some(cc) = &c.c {
        ensure!(!(cc % &c.r).is_zero(), "consts.c-multiple-of-r", "documented clearing integer is a multiple of r");
    }
    Ok(())
}

/// `rand` only produces subgroup points (generator seeded from the tape)
pub fn rand<P: SWCurveConfig>(c: &SwCtx<P>, t: &mut Tape<'_>, o: &mut Obs) -> R {
    let seed = t.u64();
    let mut rng = StdRng::seed_from_u64(seed);
    o.show(|| format!("{}: 2 x Affine::rand + 2 x Projective::rand from StdRng seed {:#x}", c.name, seed));
    o.nt(c.h > BigUint::one());
    o.evals(4);
    for i in 0..4 {
        let p: Affine<P> = if i % 2 == 0 { no_panic("rand.affine", || Affine::<P>::rand(&mut rng))? } else { no_panic("rand.projective", || Projective::<P>::rand(&mut rng))?.into_affine() };
        ensure!(on_curve(&p), "rand.off-curve", "rand sample {} is not on the curve", p);
        ensure!(ref_mul(&p.into_group(), &c.r).is_zero(), "rand.outside-subgroup", "rand sample {} (seed {:#x}, draw {}) is not killed by r", p, seed, i);
    }
    Ok(())
}

#[allow(dead_code)]
fn _b<F: PrimeField>() {}
