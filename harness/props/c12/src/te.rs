//! Twisted-Edwards curves. Everything is compared with the affine Edwards-law oracle of vh_core::curve
//! (`te_add`, `te_mul`), which reports an exceptional pair as `None`. On curves whose law is complete
//! (a square, d non-square) that never happens; on the others a case is only judged when the oracle chain
//! (the same left-to-right chain the default implementations walk) is free of exceptional pairs.
use crate::common::*;
use ark_ec::twisted_edwards::{Affine, Projective, TECurveConfig};
use ark_ec::{AffineRepr, CurveGroup};
use ark_ff::{Field, One, UniformRand, Zero};
use ark_std::rand::{rngs::StdRng, SeedableRng};
use num_bigint::BigUint;
use std::sync::Arc;
use vh_core::curve::*;
use vh_core::engine::{no_panic, Obs, Tape, R};
use vh_core::gen::big_below;
use vh_core::{ensure, fail};

pub type Pt<P> = Te<<P as ark_ec::CurveConfig>::BaseField>;
pub type Src<P> = Arc<dyn Fn(&mut Tape<'_>) -> (Pt<P>, &'static str) + Send + Sync>;

pub struct TeCtx<P: TECurveConfig> {
    pub name: String,
    pub r: BigUint,
    pub h: BigUint,
    pub complete: bool,
    pub src: Src<P>,
    #[allow(dead_code)]
    pub do_rand: bool,
}

pub fn te_complete<P: TECurveConfig>() -> bool {
    !P::COEFF_A.is_zero() && P::COEFF_A.legendre().is_qr() && P::COEFF_D.legendre().is_qnr()
}

fn mul<P: TECurveConfig>(p: &Pt<P>, k: &BigUint) -> Option<Pt<P>> {
    te_mul(&P::COEFF_A, &P::COEFF_D, p, k)
}
fn add<P: TECurveConfig>(p: &Pt<P>, q: &Pt<P>) -> Option<Pt<P>> {
    te_add(&P::COEFF_A, &P::COEFF_D, p, q)
}
fn on_curve<P: TECurveConfig>(p: &Pt<P>) -> bool {
    te_on_curve(&P::COEFF_A, &P::COEFF_D, p)
}

pub fn from_y<P: TECurveConfig>(t: &mut Tape<'_>) -> Pt<P> {
    let mut rng = StdRng::seed_from_u64(t.u64());
    let mut y = P::BaseField::rand(&mut rng);
    let greatest = t.bool();
    for _ in 0..512 {
        if let Some(p) = Affine::<P>::get_point_from_y_unchecked(y, greatest) {
            return te_from_affine(&p);
        }
        y += P::BaseField::one();
    }
    te_from_affine(&P::GENERATOR)
}

pub fn shipped_src<P: TECurveConfig>() -> Src<P> {
    let r = modulus_of::<P::ScalarField>();
    let h = vh_core::modint::big(P::COFACTOR);
    let ells = small_prime_factors(&h);
    let n = &r * &h;
    Arc::new(move |t| {
        let g = te_from_affine::<P>(&P::GENERATOR);
        let cls = t.weighted(&[1, 1, 3, 8, 3, 3, 3, 2]);
        match cls {
            0 => (te_identity(), "P=identity"),
            1 => (g, "P=G"),
            2 => (mul::<P>(&g, &big_below(t, &r)).expect("subgroup chain"), "P=subgroup"),
            3 => (from_y::<P>(t), "P=from-y"),
            _ => {
                let rr = from_y::<P>(t);
                let (tors, small) = if !ells.is_empty() && (cls == 4 || cls == 6) {
                    let l = ells[t.idx(ells.len())];
                    // order-l component: divide out the full power of l first (dividing by l once would kill the
                    // whole l-part whenever the l-torsion is not cyclic), then push down to order exactly l
                    let lb = BigUint::from(l);
                    let mut e = n.clone();
                    while (&e % &lb).is_zero() {
                        e /= &lb;
                    }
                    let mut cur = mul::<P>(&rr, &e);
                    for _ in 0..4096 {
                        let next = match &cur {
                            Some(c) => mul::<P>(c, &lb),
                            None => None,
                        };
                        match next {
                            Some(nx) if nx != te_identity() => cur = Some(nx),
                            _ => break,
                        }
                    }
                    (cur, true)
                } else {
                    (mul::<P>(&rr, &r), false)
                };
                let tors = match tors {
                    Some(x) => x,
                    None => return (rr, "P=from-y"),
                };
                if cls >= 6 {
                    let s = mul::<P>(&g, &big_below(t, &r)).expect("subgroup chain");
                    match add::<P>(&s, &tors) {
                        Some(x) => (x, if small { "P=subgroup+small-order" } else { "P=subgroup+torsion" }),
                        None => (tors, "P=torsion"),
                    }
                } else {
                    (tors, if small { "P=small-order" } else { "P=torsion" })
                }
            },
        }
    })
}

pub fn member<P: TECurveConfig>(c: &TeCtx<P>, t: &mut Tape<'_>, o: &mut Obs) -> R {
    let (p, cls) = (c.src)(t);
    o.show(|| format!("{}: is_in_correct_subgroup_assuming_on_curve({:?}) [{}]", c.name, p, cls));
    o.class(cls);
    ensure!(on_curve::<P>(&p), "generator.off-curve", "generated point {:?} is not on the curve", p);
    let want = match mul::<P>(&p, &c.r) {
        Some(x) => x == te_identity(),
        None => {
            // Incomplete law only. Additions of odd-order points are never exceptional (Hisil-Wong-Carter-Dawson,
            // "Twisted Edwards curves revisited", section 3.1), so a chain that meets an exceptional pair starts
            // from a point outside the prime-order subgroup: the only correct answer is `false`.
            ensure!(!c.complete, "oracle.exceptional", "exceptional pair on a complete law");
            o.class("exceptional-chain(outside-subgroup)");
            false
        },
    };
    o.nt(!want);
    o.class_if(want, "in-subgroup");
    o.class_if(!want, "outside-subgroup");
    let a = te_to_affine::<P>(&p);
    let got = no_panic("is_in_correct_subgroup", || a.is_in_correct_subgroup_assuming_on_curve())?;
    if got != want {
        let sig = if got { "membership.accepts-outside" } else { "membership.rejects-inside" };
        return fail(sig, format!("is_in_correct_subgroup_assuming_on_curve({:?}) = {} but r·P {} the identity [{}]", p, got, if want { "is" } else { "is not" }, cls));
    }
    // the configuration-level spelling is the same predicate
    let got2 = no_panic("config.is_in_correct_subgroup", || P::is_in_correct_subgroup_assuming_on_curve(&a))?;
    ensure!(got2 == want, "membership.config", "P::is_in_correct_subgroup_assuming_on_curve({:?}) = {}", p, got2);
    Ok(())
}

pub fn clear<P: TECurveConfig>(c: &TeCtx<P>, t: &mut Tape<'_>, o: &mut Obs) -> R {
    let (p, pc) = (c.src)(t);
    let (q, qc) = (c.src)(t);
    let k = match t.weighted(&[2, 2, 3]) {
        0 => BigUint::from(t.range(2, 9)),
        1 => BigUint::from(t.u64()),
        _ => big_below(t, &c.r),
    };
    o.show(|| format!("{}: clear_cofactor P={:?} [{}] Q={:?} [{}] k=0x{:x}", c.name, p, pc, q, qc, k));
    o.class(pc);
    ensure!(on_curve::<P>(&p) && on_curve::<P>(&q), "generator.off-curve", "generated point is not on the curve");
    macro_rules! need {
        ($e:expr) => {
            match $e {
                Some(x) => x,
                None => {
                    ensure!(!c.complete, "oracle.exceptional", "exceptional pair on a complete law");
                    o.class("exceptional-chain-skipped");
                    return Ok(());
                },
            }
        };
    }
    let outside = need!(mul::<P>(&p, &c.r)) != te_identity();
    o.nt(outside);
    o.class_if(outside, "outside-subgroup");
    o.evals(7);
    let hp = need!(mul::<P>(&p, &c.h));
    let hq = need!(mul::<P>(&q, &c.h));
    let pa = te_to_affine::<P>(&p);
    let cp = te_from_affine(&no_panic("clear_cofactor", || pa.clear_cofactor())?);
    ensure!(on_curve::<P>(&cp), "clear.off-curve", "clear_cofactor({:?}) = {:?} is not on the curve", p, cp);
    let cp2 = te_from_affine(&no_panic("config.clear_cofactor", || P::clear_cofactor(&pa))?);
    ensure!(cp2 == cp, "clear.config", "P::clear_cofactor(&P) = {:?} but P.clear_cofactor() = {:?}", cp2, cp);
    let cp3 = te_from_affine(&no_panic("AffineRepr::clear_cofactor", || <Affine<P> as AffineRepr>::clear_cofactor(&pa))?);
    ensure!(cp3 == cp, "clear.trait", "AffineRepr::clear_cofactor(&P) = {:?} but P.clear_cofactor() = {:?}", cp3, cp);
    ensure!(mul::<P>(&cp, &c.r) == Some(te_identity()), "clear.not-in-subgroup", "clear_cofactor({:?}) = {:?} is not killed by r", p, cp);
    ensure!(cp == hp, "clear.equals-COFACTOR", "clear_cofactor({:?}) = {:?} but [COFACTOR]P = {:?}", p, cp, hp);
    ensure!(no_panic("is_in_correct_subgroup", || te_to_affine::<P>(&cp).is_in_correct_subgroup_assuming_on_curve())?, "clear.membership", "membership test rejects clear_cofactor({:?})", p);
    let got = te_from_affine(&no_panic("mul_by_cofactor", || pa.mul_by_cofactor())?);
    ensure!(got == hp, "mul_by_cofactor", "mul_by_cofactor({:?}) = {:?} expected {:?}", p, got, hp);
    let got: Projective<P> = no_panic("mul_by_cofactor_to_group", || pa.mul_by_cofactor_to_group())?;
    ensure!(te_from_affine(&got.into_affine()) == hp, "mul_by_cofactor_to_group", "mul_by_cofactor_to_group({:?}) != {:?}", p, hp);
    // additive
    let sum = need!(add::<P>(&p, &q));
    let _ = need!(mul::<P>(&sum, &c.h));
    let csum = te_from_affine(&no_panic("clear_cofactor", || te_to_affine::<P>(&sum).clear_cofactor())?);
    let want = add::<P>(&hp, &hq).expect("subgroup addition");
    ensure!(csum == want, "clear.additive", "clear(P+Q) = {:?} but clear(P)+clear(Q) = {:?} for P={:?} Q={:?}", csum, want, p, q);
    // commutes with scalars
    let kp = need!(mul::<P>(&p, &k));
    let _ = need!(mul::<P>(&kp, &c.h));
    let ckp = te_from_affine(&no_panic("clear_cofactor", || te_to_affine::<P>(&kp).clear_cofactor())?);
    let kcp = mul::<P>(&hp, &k).expect("subgroup chain");
    ensure!(ckp == kcp, "clear.scalar", "clear([k]P) = {:?} but [k]clear(P) = {:?} for P={:?} k=0x{:x}", ckp, kcp, p, k);
    // inverse of the cofactor on the subgroup
    let s = if outside { hp } else { p };
    let sa = te_to_affine::<P>(&s);
    let back = te_from_affine(&no_panic("mul_by_cofactor_inv", || sa.mul_by_cofactor().mul_by_cofactor_inv())?);
    ensure!(back == s, "cofactor_inv.roundtrip", "mul_by_cofactor_inv(mul_by_cofactor(S)) = {:?} for the subgroup point S = {:?}", back, s);
    let back = te_from_affine(&no_panic("mul_by_cofactor_inv", || sa.mul_by_cofactor_inv().mul_by_cofactor())?);
    ensure!(back == s, "cofactor_inv.roundtrip2", "mul_by_cofactor(mul_by_cofactor_inv(S)) = {:?} for the subgroup point S = {:?}", back, s);
    Ok(())
}

pub fn consts<P: TECurveConfig>(c: &TeCtx<P>, _t: &mut Tape<'_>, o: &mut Obs) -> R {
    let hinv = fr_big(&P::COFACTOR_INV);
    o.show(|| format!("{}: COFACTOR=0x{:x} COFACTOR_INV=0x{:x} r=0x{:x} complete-law={}", c.name, c.h, hinv, c.r, c.complete));
    o.nt(c.h > BigUint::one());
    o.evals(5);
    ensure!(!(&c.h % &c.r).is_zero(), "consts.cofactor-multiple-of-r", "COFACTOR is a multiple of r");
    ensure!((&c.h * &hinv) % &c.r == BigUint::one(), "consts.cofactor_inv", "COFACTOR * COFACTOR_INV = 0x{:x} (mod r), expected 1", (&c.h * &hinv) % &c.r);
    let g = te_from_affine::<P>(&P::GENERATOR);
    ensure!(on_curve::<P>(&g) && g != te_identity(), "consts.generator.on-curve", "generator is not a non-trivial point of the curve");
    ensure!(mul::<P>(&g, &c.r) == Some(te_identity()), "consts.generator.order", "r·G is not the identity");
    ensure!(P::GENERATOR.is_in_correct_subgroup_assuming_on_curve(), "consts.generator.membership", "membership test rejects the generator");
    ensure!(!no_panic("clear_cofactor", || P::GENERATOR.clear_cofactor())?.is_zero(), "clear.kills-generator", "clear_cofactor(G) is the identity");
    ensure!(Affine::<P>::zero().is_in_correct_subgroup_assuming_on_curve(), "membership.identity", "membership test rejects the identity");
    ensure!(Affine::<P>::zero().clear_cofactor().is_zero(), "clear.identity", "clear_cofactor(identity) is not the identity");
    Ok(())
}

pub fn rand<P: TECurveConfig>(c: &TeCtx<P>, t: &mut Tape<'_>, o: &mut Obs) -> R {
    let seed = t.u64();
    let mut rng = StdRng::seed_from_u64(seed);
    o.show(|| format!("{}: 2 x Affine::rand + 2 x Projective::rand from StdRng seed {:#x}", c.name, seed));
    o.nt(c.h > BigUint::one());
    o.evals(4);
    for i in 0..4 {
        let p: Affine<P> = if i % 2 == 0 { no_panic("rand.affine", || Affine::<P>::rand(&mut rng))? } else { no_panic("rand.projective", || Projective::<P>::rand(&mut rng))?.into_affine() };
        let q = te_from_affine(&p);
        ensure!(on_curve::<P>(&q), "rand.off-curve", "rand sample {:?} is not on the curve", q);
        ensure!(mul::<P>(&q, &c.r) == Some(te_identity()), "rand.outside-subgroup", "rand sample {:?} (seed {:#x}, draw {}) is not killed by r", q, seed, i);
    }
    Ok(())
}
