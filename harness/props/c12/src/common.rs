//! Shared pieces of the C12 check.
use ark_ff::{AdditiveGroup, PrimeField};
use num_bigint::BigUint;
use num_traits::Zero;

/// Reference multiplication: right-to-left binary method over `+` and `double` only (group law: C03).
/// Never goes through `mul_bigint` / `mul_affine` / `mul_projective` (which curve crates override).
pub fn ref_mul<G: AdditiveGroup>(p: &G, k: &BigUint) -> G {
    let mut acc = G::zero();
    let mut base = *p;
    let n = k.bits();
    for i in 0..n {
        if k.bit(i) {
            acc = acc + base;
        }
        if i + 1 < n {
            base = base.double();
        }
    }
    acc
}

pub fn modulus_of<F: PrimeField>() -> BigUint {
    F::MODULUS.into()
}

pub fn fr_big<F: PrimeField>(x: &F) -> BigUint {
    x.into_bigint().into()
}

pub fn hexbig(s: &str) -> BigUint {
    BigUint::parse_bytes(s.as_bytes(), 16).expect("hex literal")
}

/// primes below 2000 that divide h
pub fn small_prime_factors(h: &BigUint) -> Vec<u64> {
    prime_factors_below(h, 2000)
}

/// primes below `bound` that divide h
pub fn prime_factors_below(h: &BigUint, bound: usize) -> Vec<u64> {
    let mut out = Vec::new();
    if h.is_zero() {
        return out;
    }
    let mut sieve = vec![true; bound];
    for p in 2..bound {
        if sieve[p] {
            let mut m = p * p;
            while m < bound {
                sieve[m] = false;
                m += p;
            }
            if (h % BigUint::from(p as u64)).is_zero() {
                out.push(p as u64);
            }
        }
    }
    out
}
