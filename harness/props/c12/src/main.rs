//! C12 — subgroup membership tests and cofactor clearing agree with their definitions.
mod common;
mod sw;
mod te;

use ark_ec::hashing::curve_maps::wb::WBConfig;
use ark_ec::short_weierstrass::SWCurveConfig;
use ark_ec::twisted_edwards::TECurveConfig;
use ark_ff::PrimeField;
use common::*;
use std::sync::Arc;
use vh_core::curve::{sw_enumerate, sw_to_affine, te_enumerate};
use vh_core::engine::{PropSpec, Rel, Tier};

fn mix(a: u64, b: u64) -> u64 {
    let mut z = a.wrapping_mul(0x9e3779b97f4a7c15) ^ b.wrapping_mul(0xbf58476d1ce4e5b9);
    z ^= z >> 29;
    z = z.wrapping_mul(0x94d049bb133111eb);
    z ^ (z >> 32)
}

/// which integer the documentation promises for `clear_cofactor`
enum Doc {
    /// trait default: the cofactor
    Cofactor,
    /// a typed constant
    Int(&'static str, &'static str),
    /// a value computed from typed constants
    Value(num_bigint::BigUint, &'static str),
    /// nothing documented: only the structural checks apply
    #[allow(dead_code)]
    None,
}

fn sw_rels<P: SWCurveConfig>(out: &mut Vec<Rel>, name: &str, tier: Tier, weight: u32, doc: Doc) {
    let h = sw::cofactor_of::<P>();
    let (c, c_doc) = match doc {
        Doc::Cofactor => (Some(h.clone()), "COFACTOR"),
        Doc::Int(hex, what) => (Some(hexbig(hex)), what),
        Doc::Value(v, what) => (Some(v), what),
        Doc::None => (None, "none"),
    };
    let ctx = Arc::new(sw::SwCtx::<P> { name: name.to_string(), r: modulus_of::<P::ScalarField>(), h, c, c_doc, src: sw::shipped_src::<P>(), do_rand: true });
    let q = |n: u32, heavy: u32| if weight == 0 { tier.pick(heavy, heavy * 10) } else { tier.pick(n, n * 20) * weight / 4 };
    let cc = ctx.clone();
    out.push(Rel::new(format!("member/{}", name), q(150, 6), 40, move |t, o| sw::member::<P>(&cc, t, o)).shrink_iters(200));
    // membership on points whose cofactor component sweeps the whole l-torsion for small primes l | h
    let tctx = Arc::new(sw::SwCtx::<P> { name: name.to_string(), r: ctx.r.clone(), h: ctx.h.clone(), c: ctx.c.clone(), c_doc: ctx.c_doc, src: sw::torsion_src::<P>(), do_rand: false });
    out.push(Rel::new(format!("member-torsion/{}", name), q(300, 4), 40, move |t, o| sw::member::<P>(&tctx, t, o)).shrink_iters(200));
    let cc = ctx.clone();
    out.push(Rel::new(format!("clear/{}", name), q(60, 2), 64, move |t, o| sw::clear::<P>(&cc, t, o)).shrink_iters(100));
    let cc = ctx.clone();
    out.push(Rel::new(format!("rand/{}", name), q(100, 1), 2, move |t, o| sw::rand::<P>(&cc, t, o)).shrink_iters(50));
    let cc = ctx.clone();
    out.push(Rel::new(format!("consts/{}", name), 0, 1, move |t, o| sw::consts::<P>(&cc, t, o)).exhaustive(|| Box::new(std::iter::once(vec![0u64]))));
}

fn te_rels<P: TECurveConfig>(out: &mut Vec<Rel>, name: &str, tier: Tier, weight: u32) {
    let ctx = Arc::new(te::TeCtx::<P> {
        name: name.to_string(),
        r: modulus_of::<P::ScalarField>(),
        h: vh_core::modint::big(P::COFACTOR),
        complete: te::te_complete::<P>(),
        src: te::shipped_src::<P>(),
        do_rand: true,
    });
    let q = |n: u32, heavy: u32| if weight == 0 { tier.pick(heavy, heavy * 10) } else { tier.pick(n, n * 20) * weight / 4 };
    let cc = ctx.clone();
    out.push(Rel::new(format!("member/{}", name), q(150, 5), 40, move |t, o| te::member::<P>(&cc, t, o)).shrink_iters(200));
    let cc = ctx.clone();
    out.push(Rel::new(format!("clear/{}", name), q(60, 2), 64, move |t, o| te::clear::<P>(&cc, t, o)).shrink_iters(100));
    let cc = ctx.clone();
    out.push(Rel::new(format!("rand/{}", name), q(80, 1), 2, move |t, o| te::rand::<P>(&cc, t, o)).shrink_iters(50));
    let cc = ctx.clone();
    out.push(Rel::new(format!("consts/{}", name), 0, 1, move |t, o| te::consts::<P>(&cc, t, o)).exhaustive(|| Box::new(std::iter::once(vec![0u64]))));
}

fn toy_sw<P: SWCurveConfig>(out: &mut Vec<Rel>, name: &str, tier: Tier, big: bool)
where
    P::BaseField: PrimeField,
{
    let pts: Arc<Vec<_>> = Arc::new(sw_enumerate(&P::COEFF_A, &P::COEFF_B).iter().map(|p| sw_to_affine::<P>(p)).collect());
    let n = pts.len() as u64;
    let pp = pts.clone();
    let src: sw::Src<P> = Arc::new(move |t| (pp[t.idx(pp.len())], "P=toy-point"));
    let h = sw::cofactor_of::<P>();
    let ctx = Arc::new(sw::SwCtx::<P> { name: name.to_string(), r: modulus_of::<P::ScalarField>(), h: h.clone(), c: Some(h), c_doc: "COFACTOR", src, do_rand: true });
    let cc = ctx.clone();
    out.push(Rel::new(format!("member/toy.{}", name), 0, 1, move |t, o| sw::member::<P>(&cc, t, o)).exhaustive(move || Box::new((0..n).map(|i| vec![i]))));
    let cc = ctx.clone();
    // all ordered pairs (P, Q) (a band of Q for the ~1000-point curves), scalar 2..9 from the pair
    let band = if big { 24 } else { n };
    out.push(
        Rel::new(format!("clear/toy.{}", name), tier.pick(500, 5000), 8, move |t, o| sw::clear::<P>(&cc, t, o))
            .exhaustive(move || Box::new((0..n).flat_map(move |i| (0..band).map(move |j| vec![i, (i + j) % n, 0, mix(i, j)])))),
    );
    let cc = ctx.clone();
    out.push(Rel::new(format!("rand/toy.{}", name), tier.pick(250, 2500), 2, move |t, o| sw::rand::<P>(&cc, t, o)));
    let cc = ctx.clone();
    out.push(Rel::new(format!("consts/toy.{}", name), 0, 1, move |t, o| sw::consts::<P>(&cc, t, o)).exhaustive(|| Box::new(std::iter::once(vec![0u64]))));
}

fn toy_te<P: TECurveConfig>(out: &mut Vec<Rel>, name: &str, tier: Tier, complete: bool, big: bool)
where
    P::BaseField: PrimeField,
{
    let pts = Arc::new(te_enumerate(&P::COEFF_A, &P::COEFF_D));
    let n = pts.len() as u64;
    let pp = pts.clone();
    let src: te::Src<P> = Arc::new(move |t| (pp[t.idx(pp.len())], "P=toy-point"));
    assert_eq!(complete, te::te_complete::<P>(), "completeness flag of toy curve {}", name);
    let ctx = Arc::new(te::TeCtx::<P> { name: name.to_string(), r: modulus_of::<P::ScalarField>(), h: vh_core::modint::big(P::COFACTOR), complete, src, do_rand: complete });
    let cc = ctx.clone();
    out.push(Rel::new(format!("member/toy.{}", name), 0, 1, move |t, o| te::member::<P>(&cc, t, o)).exhaustive(move || Box::new((0..n).map(|i| vec![i]))));
    let cc = ctx.clone();
    let band = if big { 24 } else { n };
    out.push(
        Rel::new(format!("clear/toy.{}", name), tier.pick(500, 5000), 8, move |t, o| te::clear::<P>(&cc, t, o))
            .exhaustive(move || Box::new((0..n).flat_map(move |i| (0..band).map(move |j| vec![i, (i + j) % n, 0, mix(i, j)])))),
    );
    if complete {
        // `rand` multiplies an arbitrary point of the curve by the cofactor: only meaningful where the law is complete
        let cc = ctx.clone();
        out.push(Rel::new(format!("rand/toy.{}", name), tier.pick(250, 2500), 2, move |t, o| te::rand::<P>(&cc, t, o)));
    }
    let cc = ctx.clone();
    out.push(Rel::new(format!("consts/toy.{}", name), 0, 1, move |t, o| te::consts::<P>(&cc, t, o)).exhaustive(|| Box::new(std::iter::once(vec![0u64]))));
}

// RFC 9380, section 8.8.1 (BLS12381G1_XMD:SHA-256_SSWU_RO_): h_eff = 0xd201000000010001
const BLS12_381_G1_H_EFF: &str = "d201000000010001";
// RFC 9380, section 8.8.2 (BLS12381G2_XMD:SHA-256_SSWU_RO_): h_eff
const BLS12_381_G2_H_EFF: &str = "bc69f08f2ee75b3584c6a0ea91b352888e2a8e9145ad7689986ff031508ffe1329c2f178731db956d82bf015d1212b02ec0ec69d7477c1ae954cbc06689f6a359894c0adebbf6b4e8020005aaa95551";
// curves/bls12_377/src/curves/g1.rs: "It is enough to multiply by (x - 1)", x = 0x8508c00000000001
const BLS12_377_X_MINUS_1: &str = "8508c00000000000";

fn relations(tier: Tier) -> Vec<Rel> {
    let mut out = Vec::new();
    let thorough = tier == Tier::Thorough;
    // the heaviest first
    sw_rels::<ark_mnt6_753::g2::Config>(&mut out, "mnt6_753.G2", tier, 0, Doc::Cofactor);
    sw_rels::<ark_mnt4_753::g2::Config>(&mut out, "mnt4_753.G2", tier, 0, Doc::Cofactor);
    sw_rels::<ark_cp6_782::g2::Config>(&mut out, "cp6_782.G2", tier, 0, Doc::Cofactor);
    te_rels::<ark_ed_on_mnt4_753::EdwardsConfig>(&mut out, "ed_on_mnt4_753", tier, 0);
    sw_rels::<ark_cp6_782::g1::Config>(&mut out, "cp6_782.G1", tier, 1, Doc::Cofactor);
    sw_rels::<ark_bw6_761::g1::Config>(&mut out, "bw6_761.G1", tier, 1, Doc::Cofactor);
    sw_rels::<ark_bw6_761::g2::Config>(&mut out, "bw6_761.G2", tier, 1, Doc::Cofactor);
    sw_rels::<ark_bw6_767::g1::Config>(&mut out, "bw6_767.G1", tier, 1, Doc::Cofactor);
    sw_rels::<ark_bw6_767::g2::Config>(&mut out, "bw6_767.G2", tier, 1, Doc::Cofactor);
    sw_rels::<ark_mnt6_298::g2::Config>(&mut out, "mnt6_298.G2", tier, 2, Doc::Cofactor);
    sw_rels::<ark_mnt4_298::g2::Config>(&mut out, "mnt4_298.G2", tier, 2, Doc::Cofactor);
    te_rels::<ark_bls12_377::g1::Config>(&mut out, "bls12_377.G1.TE", tier, 1);
    te_rels::<ark_ed_on_cp6_782::EdwardsConfig>(&mut out, "ed_on_cp6_782", tier, 1);
    sw_rels::<ark_bls12_381::g2::Config>(&mut out, "bls12_381.G2", tier, 2, Doc::Int(BLS12_381_G2_H_EFF, "h_eff(RFC9380-8.8.2)"));
    sw_rels::<ark_test_curves::bls12_381::g2::Config>(&mut out, "test.bls12_381.G2", tier, 2, Doc::Int(BLS12_381_G2_H_EFF, "h_eff(RFC9380-8.8.2)"));
    // BLS12-377 G2 documents no integer; the Budroni-Pintore map used there equals [h2 (3 x^2 - 3)] for every BLS12 curve
    // (the formula RFC 9380 section 8.8.2 gives for h_eff), x = 0x8508c00000000001
    let x377 = hexbig("8508c00000000001");
    let heff377 = sw::cofactor_of::<ark_bls12_377::g2::Config>() * ((&x377 * &x377 - 1u32) * 3u32);
    sw_rels::<ark_bls12_377::g2::Config>(&mut out, "bls12_377.G2", tier, 2, Doc::Value(heff377, "h2(3x^2-3)"));
    sw_rels::<ark_bn254::g2::Config>(&mut out, "bn254.G2", tier, 2, Doc::Cofactor);
    sw_rels::<ark_bls12_381::g1::Config>(&mut out, "bls12_381.G1", tier, 4, Doc::Int(BLS12_381_G1_H_EFF, "h_eff(RFC9380-8.8.1)=1-x"));
    sw_rels::<ark_test_curves::bls12_381::g1::Config>(&mut out, "test.bls12_381.G1", tier, 4, Doc::Int(BLS12_381_G1_H_EFF, "h_eff(RFC9380-8.8.1)=1-x"));
    sw_rels::<ark_bls12_377::g1::Config>(&mut out, "bls12_377.G1", tier, 4, Doc::Int(BLS12_377_X_MINUS_1, "x-1"));
    sw_rels::<ark_bn254::g1::Config>(&mut out, "bn254.G1", tier, 4, Doc::Cofactor);
    sw_rels::<ark_ed_on_bls12_381::JubjubConfig>(&mut out, "ed_on_bls12_381.SW", tier, 4, Doc::Cofactor);
    // the SWU-isogenous helper curves (reached through WBConfig::IsogenousCurve): same group order as their targets,
    // their own COFACTOR / COFACTOR_INV / generator constants
    sw_rels::<<ark_bls12_381::g1::Config as WBConfig>::IsogenousCurve>(&mut out, "bls12_381.G1.iso", tier, 2, Doc::Cofactor);
    sw_rels::<<ark_bls12_381::g2::Config as WBConfig>::IsogenousCurve>(&mut out, "bls12_381.G2.iso", tier, 1, Doc::Cofactor);
    sw_rels::<<ark_bls12_377::g1::Config as WBConfig>::IsogenousCurve>(&mut out, "bls12_377.G1.iso", tier, 2, Doc::Cofactor);
    sw_rels::<<ark_bls12_377::g2::Config as WBConfig>::IsogenousCurve>(&mut out, "bls12_377.G2.iso", tier, 1, Doc::Cofactor);
    sw_rels::<<ark_test_curves::bls12_381::g1::Config as WBConfig>::IsogenousCurve>(&mut out, "test.bls12_381.G1.iso", tier, 2, Doc::Cofactor);
    sw_rels::<<ark_test_curves::bls12_381::g2::Config as WBConfig>::IsogenousCurve>(&mut out, "test.bls12_381.G2.iso", tier, 1, Doc::Cofactor);
    sw_rels::<ark_ed_on_bls12_381_bandersnatch::BandersnatchConfig>(&mut out, "bandersnatch.SW", tier, 4, Doc::Cofactor);
    // shipped configurations that declare cofactor one (default test short-circuits to `true`, clearing is the identity
    // map): the declaration itself is what is checked - every point of the curve must be killed by r
    sw_rels::<ark_secp256k1::Config>(&mut out, "secp256k1", tier, 1, Doc::Cofactor);
    sw_rels::<ark_secq256k1::Config>(&mut out, "secq256k1", tier, 1, Doc::Cofactor);
    sw_rels::<ark_secp256r1::Config>(&mut out, "secp256r1", tier, 1, Doc::Cofactor);
    sw_rels::<ark_secp384r1::Config>(&mut out, "secp384r1", tier, 1, Doc::Cofactor);
    sw_rels::<ark_pallas::PallasConfig>(&mut out, "pallas", tier, 1, Doc::Cofactor);
    sw_rels::<ark_vesta::VestaConfig>(&mut out, "vesta", tier, 1, Doc::Cofactor);
    sw_rels::<ark_grumpkin::GrumpkinConfig>(&mut out, "grumpkin", tier, 1, Doc::Cofactor);
    sw_rels::<ark_mnt4_298::g1::Config>(&mut out, "mnt4_298.G1", tier, 1, Doc::Cofactor);
    sw_rels::<ark_mnt6_298::g1::Config>(&mut out, "mnt6_298.G1", tier, 1, Doc::Cofactor);
    sw_rels::<ark_mnt4_753::g1::Config>(&mut out, "mnt4_753.G1", tier, 0, Doc::Cofactor);
    sw_rels::<ark_mnt6_753::g1::Config>(&mut out, "mnt6_753.G1", tier, 0, Doc::Cofactor);
    sw_rels::<ark_test_curves::secp256k1::Config>(&mut out, "test.secp256k1", tier, 1, Doc::Cofactor);
    sw_rels::<ark_test_curves::bn384_small_two_adicity::g1::Config>(&mut out, "test.bn384.G1", tier, 1, Doc::Cofactor);
    sw_rels::<ark_test_curves::mnt4_753::g1::Config>(&mut out, "test.mnt4_753.G1", tier, 0, Doc::Cofactor);
    te_rels::<ark_ed_on_bls12_381::JubjubConfig>(&mut out, "ed_on_bls12_381", tier, 2);
    te_rels::<ark_ed_on_bls12_381_bandersnatch::BandersnatchConfig>(&mut out, "bandersnatch", tier, 2);
    te_rels::<ark_ed_on_bls12_377::EdwardsConfig>(&mut out, "ed_on_bls12_377", tier, 2);
    te_rels::<ark_ed_on_bn254::EdwardsConfig>(&mut out, "ed_on_bn254", tier, 2);
    te_rels::<ark_ed_on_mnt4_298::EdwardsConfig>(&mut out, "ed_on_mnt4_298", tier, 2);
    te_rels::<ark_ed25519::EdwardsConfig>(&mut out, "ed25519", tier, 2);
    te_rels::<ark_curve25519::Curve25519Config>(&mut out, "curve25519", tier, 2);
    te_rels::<ark_test_curves::ed_on_bls12_381::EdwardsConfig>(&mut out, "test.ed_on_bls12_381", tier, 2);

    macro_rules! tsw {
        ($cfg:ty, $name:expr, $p:expr, $a:expr, $b:expr, $h:expr, $r:expr, $big:expr) => {
            if !$big || thorough {
                toy_sw::<$cfg>(&mut out, $name, tier, $big);
            }
        };
    }
    vh_core::for_each_toy_sw!(tsw);
    macro_rules! tte {
        ($cfg:ty, $name:expr, $p:expr, $a:expr, $d:expr, $h:expr, $r:expr, $complete:expr, $big:expr) => {
            if !$big || thorough {
                toy_te::<$cfg>(&mut out, $name, tier, $complete, $big);
            }
        };
    }
    vh_core::for_each_toy_te!(tte);
    // the typed RFC constants are tied to the repository's COFACTOR constants by the RFC's own formulas
    out.push(
        Rel::new("consts/rfc9380.h_eff", 0, 1, |_t, o| {
            use vh_core::ensure;
            let z = hexbig("d201000000010000"); // |z|, z = -0xd201000000010000 (RFC 9380 section 8.8)
            let h1 = sw::cofactor_of::<ark_bls12_381::g1::Config>();
            let h2 = sw::cofactor_of::<ark_bls12_381::g2::Config>();
            o.show(|| format!("BLS12-381: h1=0x{:x} h2=0x{:x}", h1, h2));
            o.nt(true);
            o.evals(4);
            // h_eff(G1) = 1 - z, h1 = (z - 1)^2 / 3
            ensure!(hexbig(BLS12_381_G1_H_EFF) == &z + 1u32, "h_eff.g1", "typed G1 h_eff is not 1 - z");
            ensure!(&h1 * 3u32 == (&z + 1u32) * (&z + 1u32), "cofactor.g1", "COFACTOR of G1 is not (z-1)^2/3");
            // h_eff(G2) = h2 * (3 z^2 - 3)
            ensure!(hexbig(BLS12_381_G2_H_EFF) == &h2 * ((&z * &z - 1u32) * 3u32), "h_eff.g2", "typed G2 h_eff is not h2 * (3 z^2 - 3) for the repository's COFACTOR");
            ensure!(sw::cofactor_of::<ark_test_curves::bls12_381::g2::Config>() == h2 && sw::cofactor_of::<ark_test_curves::bls12_381::g1::Config>() == h1, "cofactor.test-curves", "test-curves and curves/bls12_381 disagree on a cofactor");
            Ok(())
        })
        .exhaustive(|| Box::new(std::iter::once(vec![0u64]))),
    );
    out
}

fn main() {
    vh_core::engine::main(PropSpec {
        id: "C12",
        rule: "Curves: every shipped SW/TE configuration - including the ones that declare cofactor one (secp256k1/r1, secp384r1, secq256k1, pallas, vesta, grumpkin, the MNT G1 groups, test-curves secp256k1 / bn384 / mnt4_753 G1), for which the declaration itself is what is checked: every generated point of the curve must be killed by r -, the SWU-isogenous helper curves of bls12_381, bls12_377 and test-curves (WBConfig::IsogenousCurve) and toy curves. Points of the whole curve: the first point with abscissa >= an arbitrary x (short Weierstrass) / ordinate >= an arbitrary y (twisted Edwards) - outside the prime-order subgroup with probability 1-1/h -, points of small prime order (r·h/l)·R for every prime l < 2000 dividing the cofactor, combinations a*T1 + b*T2 of two order-l points for every prime l < 2^21 dividing the cofactor (member-torsion/*: for l < 2000 the sweep reaches every line of E[l], for the larger l - e.g. 10177 and 859267 on BLS12-381 G1, 2713, 11953 and 262069 on G2, 10069 on BN254 G2 - (a,b) is a random element of (Z/l)^2), the cofactor-torsion component r·R, sums of a subgroup point and such a point, subgroup points s·G, G and the identity, the points with abscissa 0 where they exist (alone or added to a subgroup point); toy curves: every point (membership) and every ordered pair (clearing). Oracles: membership <=> r·P = O with a right-to-left double-and-add over +/double (SW) or the affine Edwards-law oracle (TE), never mul_bigint; clear_cofactor(P) is on the curve, killed by r, accepted by the membership test, is the same map through the three spellings P.clear_cofactor(), Config::clear_cofactor(&P) and AffineRepr::clear_cofactor(&P), equals [c]P for the documented integer (COFACTOR by default; 1-x = RFC 9380 h_eff for BLS12-381 G1, x-1 for BLS12-377 G1, RFC 9380 h_eff for BLS12-381 G2, typed from the documents), is additive and commutes with scalars; mul_by_cofactor = [h]P; mul_by_cofactor_inv undoes mul_by_cofactor on the subgroup; COFACTOR·COFACTOR_INV = 1 mod r; clear_cofactor(G) != O; rand samples (StdRng seeded from the tape) are on the curve and killed by r. A case is non-trivial when the point is on the curve and outside the prime-order subgroup (constants / rand: when the cofactor is > 1); distinct = distinct decoded choice sequences.",
        assumptions: &[
            "the group law (+, double, ==, into_affine) is correct on the inputs used (property C03); twisted-Edwards curves use the independent affine oracle instead",
            "get_point_from_x_unchecked / get_point_from_y_unchecked are only used as a point source; every generated point is re-checked against the curve equation by the harness",
            "twisted-Edwards curves with an incomplete addition law (a non-square or d square): a case is judged only when the oracle's addition chain meets no exceptional pair; `rand` is not judged on the incomplete toy curves",
            "BLS12-377 G2 documents no integer for its endomorphism-based clearing: only subgroup/additivity/scalar/non-vanishing checks apply there",
        ],
        relations,
    })
}
