//! C12 — not implemented yet.
fn main() {
    eprintln!("C12: check not implemented");
    std::process::exit(2);
}
