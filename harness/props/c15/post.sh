#!/bin/bash
# both tiers: the same relations against ark-ff built with the `asm` feature (tools/asm_stage.sh)
# thorough tier: coverage-guided stage (libFuzzer target with in-target oracle), see tools/fuzz_stage.sh
ROOT="${VERIF_ROOT:-/verif}"
"$ROOT/tools/asm_stage.sh" C15 "${1:-quick}" || exit $?
[ "${1:-quick}" = "thorough" ] || exit 0
exec "$ROOT/tools/fuzz_stage.sh" C15 bigint_ops 1500000 230 8
