//! C15 — not implemented yet.
fn main() {
    eprintln!("C15: check not implemented");
    std::process::exit(2);
}
