//! C15 — fixed-width big integers are integers modulo 2^(64N) with exact carry flags;
//! NAF / relaxed-NAF / wNAF recodings reconstruct the value and obey their digit constraints.
#![allow(deprecated)]
use ark_ff::biginteger::arithmetic::{self as fa, find_naf, find_relaxed_naf};
use ark_ff::{BigInt, BigInteger, BitIteratorBE, BitIteratorLE};
use num_bigint::{BigInt as SBig, BigUint};
use num_traits::{One, Zero};
use std::str::FromStr;
use vh_core::engine::{no_panic, Obs, PropSpec, Rel, Tape, Tier, R};
use vh_core::gen::{edge_int, edge_limbs};
use vh_core::modint::{big, pow2, to_limbs};
use vh_core::{ensure, ensure_eq};

fn hx(v: &BigUint) -> String {
    format!("0x{:x}", v)
}

/// value mod 2^(64N) as N limbs
fn arr<const N: usize>(v: &BigUint) -> [u64; N] {
    let r = v % pow2(64 * N);
    let l = to_limbs(&r, N);
    let mut a = [0u64; N];
    a.copy_from_slice(&l);
    a
}

// ---------------------------------------------------------------------------------------
// generators (by construction; word 0 => zero)
// ---------------------------------------------------------------------------------------

/// bit position in [0, 64n): half of the time next to a limb boundary
fn gen_bitpos(t: &mut Tape<'_>, n: usize) -> usize {
    if t.bool() {
        let j = t.below(n as u64) as usize;
        let d = t.pick(&[0usize, 1, 62, 63]);
        64 * j + d
    } else {
        t.below(64 * n as u64) as usize
    }
}

fn gen_limbs(t: &mut Tape<'_>, n: usize) -> (Vec<u64>, &'static str) {
    let mut l = vec![0u64; n];
    if n == 0 {
        return (l, "empty");
    }
    let cls = match t.weighted(&[2, 2, 2, 4, 4, 2, 2, 3, 3, 2, 8]) {
        0 => "zero",
        1 => {
            l[0] = 1;
            "one"
        },
        2 => {
            l[0] = 2 + t.below(2);
            "two-three"
        },
        3 => {
            let k = gen_bitpos(t, n);
            l[k / 64] = 1u64 << (k % 64);
            "2^k"
        },
        4 => {
            // 2^k - 1 for k in 1..=64n
            let k = gen_bitpos(t, n) + 1;
            for i in 0..k {
                l[i / 64] |= 1u64 << (i % 64);
            }
            "2^k-1"
        },
        5 => {
            l.iter_mut().for_each(|x| *x = u64::MAX);
            "all-ones"
        },
        6 => {
            let pat = t.below(4);
            for (i, x) in l.iter_mut().enumerate() {
                *x = match pat {
                    0 => {
                        if i % 2 == 0 {
                            u64::MAX
                        } else {
                            0
                        }
                    },
                    1 => {
                        if i % 2 == 0 {
                            0
                        } else {
                            u64::MAX
                        }
                    },
                    2 => 0xaaaa_aaaa_aaaa_aaaa,
                    _ => 0x5555_5555_5555_5555,
                };
            }
            "alternating"
        },
        7 => {
            // 2^(64n) - 1 - small
            l.iter_mut().for_each(|x| *x = u64::MAX);
            l[0] = u64::MAX - t.below(1 << 16);
            "near-top"
        },
        8 => {
            l = edge_limbs(t, n);
            "edge-limbs"
        },
        9 => {
            l[0] = t.below(1 << 16);
            "small"
        },
        _ => {
            l = t.limbs(n);
            "uniform"
        },
    };
    (l, cls)
}

fn gen_val<const N: usize>(t: &mut Tape<'_>) -> ([u64; N], &'static str) {
    let (l, c) = gen_limbs(t, N);
    let mut a = [0u64; N];
    a.copy_from_slice(&l);
    (a, c)
}

/// second operand: sometimes correlated with the first (same, complement, negation, neighbours)
fn gen_second<const N: usize>(t: &mut Tape<'_>, a: &[u64; N]) -> ([u64; N], &'static str) {
    if t.chance(1, 5) {
        let m = pow2(64 * N);
        let av = big(a);
        match t.below(5) {
            0 => (*a, "b=a"),
            1 => {
                let mut b = *a;
                b.iter_mut().for_each(|x| *x = !*x);
                (b, "b=!a")
            },
            2 => (arr::<N>(&(&m - &av)), "b=-a"),
            3 => (arr::<N>(&(&av + 1u32)), "b=a+1"),
            _ => (arr::<N>(&(&m + &av - 1u32)), "b=a-1"),
        }
    } else {
        gen_val::<N>(t)
    }
}

// ---------------------------------------------------------------------------------------
// add / sub / double / halve / compare / bit-wise / predicates
// ---------------------------------------------------------------------------------------

/// (some carry leaves a limb, some borrow leaves a limb)
fn limb_crossings(a: &[u64], b: &[u64]) -> (bool, bool) {
    let (mut c, mut anyc) = (0u128, false);
    let (mut bo, mut anyb) = (0i128, false);
    for i in 0..a.len() {
        let s = a[i] as u128 + b[i] as u128 + c;
        c = s >> 64;
        anyc |= c != 0;
        let d = a[i] as i128 - b[i] as i128 - bo;
        bo = (d < 0) as i128;
        anyb |= bo != 0;
    }
    (anyc, anyb)
}

fn arith<const N: usize>(t: &mut Tape<'_>, o: &mut Obs) -> R {
    let m = pow2(64 * N);
    let (a, ac) = gen_val::<N>(t);
    let (b, bc) = gen_second::<N>(t, &a);
    let (av, bv) = (big(&a), big(&b));
    let (x, y) = (BigInt::<N>::new(a), BigInt::<N>::new(b));
    o.show(|| format!("N={} a={} [{}] b={} [{}]", N, hx(&av), ac, hx(&bv), bc));
    let (anyc, anyb) = limb_crossings(&a, &b);
    o.nt(anyc || anyb);
    o.class(ac);
    o.class_if(bc.starts_with("b="), "correlated-second-operand");
    o.class_if(&av + &bv >= m, "add-carry-out");
    o.class_if(av < bv, "sub-borrow-out");
    o.class_if(anyc && &av + &bv < m, "internal-carry-only");
    o.evals(30);

    // add_with_carry: value and flag
    let sum = &av + &bv;
    let mut z = x;
    let carry = z.add_with_carry(&y);
    ensure_eq!(big(&z.0), &sum % &m, "add_with_carry.value");
    ensure_eq!(carry, sum >= m, "add_with_carry.flag");
    // sub_with_borrow: value and flag
    let mut z = x;
    let borrow = z.sub_with_borrow(&y);
    let diff = if av >= bv { &av - &bv } else { &m + &av - &bv };
    ensure_eq!(big(&z.0), diff, "sub_with_borrow.value");
    ensure_eq!(borrow, av < bv, "sub_with_borrow.flag");
    // mul2 / div2
    let mut z = x;
    let c2 = z.mul2();
    ensure_eq!(big(&z.0), (&av << 1usize) % &m, "mul2.value");
    ensure_eq!(c2, (&av << 1usize) >= m, "mul2.flag");
    let mut z = x;
    z.div2();
    ensure_eq!(big(&z.0), &av >> 1usize, "div2");
    // comparison
    ensure_eq!(x.cmp(&y), av.cmp(&bv), "cmp");
    ensure_eq!(x.partial_cmp(&y), Some(av.cmp(&bv)), "partial_cmp");
    ensure_eq!(x == y, av == bv, "eq");
    ensure_eq!(x < y, av < bv, "lt");
    ensure_eq!(x >= y, av >= bv, "ge");
    ensure_eq!(x <= y, av <= bv, "le");
    ensure_eq!(x > y, av > bv, "gt");
    ensure_eq!(x != y, av != bv, "ne");
    ensure!(x <= x && x >= x && !(x < x) && !(x > x) && x == x, "cmp.reflexive", "comparison operators on equal operands {}", hx(&av));
    ensure_eq!(big(&x.max(y).0), av.clone().max(bv.clone()), "max");
    ensure_eq!(big(&x.min(y).0), av.clone().min(bv.clone()), "min");
    // bit-wise operators (by value, by reference, assigning)
    ensure_eq!(big(&(x & y).0), &av & &bv, "bitand");
    ensure_eq!(big(&(x | y).0), &av | &bv, "bitor");
    ensure_eq!(big(&(x ^ y).0), &av ^ &bv, "bitxor");
    ensure_eq!(big(&(x & &y).0), &av & &bv, "bitand.ref");
    ensure_eq!(big(&(x | &y).0), &av | &bv, "bitor.ref");
    ensure_eq!(big(&(x ^ &y).0), &av ^ &bv, "bitxor.ref");
    let mut z = x;
    z &= y;
    ensure_eq!(big(&z.0), &av & &bv, "bitand_assign");
    let mut z = x;
    z |= &y;
    ensure_eq!(big(&z.0), &av | &bv, "bitor_assign");
    let mut z = x;
    z ^= y;
    ensure_eq!(big(&z.0), &av ^ &bv, "bitxor_assign");
    ensure_eq!(big(&(!x).0), &m - 1u32 - &av, "not");
    // predicates
    ensure_eq!(x.is_zero(), av.is_zero(), "is_zero");
    ensure_eq!(x.is_odd(), av.bit(0), "is_odd");
    ensure_eq!(x.is_even(), !av.bit(0), "is_even");
    ensure_eq!(x.num_bits() as u64, av.bits(), "num_bits");
    let idx = [0usize, 1, 63, 64, 65, 64 * N - 1, 64 * N, 64 * N + 1, usize::MAX, t.below(64 * N as u64 + 64) as usize];
    for i in idx {
        let want = i < 64 * N && av.bit(i as u64);
        ensure!(x.get_bit(i) == want, "get_bit", "get_bit({}) of {} = {} expected {}", i, hx(&av), !want, want);
    }
    // small-integer constructors
    let w = a[0];
    ensure_eq!(big(&BigInt::<N>::from(w).0), BigUint::from(w), "from_u64");
    ensure_eq!(big(&BigInt::<N>::from(w as u32).0), BigUint::from(w as u32), "from_u32");
    ensure_eq!(big(&BigInt::<N>::from(w as u16).0), BigUint::from(w as u16), "from_u16");
    ensure_eq!(big(&BigInt::<N>::from(w as u8).0), BigUint::from(w as u8), "from_u8");
    // remaining trait surface of the type: Default, NUM_LIMBS, AsMut (writes through), Debug (prints the integer)
    ensure_eq!(big(&BigInt::<N>::default().0), BigUint::zero(), "default");
    ensure_eq!(<BigInt<N> as BigInteger>::NUM_LIMBS, N, "NUM_LIMBS");
    let mut z = x;
    z.as_mut().copy_from_slice(&b);
    ensure_eq!(big(&z.0), bv, "as_mut");
    let dbg = format!("{:?}", x);
    ensure!(BigUint::from_str(&dbg).ok().as_ref() == Some(&av), "debug", "{{:?}} of {} = {:?}", hx(&av), dbg);
    Ok(())
}

// ---------------------------------------------------------------------------------------
// the public single-limb primitives of `biginteger::arithmetic` (building blocks of every chain above and of
// the field arithmetic): a + b + carry, a - b - borrow, a + b*c (+ carry), each with the exact lost carry/borrow
// ---------------------------------------------------------------------------------------

fn primitives(t: &mut Tape<'_>, o: &mut Obs) -> R {
    let (a, b, c, k) = if t.chance(1, 16) {
        // the one input on which a + b*c + carry fills all 128 bits
        (u64::MAX, u64::MAX, u64::MAX, u64::MAX)
    } else {
        (t.edge_u64(), t.edge_u64(), t.edge_u64(), t.edge_u64())
    };
    let bit = t.below(2);
    o.show(|| format!("limb primitives a={:#x} b={:#x} c={:#x} carry={:#x} bit={}", a, b, c, k, bit));
    let w = pow2(64);
    let (ab, bb, cb, kb) = (BigUint::from(a), BigUint::from(b), BigUint::from(c), BigUint::from(k));
    let split = |v: &BigUint| -> (u64, u64) {
        let lo = (v % &w).to_u64_digits().first().copied().unwrap_or(0);
        let hi = (v >> 64usize).to_u64_digits().first().copied().unwrap_or(0);
        (lo, hi)
    };
    o.nt(&ab + &bb + &kb >= w || &bb * &cb >= w);
    o.class_if(&ab + &bb * &cb + &kb == &w * &w - 1u32, "mac-with-carry-saturates-128-bits");
    o.class_if(&ab + &bb + &kb >= w, "adc-carries");
    o.class_if(ab < &bb + bit, "sbb-borrows");
    o.evals(12);
    // adc: a + b + carry (any carry word), returns the new carry
    let s = &ab + &bb + &kb;
    ensure!(s < &w * 3u32, "oracle", "unreachable");
    let mut x = a;
    let cy = fa::adc(&mut x, b, k);
    ensure_eq!((x, cy), split(&s), "adc");
    ensure_eq!(fa::adc_no_carry(a, b, &k), split(&s).0, "adc_no_carry");
    // adc / sbb on a one-bit flag
    let s1 = &ab + &bb + bit;
    let mut x = a;
    let cy = fa::adc_for_add_with_carry(&mut x, b, bit as u8);
    ensure_eq!((x, cy as u64), split(&s1), "adc_for_add_with_carry");
    let sub = &bb + bit;
    let (d, borrow) = if ab >= sub { (&ab - &sub, 0u8) } else { (&w + &ab - &sub, 1u8) };
    let mut x = a;
    let bo = fa::sbb_for_sub_with_borrow(&mut x, b, bit as u8);
    ensure_eq!((x, bo), (split(&d).0, borrow), "sbb_for_sub_with_borrow");
    // widening product and multiply-accumulate
    let prod = &bb * &cb;
    let wm = fa::widening_mul(b, c);
    ensure_eq!((wm as u64, (wm >> 64) as u64), split(&prod), "widening_mul");
    let m = &ab + &prod;
    let mut cy = k;
    let lo = fa::mac(a, b, c, &mut cy);
    ensure_eq!((lo, cy), split(&m), "mac");
    let mut cy = k;
    fa::mac_discard(a, b, c, &mut cy);
    ensure_eq!(cy, split(&m).1, "mac_discard");
    let mc = &ab + &prod + &kb;
    let mut cy = k;
    let lo = fa::mac_with_carry(a, b, c, &mut cy);
    ensure_eq!((lo, cy), split(&mc), "mac_with_carry");
    Ok(())
}

// ---------------------------------------------------------------------------------------
// shifts
// ---------------------------------------------------------------------------------------

fn shift<const N: usize>(t: &mut Tape<'_>, o: &mut Obs) -> R {
    let m = pow2(64 * N);
    let (a, ac) = gen_val::<N>(t);
    let w = 64 * N as u64;
    let n: u32 = match t.weighted(&[1, 1, 1, 1, 1, 1, 1, 1, 1, 2, 5]) {
        0 => 0,
        1 => 1,
        2 => 63,
        3 => 64,
        4 => 65,
        5 => (w - 1) as u32,
        6 => w as u32,
        7 => (w + 1) as u32,
        8 => u32::MAX,
        9 => (64 * t.below(N as u64 + 2)) as u32,
        _ => t.below(w + 66) as u32,
    };
    let av = big(&a);
    let x = BigInt::<N>::new(a);
    o.show(|| format!("N={} a={} [{}] shift={}", N, hx(&av), ac, n));
    let sub = (n % 64) as u32;
    let crosses_l = sub > 0 && a.iter().any(|l| l >> (64 - sub) != 0);
    let crosses_r = sub > 0 && a.iter().any(|l| l << (64 - sub) != 0);
    o.nt(!av.is_zero() && n > 0 && (n >= 64 || crosses_l || crosses_r));
    o.class(ac);
    o.class_if(n >= 64, "shift>=64");
    o.class_if(n as u64 >= w, "shift>=64N");
    o.class_if(n > 0 && n % 64 == 0, "shift-multiple-of-64");
    o.evals(6);
    let (want_l, want_r) = if n as u64 >= w { (BigUint::zero(), BigUint::zero()) } else { ((&av << n as usize) % &m, &av >> n as usize) };
    ensure_eq!(big(&(x << n).0), want_l, "shl");
    let mut z = x;
    z <<= n;
    ensure_eq!(big(&z.0), want_l, "shl_assign");
    let mut z = x;
    z.muln(n);
    ensure_eq!(big(&z.0), want_l, "muln");
    ensure_eq!(big(&(x >> n).0), want_r, "shr");
    let mut z = x;
    z >>= n;
    ensure_eq!(big(&z.0), want_r, "shr_assign");
    let mut z = x;
    z.divn(n);
    ensure_eq!(big(&z.0), want_r, "divn");
    Ok(())
}

// ---------------------------------------------------------------------------------------
// multiplication
// ---------------------------------------------------------------------------------------

/// operand pair whose bit lengths sum to 64N-1 ..= 64N+2: the product sits right at the boundary between
/// "fits in N limbs" and "spills into the high half" (with both outcomes possible for the same lengths)
fn gen_mul_boundary<const N: usize>(t: &mut Tape<'_>) -> ([u64; N], [u64; N]) {
    let total = 64 * N as u64 - 1 + t.below(4);
    let la = 1 + t.below(total.min(64 * N as u64) - 1); // 1 ..= min(total, 64N) - 1
    let lb = (total - la).clamp(1, 64 * N as u64);
    let mut mk = |len: u64, t: &mut Tape<'_>| -> BigUint {
        // exactly `len` bits: top bit set, the rest all-ones / zeros / uniform / small
        let top = pow2(len as usize - 1);
        let low = match t.below(4) {
            0 => BigUint::from(0u32),
            1 => &top - 1u32,
            2 => BigUint::from(t.below(4)) % &top,
            _ => big(&t.limbs(N)) % &top,
        };
        top + low
    };
    let a = mk(la, t);
    let b = mk(lb, t);
    (arr::<N>(&a), arr::<N>(&b))
}

fn mul<const N: usize>(t: &mut Tape<'_>, o: &mut Obs) -> R {
    let m = pow2(64 * N);
    let boundary = t.chance(1, 4);
    let ((a, ac), (b, bc)) = if boundary {
        let (a, b) = gen_mul_boundary::<N>(t);
        ((a, "bitlen-sum-near-width"), (b, "bitlen-sum-near-width"))
    } else {
        let (a, ac) = gen_val::<N>(t);
        let (b, bc) = gen_second::<N>(t, &a);
        ((a, ac), (b, bc))
    };
    let (av, bv) = (big(&a), big(&b));
    let (x, y) = (BigInt::<N>::new(a), BigInt::<N>::new(b));
    o.show(|| format!("N={} a={} [{}] b={} [{}]", N, hx(&av), ac, hx(&bv), bc));
    let prod = &av * &bv;
    o.nt(prod.bits() > 64);
    o.class(ac);
    o.class_if(prod >= m, "product-overflows-width");
    o.class_if(av.is_zero() || bv.is_zero(), "zero-operand");
    o.evals(4);
    let (lo, hi) = x.mul(&y);
    ensure_eq!(big(&lo.0), &prod % &m, "mul.lo");
    ensure_eq!(big(&hi.0), &prod >> (64 * N), "mul.hi");
    ensure_eq!(big(&x.mul_low(&y).0), &prod % &m, "mul_low");
    ensure_eq!(big(&x.mul_high(&y).0), &prod >> (64 * N), "mul_high");
    Ok(())
}

// ---------------------------------------------------------------------------------------
// conversions: bits, bytes, strings, BigUint, iterators
// ---------------------------------------------------------------------------------------

fn bits_le_of(v: &BigUint, len: usize) -> Vec<bool> {
    (0..len).map(|i| v.bit(i as u64)).collect()
}

fn conv<const N: usize>(t: &mut Tape<'_>, o: &mut Obs) -> R {
    let m = pow2(64 * N);
    match t.below(4) {
        0 => {
            // BigInt -> bits / bytes / BigUint / strings
            let (a, ac) = gen_val::<N>(t);
            let av = big(&a);
            let x = BigInt::<N>::new(a);
            o.show(|| format!("N={} to_bits/to_bytes/Display of {} [{}]", N, hx(&av), ac));
            o.nt(av.bits() > 64 || (N == 1 && av.bits() > 1));
            o.class(ac);
            o.evals(14);
            let le = bits_le_of(&av, 64 * N);
            let mut be = le.clone();
            be.reverse();
            ensure_eq!(x.to_bits_le(), le, "to_bits_le");
            ensure_eq!(x.to_bits_be(), be, "to_bits_be");
            let mut bytes = av.to_bytes_le();
            if av.is_zero() {
                bytes.clear();
            }
            bytes.resize(8 * N, 0);
            ensure_eq!(x.to_bytes_le(), bytes, "to_bytes_le");
            bytes.reverse();
            ensure_eq!(x.to_bytes_be(), bytes, "to_bytes_be");
            ensure_eq!(BitIteratorLE::new(x).collect::<Vec<_>>(), le, "BitIteratorLE");
            ensure_eq!(BitIteratorBE::new(x).collect::<Vec<_>>(), be, "BitIteratorBE");
            let nb = av.bits() as usize;
            let sig_le = bits_le_of(&av, nb);
            let mut sig_be = sig_le.clone();
            sig_be.reverse();
            ensure_eq!(BitIteratorLE::without_trailing_zeros(x).collect::<Vec<_>>(), sig_le, "BitIteratorLE.without_trailing_zeros");
            ensure_eq!(BitIteratorBE::without_leading_zeros(x).collect::<Vec<_>>(), sig_be, "BitIteratorBE.without_leading_zeros");
            let bu: BigUint = x.into();
            ensure_eq!(bu, av, "into_biguint");
            let sb: SBig = x.into();
            ensure_eq!(sb, SBig::from(av.clone()), "into_bigint");
            ensure_eq!(x.to_string(), av.to_string(), "display");
            let hexs = format!("{:X}", x);
            ensure!(
                BigUint::parse_bytes(hexs.as_bytes(), 16).as_ref() == Some(&av) && hexs == hexs.to_uppercase(),
                "upper_hex",
                "{{:X}} of {} = {:?}",
                hx(&av),
                hexs
            );
            ensure_eq!(x.as_ref(), &a[..], "as_ref");
            let back = BigInt::<N>::from_str(&x.to_string());
            ensure!(back == Ok(x), "from_str.roundtrip", "from_str(to_string({})) = {:?}", hx(&av), back);
            Ok(())
        },
        1 => {
            // bit vectors -> BigInt. Shorter, equal and longer than 64N; bits beyond 64N are zero (the value fits).
            let (a, ac) = gen_val::<N>(t);
            let len = match t.weighted(&[1, 3, 3, 3, 3]) {
                0 => 0,
                1 => t.below(64 * N as u64) as usize,
                2 => 64 * N,
                3 => 64 * N + 1 + t.below(130) as usize,
                // one bit short of / exactly at / one bit beyond a limb boundary (chunking of the bit vector)
                _ => (64 * (1 + t.below(N as u64 + 1)) as usize + t.below(3) as usize).saturating_sub(1),
            };
            let v = big(&a) % pow2(len.min(64 * N));
            o.show(|| format!("N={} from_bits_le/be of {} bits, value {} [{}]", N, len, hx(&v), ac));
            o.nt(len != 64 * N && v.bits() > 1);
            o.class(ac);
            o.class_if(len < 64 * N, "bits-shorter-than-width");
            o.class_if(len > 64 * N, "bits-longer-than-width");
            o.class_if(len > 64 && len < 64 * N && len % 64 != 0, "bits-ragged-multi-limb");
            o.class_if(len % 64 == 1 || len % 64 == 63, "bits-next-to-limb-boundary");
            o.evals(2);
            let le = bits_le_of(&v, len);
            let mut be = le.clone();
            be.reverse();
            ensure_eq!(big(&BigInt::<N>::from_bits_le(&le).0), v, "from_bits_le");
            ensure_eq!(big(&BigInt::<N>::from_bits_be(&be).0), v, "from_bits_be");
            if len > 64 * N && t.chance(1, 2) {
                // over-long vectors whose excess bits are NOT all zero: the documentation is silent; like every other
                // operation of the type the conversion keeps the value modulo 2^(64N) (callers such as bit-stream
                // multiplication pass arbitrary-length streams), in particular it does not panic
                let mut le2 = le.clone();
                let extra = len - 64 * N;
                let k = 1 + t.below(extra.min(3) as u64) as usize;
                for j in 0..k {
                    let pos = 64 * N + if j == 0 { t.below(extra as u64) as usize } else { (t.u64() as usize) % extra };
                    le2[pos] = true;
                }
                let mut be2 = le2.clone();
                be2.reverse();
                o.class("bits-longer-than-width-with-excess-bits-set");
                let got = vh_core::engine::no_panic("from_bits_le.excess", || BigInt::<N>::from_bits_le(&le2))?;
                ensure_eq!(big(&got.0), v, "from_bits_le.excess");
                let got = vh_core::engine::no_panic("from_bits_be.excess", || BigInt::<N>::from_bits_be(&be2))?;
                ensure_eq!(big(&got.0), v, "from_bits_be.excess");
            }
            Ok(())
        },
        2 => {
            // decimal strings and BigUint, around 2^(64N): error iff too wide
            let v = match t.weighted(&[3, 3, 2, 2]) {
                0 => big(&gen_val::<N>(t).0),
                1 => {
                    let d = t.below(5);
                    &m + d - 2u32
                },
                2 => big(&edge_int(t, N + 1)),
                _ => (&m << t.below(70) as usize) - t.below(2),
            };
            let zeros = match t.below(3) {
                0 => 0,
                1 => 1,
                _ => 1 + t.below(24) as usize,
            };
            let s = format!("{}{}", "0".repeat(zeros), v);
            o.show(|| format!("N={} from_str({:?}) / try_from", N, s));
            let fits = v < m;
            o.nt(v.bits() > 64 || !fits);
            o.class_if(!fits, "too-wide");
            o.class_if(fits && v.bits() as usize > 64 * N - 8, "fits-top-byte-used");
            o.class_if(zeros > 0, "leading-zeros");
            o.evals(3);
            let r = BigInt::<N>::from_str(&s);
            let r2 = BigInt::<N>::try_from(v.clone());
            if fits {
                match r {
                    Ok(x) => {
                        ensure_eq!(big(&x.0), v, "from_str.value");
                        ensure_eq!(x.to_string(), v.to_string(), "display");
                    },
                    Err(()) => return vh_core::fail("from_str.rejects-fitting", format!("from_str({:?}) = Err", s)),
                }
                match r2 {
                    Ok(x) => ensure_eq!(big(&x.0), v, "try_from_biguint.value"),
                    Err(()) => return vh_core::fail("try_from_biguint.rejects-fitting", format!("try_from({}) = Err", hx(&v))),
                }
            } else {
                ensure!(r.is_err(), "from_str.accepts-too-wide", "from_str({:?}) = {:?}", s, r);
                ensure!(r2.is_err(), "try_from_biguint.accepts-too-wide", "try_from({}) = {:?}", hx(&v), r2);
            }
            // text that is not a non-negative decimal integer
            let bad = t.pick(&["", "-1", "0x10", "12a", " 1", "1 ", "--", "1.0"]);
            ensure!(BigInt::<N>::from_str(bad).is_err(), "from_str.accepts-malformed", "from_str({:?}) is Ok", bad);
            Ok(())
        },
        _ => {
            // bit iterators over limb slices of any length (0..=N+1 limbs)
            let n = t.below(N as u64 + 2) as usize;
            let (l, lc) = gen_limbs(t, n);
            let v = big(&l);
            o.show(|| format!("BitIterator over {} limbs {} [{}]", n, hx(&v), lc));
            o.nt(v.bits() > 64);
            o.class(lc);
            o.evals(4);
            let le = bits_le_of(&v, 64 * n);
            let mut be = le.clone();
            be.reverse();
            ensure_eq!(BitIteratorLE::new(&l).collect::<Vec<_>>(), le, "BitIteratorLE.slice");
            ensure_eq!(BitIteratorBE::new(&l).collect::<Vec<_>>(), be, "BitIteratorBE.slice");
            let sig_le = bits_le_of(&v, v.bits() as usize);
            let mut sig_be = sig_le.clone();
            sig_be.reverse();
            ensure_eq!(BitIteratorLE::without_trailing_zeros(&l).collect::<Vec<_>>(), sig_le, "BitIteratorLE.without_trailing_zeros.slice");
            ensure_eq!(BitIteratorBE::without_leading_zeros(&l).collect::<Vec<_>>(), sig_be, "BitIteratorBE.without_leading_zeros.slice");
            Ok(())
        },
    }
}

// ---------------------------------------------------------------------------------------
// the `const fn` twins, called at run time through their public wrappers
// ---------------------------------------------------------------------------------------

fn consts<const N: usize>(t: &mut Tape<'_>, o: &mut Obs) -> R {
    if t.below(2) == 0 {
        // helpers that take any value
        let (a, ac) = gen_val::<N>(t);
        let av = big(&a);
        let x = BigInt::<N>::new(a);
        o.show(|| format!("N={} const helpers on {} [{}]", N, hx(&av), ac));
        o.nt(av.bits() > 64 || (N == 1 && av.bits() > 1));
        o.class(ac);
        o.evals(10);
        ensure_eq!(x.0, a, "new");
        ensure_eq!(big(&BigInt::<N>::zero().0), BigUint::zero(), "zero");
        ensure_eq!(big(&BigInt::<N>::one().0), BigUint::one(), "one");
        ensure_eq!(x.const_is_even(), !av.bit(0), "const_is_even");
        ensure_eq!(x.const_is_odd(), av.bit(0), "const_is_odd");
        ensure_eq!(BigUint::from(x.mod_4()), &av % 4u32, "mod_4");
        ensure_eq!(big(&x.const_shr().0), &av >> 1usize, "const_shr");
        ensure_eq!(big(&x.divide_by_2_round_down().0), &av >> 1usize, "divide_by_2_round_down");
        if a[N - 1] != 0 {
            // `const_num_bits` is only used on moduli (top limb non-zero); see NOTES.md
            o.class("const_num_bits-checked");
            ensure_eq!(x.const_num_bits() as u64, av.bits(), "const_num_bits");
        }
        Ok(())
    } else {
        // helpers that take an odd modulus >= 3
        let (mut p, pc) = gen_val::<N>(t);
        p[0] |= 1;
        if big(&p).is_one() {
            p[0] = 3;
        }
        let pv = big(&p);
        let x = BigInt::<N>::new(p);
        o.show(|| format!("N={} montgomery_r/r2, two_adic_* of odd modulus {} [{}]", N, hx(&pv), pc));
        o.nt(pv.bits() > 64 || (N == 1 && pv.bits() > 2));
        o.class(pc);
        o.class_if(p[N - 1] >> 63 == 1, "modulus-without-spare-bit");
        o.class_if(p[N - 1] == 0, "modulus-with-zero-top-limb");
        o.evals(4);
        let r = no_panic("montgomery_r", || x.montgomery_r())?;
        ensure_eq!(big(&r.0), pow2(64 * N) % &pv, "montgomery_r");
        let r2 = no_panic("montgomery_r2", || x.montgomery_r2())?;
        ensure_eq!(big(&r2.0), pow2(128 * N) % &pv, "montgomery_r2");
        let pm1 = &pv - 1u32;
        let s = pm1.trailing_zeros().unwrap();
        ensure_eq!(x.two_adic_valuation() as u64, s, "two_adic_valuation");
        ensure_eq!(big(&x.two_adic_coefficient().0), &pm1 >> s as usize, "two_adic_coefficient");
        Ok(())
    }
}

// ---------------------------------------------------------------------------------------
// signed-digit recodings
// ---------------------------------------------------------------------------------------

/// Σ d_i 2^i over the integers
fn recon<I: DoubleEndedIterator<Item = i64>>(digits: I) -> SBig {
    let mut acc = SBig::zero();
    for d in digits.rev() {
        acc <<= 1usize;
        acc += d;
    }
    acc
}

/// the unique non-adjacent form: d_i = bit_{i+1}(3v) - bit_{i+1}(v)
fn naf_oracle(v: &BigUint) -> Vec<i8> {
    let h = v * 3u32;
    let n = h.bits();
    let mut out: Vec<i8> = (0..n).map(|i| h.bit(i + 1) as i8 - v.bit(i + 1) as i8).collect();
    while out.last() == Some(&0) {
        out.pop();
    }
    out
}

fn check_naf(v: &BigUint, naf: &[i8], what: &str) -> R {
    ensure!(naf.iter().all(|d| (-1..=1).contains(d)), format!("{}.digit-range", what), "{} of {} has a digit outside {{-1,0,1}}: {:?}", what, hx(v), naf);
    let got = recon(naf.iter().map(|d| *d as i64));
    ensure!(got == SBig::from(v.clone()), format!("{}.value", what), "{} of {} reconstructs to {} (digits LE {:?})", what, hx(v), got, naf);
    Ok(())
}

fn naf_case(l: &[u64], lc: &'static str, o: &mut Obs) -> R {
    let v = big(l);
    o.show(|| format!("find_naf / find_relaxed_naf of {} limbs {} [{}]", l.len(), hx(&v), lc));
    o.class(lc);
    o.evals(8);
    let naf = no_panic("find_naf", || find_naf(l))?;
    check_naf(&v, &naf, "naf")?;
    for i in 1..naf.len() {
        ensure!(naf[i] == 0 || naf[i - 1] == 0, "naf.adjacent", "find_naf({}) has adjacent non-zero digits at {} (LE {:?})", hx(&v), i - 1, naf);
    }
    ensure!(naf.len() as u64 <= v.bits() + 1, "naf.length", "find_naf({}) has {} digits for a {}-bit value", hx(&v), naf.len(), v.bits());
    let mut trimmed = naf.clone();
    while trimmed.last() == Some(&0) {
        trimmed.pop();
    }
    ensure!(trimmed == naf_oracle(&v), "naf.canonical", "find_naf({}) = {:?} is not the canonical NAF {:?}", hx(&v), naf, naf_oracle(&v));
    o.nt(v.bits() > 2 && naf.iter().any(|d| *d < 0));
    o.class_if(naf.len() as u64 == v.bits() + 1, "naf-longer-than-binary");
    o.class_if(!l.is_empty() && naf.len() == 64 * l.len() + 1, "naf-digit-beyond-width");

    let rel = no_panic("find_relaxed_naf", || find_relaxed_naf(l))?;
    check_naf(&v, &rel, "relaxed_naf")?;
    ensure!(rel.len() <= naf.len(), "relaxed_naf.length", "relaxed NAF of {} is longer ({}) than the NAF ({})", hx(&v), rel.len(), naf.len());
    for i in 1..rel.len() {
        // adjacency is allowed only between the two most significant digits
        ensure!(rel[i] == 0 || rel[i - 1] == 0 || i == rel.len() - 1, "relaxed_naf.adjacent", "find_relaxed_naf({}) has adjacent non-zero digits at {} below the top (LE {:?})", hx(&v), i - 1, rel);
    }
    o.class_if(rel.len() < naf.len(), "relaxed-naf-shorter");
    Ok(())
}

fn naf_rel(n: usize, t: &mut Tape<'_>, o: &mut Obs) -> R {
    let n = if n == 1 && t.chance(1, 40) { 0 } else { n };
    let (l, lc) = gen_limbs(t, n);
    naf_case(&l, lc, o)
}

fn check_wnaf(v: &BigUint, w: usize, d: &[i64]) -> R {
    let got = recon(d.iter().copied());
    ensure!(got == SBig::from(v.clone()), "wnaf.value", "find_wnaf({}) of {} reconstructs to {} (digits LE {:?})", w, hx(v), got, d);
    let bound = 1i64 << (w - 1);
    let mut last: Option<usize> = None;
    for (i, x) in d.iter().enumerate() {
        if *x != 0 {
            ensure!(x & 1 == 1, "wnaf.even-digit", "find_wnaf({}) of {}: digit {} at {} is even", w, hx(v), x, i);
            ensure!(x.unsigned_abs() < bound as u64, "wnaf.digit-range", "find_wnaf({}) of {}: |digit {}| at {} >= 2^{}", w, hx(v), x, i, w - 1);
            if let Some(j) = last {
                ensure!(i - j >= w, "wnaf.window", "find_wnaf({}) of {}: non-zero digits at {} and {} share a window", w, hx(v), j, i);
            }
            last = Some(i);
        }
    }
    Ok(())
}

fn gen_window(t: &mut Tape<'_>, max: u64) -> usize {
    match t.weighted(&[3, 1, 1, 1, 4]) {
        0 => t.range(2, 8.min(max)) as usize,
        1 => 2,
        2 => max as usize,
        3 => (max - 1) as usize,
        _ => t.range(2, max) as usize,
    }
}

/// value for a window `w`: general classes plus values within 2^(w-1) of 2^(64N)
fn gen_wnaf_val<const N: usize>(t: &mut Tape<'_>, w: usize) -> ([u64; N], &'static str) {
    if t.chance(1, 3) {
        let mut a = [u64::MAX; N];
        let d = match t.below(3) {
            0 => 0,
            1 => t.below(4),
            _ => t.below(1u64 << (w - 1)),
        };
        a[0] = u64::MAX - d;
        (a, "within-2^(w-1)-of-top")
    } else {
        gen_val::<N>(t)
    }
}

fn wnaf_case<const N: usize>(a: [u64; N], ac: &'static str, w: usize, o: &mut Obs) -> R {
    let av = big(&a);
    let x = BigInt::<N>::new(a);
    o.show(|| format!("N={} find_wnaf({}) of {} [{}]", N, w, hx(&av), ac));
    o.class(ac);
    o.evals(4);
    let d = match no_panic("find_wnaf", || x.find_wnaf(w))? {
        Some(d) => d,
        None => return vh_core::fail("wnaf.none", format!("find_wnaf({}) = None", w)),
    };
    check_wnaf(&av, w, &d)?;
    o.nt(av.bits() > 2 && d.iter().any(|x| *x < 0));
    o.class_if(d.len() == 64 * N + 1, "wnaf-digit-beyond-width");
    o.class_if(w >= 32, "window>=32");
    Ok(())
}

fn wnaf<const N: usize>(t: &mut Tape<'_>, o: &mut Obs) -> R {
    if t.chance(1, 16) {
        // invalid windows: documented `None`
        let w = t.pick(&[0usize, 1, 64, 65, 128, usize::MAX]);
        let (a, _) = gen_val::<N>(t);
        o.show(|| format!("N={} find_wnaf({}) must be None", N, w));
        o.class("invalid-window");
        let r = no_panic("find_wnaf", || BigInt::<N>::new(a).find_wnaf(w))?;
        ensure!(r.is_none(), "wnaf.invalid-window", "find_wnaf({}) = Some", w);
        return Ok(());
    }
    let w = gen_window(t, 62);
    let (a, ac) = gen_wnaf_val::<N>(t, w);
    wnaf_case::<N>(a, ac, w, o)
}

/// window 63 (the largest documented one) for every width, kept in a relation of its own
fn wnaf63(t: &mut Tape<'_>, o: &mut Obs) -> R {
    macro_rules! go {
        ($($n:literal),*) => {
            match 1 + t.below(13) {
                $($n => {
                    let (a, ac) = gen_wnaf_val::<$n>(t, 63);
                    wnaf_case::<$n>(a, ac, 63, o)
                },)*
                _ => unreachable!(),
            }
        };
    }
    go!(1, 2, 3, 4, 5, 6, 7, 8, 9, 10, 11, 12, 13)
}

/// exhaustive: the K smallest and the K largest values of the width, NAF + relaxed NAF + windows 2..=7
fn recode_small<const N: usize>(t: &mut Tape<'_>, o: &mut Obs) -> R {
    let k = t.u64();
    let top = t.below(2) == 1;
    let sel = t.below(7) as usize;
    let mut a = [0u64; N];
    if top {
        a = [u64::MAX; N];
        a[0] = u64::MAX - k;
    } else {
        a[0] = k;
    }
    let cls = if top { "largest-values" } else { "smallest-values" };
    if sel == 0 {
        naf_case(&a, cls, o)
    } else {
        wnaf_case::<N>(a, cls, sel + 1, o)
    }
}

fn relations(tier: Tier) -> Vec<Rel> {
    let mut out = Vec::new();
    let q = |n: u32| tier.pick(n, n * 20);
    let kmax: u64 = tier.pick(4096, 32768);
    macro_rules! reg {
        ($($n:literal),*) => {$(
            let words = 6 * $n + 40;
            out.push(Rel::new(format!("arith/N{}", $n), q(30000), words, |t, o| arith::<$n>(t, o)));
            out.push(Rel::new(format!("shift/N{}", $n), q(30000), words, |t, o| shift::<$n>(t, o)));
            out.push(Rel::new(format!("mul/N{}", $n), q(30000), words, |t, o| mul::<$n>(t, o)));
            out.push(Rel::new(format!("conv/N{}", $n), q(30000), words, |t, o| conv::<$n>(t, o)));
            out.push(Rel::new(format!("const/N{}", $n), q(12000), words, |t, o| consts::<$n>(t, o)));
            out.push(Rel::new(format!("naf/L{}", $n), q(20000), words, |t, o| naf_rel($n, t, o)));
            out.push(Rel::new(format!("wnaf/N{}", $n), q(30000), words, |t, o| wnaf::<$n>(t, o)));
            out.push(
                Rel::new(format!("recode-exhaustive/N{}", $n), 0, 3, |t, o| recode_small::<$n>(t, o))
                    .exhaustive(move || Box::new((0..kmax).flat_map(|k| (0..2u64).flat_map(move |top| (0..7u64).map(move |s| vec![k, top, s]))))),
            );
        )*};
    }
    reg!(1, 2, 3, 4, 5, 6, 7, 8, 9, 10, 11, 12, 13);
    // beyond the largest `BigIntegerNNN` alias: widths at which the unrolled limb loops (`unroll_for_loops(6)`) run
    // several full rounds plus a remainder, and the widths of the >13-limb fields of C01/C20
    reg!(14, 16, 24, 25);
    out.push(Rel::new("limb-primitives", q(60000), 12, primitives));
    out.push(Rel::new("wnaf-w63/N1-13", q(40000), 2 * 13 + 16, wnaf63));
    out
}

fn main() {
    vh_core::engine::main(PropSpec {
        id: "C15",
        rule: "BigInt<N> for N = 1..13 and 14, 16, 24, 25 (beyond the largest alias: several full rounds of the unrolled limb loops). Operands decoded from a proptest tape: 0, 1, 2, 3, 2^k and 2^k-1 (k next to limb boundaries half of the time), all ones, alternating limbs / bit patterns, 2^(64N)-1-small, edge limbs, small, uniform; second operands correlated 1/5 of the time (a, !a, -a, a+-1); shift amounts 0, 1, 63, 64, 65, 64N-1, 64N, 64N+1, u32::MAX, multiples of 64, uniform up to 64N+65; bit vectors shorter/equal/longer than 64N (excess bits zero) incl. lengths one bit short of / at / beyond every limb boundary; decimal strings and BigUint around 2^(64N) with leading zeros; windows 2..63 (and invalid ones); recodings additionally on values within 2^(w-1) of 2^(64N) and exhaustively on the smallest and largest values of every width. Additionally limb-primitives: the public single-limb building blocks adc, adc_for_add_with_carry, adc_no_carry, sbb_for_sub_with_borrow, widening_mul, mac, mac_discard, mac_with_carry on edge words (0, 1, MAX, 2^k, 2^k-1, small, uniform) for every argument incl. the carry word, results and carries against BigUint. Oracle: num-bigint. Non-trivial: limb-primitives - the sum or the product leaves the limb; arith - a carry or borrow leaves some limb; shift - value != 0 and (shift >= 64 or a bit crosses a limb boundary / falls off); mul - product wider than 64 bits; conversions - value wider than one limb (or > 1 for N = 1), length != 64N, or too wide; const helpers - same; recodings - value > 3 and the recoding contains a negative digit (a carry was propagated). distinct = distinct decoded choice sequences.",
        assumptions: &[
            "num-bigint arithmetic, parsing and printing are correct (oracle)",
            "from_bits_le/be with set bits beyond position 64N: the documentation is silent; the check demands what the code does and what the rest of the type does on overflow - the value modulo 2^(64N), without a panic",
            "const_num_bits is only checked on values with a non-zero top limb (its only use: moduli); montgomery_r/r2 and two_adic_* on odd values >= 3",
        ],
        relations,
    })
}
