//! API spellings and I/O shapes of the same (de)serialization: the convenience methods of `CanonicalSerialize` /
//! `CanonicalDeserialize`, a writer that is a fixed buffer of exactly the advertised size, and writers / readers
//! that move only a few bytes per call (a pipe or socket: `write` / `read` may be partial, which is why the
//! library has to use `write_all` / `read_exact`). The value a byte string denotes and the bytes a value produces
//! must not depend on which spelling or which `Read` / `Write` implementation is used.
use ark_serialize::{CanonicalDeserialize, CanonicalSerialize, Compress, Read, Validate, Write};
use vh_core::engine::R;
use vh_core::{ensure, fail};

/// chunk sizes of a dribbling reader / writer: four sizes out of {1,2,3,5,7,8,9,17}, word 0 = one byte per call
pub fn pattern(word: u64) -> [usize; 4] {
    const KS: [usize; 8] = [1, 2, 3, 5, 7, 8, 9, 17];
    [KS[(word & 7) as usize], KS[((word >> 3) & 7) as usize], KS[((word >> 6) & 7) as usize], KS[((word >> 9) & 7) as usize]]
}

/// `Read` that hands out at most `pat[i mod 4]` bytes in its i-th call (never 0 before the end of the data)
pub struct Dribble<'a> {
    pub data: &'a [u8],
    pub pos: usize,
    pat: [usize; 4],
    calls: usize,
}

impl<'a> Dribble<'a> {
    pub fn new(data: &'a [u8], pat: [usize; 4]) -> Self {
        Dribble { data, pos: 0, pat, calls: 0 }
    }
}

impl Read for Dribble<'_> {
    fn read(&mut self, buf: &mut [u8]) -> std::io::Result<usize> {
        let n = buf.len().min(self.data.len() - self.pos).min(self.pat[self.calls % 4]);
        self.calls += 1;
        buf[..n].copy_from_slice(&self.data[self.pos..self.pos + n]);
        self.pos += n;
        Ok(n)
    }
}

/// `Write` that accepts at most `pat[i mod 4]` bytes in its i-th call
pub struct DribbleW {
    pub out: Vec<u8>,
    pat: [usize; 4],
    calls: usize,
}

impl DribbleW {
    pub fn new(pat: [usize; 4]) -> Self {
        DribbleW { out: Vec::new(), pat, calls: 0 }
    }
}

impl Write for DribbleW {
    fn write(&mut self, buf: &[u8]) -> std::io::Result<usize> {
        let n = buf.len().min(self.pat[self.calls % 4]);
        self.calls += 1;
        self.out.extend_from_slice(&buf[..n]);
        Ok(n)
    }
    fn flush(&mut self) -> std::io::Result<()> {
        Ok(())
    }
}

fn hx(b: &[u8]) -> String {
    b.iter().map(|x| format!("{:02x}", x)).collect()
}

/// `same(decoded)` = the decoded value denotes the value `v` was built from (compared through raw coordinates by
/// the caller). `checked`: the value is valid (in the subgroup), so the validating spellings must accept it too.
/// `cheap`: validation costs nothing (fields), so the partial reader validates as well; for points one subgroup test
/// per compression mode (the validating convenience spelling) is enough - the I/O shape does not depend on it.
pub fn spellings<T: CanonicalSerialize + CanonicalDeserialize>(v: &T, checked: bool, cheap: bool, what: &str, pat_word: u64, same: &dyn Fn(&T) -> bool) -> R {
    let pat = pattern(pat_word);
    for c in [Compress::Yes, Compress::No] {
        let cn = if c == Compress::Yes { "compressed" } else { "uncompressed" };
        let mut bytes = Vec::new();
        if let Err(e) = v.serialize_with_mode(&mut bytes, c) {
            return fail(format!("serialize.{}.err", what), format!("{:?}", e));
        }
        // --- the convenience spellings: serialize_X / X_size / deserialize_X / deserialize_X_unchecked
        let mut b = Vec::new();
        let r = if c == Compress::Yes { v.serialize_compressed(&mut b) } else { v.serialize_uncompressed(&mut b) };
        if let Err(e) = r {
            return fail(format!("spelling.serialize_{}.{}.err", cn, what), format!("{:?}", e));
        }
        let adv = if c == Compress::Yes { v.compressed_size() } else { v.uncompressed_size() };
        ensure!(b.len() == adv, format!("spelling.size.{}.{}", cn, what), "{}: serialize_{} wrote {} bytes, {}_size() = {}", what, cn, b.len(), cn, adv);
        let unchecked = if c == Compress::Yes { T::deserialize_compressed_unchecked(&b[..]) } else { T::deserialize_uncompressed_unchecked(&b[..]) };
        match unchecked {
            Ok(w) => ensure!(same(&w), format!("spelling.deserialize_{}_unchecked.{}", cn, what), "{}: deserialize_{}_unchecked(serialize_{}(v)) = {} is a different value", what, cn, cn, hx(&b)),
            Err(e) => return fail(format!("spelling.deserialize_{}_unchecked.{}.err", cn, what), format!("{}: own encoding {} rejected: {:?}", what, hx(&b), e)),
        }
        if checked {
            let r = if c == Compress::Yes { T::deserialize_compressed(&b[..]) } else { T::deserialize_uncompressed(&b[..]) };
            match r {
                Ok(w) => ensure!(same(&w), format!("spelling.deserialize_{}.{}", cn, what), "{}: deserialize_{}(serialize_{}(v)) = {} is a different value", what, cn, cn, hx(&b)),
                Err(e) => return fail(format!("spelling.deserialize_{}.{}.err", cn, what), format!("{}: own encoding {} of a valid value rejected: {:?}", what, hx(&b), e)),
            }
        }
        // --- a buffer of exactly the advertised size is enough, and it is filled completely
        let size = v.serialized_size(c);
        let mut buf = vec![0xA5u8; size];
        {
            let mut w: &mut [u8] = &mut buf[..];
            if let Err(e) = v.serialize_with_mode(&mut w, c) {
                return fail(format!("io.exact-buffer.{}.{}", cn, what), format!("{}: serializing into a buffer of serialized_size({}) = {} bytes failed: {:?}", what, cn, size, e));
            }
            ensure!(w.is_empty(), format!("io.exact-buffer.left.{}.{}", cn, what), "{}: {} of the advertised {} bytes were not written", what, w.len(), size);
        }
        ensure!(buf == bytes, format!("io.exact-buffer.bytes.{}.{}", cn, what), "{}: {} written into a fixed buffer, {} into a Vec", what, hx(&buf), hx(&bytes));
        // --- a writer that takes a few bytes per call receives the same bytes
        let mut dw = DribbleW::new(pat);
        if let Err(e) = v.serialize_with_mode(&mut dw, c) {
            return fail(format!("io.partial-writer.{}.{}.err", cn, what), format!("{:?}", e));
        }
        ensure!(dw.out == bytes, format!("io.partial-writer.{}.{}", cn, what), "{}: a writer accepting {:?} bytes per call received {}, a Vec {}", what, pat, hx(&dw.out), hx(&bytes));
        // --- a reader that delivers a few bytes per call yields the same value and is read to the same position
        for val in [if checked && cheap { Validate::Yes } else { Validate::No }] {
            let mut input = bytes.clone();
            input.extend_from_slice(&[0x5A; 3]);
            let mut rd = Dribble::new(&input, pat);
            match T::deserialize_with_mode(&mut rd, c, val) {
                Ok(w) => {
                    ensure!(same(&w), format!("io.partial-reader.{}.{}", cn, what), "{}: {} read {:?} bytes per call decodes to a different value", what, hx(&bytes), pat);
                    ensure!(rd.pos == bytes.len(), format!("io.partial-reader.consumed.{}.{}", cn, what), "{}: {} bytes consumed of a {}-byte encoding", what, rd.pos, bytes.len());
                },
                Err(e) => return fail(format!("io.partial-reader.{}.{}.err", cn, what), format!("{}: own encoding {} read {:?} bytes per call rejected: {:?}", what, hx(&bytes), pat, e)),
            }
        }
    }
    Ok(())
}
