//! C09 — not implemented yet.
fn main() {
    eprintln!("C09: check not implemented");
    std::process::exit(2);
}
