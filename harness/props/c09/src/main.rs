//! C09 — serialization round-trips at the advertised size; field encodings are unique.
mod common;
mod curves;
mod io;

use ark_ec::models::short_weierstrass::{Affine as SwAffine, Projective as SwProj, SWCurveConfig, SWFlags};
use ark_ec::models::twisted_edwards::{Affine as TeAffine, Projective as TeProj, TECurveConfig, TEFlags};
use ark_ec::{AdditiveGroup, CurveConfig};
use ark_ff::fields::{Fp2, Fp2Config};
use ark_ff::{Field, MontFp, One, PrimeField, Zero};
use ark_serialize::{
    CanonicalDeserialize, CanonicalDeserializeWithFlags, CanonicalSerialize, CanonicalSerializeWithFlags, Compress, EmptyFlags, Flags, Validate,
};
use common::*;
use num_bigint::BigUint;
use std::sync::{Arc, OnceLock};
use vh_core::curve::*;
use vh_core::engine::{Obs, PropSpec, Rel, Tape, Tier, R};
use vh_core::modint::{big, pow2};
use vh_core::tower::{edge_elem, Elem, OracleRepr, TowerOf};
use vh_core::{ensure, ensure_eq, fail};

const MODES: [(Compress, Validate, &str); 4] = [
    (Compress::Yes, Validate::Yes, "compressed.checked"),
    (Compress::Yes, Validate::No, "compressed.unchecked"),
    (Compress::No, Validate::Yes, "uncompressed.checked"),
    (Compress::No, Validate::No, "uncompressed.unchecked"),
];

fn cname(c: Compress) -> &'static str {
    if c == Compress::Yes {
        "compressed"
    } else {
        "uncompressed"
    }
}

// ------------------------------------------------------------------------------------------
// harness-defined quadratic extensions over moduli without spare bits (flags need an extra byte)
// ------------------------------------------------------------------------------------------

pub struct ZSecpFq2Cfg;
impl Fp2Config for ZSecpFq2Cfg {
    type Fp = vh_core::zoo::Secp256k1;
    /// p = 3 mod 4: -1 is a non-residue
    const NONRESIDUE: Self::Fp = MontFp!("-1");
    const FROBENIUS_COEFF_FP2_C1: &'static [Self::Fp] = &[MontFp!("1"), MontFp!("-1")];
}
pub type ZSecpFq2 = Fp2<ZSecpFq2Cfg>;

pub struct ZP64Fq2Cfg;
impl Fp2Config for ZP64Fq2Cfg {
    type Fp = vh_core::zoo::P64;
    /// 2 generates the multiplicative group of F_p, p = 2^64 - 59
    const NONRESIDUE: Self::Fp = MontFp!("2");
    const FROBENIUS_COEFF_FP2_C1: &'static [Self::Fp] = &[MontFp!("1"), MontFp!("-1")];
}
pub type ZP64Fq2 = Fp2<ZP64Fq2Cfg>;

// ------------------------------------------------------------------------------------------
// field elements: round trip
// ------------------------------------------------------------------------------------------

fn rt_flags<F: OracleRepr, Fl: Flags>(v: &F, e: &Elem, fname: &str, t: &mut Tape<'_>) -> R {
    let (valid, _) = flag_masks::<Fl>();
    let m = valid[t.idx(valid.len())];
    let f = Fl::from_u8(m).expect("valid mask");
    let mut bytes = Vec::new();
    if let Err(err) = v.serialize_with_flags(&mut bytes, f) {
        return fail(format!("serialize_with_flags.err.{}", fname), format!("serialize_with_flags::<{}> failed: {:?}", fname, err));
    }
    let adv = v.serialized_size_with_flags::<Fl>();
    ensure!(
        bytes.len() == adv,
        format!("size.with_flags.{}", fname),
        "serialize_with_flags::<{}> wrote {} bytes, serialized_size_with_flags reports {}",
        fname,
        bytes.len(),
        adv
    );
    match F::deserialize_with_flags::<_, Fl>(&bytes[..]) {
        Ok((v2, f2)) => {
            ensure!(
                v2.to_o() == *e && v2.canonical(),
                format!("roundtrip.with_flags.{}", fname),
                "flags {}: bytes {} decode to a different value {:?}",
                fname,
                hex(&bytes),
                v2.to_o()
            );
            ensure!(
                f2.u8_bitmask() == m,
                format!("roundtrip.flags.{}", fname),
                "flags {}: wrote mask {:#04x}, read back {:#04x} (bytes {})",
                fname,
                m,
                f2.u8_bitmask(),
                hex(&bytes)
            );
        },
        Err(err) => {
            return fail(
                format!("roundtrip.with_flags.err.{}", fname),
                format!("flags {} mask {:#04x}: own encoding {} rejected: {:?}", fname, m, hex(&bytes), err),
            )
        },
    }
    Ok(())
}

fn field_roundtrip<F: OracleRepr>(tw: &TowerOf<F>, name: &str, t: &mut Tape<'_>, o: &mut Obs) -> R {
    let (e, cls) = edge_elem(t, &tw.t, &tw.prime);
    let v = F::from_o(&e);
    let flat = tw.t.flatten(&e);
    o.show(|| format!("{}: value {:x?} [{}]", name, flat, cls));
    o.class(cls);
    o.nt(!(v.is_zero() || v.is_one()));
    o.evals(4 + 13 + 14);
    for c in [Compress::Yes, Compress::No] {
        let mut bytes = Vec::new();
        if let Err(err) = v.serialize_with_mode(&mut bytes, c) {
            return fail("serialize.err", format!("serialize_with_mode failed: {:?}", err));
        }
        ensure!(
            bytes.len() == v.serialized_size(c),
            "size.serialized_size",
            "{} bytes written, serialized_size({}) = {}",
            bytes.len(),
            cname(c),
            v.serialized_size(c)
        );
        let adv = if c == Compress::Yes { v.compressed_size() } else { v.uncompressed_size() };
        ensure!(bytes.len() == adv, "size.advertised", "{} bytes written, {}_size() = {}", bytes.len(), cname(c), adv);
        for val in [Validate::Yes, Validate::No] {
            match F::deserialize_with_mode(&bytes[..], c, val) {
                Ok(v2) => ensure!(
                    v2.to_o() == e && v2.canonical(),
                    "roundtrip.plain",
                    "{} bytes {} decode to {:?}",
                    cname(c),
                    hex(&bytes),
                    v2.to_o()
                ),
                Err(err) => return fail("roundtrip.plain.err", format!("own encoding {} rejected: {:?}", hex(&bytes), err)),
            }
        }
    }
    // the convenience entry points
    {
        let mut b1 = Vec::new();
        v.serialize_compressed(&mut b1).map_err(|e| vh_core::Fail { sig: "serialize.err".into(), msg: format!("{:?}", e) })?;
        let mut b2 = Vec::new();
        v.serialize_uncompressed(&mut b2).map_err(|e| vh_core::Fail { sig: "serialize.err".into(), msg: format!("{:?}", e) })?;
        let r = [
            F::deserialize_compressed(&b1[..]),
            F::deserialize_compressed_unchecked(&b1[..]),
            F::deserialize_uncompressed(&b2[..]),
            F::deserialize_uncompressed_unchecked(&b2[..]),
        ];
        for x in r {
            match x {
                Ok(v2) => ensure!(v2.to_o() == e, "roundtrip.convenience", "convenience wrappers decode to {:?}", v2.to_o()),
                Err(err) => return fail("roundtrip.convenience.err", format!("{:?}", err)),
            }
        }
    }
    rt_flags::<F, EmptyFlags>(&v, &e, "EmptyFlags", t)?;
    rt_flags::<F, SWFlags>(&v, &e, "SWFlags", t)?;
    rt_flags::<F, TEFlags>(&v, &e, "TEFlags", t)?;
    rt_flags::<F, HF<1>>(&v, &e, "H1", t)?;
    rt_flags::<F, HF<2>>(&v, &e, "H2", t)?;
    rt_flags::<F, HF<3>>(&v, &e, "H3", t)?;
    rt_flags::<F, HF<4>>(&v, &e, "H4", t)?;
    rt_flags::<F, HF<5>>(&v, &e, "H5", t)?;
    rt_flags::<F, HF<6>>(&v, &e, "H6", t)?;
    rt_flags::<F, HF<7>>(&v, &e, "H7", t)?;
    rt_flags::<F, HF<8>>(&v, &e, "H8", t)?;
    rt_flags::<F, HR3>(&v, &e, "HR3", t)?;
    // the same value through the convenience spellings, a fixed buffer of the advertised size and partial writers / readers
    let pw = t.u64();
    o.class_if(pw & 0xfff != 0, "io-pattern-mixed-chunks");
    io::spellings::<F>(&v, true, true, "field", pw, &|w: &F| w.to_o() == e && w.canonical())?;
    Ok(())
}

// ------------------------------------------------------------------------------------------
// field elements: uniqueness of the encoding
// ------------------------------------------------------------------------------------------

fn unique_with<F: OracleRepr, Fl: Flags>(tw: &TowerOf<F>, name: &str, fname: &'static str, t: &mut Tape<'_>, o: &mut Obs) -> R {
    let bits = tw.prime.bits;
    let p = &tw.prime.p;
    let d = tw.t.degree();
    let lay = field_layout(0, d, bits, Fl::BIT_SIZE);
    let total = layout_len(&lay);
    let adv = F::zero().serialized_size_with_flags::<Fl>();
    ensure!(
        adv == total,
        "size.layout",
        "serialized_size_with_flags::<{}> = {}, expected {} coefficients of {} bits + {} flag bits = {} bytes",
        fname,
        adv,
        d,
        bits,
        Fl::BIT_SIZE,
        total
    );
    let (valid, invalid) = flag_masks::<Fl>();
    let (e, _) = edge_elem(t, &tw.t, &tw.prime);
    let flat = tw.t.flatten(&e);
    let m = valid[t.idx(valid.len())];
    // valid encoding produced by the harness' own encoder
    let mut enc = vec![0u8; total];
    for (s, c) in lay.iter().zip(&flat) {
        s.put(&mut enc, c);
    }
    enc[total - 1] |= m;
    o.class(fname);

    let j = t.idx(d);
    let seg = &lay[j];
    let area = seg.area_bits();
    let room = pow2(area) - p; // number of integers in [p, 2^area)
    let mut input = enc.clone();
    let mut must_err = false;
    let mut is_valid = false;
    let label: &'static str;
    let mut cls = t.weighted(&[2, 4, 3, 4, 2, 3, 3, 2, 1]);
    if cls == 3 && area == bits {
        cls = 1;
    }
    if cls == 4 && invalid.is_empty() {
        cls = 2;
    }
    match cls {
        0 => {
            label = "valid";
            is_valid = true;
        },
        1 => {
            // v + k p, any k that fits
            let v = &flat[j] % &room;
            let kmax = ((pow2(area) - 1u32 - &v) / p).to_u64_digits().first().copied().unwrap_or(0).max(1);
            let k = match t.below(3) {
                0 => 1,
                1 => kmax,
                _ => 1 + t.below(kmax),
            };
            let n = &v + p * BigUint::from(k);
            let n = if n.bits() as usize > area { &v + p } else { n };
            seg.put(&mut input, &n);
            must_err = true;
            label = "plus-kp";
        },
        2 => {
            // exactly p, p+1, p+2 (as far as they fit)
            // ... or p plus an edge word placed in any limb: same top limbs as p, lower limbs far from p's
            let dlt = if t.bool() { BigUint::from(t.below(3)) } else { BigUint::from(t.edge_u64()) << (64 * t.idx(tw.prime.n)) };
            let dlt = dlt % &room;
            seg.put(&mut input, &(p + dlt));
            must_err = true;
            label = "exactly-p";
        },
        3 => {
            // one unused high bit (between the modulus bits and the flag bits)
            let pos = bits + t.idx(area - bits);
            let n = seg.get(&input) | pow2(pos);
            seg.put(&mut input, &n);
            must_err = true;
            label = if pos >= 64 * tw.prime.n { "stray-bit-in-extra-byte" } else { "unused-high-bit" };
        },
        4 => {
            // a bit pattern that is not a flag value
            let bad = invalid[t.idx(invalid.len())];
            input[total - 1] = (input[total - 1] & !lay[d - 1].flag_mask()) | bad;
            must_err = true;
            label = "invalid-flag-pattern";
        },
        5 => {
            input = t.bytes(total);
            label = "uniform";
        },
        6 => {
            // plausible: every integer below 2^bits, random flag bits
            for s in &lay {
                let n = big(&t.limbs(tw.prime.n)) % pow2(bits);
                s.put(&mut input, &n);
            }
            if Fl::BIT_SIZE > 0 {
                let fm = lay[d - 1].flag_mask();
                input[total - 1] = (input[total - 1] & !fm) | (t.below(256) as u8 & fm);
            }
            label = "uniform-below-2^bits";
        },
        7 => {
            let b = t.idx(8 * total);
            input[b / 8] ^= 1 << (b % 8);
            label = "bit-flip";
        },
        _ => {
            let x = if t.bool() { 0xff } else { 0x00 };
            input = vec![x; total];
            label = "constant-bytes";
        },
    }
    o.class(label);
    o.nt(input != enc || !(F::from_o(&e).is_zero() || F::from_o(&e).is_one()));
    o.show(|| format!("{} flags {}: class {} input {}", name, fname, label, hex(&input)));

    match F::deserialize_with_flags::<_, Fl>(&input[..]) {
        Ok((v2, f2)) => {
            o.class("accepted");
            ensure!(
                !must_err,
                format!("unique.accepted.{}", label),
                "flags {}: non-canonical encoding {} ({}; valid encoding {}) accepted as {:?} with flag mask {:#04x}",
                fname,
                hex(&input),
                label,
                hex(&enc),
                v2.to_o(),
                f2.u8_bitmask()
            );
            ensure!(v2.canonical(), "unique.noncanonical-limbs", "decoded element has limbs >= p");
            let mut out = Vec::new();
            v2.serialize_with_flags(&mut out, f2).map_err(|e| vh_core::Fail { sig: "serialize_with_flags.err".into(), msg: format!("{:?}", e) })?;
            ensure!(
                out == input,
                "unique.reserialize",
                "flags {}: input {} accepted as {:?} (flag mask {:#04x}) but re-serializes to {}",
                fname,
                hex(&input),
                v2.to_o(),
                f2.u8_bitmask(),
                hex(&out)
            );
            if is_valid {
                ensure!(v2.to_o() == e && f2.u8_bitmask() == m, "unique.valid-decodes-differently", "valid encoding {} decodes to {:?}", hex(&enc), v2.to_o());
            }
        },
        Err(err) => {
            ensure!(!is_valid, "unique.valid-rejected", "flags {}: canonical encoding {} of {:x?} rejected: {:?}", fname, hex(&enc), flat, err);
        },
    }
    if Fl::BIT_SIZE == 0 {
        // the plain API
        for (c, val, mn) in MODES {
            match F::deserialize_with_mode(&input[..], c, val) {
                Ok(v2) => {
                    ensure!(!must_err, format!("unique.plain.accepted.{}", label), "{}: non-canonical encoding {} accepted as {:?}", mn, hex(&input), v2.to_o());
                    let mut out = Vec::new();
                    v2.serialize_with_mode(&mut out, c).map_err(|e| vh_core::Fail { sig: "serialize.err".into(), msg: format!("{:?}", e) })?;
                    ensure!(out == input, "unique.plain.reserialize", "{}: input {} accepted as {:?} but re-serializes to {}", mn, hex(&input), v2.to_o(), hex(&out));
                },
                Err(err) => ensure!(!is_valid, "unique.plain.valid-rejected", "{}: canonical encoding {} rejected: {:?}", mn, hex(&enc), err),
            }
        }
    }
    Ok(())
}

fn field_unique<F: OracleRepr>(tw: &TowerOf<F>, name: &str, t: &mut Tape<'_>, o: &mut Obs) -> R {
    match t.weighted(&[3, 3, 2, 1, 1, 1, 1, 1, 1, 1, 2, 1]) {
        0 => unique_with::<F, EmptyFlags>(tw, name, "EmptyFlags", t, o),
        1 => unique_with::<F, SWFlags>(tw, name, "SWFlags", t, o),
        2 => unique_with::<F, TEFlags>(tw, name, "TEFlags", t, o),
        3 => unique_with::<F, HF<1>>(tw, name, "H1", t, o),
        4 => unique_with::<F, HF<2>>(tw, name, "H2", t, o),
        5 => unique_with::<F, HF<3>>(tw, name, "H3", t, o),
        6 => unique_with::<F, HF<4>>(tw, name, "H4", t, o),
        7 => unique_with::<F, HF<5>>(tw, name, "H5", t, o),
        8 => unique_with::<F, HF<6>>(tw, name, "H6", t, o),
        9 => unique_with::<F, HF<7>>(tw, name, "H7", t, o),
        10 => unique_with::<F, HF<8>>(tw, name, "H8", t, o),
        _ => unique_with::<F, HR3>(tw, name, "HR3", t, o),
    }
}

fn field_rels<F: OracleRepr>(out: &mut Vec<Rel>, name: &'static str, tier: Tier, weight: u32) {
    let cell: Arc<OnceLock<TowerOf<F>>> = Arc::new(OnceLock::new());
    let d = F::extension_degree() as usize;
    let n = (F::BasePrimeField::MODULUS_BIT_SIZE as usize + 63) / 64;
    let words = d * (2 * n + 8) + 40;
    let q = |x: u32| (tier.pick(x, x * 20) / weight).max(60);
    let c = cell.clone();
    out.push(Rel::new(format!("roundtrip/{}", name), q(1200), words, move |t, o| field_roundtrip::<F>(c.get_or_init(TowerOf::<F>::new), name, t, o)));
    let c = cell.clone();
    out.push(Rel::new(format!("unique/{}", name), q(4000), words, move |t, o| field_unique::<F>(c.get_or_init(TowerOf::<F>::new), name, t, o)));
}

// ------------------------------------------------------------------------------------------
// curve points
// ------------------------------------------------------------------------------------------

fn err_fail<T, E: std::fmt::Debug>(r: Result<T, E>, sig: &str) -> Result<T, vh_core::Fail> {
    r.map_err(|e| vh_core::Fail { sig: sig.to_string(), msg: format!("{}: {:?}", sig, e) })
}

/// reference scalar multiplication: plain double-and-add over `double_in_place` / `+=`
fn ref_mul<G: AdditiveGroup>(base: &G, k: &BigUint) -> G {
    let mut r = G::zero();
    for i in (0..k.bits()).rev() {
        r.double_in_place();
        if k.bit(i) {
            r += base;
        }
    }
    r
}

fn nonzero_elem<F: OracleRepr>(tw: &TowerOf<F>, t: &mut Tape<'_>) -> F {
    match t.weighted(&[3, 1, 4]) {
        0 => F::one(),
        1 => F::from(2u64),
        _ => {
            let (e, _) = edge_elem(t, &tw.t, &tw.prime);
            let x = F::from_o(&e);
            if x.is_zero() {
                F::from(3u64)
            } else {
                x
            }
        },
    }
}

struct SwCtx<P: SWCurveConfig>
where
    P::BaseField: OracleRepr,
{
    tw: TowerOf<P::BaseField>,
    /// points of the prime-order subgroup (multiples of the generator)
    pool: Vec<Sw<P::BaseField>>,
    /// named on-curve points with their subgroup membership: x = 0, y = 0 (2-torsion), points outside the subgroup
    special: Vec<(Sw<P::BaseField>, bool, &'static str)>,
    /// every point of the curve (toy curves only), with subgroup membership decided by the oracle law
    all: Vec<(Sw<P::BaseField>, bool)>,
}

impl<P: SWCurveConfig> SwCtx<P>
where
    P::BaseField: OracleRepr,
{
    fn new(enumerate: bool) -> Self {
        let tw = TowerOf::<P::BaseField>::new();
        let (a, b) = (P::COEFF_A, P::COEFF_B);
        let g = sw_from_affine::<P>(&P::GENERATOR);
        assert!(sw_on_curve(&a, &b, &g), "generator not on curve");
        let r = big(P::ScalarField::MODULUS.as_ref());
        let h = big(P::COFACTOR);
        // pool: k G for a few k, by the reference multiplication, decoded from raw Jacobian coordinates
        let gp: SwProj<P> = sw_to_proj::<P>(&g, &P::BaseField::one(), &P::BaseField::one(), &P::BaseField::one());
        let mut pool = vec![g];
        for k in [2u64, 3, 5, 0xffff_ffff_ffff_fff1] {
            pool.push(sw_from_proj::<P>(&ref_mul(&gp, &BigUint::from(k))));
        }
        pool.push(sw_from_proj::<P>(&ref_mul(&gp, &(&r - 1u32))));
        pool.push(sw_from_proj::<P>(&ref_mul(&gp, &((&r - 1u32) >> 1))));
        for q in &pool {
            assert!(sw_on_curve(&a, &b, q));
        }
        let mut special: Vec<(Sw<P::BaseField>, bool, &'static str)> = Vec::new();
        let cof1 = h.is_one();
        // x = 0
        if let Some(q) = SwAffine::<P>::get_point_from_x_unchecked(P::BaseField::zero(), false) {
            let q = sw_from_affine::<P>(&q);
            if sw_on_curve(&a, &b, &q) {
                let insub = cof1 || ref_mul(&sw_to_proj::<P>(&q, &P::BaseField::one(), &P::BaseField::one(), &P::BaseField::one()), &r).is_zero();
                special.push((q, insub, "x=0"));
            }
        }
        // points from small x: outside the subgroup when the cofactor is not one (decided by reference multiplication)
        let mut found = 0;
        let mut raw: Vec<SwProj<P>> = Vec::new();
        for xi in 1u64..40 {
            if found >= 3 {
                break;
            }
            if let Some(q) = SwAffine::<P>::get_point_from_x_unchecked(P::BaseField::from(xi), xi % 2 == 0) {
                let s = sw_from_affine::<P>(&q);
                if !sw_on_curve(&a, &b, &s) {
                    continue;
                }
                let qp = sw_to_proj::<P>(&s, &P::BaseField::one(), &P::BaseField::one(), &P::BaseField::one());
                let insub = cof1 || ref_mul(&qp, &r).is_zero();
                special.push((s, insub, if insub { "from-small-x" } else { "outside-subgroup" }));
                raw.push(qp);
                found += 1;
            }
        }
        // a point of order two (y = 0): (h r / 2) R for the points found above
        if !enumerate && !cof1 && !h.bit(0) {
            let e = (&h >> 1) * &r;
            for qp in &raw {
                let tt = sw_from_proj::<P>(&ref_mul(qp, &e));
                if let Sw::Aff(_, y) = tt {
                    if y.is_zero() && sw_on_curve(&a, &b, &tt) {
                        special.push((tt, false, "y=0"));
                        break;
                    }
                }
            }
        }
        // y at the threshold of the sign flag (a = 0: x is a cube root of y^2 - b)
        if !enumerate && a.is_zero() {
            let mut found = 0;
            let mut cands: Vec<(P::BaseField, &'static str)> = sign_threshold_elems::<P::BaseField>().into_iter().map(|y| (y, "y-at-sign-threshold")).collect();
            cands.extend(single_coefficient_elems::<P::BaseField>().into_iter().map(|y| (y, "y-with-one-non-zero-coefficient")));
            let mut found_single = 0;
            for (y, label) in cands {
                let cnt = if label == "y-at-sign-threshold" { &mut found } else { &mut found_single };
                if *cnt >= 6 {
                    continue;
                }
                if let Some(x) = cube_root(&(y.square() - b)) {
                    let q = Sw::Aff(x, y);
                    if sw_on_curve(&a, &b, &q) {
                        let insub = cof1 || ref_mul(&sw_to_proj::<P>(&q, &P::BaseField::one(), &P::BaseField::one(), &P::BaseField::one()), &r).is_zero();
                        special.push((q, insub, label));
                        *cnt += 1;
                    }
                }
            }
        }
        let mut all = Vec::new();
        if enumerate {
            let pts = enumerate_sw::<P>();
            for q in pts {
                let insub = sw_mul(&a, &q, &r) == Sw::Inf;
                if let Sw::Aff(x, y) = q {
                    if y.is_zero() {
                        special.push((q, insub, "y=0"));
                    } else if x.is_zero() && !special.iter().any(|s| s.0 == q) {
                        special.push((q, insub, "x=0"));
                    }
                }
                all.push((q, insub));
            }
        }
        if std::env::var_os("VH_DEBUG_SPECIAL").is_some() {
            eprintln!("special[{}]: {:?}", std::any::type_name::<P>(), special.iter().map(|s| (s.2, s.1)).collect::<Vec<_>>());
        }
        SwCtx { tw, pool, special, all }
    }
}

/// a cube root in any finite field (input construction only: the result is verified by cubing)
fn cube_root<F: Field>(w: &F) -> Option<F> {
    if w.is_zero() {
        return Some(F::zero());
    }
    let q1 = big(F::characteristic()).pow(F::extension_degree() as u32) - 1u32;
    let three = BigUint::from(3u32);
    let pw = |x: &F, e: &BigUint| x.pow(e.to_u64_digits());
    let inv3 = |m: &BigUint| -> BigUint {
        // 3 e = 1 (mod m), m not divisible by 3
        if (m % 3u32) == BigUint::from(2u32) {
            (m + 1u32) / 3u32
        } else {
            (m * 2u32 + 1u32) / 3u32
        }
    };
    let x = if (&q1 % 3u32) != BigUint::from(0u32) {
        pw(w, &inv3(&q1))
    } else {
        if !pw(w, &(&q1 / 3u32)).is_one() {
            return None;
        }
        let (mut s, mut t) = (0u32, q1.clone());
        while (&t % 3u32) == BigUint::from(0u32) {
            t /= 3u32;
            s += 1;
        }
        if s > 9 {
            return None;
        }
        // a non-cube
        let d = F::extension_degree() as usize;
        let mut g = None;
        'outer: for i in 1u64..40 {
            for j in 0u64..(if d > 1 { 6 } else { 1 }) {
                let mut cs = vec![F::BasePrimeField::zero(); d];
                cs[0] = F::BasePrimeField::from(i);
                if d > 1 {
                    cs[1] = F::BasePrimeField::from(j);
                }
                let c = F::from_base_prime_field_elems(cs)?;
                if !c.is_zero() && !pw(&c, &(&q1 / 3u32)).is_one() {
                    g = Some(c);
                    break 'outer;
                }
            }
        }
        let c = pw(&g?, &t); // order 3^s
        let x0 = pw(w, &inv3(&t));
        let b = x0.square() * x0 * w.inverse()?; // order divides 3^(s-1)
        let c3 = c.square() * c;
        let (mut acc, mut cj) = (F::one(), F::one());
        let mut found = None;
        for _ in 0..three.pow(s - 1).to_u64_digits().first().copied().unwrap_or(1) {
            if acc == b {
                found = Some(cj);
                break;
            }
            acc *= c3;
            cj *= c;
        }
        x0 * found?.inverse()?
    };
    if x.square() * x == *w {
        Some(x)
    } else {
        None
    }
}

/// extension-field elements with exactly one non-zero coefficient (y purely "imaginary", y in the prime subfield, ...):
/// y^2 then lies in a proper subfield, which is where square-root routines branch
fn single_coefficient_elems<F: Field>() -> Vec<F> {
    let d = F::extension_degree() as usize;
    let mut out = Vec::new();
    if d == 1 {
        return out;
    }
    for m in 1u64..12 {
        for pos in (0..d).rev() {
            let mut cs = vec![F::BasePrimeField::zero(); d];
            cs[pos] = F::BasePrimeField::from(m);
            out.push(F::from_base_prime_field_elems(cs).unwrap());
        }
    }
    out
}

/// elements at the threshold of the "is y (x) the larger of the two roots" flag: the most significant non-zero
/// coefficient equal to (p-1)/2 or (p+1)/2
fn sign_threshold_elems<F: Field>() -> Vec<F> {
    let d = F::extension_degree() as usize;
    let half = F::BasePrimeField::from_bigint(F::BasePrimeField::MODULUS_MINUS_ONE_DIV_TWO).unwrap();
    let mut out = Vec::new();
    for top in [half, half + F::BasePrimeField::one()] {
        for pos in 0..d {
            for k in 0u64..(if pos == 0 { 1 } else { 12 }) {
                let mut cs = vec![F::BasePrimeField::zero(); d];
                cs[pos] = top;
                if pos > 0 {
                    cs[0] = F::BasePrimeField::from(k);
                    if k % 3 == 2 {
                        cs[pos - 1] = -F::BasePrimeField::from(k);
                    }
                }
                out.push(F::from_base_prime_field_elems(cs).unwrap());
            }
        }
    }
    out
}

/// every element of a small field (prime or extension): index digits in base p are the prime-field coordinates
fn all_field_elems<F: Field>() -> Vec<F> {
    let p: u64 = big(F::characteristic()).to_u64_digits()[0];
    let d = F::extension_degree() as u32;
    let n = p.checked_pow(d).filter(|n| *n < (1 << 17)).expect("field small enough to enumerate");
    (0..n)
        .map(|mut i| {
            let coords: Vec<F::BasePrimeField> = (0..d)
                .map(|_| {
                    let c = F::BasePrimeField::from(i % p);
                    i /= p;
                    c
                })
                .collect();
            F::from_base_prime_field_elems(coords).expect("degree-many coordinates")
        })
        .collect()
}

/// all points of a toy curve over a small prime or extension field (brute force over x, y through the generic `Field` API)
fn enumerate_sw<P: SWCurveConfig>() -> Vec<Sw<P::BaseField>> {
    let els = all_field_elems::<P::BaseField>();
    let (a, b) = (P::COEFF_A, P::COEFF_B);
    let mut out = vec![Sw::Inf];
    // squares table
    let mut roots: std::collections::BTreeMap<Vec<u64>, Vec<P::BaseField>> = std::collections::BTreeMap::new();
    let key = |x: &P::BaseField| -> Vec<u64> { x.to_base_prime_field_elements().map(|c| c.into_bigint().as_ref()[0]).collect() };
    for y in &els {
        roots.entry(key(&y.square())).or_default().push(*y);
    }
    for x in &els {
        let rhs = x.square() * x + a * x + b;
        if let Some(ys) = roots.get(&key(&rhs)) {
            for y in ys {
                out.push(Sw::Aff(*x, *y));
            }
        }
    }
    out
}

fn sw_check_point<P: SWCurveConfig>(pt: &Sw<P::BaseField>, insub: bool, lam: &P::BaseField, idx: &P::BaseField, idy: &P::BaseField, pat: u64) -> R
where
    P::BaseField: OracleRepr,
{
    let aff: SwAffine<P> = sw_to_affine::<P>(pt);
    let proj: SwProj<P> = sw_to_proj::<P>(pt, lam, idx, idy);
    for c in [Compress::Yes, Compress::No] {
        let mut ba = Vec::new();
        err_fail(aff.serialize_with_mode(&mut ba, c), "serialize.affine.err")?;
        let mut bp = Vec::new();
        err_fail(proj.serialize_with_mode(&mut bp, c), "serialize.projective.err")?;
        let adv_a = if c == Compress::Yes { aff.compressed_size() } else { aff.uncompressed_size() };
        let adv_p = if c == Compress::Yes { proj.compressed_size() } else { proj.uncompressed_size() };
        ensure!(
            ba.len() == aff.serialized_size(c) && ba.len() == adv_a,
            format!("size.affine.{}", cname(c)),
            "affine: {} bytes written, serialized_size = {}, {}_size() = {}",
            ba.len(),
            aff.serialized_size(c),
            cname(c),
            adv_a
        );
        ensure!(
            bp.len() == proj.serialized_size(c) && bp.len() == adv_p,
            format!("size.projective.{}", cname(c)),
            "projective: {} bytes written, serialized_size = {}, {}_size() = {}",
            bp.len(),
            proj.serialized_size(c),
            cname(c),
            adv_p
        );
        for v in [Validate::Yes, Validate::No] {
            if v == Validate::Yes && !insub {
                continue;
            }
            let mn = format!("{}.{}", cname(c), if v == Validate::Yes { "checked" } else { "unchecked" });
            match SwAffine::<P>::deserialize_with_mode(&ba[..], c, v) {
                Ok(q) => ensure!(
                    sw_from_affine::<P>(&q) == *pt,
                    format!("roundtrip.affine.{}", mn),
                    "affine {:?} -> {} -> {:?}",
                    pt,
                    hex(&ba),
                    sw_from_affine::<P>(&q)
                ),
                Err(e) => return fail(format!("roundtrip.affine.err.{}", mn), format!("affine {:?} -> {} -> {:?}", pt, hex(&ba), e)),
            }
            match SwProj::<P>::deserialize_with_mode(&bp[..], c, v) {
                Ok(q) => ensure!(
                    sw_from_proj::<P>(&q) == *pt,
                    format!("roundtrip.projective.{}", mn),
                    "projective {:?} (lambda {:?}) -> {} -> {:?}",
                    pt,
                    lam,
                    hex(&bp),
                    sw_from_proj::<P>(&q)
                ),
                Err(e) => return fail(format!("roundtrip.projective.err.{}", mn), format!("projective {:?} -> {} -> {:?}", pt, hex(&bp), e)),
            }
        }
    }
    io::spellings::<SwAffine<P>>(&aff, insub, false, "affine", pat, &|q: &SwAffine<P>| sw_from_affine::<P>(q) == *pt)?;
    io::spellings::<SwProj<P>>(&proj, false, false, "projective", pat.rotate_right(12), &|q: &SwProj<P>| sw_from_proj::<P>(q) == *pt)?;
    Ok(())
}

fn sw_roundtrip<P: SWCurveConfig>(cx: &SwCtx<P>, name: &str, t: &mut Tape<'_>, o: &mut Obs) -> R
where
    P::BaseField: OracleRepr,
{
    let a = P::COEFF_A;
    let g = cx.pool[0];
    let (mut pt, mut insub, cls): (Sw<P::BaseField>, bool, &'static str) = match t.weighted(&[1, 1, 5, 3, 3]) {
        0 => (Sw::Inf, true, "identity"),
        1 => (g, true, "generator"),
        2 => {
            // sum of two pool points by the oracle law
            let i = t.idx(cx.pool.len());
            let j = t.idx(cx.pool.len());
            let s = sw_add(&a, &cx.pool[i], &cx.pool[j]);
            (s, true, "subgroup")
        },
        3 => {
            // point decompressed from an edge-biased x (first of x, x+1, ... that has a root)
            let (e, _) = edge_elem(t, &cx.tw.t, &cx.tw.prime);
            let mut x = P::BaseField::from_o(&e);
            let greatest = t.bool();
            let mut r = None;
            for _ in 0..24 {
                if let Some(q) = SwAffine::<P>::get_point_from_x_unchecked(x, greatest) {
                    r = Some(sw_from_affine::<P>(&q));
                    break;
                }
                x += P::BaseField::one();
            }
            match r {
                Some(q) if sw_on_curve(&a, &P::COEFF_B, &q) => (q, P::cofactor_is_one(), "from-x"),
                _ => (g, true, "generator"),
            }
        },
        _ => {
            if cx.special.is_empty() {
                (sw_neg(&g), true, "subgroup")
            } else {
                cx.special[t.idx(cx.special.len())]
            }
        },
    };
    if t.bool() {
        pt = sw_neg(&pt);
    }
    if pt == Sw::Inf {
        insub = true;
    }
    let lam = nonzero_elem(&cx.tw, t);
    let idx = nonzero_elem(&cx.tw, t);
    let idy = nonzero_elem(&cx.tw, t);
    o.class(cls);
    o.class_if(!lam.is_one(), "projective-Z!=1");
    o.class_if(insub, "in-subgroup");
    o.nt(pt != Sw::Inf && pt != g);
    o.show(|| format!("{}: {} {:?} insub={} lambda={:?}", name, cls, pt, insub, lam));
    o.evals(if insub { 8 + 22 } else { 4 + 20 });
    let pw = t.u64();
    o.class_if(pw & 0xfff != 0, "io-pattern-mixed-chunks");
    sw_check_point::<P>(&pt, insub, &lam, &idx, &idy, pw)
}

/// exhaustive over a toy curve: tape = [point index, representation]
fn sw_all<P: SWCurveConfig>(cx: &SwCtx<P>, name: &str, t: &mut Tape<'_>, o: &mut Obs) -> R
where
    P::BaseField: OracleRepr,
{
    let i = t.idx(cx.all.len());
    let (pt, insub) = cx.all[i];
    let lam = match t.below(3) {
        0 => P::BaseField::one(),
        1 => P::BaseField::from(2u64),
        _ => P::BaseField::from(7u64 + i as u64),
    };
    let lam = if lam.is_zero() { P::BaseField::from(5u64) } else { lam };
    o.nt(pt != Sw::Inf && pt != cx.pool[0]);
    o.class_if(insub, "in-subgroup");
    o.class_if(matches!(pt, Sw::Aff(_, y) if y.is_zero()), "y=0");
    o.class_if(matches!(pt, Sw::Aff(x, _) if x.is_zero()), "x=0");
    o.show(|| format!("{}: point #{} {:?} insub={} lambda={:?}", name, i, pt, insub, lam));
    o.evals(if insub { 8 + 22 } else { 4 + 20 });
    sw_check_point::<P>(&pt, insub, &lam, &P::BaseField::from(3u64), &lam, (i as u64).wrapping_mul(0x9e3779b97f4a7c15) >> 20)
}

fn sw_rels<P: SWCurveConfig>(out: &mut Vec<Rel>, name: &'static str, tier: Tier, weight: u32, toy: bool)
where
    P::BaseField: OracleRepr,
{
    let cell: Arc<OnceLock<SwCtx<P>>> = Arc::new(OnceLock::new());
    let d = P::BaseField::extension_degree() as usize;
    let n = (<P::BaseField as Field>::BasePrimeField::MODULUS_BIT_SIZE as usize + 63) / 64;
    let words = 4 * d * (2 * n + 8) + 40;
    let cases = (tier.pick(900u32, 18000) / weight).max(24);
    let c = cell.clone();
    out.push(Rel::new(format!("point/{}", name), cases, words, move |t, o| sw_roundtrip::<P>(c.get_or_init(|| SwCtx::<P>::new(toy)), name, t, o)));
    if toy {
        let c = cell.clone();
        let c2 = cell.clone();
        out.push(
            Rel::new(format!("all-points/{}", name), 0, 2, move |t, o| sw_all::<P>(c.get_or_init(|| SwCtx::<P>::new(true)), name, t, o)).exhaustive(move || {
                let n = c2.get_or_init(|| SwCtx::<P>::new(true)).all.len() as u64;
                Box::new((0..n).flat_map(|i| (0..3u64).map(move |l| vec![i, l])))
            }),
        );
    }
}

// ---- twisted Edwards ----

struct TeCtx<P: TECurveConfig>
where
    P::BaseField: OracleRepr,
{
    tw: TowerOf<P::BaseField>,
    pool: Vec<Te<P::BaseField>>,
    special: Vec<(Te<P::BaseField>, bool, &'static str)>,
    all: Vec<(Te<P::BaseField>, bool)>,
}

fn te_lift<P: TECurveConfig>(q: &Te<P::BaseField>) -> TeProj<P> {
    te_to_proj::<P>(q, &P::BaseField::one())
}

fn te_decode<P: TECurveConfig>(q: &TeProj<P>) -> Te<P::BaseField> {
    te_from_proj::<P>(q).expect("Z != 0").0
}

impl<P: TECurveConfig> TeCtx<P>
where
    P::BaseField: OracleRepr,
{
    fn new(enumerate: bool) -> Self {
        let tw = TowerOf::<P::BaseField>::new();
        let (a, d) = (<P as TECurveConfig>::COEFF_A, <P as TECurveConfig>::COEFF_D);
        let g = te_from_affine::<P>(&<P as TECurveConfig>::GENERATOR);
        assert!(te_on_curve(&a, &d, &g));
        let r = big(P::ScalarField::MODULUS.as_ref());
        let gp = te_lift::<P>(&g);
        let mut pool = vec![g];
        for k in [2u64, 3, 5, 0xffff_ffff_ffff_fff1] {
            pool.push(te_decode::<P>(&ref_mul(&gp, &BigUint::from(k))));
        }
        pool.push(te_decode::<P>(&ref_mul(&gp, &(&r - 1u32))));
        pool.push(te_decode::<P>(&ref_mul(&gp, &((&r - 1u32) >> 1))));
        for q in &pool {
            assert!(te_on_curve(&a, &d, q));
        }
        let one = P::BaseField::one();
        let mut special: Vec<(Te<P::BaseField>, bool, &'static str)> = vec![(Te(P::BaseField::zero(), -one), false, "x=0,y=-1")];
        // y = 0: x^2 = 1/a
        if let Some(x) = a.inverse().and_then(|ai| ai.sqrt()) {
            let q = Te(x, P::BaseField::zero());
            if te_on_curve(&a, &d, &q) {
                special.push((q, false, "y=0"));
                special.push((Te(-x, P::BaseField::zero()), false, "y=0"));
            }
        }
        if !enumerate {
            let mut found = 0;
            for yi in 2u64..40 {
                if found >= 3 {
                    break;
                }
                if let Some(q) = TeAffine::<P>::get_point_from_y_unchecked(P::BaseField::from(yi), yi % 2 == 0) {
                    let s = te_from_affine::<P>(&q);
                    if !te_on_curve(&a, &d, &s) {
                        continue;
                    }
                    // membership by the oracle law where it is defined; an exceptional addition means "unknown": use unchecked modes only
                    let insub = matches!(te_mul(&a, &d, &s, &r), Some(z) if z == te_identity());
                    special.push((s, insub, if insub { "from-small-y" } else { "outside-subgroup" }));
                    found += 1;
                }
            }
        }
        // x at the threshold of the sign flag: y^2 = (1 - a x^2) / (1 - d x^2)
        if !enumerate {
            for x in sign_threshold_elems::<P::BaseField>() {
                let x2 = x.square();
                if let Some(y) = (one - d * x2).inverse().and_then(|i| ((one - a * x2) * i).sqrt()) {
                    let q = Te(x, y);
                    if te_on_curve(&a, &d, &q) {
                        let insub = matches!(te_mul(&a, &d, &q, &r), Some(z) if z == te_identity());
                        special.push((q, insub, "x-at-sign-threshold"));
                    }
                }
            }
        }
        let mut all = Vec::new();
        if enumerate {
            let p: u64 = big(P::BaseField::characteristic()).to_u64_digits()[0];
            assert!(P::BaseField::extension_degree() == 1 && p < (1 << 16));
            for xi in 0..p {
                let x = P::BaseField::from(xi);
                for yi in 0..p {
                    let q = Te(x, P::BaseField::from(yi));
                    if te_on_curve(&a, &d, &q) {
                        let insub = matches!(te_mul(&a, &d, &q, &r), Some(z) if z == te_identity());
                        all.push((q, insub));
                    }
                }
            }
        }
        if std::env::var_os("VH_DEBUG_SPECIAL").is_some() {
            eprintln!("special[{}]: {:?}", std::any::type_name::<P>(), special.iter().map(|s| (s.2, s.1)).collect::<Vec<_>>());
        }
        TeCtx { tw, pool, special, all }
    }
}

fn te_check_point<P: TECurveConfig>(pt: &Te<P::BaseField>, insub: bool, lam: &P::BaseField, pat: u64) -> R
where
    P::BaseField: OracleRepr,
{
    let aff: TeAffine<P> = te_to_affine::<P>(pt);
    let proj: TeProj<P> = te_to_proj::<P>(pt, lam);
    for c in [Compress::Yes, Compress::No] {
        let mut ba = Vec::new();
        err_fail(aff.serialize_with_mode(&mut ba, c), "serialize.affine.err")?;
        let mut bp = Vec::new();
        err_fail(proj.serialize_with_mode(&mut bp, c), "serialize.projective.err")?;
        let adv_a = if c == Compress::Yes { aff.compressed_size() } else { aff.uncompressed_size() };
        let adv_p = if c == Compress::Yes { proj.compressed_size() } else { proj.uncompressed_size() };
        ensure!(
            ba.len() == aff.serialized_size(c) && ba.len() == adv_a,
            format!("size.affine.{}", cname(c)),
            "affine: {} bytes written, serialized_size = {}, {}_size() = {}",
            ba.len(),
            aff.serialized_size(c),
            cname(c),
            adv_a
        );
        ensure!(
            bp.len() == proj.serialized_size(c) && bp.len() == adv_p,
            format!("size.projective.{}", cname(c)),
            "projective: {} bytes written, serialized_size = {}, {}_size() = {}",
            bp.len(),
            proj.serialized_size(c),
            cname(c),
            adv_p
        );
        for v in [Validate::Yes, Validate::No] {
            if v == Validate::Yes && !insub {
                continue;
            }
            let mn = format!("{}.{}", cname(c), if v == Validate::Yes { "checked" } else { "unchecked" });
            match TeAffine::<P>::deserialize_with_mode(&ba[..], c, v) {
                Ok(q) => ensure!(
                    te_from_affine::<P>(&q) == *pt,
                    format!("roundtrip.affine.{}", mn),
                    "affine {:?} -> {} -> {:?}",
                    pt,
                    hex(&ba),
                    te_from_affine::<P>(&q)
                ),
                Err(e) => return fail(format!("roundtrip.affine.err.{}", mn), format!("affine {:?} -> {} -> {:?}", pt, hex(&ba), e)),
            }
            match TeProj::<P>::deserialize_with_mode(&bp[..], c, v) {
                Ok(q) => {
                    let dec = te_from_proj::<P>(&q);
                    ensure!(
                        matches!(dec, Some((z, true)) if z == *pt),
                        format!("roundtrip.projective.{}", mn),
                        "projective {:?} (lambda {:?}) -> {} -> {:?}",
                        pt,
                        lam,
                        hex(&bp),
                        dec
                    )
                },
                Err(e) => return fail(format!("roundtrip.projective.err.{}", mn), format!("projective {:?} -> {} -> {:?}", pt, hex(&bp), e)),
            }
        }
    }
    io::spellings::<TeAffine<P>>(&aff, insub, false, "affine", pat, &|q: &TeAffine<P>| te_from_affine::<P>(q) == *pt)?;
    io::spellings::<TeProj<P>>(&proj, false, false, "projective", pat.rotate_right(12), &|q: &TeProj<P>| matches!(te_from_proj::<P>(q), Some((z, true)) if z == *pt))?;
    Ok(())
}

fn te_roundtrip<P: TECurveConfig>(cx: &TeCtx<P>, name: &str, t: &mut Tape<'_>, o: &mut Obs) -> R
where
    P::BaseField: OracleRepr,
{
    let (a, d) = (<P as TECurveConfig>::COEFF_A, <P as TECurveConfig>::COEFF_D);
    let g = cx.pool[0];
    let (mut pt, mut insub, cls): (Te<P::BaseField>, bool, &'static str) = match t.weighted(&[1, 1, 5, 3, 3]) {
        0 => (te_identity(), true, "identity"),
        1 => (g, true, "generator"),
        2 => {
            let i = t.idx(cx.pool.len());
            let j = t.idx(cx.pool.len());
            match te_add(&a, &d, &cx.pool[i], &cx.pool[j]) {
                Some(s) => (s, true, "subgroup"),
                None => (g, true, "generator"),
            }
        },
        3 => {
            let (e, _) = edge_elem(t, &cx.tw.t, &cx.tw.prime);
            let mut y = P::BaseField::from_o(&e);
            let greatest = t.bool();
            let mut r = None;
            for _ in 0..24 {
                if let Some(q) = TeAffine::<P>::get_point_from_y_unchecked(y, greatest) {
                    r = Some(te_from_affine::<P>(&q));
                    break;
                }
                y += P::BaseField::one();
            }
            match r {
                Some(q) if te_on_curve(&a, &d, &q) => (q, false, "from-y"),
                _ => (g, true, "generator"),
            }
        },
        _ => cx.special[t.idx(cx.special.len())],
    };
    if t.bool() {
        pt = te_neg(&pt);
    }
    if pt == te_identity() {
        insub = true;
    }
    let lam = nonzero_elem(&cx.tw, t);
    o.class(cls);
    o.class_if(!lam.is_one(), "projective-Z!=1");
    o.class_if(insub, "in-subgroup");
    o.class_if(pt.0.is_zero(), "x=0");
    o.nt(pt != te_identity() && pt != g);
    o.show(|| format!("{}: {} {:?} insub={} lambda={:?}", name, cls, pt, insub, lam));
    o.evals(if insub { 8 + 22 } else { 4 + 20 });
    let pw = t.u64();
    o.class_if(pw & 0xfff != 0, "io-pattern-mixed-chunks");
    te_check_point::<P>(&pt, insub, &lam, pw)
}

fn te_all<P: TECurveConfig>(cx: &TeCtx<P>, name: &str, t: &mut Tape<'_>, o: &mut Obs) -> R
where
    P::BaseField: OracleRepr,
{
    let i = t.idx(cx.all.len());
    let (pt, insub) = cx.all[i];
    let lam = match t.below(3) {
        0 => P::BaseField::one(),
        1 => P::BaseField::from(2u64),
        _ => P::BaseField::from(7u64 + i as u64),
    };
    let lam = if lam.is_zero() { P::BaseField::from(5u64) } else { lam };
    o.nt(pt != te_identity() && pt != cx.pool[0]);
    o.class_if(insub, "in-subgroup");
    o.class_if(pt.0.is_zero(), "x=0");
    o.class_if(pt.1.is_zero(), "y=0");
    o.show(|| format!("{}: point #{} {:?} insub={} lambda={:?}", name, i, pt, insub, lam));
    o.evals(if insub { 8 + 22 } else { 4 + 20 });
    te_check_point::<P>(&pt, insub, &lam, (i as u64).wrapping_mul(0x9e3779b97f4a7c15) >> 20)
}

fn te_rels<P: TECurveConfig>(out: &mut Vec<Rel>, name: &'static str, tier: Tier, weight: u32, toy: bool)
where
    P::BaseField: OracleRepr,
{
    let cell: Arc<OnceLock<TeCtx<P>>> = Arc::new(OnceLock::new());
    let d = P::BaseField::extension_degree() as usize;
    let n = (<P::BaseField as Field>::BasePrimeField::MODULUS_BIT_SIZE as usize + 63) / 64;
    let words = 2 * d * (2 * n + 8) + 40;
    let cases = (tier.pick(900u32, 18000) / weight).max(24);
    let c = cell.clone();
    out.push(Rel::new(format!("point/{}", name), cases, words, move |t, o| te_roundtrip::<P>(c.get_or_init(|| TeCtx::<P>::new(toy)), name, t, o)));
    if toy {
        let c = cell.clone();
        let c2 = cell.clone();
        out.push(
            Rel::new(format!("all-points/{}", name), 0, 2, move |t, o| te_all::<P>(c.get_or_init(|| TeCtx::<P>::new(true)), name, t, o)).exhaustive(move || {
                let n = c2.get_or_init(|| TeCtx::<P>::new(true)).all.len() as u64;
                Box::new((0..n).flat_map(|i| (0..3u64).map(move |l| vec![i, l])))
            }),
        );
    }
}

// ------------------------------------------------------------------------------------------

fn relations(tier: Tier) -> Vec<Rel> {
    let mut out = Vec::new();
    macro_rules! zf {
        ($($n:ident),*) => { $( field_rels::<vh_core::zoo::$n>(&mut out, concat!("zoo.", stringify!($n)), tier, 1); )* };
    }
    // moduli with 0..7 spare bits in the top byte, 1..13 limbs; 64N-bit moduli need an extra byte for any flag
    zf!(T3, T7, T17, T251, T65537, M31, M61, P62, P64, Gold, P65, P126, M127, P128, P129, P192, P193, P250, C25519, Secp256k1, P256m189);
    zf!(B5, N5, B6, N6, B8, B9, B10, B11, N13, H1n, H4n);
    macro_rules! tower {
        ($ty:ty, $name:expr, $w:expr) => {
            field_rels::<$ty>(&mut out, $name, tier, $w);
        };
    }
    tower!(ZSecpFq2, "harness.Fp2(secp256k1 modulus)", 2);
    tower!(ZP64Fq2, "harness.Fp2(2^64-59)", 1);
    tower!(ark_bls12_381::Fq2, "bls12_381.Fq2", 2);
    tower!(ark_bls12_381::Fq6, "bls12_381.Fq6", 6);
    tower!(ark_bls12_381::Fq12, "bls12_381.Fq12", 12);
    tower!(ark_bn254::Fq2, "bn254.Fq2", 2);
    tower!(ark_bn254::Fq12, "bn254.Fq12", 12);
    tower!(ark_mnt4_298::Fq2, "mnt4_298.Fq2", 2);
    tower!(ark_mnt4_298::Fq4, "mnt4_298.Fq4", 4);
    tower!(ark_mnt6_298::Fq3, "mnt6_298.Fq3", 3);
    tower!(ark_mnt6_298::Fq6, "mnt6_298.Fq6", 6);
    tower!(ark_bw6_761::Fq3, "bw6_761.Fq3", 6);
    tower!(ark_bw6_761::Fq6, "bw6_761.Fq6", 12);
    tower!(ark_mnt4_753::Fq4, "mnt4_753.Fq4", 8);
    tower!(ark_secp256k1::Fq, "secp256k1.Fq", 1);
    tower!(ark_bls12_381::Fq, "bls12_381.Fq", 1);

    macro_rules! sw {
        ($cfg:ty, $name:expr, $z:expr, $w:expr) => {
            sw_rels::<$cfg>(&mut out, $name, tier, $w, false);
        };
    }
    for_each_shipped_sw!(sw);
    for_each_helper_sw!(sw);
    macro_rules! te {
        ($cfg:ty, $name:expr, $z:expr, $w:expr) => {
            te_rels::<$cfg>(&mut out, $name, tier, $w, false);
        };
    }
    for_each_shipped_te!(te);
    for_each_helper_te!(te);
    macro_rules! toysw {
        ($cfg:ty, $name:expr, $p:expr, $a:expr, $b:expr, $h:expr, $r:expr, $big:expr) => {
            sw_rels::<$cfg>(&mut out, concat!("toy.", $name), tier, 1, true);
        };
    }
    vh_core::for_each_toy_sw!(toysw);
    // toy curves over the extension fields F_49 / F_343: y-coordinates with a zero top coefficient (partial sign
    // ties), coordinates in proper subfields, a = 0 over a cubic extension - all points, all modes
    macro_rules! toyswext {
        ($cfg:ty, $name:expr, $count:expr, $h:expr, $r:expr) => {
            sw_rels::<$cfg>(&mut out, concat!("toy.", $name), tier, 1, true);
        };
    }
    vh_core::for_each_toy_sw_ext!(toyswext);
    macro_rules! toyte {
        ($cfg:ty, $name:expr, $p:expr, $a:expr, $d:expr, $h:expr, $r:expr, $complete:expr, $big:expr) => {
            te_rels::<$cfg>(&mut out, concat!("toy.", $name), tier, 1, true);
        };
    }
    vh_core::for_each_toy_te!(toyte);
    out
}

fn main() {
    vh_core::engine::main(PropSpec {
        id: "C09",
        rule: "Field values come from the edge-biased tower generator (0, 1, p-1, (p±1)/2, R, 2^k±1, edge limbs, uniform; sparse/dense extension elements) over 32 zoo prime fields (0..7 spare bits in the top byte, 1..13 limbs, ten moduli of exactly 8k bits), 14 towers (two harness Fp2 over moduli without spare bits) and are (de)serialized with EmptyFlags, SWFlags, TEFlags, harness flags of 1..8 bits and a restrictive 3-bit flag type. Curve points: identity, generator, sums of multiples of G, points decompressed from edge x (resp. y), points whose y (SW, a = 0: x is a cube root of y^2 - b computed by the harness) resp. x (TE) has its most significant non-zero coefficient equal to (p-1)/2 or (p+1)/2 (the threshold of the sign flag), points whose y has exactly one non-zero coefficient (y^2 in a proper subfield), x=0 / y=0 / 2-torsion / out-of-subgroup points, affine and projective with Z != 1, on 32 shipped SW and 10 shipped TE configurations plus the 4 SWU-isogenous helper curves of bls12_381 / bls12_377 (WBConfig::IsogenousCurve) and test-curves' secp256k1 and ed_on_bls12_381; every point of 11+7 toy curves over prime fields (incl. the 8-bit prime 251, whose flags need an extra byte) and of 4 toy curves over F_49 / F_343 x 3 representations exhaustively. Uniqueness inputs are derived from an encoding produced by the harness' own encoder: + k p, exactly p, one unused high bit, stray bits in the extra flag byte, invalid flag pattern, bit flip, uniform bytes. Every field value and every point (affine and projective) is additionally sent through the convenience spellings (serialize_compressed/_uncompressed, compressed_size/uncompressed_size, deserialize_compressed/_unchecked, deserialize_uncompressed/_unchecked: round trip, validating spellings only for subgroup points), into a fixed &mut [u8] of exactly serialized_size bytes (must succeed and be filled), into a writer that accepts only k bytes per write call (same bytes) and back through a reader that delivers only k bytes per read call followed by unrelated bytes (same value, exactly the encoding consumed); the four chunk sizes k come from a tape word (1,2,3,5,7,8,9,17; word 0 = 1 byte per call). Oracles: decode(encode(v)) == v through raw coordinates in all four modes (checked modes only for points known to be in the subgroup), len == serialized_size == (un)compressed_size, flags returned; Ok((v,f)) => serialize_with_flags(v,f) == input byte for byte. Non-trivial: value not in {0, 1, identity, generator}, or an input that differs from the valid encoding; distinct = distinct decoded choice sequences.",
        assumptions: &[
            "the byte layout used to build mutated inputs (little-endian coefficients of ceil(bits/8) bytes, the last one of ceil((bits+flag bits)/8) bytes with the flags in its top bits) is the documented one; a mismatch with serialized_size_with_flags is reported as size.layout",
            "points used in checked modes are multiples of the generator computed with a reference double-and-add over Projective::double_in_place/+= (C03's subject)",
            "curve-level uniqueness is not part of the property (compressed infinity with non-zero x, sign flag of a 2-torsion point)",
        ],
        relations,
    })
}
