//! Lists of shipped curve configurations (kept identical in props/c09/src and props/c10/src).
//! `$m!(Config, "name", zcash_format, weight)`: `zcash_format` = the curve overrides (de)serialization with the
//! zcash layout; `weight` = relative cost (1 = 256-bit prime field), used to scale case counts.

#[macro_export]
macro_rules! for_each_shipped_sw {
    ($m:ident) => {
        $m!(ark_bls12_377::g1::Config, "bls12_377.G1", false, 3);
        $m!(ark_bls12_377::g2::Config, "bls12_377.G2", false, 8);
        $m!(ark_bls12_381::g1::Config, "bls12_381.G1", true, 3);
        $m!(ark_bls12_381::g2::Config, "bls12_381.G2", true, 8);
        $m!(ark_bn254::g1::Config, "bn254.G1", false, 1);
        $m!(ark_bn254::g2::Config, "bn254.G2", false, 3);
        $m!(ark_bw6_761::g1::Config, "bw6_761.G1", false, 12);
        $m!(ark_bw6_761::g2::Config, "bw6_761.G2", false, 12);
        $m!(ark_bw6_767::g1::Config, "bw6_767.G1", false, 12);
        $m!(ark_bw6_767::g2::Config, "bw6_767.G2", false, 12);
        $m!(ark_cp6_782::g1::Config, "cp6_782.G1", false, 14);
        $m!(ark_cp6_782::g2::Config, "cp6_782.G2", false, 60);
        $m!(ark_mnt4_298::g1::Config, "mnt4_298.G1", false, 2);
        $m!(ark_mnt4_298::g2::Config, "mnt4_298.G2", false, 5);
        $m!(ark_mnt4_753::g1::Config, "mnt4_753.G1", false, 12);
        $m!(ark_mnt4_753::g2::Config, "mnt4_753.G2", false, 36);
        $m!(ark_mnt6_298::g1::Config, "mnt6_298.G1", false, 2);
        $m!(ark_mnt6_298::g2::Config, "mnt6_298.G2", false, 8);
        $m!(ark_mnt6_753::g1::Config, "mnt6_753.G1", false, 12);
        $m!(ark_mnt6_753::g2::Config, "mnt6_753.G2", false, 60);
        $m!(ark_grumpkin::GrumpkinConfig, "grumpkin", false, 1);
        $m!(ark_pallas::PallasConfig, "pallas", false, 1);
        $m!(ark_vesta::VestaConfig, "vesta", false, 1);
        $m!(ark_secp256k1::Config, "secp256k1", false, 1);
        $m!(ark_secp256r1::Config, "secp256r1", false, 1);
        $m!(ark_secp384r1::Config, "secp384r1", false, 3);
        $m!(ark_secq256k1::Config, "secq256k1", false, 1);
        $m!(ark_ed_on_bls12_381::JubjubConfig, "jubjub.SW", false, 1);
        $m!(ark_ed_on_bls12_381_bandersnatch::BandersnatchConfig, "bandersnatch.SW", false, 1);
        $m!(ark_test_curves::bls12_381::g1::Config, "test.bls12_381.G1", false, 3);
        $m!(ark_test_curves::bls12_381::g2::Config, "test.bls12_381.G2", false, 8);
        $m!(ark_test_curves::bn384_small_two_adicity::g1::Config, "test.bn384.G1", false, 3);
    };
}

#[macro_export]
macro_rules! for_each_shipped_te {
    ($m:ident) => {
        $m!(ark_curve25519::Curve25519Config, "curve25519", false, 1);
        $m!(ark_ed25519::EdwardsConfig, "ed25519", false, 1);
        $m!(ark_ed_on_bls12_377::EdwardsConfig, "ed_on_bls12_377", false, 1);
        $m!(ark_ed_on_bls12_381::JubjubConfig, "jubjub.TE", false, 1);
        $m!(ark_ed_on_bls12_381_bandersnatch::BandersnatchConfig, "bandersnatch.TE", false, 1);
        $m!(ark_ed_on_bn254::EdwardsConfig, "ed_on_bn254", false, 1);
        $m!(ark_ed_on_cp6_782::EdwardsConfig, "ed_on_cp6_782", false, 3);
        $m!(ark_ed_on_mnt4_298::EdwardsConfig, "ed_on_mnt4_298", false, 2);
        $m!(ark_ed_on_mnt4_753::EdwardsConfig, "ed_on_mnt4_753", false, 12);
        $m!(ark_bls12_377::g1::Config, "bls12_377.G1.TE", false, 3);
    };
}

/// Configurations that no list of "the curves" names: the SWU-isogenous helper curves (private modules of their
/// crates, reachable only through `WBConfig::IsogenousCurve`; own coefficients, cofactor and generator; the one of
/// bls12_377 G2 has a multi-limb cofactor whose lowest limb is 1) and the copies kept in test-curves.
#[macro_export]
macro_rules! for_each_helper_sw {
    ($m:ident) => {
        $m!(<ark_bls12_381::g1::Config as ark_ec::hashing::curve_maps::wb::WBConfig>::IsogenousCurve, "bls12_381.G1.iso", false, 3);
        $m!(<ark_bls12_381::g2::Config as ark_ec::hashing::curve_maps::wb::WBConfig>::IsogenousCurve, "bls12_381.G2.iso", false, 8);
        $m!(<ark_bls12_377::g1::Config as ark_ec::hashing::curve_maps::wb::WBConfig>::IsogenousCurve, "bls12_377.G1.iso", false, 3);
        $m!(<ark_bls12_377::g2::Config as ark_ec::hashing::curve_maps::wb::WBConfig>::IsogenousCurve, "bls12_377.G2.iso", false, 8);
        $m!(ark_test_curves::secp256k1::Config, "test.secp256k1", false, 1);
    };
}

#[macro_export]
macro_rules! for_each_helper_te {
    ($m:ident) => {
        $m!(ark_test_curves::ed_on_bls12_381::EdwardsConfig, "test.ed_on_bls12_381", false, 1);
    };
}
