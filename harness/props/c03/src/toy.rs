//! Toy curves: every ordered pair of points, under several rescaling patterns, through the whole battery.
use crate::battery::*;
use ark_ec::models::short_weierstrass::SWCurveConfig;
use ark_ec::models::twisted_edwards::TECurveConfig;
use ark_ff::{Field, One, Zero};
use std::sync::Arc;
use vh_core::curve::*;
use vh_core::engine::{Obs, Rel, Tape, Tier, R};

const TAPE: usize = 12;

fn mix(mut x: u64) -> u64 {
    x = x.wrapping_add(0x9e3779b97f4a7c15);
    x = (x ^ (x >> 30)).wrapping_mul(0xbf58476d1ce4e5b9);
    x = (x ^ (x >> 27)).wrapping_mul(0x94d049bb133111eb);
    x ^ (x >> 31)
}

/// tapes of the exhaustive enumeration: all (i, j) x 4 rescaling patterns
fn all_pairs(n: u64) -> Box<dyn Iterator<Item = Vec<u64>>> {
    Box::new((0..n).flat_map(move |i| {
        (0..n).flat_map(move |j| {
            (0..4u64).map(move |k| {
                let h = |s: u64| mix(i.wrapping_mul(0x10001).wrapping_add(j).wrapping_mul(8).wrapping_add(k) ^ (s << 56));
                // word -> lambda = 1 + word % (p-1): 0 -> 1, 1 -> 2
                let (lw, mw, jsel) = match k {
                    0 => (0, 0, 0),
                    1 => (1, h(1), 1),
                    2 => (h(2), 1, 2),
                    _ => (h(3), h(4), h(5)),
                };
                vec![i, j, lw, mw, h(6), jsel, h(7), h(8), jsel / 3, h(9), h(10), h(11)]
            })
        })
    }))
}

fn decode<M: Model>(pts: &[M::O], insub: &[bool], p: u64, t: &mut Tape<'_>) -> Case<M> {
    let n = pts.len();
    let i = t.idx(n);
    let j = t.idx(n);
    let lam = M::F::from(1 + t.below(p - 1));
    let mu = M::F::from(1 + t.below(p - 1));
    let nu = M::F::from(1 + t.below(p - 1));
    let junk = |t: &mut Tape<'_>| {
        let s = t.below(3);
        let x = M::F::from(t.below(p));
        let y = M::F::from(t.below(p));
        match s {
            0 => (M::F::one(), M::F::one()),
            1 => (M::F::zero(), M::F::zero()),
            _ => (x, y),
        }
    };
    let jp = junk(t);
    let jq = junk(t);
    let sel = t.u64();
    Case { p: pts[i], q: pts[j], lam, mu, nu, jp, jq, sel, try_new: insub[i] }
}

fn show<M: Model>(name: &str, c: &Case<M>) -> String {
    format!(
        "{}: P={:?} Q={:?} lambda={:?} mu={:?} nu={:?} identity-coords P:{:?} Q:{:?} sel={:#x}",
        name, c.p, c.q, c.lam, c.mu, c.nu, c.jp, c.jq, c.sel
    )
}

fn sw_rel<P: SWCurveConfig>(name: &'static str, pts: &[Sw<P::BaseField>], insub: &[bool], p: u64, t: &mut Tape<'_>, o: &mut Obs) -> R {
    let c = decode::<SwM<P>>(pts, insub, p, t);
    o.show(|| show(name, &c));
    classify(&c, o)?;
    sw_battery::<P>(&c, o)
}

fn te_rel<P: TECurveConfig>(name: &'static str, pts: &[Te<P::BaseField>], insub: &[bool], p: u64, t: &mut Tape<'_>, o: &mut Obs) -> R {
    let c = decode::<TeM<P>>(pts, insub, p, t);
    o.show(|| show(name, &c));
    classify(&c, o)?;
    te_battery::<P>(&c, o)
}

pub fn relations(out: &mut Vec<Rel>, tier: Tier) {
    macro_rules! sw {
        ($cfg:ty, $name:expr, $p:expr, $a:expr, $b:expr, $h:expr, $r:expr, $big:expr) => {
            if !$big || tier == Tier::Thorough {
                type F = <$cfg as ark_ec::CurveConfig>::BaseField;
                let a = <$cfg as SWCurveConfig>::COEFF_A;
                let b = <$cfg as SWCurveConfig>::COEFF_B;
                assert!(a == F::from($a) && b == F::from($b), "toy curve {} coefficients", $name);
                let pts = Arc::new(sw_enumerate::<F>(&a, &b));
                assert_eq!(pts.len() as u64, $h * $r, "toy curve {}: point count", $name);
                assert!(pts.contains(&sw_from_affine::<$cfg>(&<$cfg as SWCurveConfig>::GENERATOR)), "toy curve {}: generator", $name);
                let n = pts.len() as u64;
                let pp = pts.clone();
                // membership in the prime-order subgroup, by the oracle: r * P = O
                let rr = num_bigint::BigUint::from($r);
                let insub: Arc<Vec<bool>> = Arc::new(pts.iter().map(|q| sw_mul(&a, q, &rr) == Sw::Inf).collect());
                assert_eq!(insub.iter().filter(|b| **b).count() as u64, $r, "toy curve {}: subgroup size", $name);
                out.push(
                    Rel::new(format!("toy-sw-pairs/{}", $name), tier.pick(400, 4000), TAPE, move |t, o| sw_rel::<$cfg>($name, &pp, &insub, $p, t, o))
                        .exhaustive(move || all_pairs(n)),
                );
            }
        };
    }
    vh_core::for_each_toy_sw!(sw);
    macro_rules! te {
        ($cfg:ty, $name:expr, $p:expr, $a:expr, $d:expr, $h:expr, $r:expr, $complete:expr, $big:expr) => {
            if !$big || tier == Tier::Thorough {
                type F = <$cfg as ark_ec::CurveConfig>::BaseField;
                let a = <$cfg as TECurveConfig>::COEFF_A;
                let d = <$cfg as TECurveConfig>::COEFF_D;
                assert!(a == F::from($a) && d == F::from($d), "toy curve {} coefficients", $name);
                // completeness is re-derived here, independently of the generator script
                let complete = a.legendre().is_qr() && !a.is_zero() && d.legendre().is_qnr();
                assert_eq!(complete, $complete, "toy curve {}: completeness", $name);
                let g = te_from_affine::<$cfg>(&<$cfg as TECurveConfig>::GENERATOR);
                assert!(te_on_curve(&a, &d, &g), "toy curve {}: generator", $name);
                let pts = if complete {
                    let v = te_enumerate::<F>(&a, &d);
                    assert_eq!(v.len() as u64, $h * $r, "toy curve {}: point count", $name);
                    v
                } else {
                    let v = te_subgroup(&a, &d, &g, $r);
                    assert!(te_add(&a, &d, v.last().unwrap(), &g) == Some(te_identity()), "toy curve {}: subgroup order", $name);
                    v
                };
                let pts = Arc::new(pts);
                let n = pts.len() as u64;
                let pp = pts.clone();
                let dom = if complete { "whole-curve" } else { "subgroup" };
                let subgroup = te_subgroup(&a, &d, &g, $r);
                let insub: Arc<Vec<bool>> = Arc::new(pts.iter().map(|q| subgroup.contains(q)).collect());
                assert_eq!(insub.iter().filter(|b| **b).count() as u64, $r, "toy curve {}: subgroup size", $name);
                out.push(
                    Rel::new(format!("toy-te-pairs/{}.{}", $name, dom), tier.pick(400, 4000), TAPE, move |t, o| te_rel::<$cfg>($name, &pp, &insub, $p, t, o))
                        .exhaustive(move || all_pairs(n)),
                );
                // the prime-order subgroup of a complete curve as its own (small) space: every pair x more patterns
                if complete {
                    let sub = Arc::new(te_subgroup(&a, &d, &g, $r));
                    let m = sub.len() as u64;
                    let all_in: Arc<Vec<bool>> = Arc::new(vec![true; sub.len()]);
                    out.push(
                        Rel::new(format!("toy-te-pairs/{}.subgroup", $name), tier.pick(200, 2000), TAPE, move |t, o| te_rel::<$cfg>($name, &sub, &all_in, $p, t, o))
                            .exhaustive(move || all_pairs(m)),
                    );
                }
            }
        };
    }
    vh_core::for_each_toy_te!(te);
}
