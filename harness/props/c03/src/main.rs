//! C03 — not implemented yet.
fn main() {
    eprintln!("C03: check not implemented");
    std::process::exit(2);
}
