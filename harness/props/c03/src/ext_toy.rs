//! Toy short-Weierstrass curves over extension fields of F_7 (`vh_core::toy_ext`): F_49 (a = 0 and a != 0) and
//! F_343 with a = 0 — the latter a shape no shipped curve has, but for which `double_in_place` has a separate
//! branch (a = 0 and extension degree >= 3). The property quantifies over "base field prime and extension", so
//! every ordered pair of points goes through the whole battery, with rescaling factors from the whole field.
use crate::battery::*;
use ark_ec::models::short_weierstrass::SWCurveConfig;
use ark_ff::{Field, One, Zero};
use std::sync::Arc;
use vh_core::curve::*;
use vh_core::engine::{Obs, Rel, Tape, Tier, R};
use vh_core::toy_ext::{all_elems, enumerate};
use vh_core::zoo::T7;

fn decode<P: SWCurveConfig>(pts: &[Sw<P::BaseField>], insub: &[bool], els: &[P::BaseField], t: &mut Tape<'_>) -> Case<SwM<P>> {
    let n = pts.len();
    let q = els.len();
    let i = t.idx(n);
    let j = t.idx(n);
    // rescaling factors: any non-zero element (els[0] is zero; word 0 -> 1)
    let nz = |t: &mut Tape<'_>| {
        let k = t.idx(q - 1);
        if k == 0 {
            P::BaseField::one()
        } else {
            els[k]
        }
    };
    let lam = nz(t);
    let mu = nz(t);
    let nu = nz(t);
    let junk = |t: &mut Tape<'_>| {
        let s = t.below(3);
        let x = els[t.idx(q)];
        let y = els[t.idx(q)];
        match s {
            0 => (P::BaseField::one(), P::BaseField::one()),
            1 => (P::BaseField::zero(), P::BaseField::zero()),
            _ => (x, y),
        }
    };
    let jp = junk(t);
    let jq = junk(t);
    let sel = t.u64();
    Case { p: pts[i], q: pts[j], lam, mu, nu, jp, jq, sel, try_new: insub[i] }
}

fn rel<P: SWCurveConfig>(name: &'static str, pts: &[Sw<P::BaseField>], insub: &[bool], els: &[P::BaseField], t: &mut Tape<'_>, o: &mut Obs) -> R {
    let c = decode::<P>(pts, insub, els, t);
    o.show(|| format!("{}: P={:?} Q={:?} lambda={:?} mu={:?} sel={:#x}", name, c.p, c.q, c.lam, c.mu, c.sel));
    classify(&c, o)?;
    sw_battery::<P>(&c, o)
}

fn mix(mut x: u64) -> u64 {
    x = x.wrapping_add(0x9e3779b97f4a7c15);
    x = (x ^ (x >> 30)).wrapping_mul(0xbf58476d1ce4e5b9);
    x = (x ^ (x >> 27)).wrapping_mul(0x94d049bb133111eb);
    x ^ (x >> 31)
}

fn all_pairs(n: u64, patterns: u64) -> Box<dyn Iterator<Item = Vec<u64>>> {
    Box::new((0..n).flat_map(move |i| {
        (0..n).flat_map(move |j| {
            (0..patterns).map(move |k| {
                let h = |s: u64| mix(((i * 1000 + j) * 8 + k) ^ (s << 56));
                let (lw, mw, jsel) = match k {
                    0 => (0, 0, 0),
                    1 => (1, h(1), 1),
                    _ => (h(3), h(4), h(5)),
                };
                vec![i, j, lw, mw, h(6), jsel, h(7), h(8), jsel / 3, h(9), h(10), h(11)]
            })
        })
    }))
}

fn add<P: SWCurveConfig>(out: &mut Vec<Rel>, name: &'static str, count: usize, r: u64, tier: Tier)
where
    P::BaseField: Field<BasePrimeField = T7>,
{
    let els = Arc::new(all_elems::<P::BaseField>());
    let pts = Arc::new(enumerate::<P>());
    assert_eq!(pts.len(), count, "toy curve {}: point count", name);
    assert!(pts.contains(&sw_from_affine::<P>(&P::GENERATOR)), "toy curve {}: generator", name);
    let rr = num_bigint::BigUint::from(r);
    let insub: Arc<Vec<bool>> = Arc::new(pts.iter().map(|q| sw_mul(&P::COEFF_A, q, &rr) == Sw::Inf).collect());
    assert_eq!(insub.iter().filter(|b| **b).count() as u64, r, "toy curve {}: subgroup size", name);
    let n = pts.len() as u64;
    let patterns = if n < 100 { 4 } else { tier.pick(2, 3) };
    out.push(Rel::new(format!("toy-sw-pairs/{}", name), tier.pick(400, 4000), 12, move |t, o| rel::<P>(name, &pts, &insub, &els, t, o)).exhaustive(move || all_pairs(n, patterns)));
}

pub fn relations(out: &mut Vec<Rel>, tier: Tier) {
    macro_rules! curve {
        ($cfg:ty, $name:expr, $count:expr, $h:expr, $r:expr) => {
            add::<$cfg>(out, $name, $count, $r, tier);
        };
    }
    vh_core::for_each_toy_sw_ext!(curve);
}
