//! Toy short-Weierstrass curves over the cubic extension F_343 = F_7[u]/(u^3 - 3) with a = 0.
//! No shipped curve has a = 0 over a base field of extension degree >= 3, yet `double_in_place` has a separate
//! branch for exactly that shape; the property quantifies over "base field prime and extension", so the branch is
//! reached here with user-defined configurations: every ordered pair of points, through the whole battery.
use crate::battery::*;
use crate::toy_cfg::C7;
use ark_ec::models::short_weierstrass::{self as sw, SWCurveConfig};
use ark_ec::models::CurveConfig;
use ark_ff::fields::{Fp, Fp3, MontBackend, MontConfig};
use ark_ff::{Field, MontFp, One, Zero};
use std::sync::Arc;
use vh_core::curve::*;
use vh_core::engine::{Obs, Rel, Tape, Tier, R};
use vh_core::zoo::T7;

type Fq3 = Fp3<C7>;

#[derive(MontConfig)]
#[modulus = "307"]
#[generator = "5"]
pub struct R307Cfg;
pub type R307 = Fp<MontBackend<R307Cfg, 1>, 1>;

#[derive(MontConfig)]
#[modulus = "109"]
#[generator = "6"]
pub struct R109Cfg;
pub type R109 = Fp<MontBackend<R109Cfg, 1>, 1>;

/// y^2 = x^3 + (1 + 3u): 307 points (prime order)
#[derive(Clone, Default, PartialEq, Eq)]
pub struct SwF343P;
impl CurveConfig for SwF343P {
    type BaseField = Fq3;
    type ScalarField = R307;
    const COFACTOR: &'static [u64] = &[1];
    const COFACTOR_INV: R307 = MontFp!("1");
}
impl SWCurveConfig for SwF343P {
    const COEFF_A: Fq3 = Fq3::new(MontFp!("0"), MontFp!("0"), MontFp!("0"));
    const COEFF_B: Fq3 = Fq3::new(MontFp!("1"), MontFp!("3"), MontFp!("0"));
    const GENERATOR: sw::Affine<Self> =
        sw::Affine::new_unchecked(Fq3::new(MontFp!("0"), MontFp!("1"), MontFp!("1")), Fq3::new(MontFp!("0"), MontFp!("3"), MontFp!("5")));
}

/// y^2 = x^3 + (1 + u): 327 = 3 * 109 points (cofactor 3)
#[derive(Clone, Default, PartialEq, Eq)]
pub struct SwF343H3;
impl CurveConfig for SwF343H3 {
    type BaseField = Fq3;
    type ScalarField = R109;
    const COFACTOR: &'static [u64] = &[3];
    // 3 * 73 = 219 = 2 * 109 + 1
    const COFACTOR_INV: R109 = MontFp!("73");
}
impl SWCurveConfig for SwF343H3 {
    const COEFF_A: Fq3 = Fq3::new(MontFp!("0"), MontFp!("0"), MontFp!("0"));
    const COEFF_B: Fq3 = Fq3::new(MontFp!("1"), MontFp!("1"), MontFp!("0"));
    const GENERATOR: sw::Affine<Self> =
        sw::Affine::new_unchecked(Fq3::new(MontFp!("0"), MontFp!("1"), MontFp!("2")), Fq3::new(MontFp!("6"), MontFp!("4"), MontFp!("4")));
}

fn all_elems() -> Vec<Fq3> {
    let mut v = Vec::with_capacity(343);
    for a in 0..7u64 {
        for b in 0..7u64 {
            for c in 0..7u64 {
                v.push(Fq3::new(T7::from(a), T7::from(b), T7::from(c)));
            }
        }
    }
    v
}

/// brute force over all (x, y) in F_343^2, independent of arkworks' square roots
fn enumerate(b: &Fq3) -> Vec<Sw<Fq3>> {
    let els = all_elems();
    let mut out = vec![Sw::Inf];
    for x in &els {
        let rhs = x.square() * x + b;
        for y in &els {
            if y.square() == rhs {
                out.push(Sw::Aff(*x, *y));
            }
        }
    }
    out
}

fn decode<P: SWCurveConfig<BaseField = Fq3>>(pts: &[Sw<Fq3>], els: &[Fq3], t: &mut Tape<'_>) -> Case<SwM<P>> {
    let n = pts.len();
    let i = t.idx(n);
    let j = t.idx(n);
    // rescaling factors: any non-zero element of F_343 (index 0 is zero; word 0 -> 1)
    let nz = |t: &mut Tape<'_>| {
        let k = t.below(342) as usize;
        if k == 0 {
            Fq3::one()
        } else {
            els[k + 1 - (k + 1 >= 343) as usize]
        }
    };
    let lam = nz(t);
    let mu = nz(t);
    let nu = nz(t);
    let junk = |t: &mut Tape<'_>| {
        let s = t.below(3);
        let x = els[t.idx(343)];
        let y = els[t.idx(343)];
        match s {
            0 => (Fq3::one(), Fq3::one()),
            1 => (Fq3::zero(), Fq3::zero()),
            _ => (x, y),
        }
    };
    let jp = junk(t);
    let jq = junk(t);
    let sel = t.u64();
    Case { p: pts[i], q: pts[j], lam, mu, nu, jp, jq, sel }
}

fn rel<P: SWCurveConfig<BaseField = Fq3>>(name: &'static str, pts: &[Sw<Fq3>], els: &[Fq3], t: &mut Tape<'_>, o: &mut Obs) -> R {
    let c = decode::<P>(pts, els, t);
    o.show(|| format!("{}: P={:?} Q={:?} lambda={:?} mu={:?} sel={:#x}", name, c.p, c.q, c.lam, c.mu, c.sel));
    classify(&c, o)?;
    sw_battery::<P>(&c, o)
}

fn mix(mut x: u64) -> u64 {
    x = x.wrapping_add(0x9e3779b97f4a7c15);
    x = (x ^ (x >> 30)).wrapping_mul(0xbf58476d1ce4e5b9);
    x = (x ^ (x >> 27)).wrapping_mul(0x94d049bb133111eb);
    x ^ (x >> 31)
}

fn all_pairs(n: u64, patterns: u64) -> Box<dyn Iterator<Item = Vec<u64>>> {
    Box::new((0..n).flat_map(move |i| {
        (0..n).flat_map(move |j| {
            (0..patterns).map(move |k| {
                let h = |s: u64| mix((i * 1000 + j) * 8 + k ^ (s << 56));
                let (lw, mw, jsel) = match k {
                    0 => (0, 0, 0),
                    1 => (1, h(1), 1),
                    _ => (h(3), h(4), h(5)),
                };
                vec![i, j, lw, mw, h(6), jsel, h(7), h(8), jsel / 3, h(9), h(10), h(11)]
            })
        })
    }))
}

pub fn relations(out: &mut Vec<Rel>, tier: Tier) {
    let els = Arc::new(all_elems());
    macro_rules! curve {
        ($cfg:ty, $name:expr, $count:expr) => {{
            let b = <$cfg as SWCurveConfig>::COEFF_B;
            assert!(<$cfg as SWCurveConfig>::COEFF_A.is_zero());
            let pts = Arc::new(enumerate(&b));
            assert_eq!(pts.len(), $count, "toy curve {}: point count", $name);
            assert!(pts.contains(&sw_from_affine::<$cfg>(&<$cfg as SWCurveConfig>::GENERATOR)), "toy curve {}: generator", $name);
            let n = pts.len() as u64;
            let (pp, ee) = (pts.clone(), els.clone());
            let patterns = tier.pick(2, 3);
            out.push(
                Rel::new(format!("toy-sw-pairs/{}", $name), tier.pick(400, 4000), 12, move |t, o| rel::<$cfg>($name, &pp, &ee, t, o))
                    .exhaustive(move || all_pairs(n, patterns)),
            );
        }};
    }
    curve!(SwF343P, "SwF343P(a=0,Fp3,prime-order)", 307);
    curve!(SwF343H3, "SwF343H3(a=0,Fp3,cofactor-3)", 327);
}
