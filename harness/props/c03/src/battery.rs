//! The operation battery shared by the toy (exhaustive) and shipped (generated) relations.
use ark_ec::models::short_weierstrass::{Affine as SwAffine, Projective as SwProj, SWCurveConfig};
use ark_ec::models::twisted_edwards::{Affine as TeAffine, Projective as TeProj, TECurveConfig};
use ark_ec::{AffineRepr, CurveGroup, PrimeGroup, ScalarMul};
use ark_ff::{AdditiveGroup, Field, One, Zero};
use std::fmt::Debug;
use std::marker::PhantomData;
use vh_core::curve::*;
use vh_core::engine::{no_panic, Fail, Obs, R};
use vh_core::{ensure, ensure_eq};

/// Bridge between a curve model and its oracle.
pub trait Model: 'static {
    type F: Field;
    /// oracle point
    type O: Copy + Eq + Debug + Send + Sync + 'static;
    type Proj: Copy + Debug;
    type Aff: Copy + Debug;
    const NAME: &'static str;
    fn id() -> Self::O;
    fn add(p: &Self::O, q: &Self::O) -> Result<Self::O, Fail>;
    fn neg(p: &Self::O) -> Self::O;
    fn on_curve(p: &Self::O) -> bool;
    /// projective representative with rescaling `lam` (non-zero); `junk` = coordinates of a Z=0 identity (SW only)
    fn lift(p: &Self::O, lam: &Self::F, junk: &(Self::F, Self::F)) -> Self::Proj;
    fn aff(p: &Self::O) -> Self::Aff;
    fn of_aff(a: &Self::Aff) -> Self::O;
    /// does the raw projective value denote `want` (cross-multiplied, plus representation invariants)?
    fn is(g: &Self::Proj, want: &Self::O) -> bool;
    /// affine coordinates as `AffineRepr::xy` documents them (None for the SW point at infinity)
    fn coords(p: &Self::O) -> Option<(Self::F, Self::F)>;
    /// an arbitrary coordinate pair as an unchecked affine value and as an oracle point
    fn raw(x: Self::F, y: Self::F) -> (Self::Aff, Self::O);
    /// every public spelling of the affine identity
    fn aff_identities() -> Vec<(&'static str, Self::Aff)>;
    /// the declared generator as an oracle point
    fn gen() -> Self::O;
    /// the checked constructors (`Affine::new`, `Projective::new`) applied to the raw coordinates of `g`
    /// (`Affine::new` only for a finite point given as (x, y))
    fn checked_new(g: &Self::Proj, xy: Option<(Self::F, Self::F)>) -> (Self::Proj, Option<Self::Aff>);
}

pub struct SwM<P>(PhantomData<P>);
pub struct TeM<P>(PhantomData<P>);

impl<P: SWCurveConfig> Model for SwM<P> {
    type F = P::BaseField;
    type O = Sw<P::BaseField>;
    type Proj = SwProj<P>;
    type Aff = SwAffine<P>;
    const NAME: &'static str = "sw";
    fn id() -> Self::O {
        Sw::Inf
    }
    fn add(p: &Self::O, q: &Self::O) -> Result<Self::O, Fail> {
        Ok(sw_add(&P::COEFF_A, p, q))
    }
    fn neg(p: &Self::O) -> Self::O {
        sw_neg(p)
    }
    fn on_curve(p: &Self::O) -> bool {
        sw_on_curve(&P::COEFF_A, &P::COEFF_B, p)
    }
    fn lift(p: &Self::O, lam: &Self::F, junk: &(Self::F, Self::F)) -> Self::Proj {
        sw_to_proj::<P>(p, lam, &junk.0, &junk.1)
    }
    fn aff(p: &Self::O) -> Self::Aff {
        sw_to_affine::<P>(p)
    }
    fn of_aff(a: &Self::Aff) -> Self::O {
        sw_from_affine::<P>(a)
    }
    fn is(g: &Self::Proj, want: &Self::O) -> bool {
        match want {
            Sw::Inf => g.z.is_zero(),
            Sw::Aff(x, y) => {
                let z2 = g.z.square();
                !g.z.is_zero() && g.x == *x * z2 && g.y == *y * z2 * g.z
            },
        }
    }
    fn coords(p: &Self::O) -> Option<(Self::F, Self::F)> {
        match p {
            Sw::Inf => None,
            Sw::Aff(x, y) => Some((*x, *y)),
        }
    }
    fn raw(x: Self::F, y: Self::F) -> (Self::Aff, Self::O) {
        (SwAffine::<P>::new_unchecked(x, y), Sw::Aff(x, y))
    }
    fn aff_identities() -> Vec<(&'static str, Self::Aff)> {
        vec![
            ("Affine::identity()", SwAffine::<P>::identity()),
            ("AffineRepr::zero()", <SwAffine<P> as AffineRepr>::zero()),
            ("Affine::default()", SwAffine::<P>::default()),
        ]
    }
    fn gen() -> Self::O {
        sw_from_affine::<P>(&P::GENERATOR)
    }
    fn checked_new(g: &Self::Proj, xy: Option<(Self::F, Self::F)>) -> (Self::Proj, Option<Self::Aff>) {
        (SwProj::<P>::new(g.x, g.y, g.z), xy.map(|(x, y)| SwAffine::<P>::new(x, y)))
    }
}

impl<P: TECurveConfig> Model for TeM<P> {
    type F = P::BaseField;
    type O = Te<P::BaseField>;
    type Proj = TeProj<P>;
    type Aff = TeAffine<P>;
    const NAME: &'static str = "te";
    fn id() -> Self::O {
        te_identity()
    }
    fn add(p: &Self::O, q: &Self::O) -> Result<Self::O, Fail> {
        te_add(&P::COEFF_A, &P::COEFF_D, p, q).ok_or_else(|| Fail {
            sig: "harness.exceptional-pair".into(),
            msg: format!("harness error: the affine Edwards law has a vanishing denominator for {:?} + {:?} (pair outside the stated domain)", p, q),
        })
    }
    fn neg(p: &Self::O) -> Self::O {
        te_neg(p)
    }
    fn on_curve(p: &Self::O) -> bool {
        te_on_curve(&P::COEFF_A, &P::COEFF_D, p)
    }
    fn lift(p: &Self::O, lam: &Self::F, _junk: &(Self::F, Self::F)) -> Self::Proj {
        te_to_proj::<P>(p, lam)
    }
    fn aff(p: &Self::O) -> Self::Aff {
        te_to_affine::<P>(p)
    }
    fn of_aff(a: &Self::Aff) -> Self::O {
        te_from_affine::<P>(a)
    }
    fn is(g: &Self::Proj, want: &Self::O) -> bool {
        !g.z.is_zero() && g.x == want.0 * g.z && g.y == want.1 * g.z && g.t * g.z == g.x * g.y
    }
    fn coords(p: &Self::O) -> Option<(Self::F, Self::F)> {
        // `AffineRepr::xy` is None exactly for the identity (the trait's `is_zero` is defined as `xy().is_none()`)
        (*p != te_identity()).then_some((p.0, p.1))
    }
    fn raw(x: Self::F, y: Self::F) -> (Self::Aff, Self::O) {
        (TeAffine::<P>::new_unchecked(x, y), Te(x, y))
    }
    fn aff_identities() -> Vec<(&'static str, Self::Aff)> {
        vec![
            ("Affine::zero()", TeAffine::<P>::zero()),
            ("AffineRepr::zero()", <TeAffine<P> as AffineRepr>::zero()),
            ("Affine::default()", TeAffine::<P>::default()),
        ]
    }
    fn gen() -> Self::O {
        te_from_affine::<P>(&P::GENERATOR)
    }
    fn checked_new(g: &Self::Proj, xy: Option<(Self::F, Self::F)>) -> (Self::Proj, Option<Self::Aff>) {
        (TeProj::<P>::new(g.x, g.y, g.t, g.z), xy.map(|(x, y)| TeAffine::<P>::new(x, y)))
    }
}

pub struct Case<M: Model> {
    pub p: M::O,
    pub q: M::O,
    /// rescaling of P, of Q, and a third one for "another representative of the same point"
    pub lam: M::F,
    pub mu: M::F,
    pub nu: M::F,
    pub jp: (M::F, M::F),
    pub jq: (M::F, M::F),
    /// selector word for list shapes
    pub sel: u64,
    /// P is known (by construction / by the oracle) to lie in the prime-order subgroup and the caller wants the
    /// checked constructors `Affine::new` / `Projective::new` (which multiply by r) to be exercised on it
    pub try_new: bool,
}

/// classification + non-trivial rule shared by all relations
pub fn classify<M: Model>(c: &Case<M>, o: &mut Obs) -> Result<(), Fail> {
    let id = M::id();
    let one = M::F::one();
    let p_id = c.p == id;
    let q_id = c.q == id;
    let same = c.p == c.q;
    let opp = c.p == M::neg(&c.q);
    let p2 = !p_id && c.p == M::neg(&c.p);
    let q2 = !q_id && c.q == M::neg(&c.q);
    let both_z = c.lam != one && c.mu != one && !p_id && !q_id;
    o.class_if(p_id, "P=identity");
    o.class_if(q_id, "Q=identity");
    o.class_if(same && !p_id, "P=Q");
    o.class_if(opp && !same, "P=-Q");
    o.class_if(p2 || q2, "2-torsion operand");
    o.class_if(both_z, "Z!=1 on both sides");
    o.class_if(c.lam == one && c.mu == one, "Z=1 on both sides");
    if M::NAME == "sw" {
        o.class_if((p_id && c.jp != (one, one)) || (q_id && c.jq != (one, one)), "identity with non-canonical coordinates");
    }
    o.nt(p_id || q_id || same || opp || p2 || q2 || both_z);
    Ok(())
}

fn chk<M: Model>(g: M::Proj, want: &M::O, sig: &str, c: &Case<M>) -> Result<M::Proj, Fail> {
    if M::is(&g, want) {
        Ok(g)
    } else {
        Err(Fail {
            sig: sig.to_string(),
            msg: format!(
                "{}: got raw {:?}, expected the point {:?}; P={:?} (rescaled by {:?}) Q={:?} (rescaled by {:?})",
                sig, g, want, c.p, c.lam, c.q, c.mu
            ),
        })
    }
}

fn chk_aff<M: Model>(a: M::Aff, want: &M::O, sig: &str, c: &Case<M>) -> R {
    if M::of_aff(&a) == *want {
        Ok(())
    } else {
        Err(Fail {
            sig: sig.to_string(),
            msg: format!(
                "{}: got {:?}, expected the point {:?}; P={:?} (rescaled by {:?}) Q={:?} (rescaled by {:?})",
                sig, a, want, c.p, c.lam, c.q, c.mu
            ),
        })
    }
}

macro_rules! battery {
    ($name:ident, $cfg:ident, $m:ident, $proj:ident, $aff:ident) => {
        pub fn $name<P: $cfg>(c: &Case<$m<P>>, o: &mut Obs) -> R {
            type M<P> = $m<P>;
            let (p, q) = (c.p, c.q);
            let id = <M<P>>::id();
            ensure!(<M<P>>::on_curve(&p) && <M<P>>::on_curve(&q), "harness.operand-off-curve", "harness error: operand not on the curve: {:?} {:?}", p, q);
            let pp: $proj<P> = <M<P>>::lift(&p, &c.lam, &c.jp);
            let qp: $proj<P> = <M<P>>::lift(&q, &c.mu, &c.jq);
            let pa: $aff<P> = <M<P>>::aff(&p);
            let qa: $aff<P> = <M<P>>::aff(&q);
            let nq = <M<P>>::neg(&q);
            let np = <M<P>>::neg(&p);
            let sum = <M<P>>::add(&p, &q)?;
            let dif = <M<P>>::add(&p, &nq)?;
            let dbl = <M<P>>::add(&p, &p)?;
            ensure!(
                <M<P>>::on_curve(&sum) && <M<P>>::on_curve(&dif) && <M<P>>::on_curve(&dbl),
                "result.on_curve",
                "the expected result is not on the curve: P={:?} Q={:?} P+Q={:?} P-Q={:?} 2P={:?}",
                p, q, sum, dif, dbl
            );
            o.evals(60);
            // ---- the inputs themselves (lift sanity) and From<Affine>
            let _ = chk::<M<P>>(pp, &p, "harness.lift", c)?;
            let _ = chk::<M<P>>(qp, &q, "harness.lift", c)?;
            let _ = chk::<M<P>>(pa.into_group(), &p, "into_group", c)?;
            let _ = chk::<M<P>>($proj::<P>::from(qa), &q, "from_affine", c)?;
            // ---- addition: projective + projective
            let r = chk::<M<P>>(pp + qp, &sum, "add.proj_proj", c)?;
            let _ = chk::<M<P>>(pp + &qp, &sum, "add.proj_projref", c)?;
            let _ = chk::<M<P>>(&pp + &qp, &sum, "add.projref_projref", c)?;
            let _ = chk::<M<P>>(&pp + qp, &sum, "add.projref_proj", c)?;
            let mut x = pp;
            x += &qp;
            let _ = chk::<M<P>>(x, &sum, "add_assign.proj_projref", c)?;
            let mut x = pp;
            x += qp;
            let _ = chk::<M<P>>(x, &sum, "add_assign.proj_proj", c)?;
            // ---- mixed addition
            let _ = chk::<M<P>>(pp + qa, &sum, "add.proj_affine", c)?;
            let _ = chk::<M<P>>(pp + &qa, &sum, "add.proj_affineref", c)?;
            let mut x = pp;
            x += qa;
            let _ = chk::<M<P>>(x, &sum, "add_assign.proj_affine", c)?;
            let mut x = pp;
            x += &qa;
            let _ = chk::<M<P>>(x, &sum, "add_assign.proj_affineref", c)?;
            // ---- affine + affine, affine + projective
            let _ = chk::<M<P>>(pa + qa, &sum, "add.affine_affine", c)?;
            let _ = chk::<M<P>>(pa + &qa, &sum, "add.affine_affineref", c)?;
            let _ = chk::<M<P>>(pa + qp, &sum, "add.affine_proj", c)?;
            let _ = chk::<M<P>>(pa + &qp, &sum, "add.affine_projref", c)?;
            // ---- subtraction
            let _ = chk::<M<P>>(pp - qp, &dif, "sub.proj_proj", c)?;
            let _ = chk::<M<P>>(pp - &qp, &dif, "sub.proj_projref", c)?;
            let _ = chk::<M<P>>(&pp - &qp, &dif, "sub.projref_projref", c)?;
            let _ = chk::<M<P>>(&pp - qp, &dif, "sub.projref_proj", c)?;
            let mut x = pp;
            x -= &qp;
            let _ = chk::<M<P>>(x, &dif, "sub_assign.proj_projref", c)?;
            let mut x = pp;
            x -= qp;
            let _ = chk::<M<P>>(x, &dif, "sub_assign.proj_proj", c)?;
            let _ = chk::<M<P>>(pp - qa, &dif, "sub.proj_affine", c)?;
            let _ = chk::<M<P>>(pp - &qa, &dif, "sub.proj_affineref", c)?;
            let mut x = pp;
            x -= qa;
            let _ = chk::<M<P>>(x, &dif, "sub_assign.proj_affine", c)?;
            let mut x = pp;
            x -= &qa;
            let _ = chk::<M<P>>(x, &dif, "sub_assign.proj_affineref", c)?;
            let _ = chk::<M<P>>(pa - qa, &dif, "sub.affine_affine", c)?;
            let _ = chk::<M<P>>(pa - &qa, &dif, "sub.affine_affineref", c)?;
            let _ = chk::<M<P>>(pa - qp, &dif, "sub.affine_proj", c)?;
            let _ = chk::<M<P>>(pa - &qp, &dif, "sub.affine_projref", c)?;
            // ---- doubling
            let d = chk::<M<P>>(pp.double(), &dbl, "double", c)?;
            let mut x = pp;
            x.double_in_place();
            let _ = chk::<M<P>>(x, &dbl, "double_in_place", c)?;
            // the second operand through the doubling formula as well
            let dq = <M<P>>::add(&q, &q)?;
            let _ = chk::<M<P>>(qp.double(), &dq, "double", c)?;
            // ---- negation
            let _ = chk::<M<P>>(-pp, &np, "neg.proj", c)?;
            let mut x = qp;
            x.neg_in_place();
            let _ = chk::<M<P>>(x, &nq, "neg_in_place.proj", c)?;
            let na = -pa;
            ensure!(<M<P>>::of_aff(&na) == np, "neg.affine", "neg.affine: -{:?} = {:?}, expected {:?}", pa, na, np);
            // a negated point is a first-class operand
            let _ = chk::<M<P>>((-qp) + pp, &dif, "add.neg_proj", c)?;
            let _ = chk::<M<P>>(pp + (-qa), &dif, "add.neg_affine", c)?;
            // ---- sums over short lists
            {
                let items = [p, q, np, sum, id];
                let len = (c.sel % 5) as usize;
                let mut ps: Vec<$proj<P>> = Vec::new();
                let mut afs: Vec<$aff<P>> = Vec::new();
                let mut want = id;
                for i in 0..len {
                    let k = ((c.sel >> (3 + 3 * i)) % 5) as usize;
                    let it = items[k];
                    want = <M<P>>::add(&want, &it)?;
                    ps.push(<M<P>>::lift(&it, if i % 2 == 0 { &c.mu } else { &c.lam }, &c.jq));
                    afs.push(<M<P>>::aff(&it));
                }
                let _ = chk::<M<P>>(ps.iter().sum::<$proj<P>>(), &want, "sum.projref", c)?;
                let _ = chk::<M<P>>(ps.iter().copied().sum::<$proj<P>>(), &want, "sum.proj", c)?;
                let _ = chk::<M<P>>(afs.iter().sum::<$proj<P>>(), &want, "sum.affineref", c)?;
                let _ = chk::<M<P>>(afs.iter().copied().sum::<$proj<P>>(), &want, "sum.affine", c)?;
            }
            // ---- conversions to affine
            chk_aff::<M<P>>(pp.into_affine(), &p, "into_affine", c)?;
            chk_aff::<M<P>>(qp.into_affine(), &q, "into_affine", c)?;
            chk_aff::<M<P>>($aff::<P>::from(pp), &p, "affine_from_proj", c)?;
            chk_aff::<M<P>>(r.into_affine(), &sum, "into_affine.result", c)?;
            chk_aff::<M<P>>(d.into_affine(), &dbl, "into_affine.result", c)?;
            chk_aff::<M<P>>(pa.into_group().into_affine(), &p, "into_affine.z_one", c)?;
            // ---- batch normalisation: vectors mixing Z=1, Z!=1, identities in several forms
            {
                let cand: [($proj<P>, <M<P> as Model>::O); 8] = [
                    (pp, p),
                    (qp, q),
                    (r, sum),
                    (pa.into_group(), p),
                    ($proj::<P>::zero(), id),
                    (<M<P>>::lift(&id, &c.nu, &c.jp), id),
                    (d, dbl),
                    (pp - qp, dif),
                ];
                let n = ((c.sel >> 20) % 9) as usize;
                let start = ((c.sel >> 24) % 8) as usize;
                let v: Vec<$proj<P>> = (0..n).map(|i| cand[(start + i) % 8].0).collect();
                let out = $proj::<P>::normalize_batch(&v);
                ensure_eq!(out.len(), n, "normalize_batch.len");
                for i in 0..n {
                    let w = cand[(start + i) % 8].1;
                    ensure!(
                        <M<P>>::of_aff(&out[i]) == w,
                        "normalize_batch",
                        "normalize_batch: entry {} of {} is {:?}, expected {:?} (input {:?})",
                        i, n, out[i], w, v[i]
                    );
                }
            }
            // ---- projective equality does not depend on the representative
            {
                let same = p == q;
                ensure_eq!(pp == qp, same, "eq.proj", "Pp={:?} Qp={:?}", pp, qp);
                ensure_eq!(qp == pp, same, "eq.proj", "Pp={:?} Qp={:?}", pp, qp);
                let p2: $proj<P> = <M<P>>::lift(&p, &c.nu, &c.jq);
                ensure!(pp == p2 && p2 == pp, "eq.rescaled", "two representatives of {:?} compare different: {:?} vs {:?}", p, pp, p2);
                ensure_eq!(pp == qa, same, "eq.proj_affine", "Pp={:?} Qa={:?}", pp, qa);
                ensure_eq!(pa == qp, same, "eq.affine_proj", "Pa={:?} Qp={:?}", pa, qp);
                let s2: $proj<P> = <M<P>>::lift(&sum, &c.nu, &c.jp);
                ensure!(r == s2 && s2 == r, "eq.result", "P+Q = {:?} does not compare equal to the representative {:?} of {:?}", r, s2, sum);
                ensure_eq!(r == pp, sum == p, "eq.result_vs_operand", "r={:?} Pp={:?}", r, pp);
                ensure_eq!(pp.is_zero(), p == id, "is_zero.proj", "Pp={:?}", pp);
                ensure_eq!(r.is_zero(), sum == id, "is_zero.result", "r={:?}", r);
                ensure_eq!(pa.is_zero(), p == id, "is_zero.affine", "Pa={:?}", pa);
            }
            // ---- coordinate accessors of the affine form
            {
                let want = <M<P>>::coords(&p);
                ensure_eq!(pa.xy(), want, "xy", "Pa={:?}", pa);
                ensure_eq!(pa.x(), want.map(|c| c.0), "x", "Pa={:?}", pa);
                ensure_eq!(pa.y(), want.map(|c| c.1), "y", "Pa={:?}", pa);
                let ra: $aff<P> = r.into_affine();
                ensure_eq!(ra.xy(), <M<P>>::coords(&sum), "xy.result", "P+Q={:?}", ra);
            }
            // ---- `is_on_curve` agrees with the curve equation as the oracle evaluates it: operands, results, and
            //      arbitrary coordinate pairs (mostly off the curve; on toy fields a fair share is on it)
            {
                ensure!(pa.is_on_curve() && qa.is_on_curve(), "is_on_curve.operand", "is_on_curve() is false for an operand: {:?} {:?}", pa, qa);
                let ra: $aff<P> = r.into_affine();
                let da: $aff<P> = d.into_affine();
                ensure!(ra.is_on_curve() && da.is_on_curve(), "is_on_curve.result", "is_on_curve() is false for a result: P+Q={:?} 2P={:?}", ra, da);
                let mut probes = vec![(c.jp.0, c.jp.1), (c.jq.1, c.jq.0), (c.nu, c.mu)];
                if let (Some((px, py)), Some((qx, qy))) = (<M<P>>::coords(&p), <M<P>>::coords(&q)) {
                    probes.push((px, qy));
                    probes.push((qx, py));
                    probes.push((px, py + c.lam));
                    probes.push((py, px));
                }
                for (x, y) in probes {
                    let (a, w) = <M<P>>::raw(x, y);
                    let expect = <M<P>>::on_curve(&w);
                    o.class_if(expect, "is_on_curve probe on the curve");
                    o.class_if(!expect, "is_on_curve probe off the curve");
                    ensure_eq!(a.is_on_curve(), expect, "is_on_curve.probe", "({:?}, {:?})", x, y);
                }
            }
            // ---- every spelling of the identity is the identity, as a value and as an operand
            {
                let zs: [(&str, $proj<P>); 3] = [
                    ("Projective::ZERO", <$proj<P> as AdditiveGroup>::ZERO),
                    ("Projective::zero()", $proj::<P>::zero()),
                    ("Projective::default()", $proj::<P>::default()),
                ];
                // one spelling per case (the selector word rotates through them)
                for (nm, z) in zs.iter().skip(((c.sel >> 36) % 3) as usize).take(1) {
                    ensure!(z.is_zero(), "identity.is_zero", "{} is not is_zero(): {:?}", nm, z);
                    let _ = chk::<M<P>>(*z, &id, "identity.value", c)?;
                    let _ = chk::<M<P>>(pp + z, &p, "identity.add_right", c)?;
                    let _ = chk::<M<P>>(*z + qp, &q, "identity.add_left", c)?;
                    let _ = chk::<M<P>>(*z + qa, &q, "identity.add_left_affine", c)?;
                    let _ = chk::<M<P>>(*z - qp, &nq, "identity.sub_left", c)?;
                    let _ = chk::<M<P>>(*z - qa, &nq, "identity.sub_left_affine", c)?;
                    let _ = chk::<M<P>>(pp - z, &p, "identity.sub_right", c)?;
                    let _ = chk::<M<P>>(z.double(), &id, "identity.double", c)?;
                    ensure!(*z == $proj::<P>::zero() && (*z == pp) == (p == id), "identity.eq", "{} compares wrongly with P={:?}", nm, pp);
                    chk_aff::<M<P>>(z.into_affine(), &id, "identity.into_affine", c)?;
                }
                for (nm, za) in <M<P>>::aff_identities().into_iter().skip(((c.sel >> 38) % 3) as usize).take(1) {
                    ensure!(za.is_zero() && <M<P>>::of_aff(&za) == id, "identity.affine", "{} is not the identity: {:?}", nm, za);
                    let _ = chk::<M<P>>(za.into_group(), &id, "identity.affine.into_group", c)?;
                    let _ = chk::<M<P>>(pp + za, &p, "identity.affine.add_right", c)?;
                    let _ = chk::<M<P>>(pp - za, &p, "identity.affine.sub_right", c)?;
                    let _ = chk::<M<P>>(za + qp, &q, "identity.affine.add_left", c)?;
                    let _ = chk::<M<P>>(za + qa, &q, "identity.affine.add_left_affine", c)?;
                    let _ = chk::<M<P>>(za - qa, &nq, "identity.affine.sub_left_affine", c)?;
                    ensure!((za == pa) == (p == id) && (pp == za) == (p == id), "identity.affine.eq", "{} compares wrongly with P={:?}", nm, pa);
                }
                o.evals(17);
            }
            // ---- the declared generator through both accessors
            {
                let g = <M<P>>::gen();
                ensure!(<M<P>>::on_curve(&g) && g != id, "generator.on_curve", "the declared generator is not a finite point of the curve: {:?}", g);
                let _ = chk::<M<P>>(<$proj<P> as PrimeGroup>::generator(), &g, "generator.projective", c)?;
                chk_aff::<M<P>>(<$aff<P> as AffineRepr>::generator(), &g, "generator.affine", c)?;
            }
            // ---- batched conversion under its `ScalarMul` name (what fixed-base tables and MSM callers use)
            {
                let cand: [($proj<P>, <M<P> as Model>::O); 6] = [(qp, q), (pp, p), (<M<P>>::lift(&id, &c.mu, &c.jq), id), (r, sum), (qa.into_group(), q), (d, dbl)];
                let n = ((c.sel >> 28) % 7) as usize;
                let start = ((c.sel >> 32) % 6) as usize;
                let v: Vec<$proj<P>> = (0..n).map(|i| cand[(start + i) % 6].0).collect();
                let out = <$proj<P> as ScalarMul>::batch_convert_to_mul_base(&v);
                ensure_eq!(out.len(), n, "batch_convert_to_mul_base.len");
                for i in 0..n {
                    let w = cand[(start + i) % 6].1;
                    ensure!(<M<P>>::of_aff(&out[i]) == w, "batch_convert_to_mul_base", "entry {} of {} is {:?}, expected {:?} (input {:?})", i, n, out[i], w, v[i]);
                }
            }
            // ---- checked constructors accept (and return) members of the prime-order subgroup
            if c.try_new {
                o.class("checked constructors on a subgroup member");
                let (np_, na_) = no_panic("new", || <M<P>>::checked_new(&pp, <M<P>>::coords(&p)))?;
                let _ = chk::<M<P>>(np_, &p, "new.projective", c)?;
                if let Some(a) = na_ {
                    chk_aff::<M<P>>(a, &p, "new.affine", c)?;
                }
            }
            Ok(())
        }
    };
}

battery!(sw_battery, SWCurveConfig, SwM, SwProj, SwAffine);
battery!(te_battery, TECurveConfig, TeM, TeProj, TeAffine);
