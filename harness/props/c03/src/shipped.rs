//! Shipped curves: generated operand pairs with known relations, through the whole battery.
use crate::battery::*;
use ark_ec::hashing::curve_maps::wb::WBConfig;
use ark_ec::models::short_weierstrass::{Affine as SwAffine, SWCurveConfig};
use ark_ec::models::twisted_edwards::{Affine as TeAffine, TECurveConfig};
use ark_ec::{AffineRepr, CurveGroup};
use ark_ff::{Field, One, PrimeField, Zero};
use num_bigint::BigUint;
use std::sync::{Arc, OnceLock};
use vh_core::curve::*;
use vh_core::engine::{Obs, Rel, Tape, Tier, R};
use vh_core::modint::{big, to_limbs};

/// words needed to decode one base-field element
fn felt_words<F: Field>() -> usize {
    let nb = (F::BasePrimeField::MODULUS_BIT_SIZE as usize + 7) / 8 + 8;
    2 + F::extension_degree() as usize * ((nb + 7) / 8)
}

/// case budget by the cost of a base-field multiplication (total bits of the base field)
fn budget<F: Field>(tier: Tier) -> u32 {
    let bits = F::BasePrimeField::MODULUS_BIT_SIZE as u64 * F::extension_degree();
    if bits < 400 {
        tier.pick(1200, 20000)
    } else if bits < 1000 {
        tier.pick(500, 8000)
    } else {
        tier.pick(250, 4000)
    }
}

/// base-field element from the tape: small integer (word 0 => 0) or uniform
fn felt<F: Field>(t: &mut Tape<'_>) -> F {
    if t.weighted(&[1, 3]) == 0 {
        return F::from(t.below(1 << 16));
    }
    let nb = (F::BasePrimeField::MODULUS_BIT_SIZE as usize + 7) / 8 + 8;
    let d = F::extension_degree() as usize;
    let coeffs: Vec<F::BasePrimeField> = (0..d).map(|_| F::BasePrimeField::from_le_bytes_mod_order(&t.bytes(nb))).collect();
    F::from_base_prime_field_elems(coeffs).expect("extension degree")
}

/// rescaling factor: 1, 2, small, uniform (never 0)
fn lambda<F: Field>(t: &mut Tape<'_>) -> F {
    let l = match t.weighted(&[2, 1, 1, 4]) {
        0 => F::one(),
        1 => F::from(2u64),
        2 => F::from(1 + t.below(1 << 16)),
        _ => felt::<F>(t),
    };
    if l.is_zero() {
        F::one()
    } else {
        l
    }
}

fn junk<F: Field>(t: &mut Tape<'_>) -> (F, F) {
    match t.weighted(&[1, 1, 2]) {
        0 => (F::one(), F::one()),
        1 => (F::zero(), F::zero()),
        _ => (felt::<F>(t), felt::<F>(t)),
    }
}

// ------------------------------------------------------------------------------------------
// short Weierstrass
// ------------------------------------------------------------------------------------------

struct SwCtx<P: SWCurveConfig> {
    g: Sw<P::BaseField>,
    /// a point of order two, when the cofactor is even and one was found
    t2: Option<Sw<P::BaseField>>,
    cofactor_gt1: bool,
}

fn sw_from_x<P: SWCurveConfig>(x0: P::BaseField, greatest: bool) -> Option<Sw<P::BaseField>> {
    let mut x = x0;
    for _ in 0..128 {
        if let Some(a) = SwAffine::<P>::get_point_from_x_unchecked(x, greatest) {
            let pt = sw_from_affine::<P>(&a);
            // only points that satisfy the curve equation as evaluated here are used
            if sw_on_curve(&P::COEFF_A, &P::COEFF_B, &pt) {
                return Some(pt);
            }
        }
        x += P::BaseField::one();
    }
    None
}

fn sw_ctx<P: SWCurveConfig>(name: &str) -> SwCtx<P> {
    let g = sw_from_affine::<P>(&P::GENERATOR);
    assert!(sw_on_curve(&P::COEFF_A, &P::COEFF_B, &g) && g != Sw::Inf, "{}: generator is not on the curve", name);
    let h = big(P::COFACTOR);
    let cofactor_gt1 = h > BigUint::one();
    let mut t2 = None;
    if !h.bit(0) && !h.is_zero() {
        // candidate: S = (r*h_odd)*R computed by arkworks lies in the 2-Sylow subgroup; double it with the oracle until the
        // next doubling would give the identity. Accepted only if it is visibly a 2-torsion point (y = 0, on the curve).
        let r = big(P::ScalarField::MODULUS.as_ref());
        let a2 = h.trailing_zeros().unwrap_or(0);
        let e = &r * (&h >> a2);
        let limbs = to_limbs(&e, (e.bits() as usize + 63) / 64);
        'search: for i in 0..24u64 {
            if let Some(pt) = sw_from_x::<P>(P::BaseField::from(i * 131), false) {
                let cand = sw_to_affine::<P>(&pt).mul_bigint(&limbs).into_affine();
                let mut c = sw_from_affine::<P>(&cand);
                if c == Sw::Inf || !sw_on_curve(&P::COEFF_A, &P::COEFF_B, &c) {
                    continue;
                }
                for _ in 0..=a2 {
                    let d = sw_add(&P::COEFF_A, &c, &c);
                    if d == Sw::Inf {
                        if let Sw::Aff(_, y) = c {
                            if y.is_zero() {
                                t2 = Some(c);
                                break 'search;
                            }
                        }
                        break;
                    }
                    c = d;
                }
            }
        }
    }
    SwCtx { g, t2, cofactor_gt1 }
}

/// a point and whether it is known, by construction, to lie in the prime-order subgroup (a multiple of G)
fn sw_point<P: SWCurveConfig>(cx: &SwCtx<P>, t: &mut Tape<'_>, o: &mut Obs) -> (Sw<P::BaseField>, bool) {
    let a = P::COEFF_A;
    let pt = match t.weighted(&[2, 2, 3, 3, 5, 1]) {
        0 => return (cx.g, true),
        1 => return (Sw::Inf, true),
        2 => return (sw_mul(&a, &cx.g, &BigUint::from(1 + t.below(16))), true),
        3 => {
            o.class("k*G with 64-bit k");
            return (sw_mul(&a, &cx.g, &BigUint::from(t.u64())), true);
        },
        4 => {
            let x = felt::<P::BaseField>(t);
            let gr = t.bool();
            match sw_from_x::<P>(x, gr) {
                Some(p) => {
                    o.class("point from x");
                    o.class_if(cx.cofactor_gt1, "point from x on a curve with cofactor > 1 (outside the subgroup)");
                    p
                },
                None => cx.g,
            }
        },
        _ => match cx.t2 {
            Some(p) => {
                o.class("shipped 2-torsion point");
                p
            },
            None => cx.g,
        },
    };
    (pt, pt == cx.g || !cx.cofactor_gt1)
}

fn sw_shipped<P: SWCurveConfig>(name: &'static str, cx: &SwCtx<P>, t: &mut Tape<'_>, o: &mut Obs) -> R {
    let a = P::COEFF_A;
    let (p, psub) = sw_point(cx, t, o);
    let (q, qsub) = match t.weighted(&[5, 2, 2, 1, 1, 1]) {
        0 => sw_point(cx, t, o),
        1 => (p, psub),
        2 => (sw_neg(&p), psub),
        3 => (sw_add(&a, &p, &p), psub),
        4 => (Sw::Inf, true),
        _ => match cx.t2 {
            Some(t2) => (sw_add(&a, &p, &t2), false),
            None => (sw_neg(&sw_add(&a, &p, &p)), psub),
        },
    };
    let (p, q, psub) = if t.chance(1, 4) { (q, p, qsub) } else { (p, q, psub) };
    let c = Case::<SwM<P>> {
        p,
        q,
        lam: lambda(t),
        mu: lambda(t),
        nu: lambda(t),
        jp: junk(t),
        jq: junk(t),
        sel: t.u64(),
        try_new: false,
    };
    // the checked constructors cost a multiplication by r: one case in four on the large curves
    let c = Case { try_new: psub && (c.sel >> 40) & 3 == 0, ..c };
    o.show(|| format!("{}: P={:?} Q={:?} lambda={:?} mu={:?} nu={:?} identity-coords {:?} {:?} sel={:#x}", name, c.p, c.q, c.lam, c.mu, c.nu, c.jp, c.jq, c.sel));
    classify(&c, o)?;
    sw_battery::<P>(&c, o)
}

fn add_sw<P: SWCurveConfig>(out: &mut Vec<Rel>, name: &'static str, tier: Tier) {
    let cell: Arc<OnceLock<SwCtx<P>>> = Arc::new(OnceLock::new());
    let w = felt_words::<P::BaseField>();
    let cases = budget::<P::BaseField>(tier);
    out.push(
        Rel::new(format!("shipped-sw/{}", name), cases, 24 + 10 * w, move |t, o| {
            let cx = cell.get_or_init(|| sw_ctx::<P>(name));
            sw_shipped::<P>(name, cx, t, o)
        })
        .shrink_iters(600),
    );
}

// ------------------------------------------------------------------------------------------
// twisted Edwards
// ------------------------------------------------------------------------------------------

struct TeCtx<P: TECurveConfig> {
    g: Te<P::BaseField>,
    /// a square and d non-square: the law is complete, the whole curve is the domain
    complete: bool,
    /// points of order 2 and 4 with rational coordinates (complete curves only)
    small: Vec<Te<P::BaseField>>,
}

fn te_ctx<P: TECurveConfig>(name: &str) -> TeCtx<P> {
    let (a, d) = (P::COEFF_A, P::COEFF_D);
    let g = te_from_affine::<P>(&P::GENERATOR);
    assert!(te_on_curve(&a, &d, &g) && g != te_identity(), "{}: generator is not on the curve", name);
    let complete = !a.is_zero() && a.legendre().is_qr() && d.legendre().is_qnr();
    let mut small = Vec::new();
    if complete {
        let m1 = Te(P::BaseField::zero(), -P::BaseField::one());
        if te_on_curve(&a, &d, &m1) {
            small.push(m1);
        }
        // a x^2 = 1, y = 0: points of order four
        if let Some(s) = a.sqrt() {
            if let Some(x) = s.inverse() {
                for c in [Te(x, P::BaseField::zero()), Te(-x, P::BaseField::zero())] {
                    if te_on_curve(&a, &d, &c) {
                        small.push(c);
                    }
                }
            }
        }
    }
    TeCtx { g, complete, small }
}

fn te_from_y<P: TECurveConfig>(y0: P::BaseField, greatest: bool) -> Option<Te<P::BaseField>> {
    let mut y = y0;
    for _ in 0..128 {
        if let Some(a) = TeAffine::<P>::get_point_from_y_unchecked(y, greatest) {
            let pt = te_from_affine::<P>(&a);
            if te_on_curve(&P::COEFF_A, &P::COEFF_D, &pt) {
                return Some(pt);
            }
        }
        y += P::BaseField::one();
    }
    None
}

/// a point and whether it is known, by construction, to be a multiple of the generator
fn te_point<P: TECurveConfig>(cx: &TeCtx<P>, t: &mut Tape<'_>, o: &mut Obs) -> (Te<P::BaseField>, bool) {
    let (a, d) = (P::COEFF_A, P::COEFF_D);
    let mul = |k: BigUint| te_mul(&a, &d, &cx.g, &k).expect("multiples of the generator are never exceptional");
    let w: [u32; 6] = if cx.complete { [2, 2, 3, 3, 5, 2] } else { [2, 2, 4, 4, 0, 0] };
    let pt = match t.weighted(&w) {
        0 => return (cx.g, true),
        1 => return (te_identity(), true),
        2 => return (mul(BigUint::from(1 + t.below(16))), true),
        3 => {
            o.class("k*G with 64-bit k");
            return (mul(BigUint::from(t.u64())), true);
        },
        4 => {
            let y = felt::<P::BaseField>(t);
            let gr = t.bool();
            match te_from_y::<P>(y, gr) {
                Some(p) => {
                    o.class("point from y (whole curve, complete law)");
                    p
                },
                None => cx.g,
            }
        },
        _ => {
            if cx.small.is_empty() {
                cx.g
            } else {
                o.class("point of order 2 or 4");
                cx.small[t.idx(cx.small.len())]
            }
        },
    };
    (pt, pt == cx.g)
}

fn te_shipped<P: TECurveConfig>(name: &'static str, cx: &TeCtx<P>, t: &mut Tape<'_>, o: &mut Obs) -> R {
    let (a, d) = (P::COEFF_A, P::COEFF_D);
    let (p, psub) = te_point(cx, t, o);
    let add = |x: &Te<P::BaseField>, y: &Te<P::BaseField>| te_add(&a, &d, x, y).expect("inside the stated domain the law has no exceptional pair");
    let (q, qsub) = match t.weighted(&[5, 2, 2, 1, 1, 1]) {
        0 => te_point(cx, t, o),
        1 => (p, psub),
        2 => (te_neg(&p), psub),
        3 => (add(&p, &p), psub),
        4 => (te_identity(), true),
        _ => {
            if cx.small.is_empty() {
                (te_neg(&add(&p, &p)), psub)
            } else {
                (add(&p, &cx.small[t.idx(cx.small.len())]), false)
            }
        },
    };
    let (p, q, psub) = if t.chance(1, 4) { (q, p, qsub) } else { (p, q, psub) };
    let c = Case::<TeM<P>> {
        p,
        q,
        lam: lambda(t),
        mu: lambda(t),
        nu: lambda(t),
        jp: (P::BaseField::one(), P::BaseField::one()),
        jq: (P::BaseField::one(), P::BaseField::one()),
        sel: t.u64(),
        try_new: false,
    };
    let c = Case { try_new: psub && (c.sel >> 40) & 3 == 0, ..c };
    o.show(|| format!("{} ({}): P={:?} Q={:?} lambda={:?} mu={:?} nu={:?} sel={:#x}", name, if cx.complete { "complete" } else { "subgroup only" }, c.p, c.q, c.lam, c.mu, c.nu, c.sel));
    o.class(if cx.complete { "te complete curve" } else { "te incomplete curve (subgroup)" });
    classify(&c, o)?;
    te_battery::<P>(&c, o)
}

fn add_te<P: TECurveConfig>(out: &mut Vec<Rel>, name: &'static str, tier: Tier) {
    let cell: Arc<OnceLock<TeCtx<P>>> = Arc::new(OnceLock::new());
    let w = felt_words::<P::BaseField>();
    let cases = budget::<P::BaseField>(tier);
    out.push(
        Rel::new(format!("shipped-te/{}", name), cases, 24 + 8 * w, move |t, o| {
            let cx = cell.get_or_init(|| te_ctx::<P>(name));
            te_shipped::<P>(name, cx, t, o)
        })
        .shrink_iters(600),
    );
}

type CfgOf<A> = <A as AffineRepr>::Config;
type Iso<C> = <C as WBConfig>::IsogenousCurve;

pub fn relations(out: &mut Vec<Rel>, tier: Tier) {
    macro_rules! sw {
        ($aff:ty, $name:expr) => {
            add_sw::<CfgOf<$aff>>(out, $name, tier);
        };
    }
    macro_rules! te {
        ($aff:ty, $name:expr) => {
            add_te::<CfgOf<$aff>>(out, $name, tier);
        };
    }
    // pairing-friendly curves, both source groups
    sw!(ark_bls12_377::G1Affine, "bls12_377.G1");
    sw!(ark_bls12_377::G2Affine, "bls12_377.G2");
    sw!(ark_bls12_381::G1Affine, "bls12_381.G1");
    sw!(ark_bls12_381::G2Affine, "bls12_381.G2");
    sw!(ark_bn254::G1Affine, "bn254.G1");
    sw!(ark_bn254::G2Affine, "bn254.G2");
    sw!(ark_bw6_761::G1Affine, "bw6_761.G1");
    sw!(ark_bw6_761::G2Affine, "bw6_761.G2");
    sw!(ark_bw6_767::G1Affine, "bw6_767.G1");
    sw!(ark_bw6_767::G2Affine, "bw6_767.G2");
    sw!(ark_cp6_782::G1Affine, "cp6_782.G1");
    sw!(ark_cp6_782::G2Affine, "cp6_782.G2");
    sw!(ark_mnt4_298::G1Affine, "mnt4_298.G1");
    sw!(ark_mnt4_298::G2Affine, "mnt4_298.G2");
    sw!(ark_mnt4_753::G1Affine, "mnt4_753.G1");
    sw!(ark_mnt4_753::G2Affine, "mnt4_753.G2");
    sw!(ark_mnt6_298::G1Affine, "mnt6_298.G1");
    sw!(ark_mnt6_298::G2Affine, "mnt6_298.G2");
    sw!(ark_mnt6_753::G1Affine, "mnt6_753.G1");
    sw!(ark_mnt6_753::G2Affine, "mnt6_753.G2");
    // SWU-isogenous curves (a != 0 over 377/381-bit fields and their quadratic extensions)
    add_sw::<Iso<CfgOf<ark_bls12_377::G1Affine>>>(out, "bls12_377.G1.swu_iso", tier);
    add_sw::<Iso<CfgOf<ark_bls12_377::G2Affine>>>(out, "bls12_377.G2.swu_iso", tier);
    add_sw::<Iso<CfgOf<ark_bls12_381::G1Affine>>>(out, "bls12_381.G1.swu_iso", tier);
    add_sw::<Iso<CfgOf<ark_bls12_381::G2Affine>>>(out, "bls12_381.G2.swu_iso", tier);
    // plain curves
    sw!(ark_secp256k1::Affine, "secp256k1");
    sw!(ark_secp256r1::Affine, "secp256r1");
    sw!(ark_secp384r1::Affine, "secp384r1");
    sw!(ark_secq256k1::Affine, "secq256k1");
    sw!(ark_pallas::Affine, "pallas");
    sw!(ark_vesta::Affine, "vesta");
    sw!(ark_grumpkin::Affine, "grumpkin");
    sw!(ark_ed_on_bls12_381::SWAffine, "ed_on_bls12_381.sw");
    sw!(ark_ed_on_bls12_381_bandersnatch::SWAffine, "bandersnatch.sw");
    // test-curves
    sw!(ark_test_curves::bls12_381::G1Affine, "test.bls12_381.G1");
    sw!(ark_test_curves::bls12_381::G2Affine, "test.bls12_381.G2");
    add_sw::<ark_test_curves::bls12_381::g1_swu_iso::SwuIsoConfig>(out, "test.bls12_381.G1.swu_iso", tier);
    add_sw::<ark_test_curves::bls12_381::g2_swu_iso::SwuIsoConfig>(out, "test.bls12_381.G2.swu_iso", tier);
    sw!(ark_test_curves::bn384_small_two_adicity::G1Affine, "test.bn384.G1");
    sw!(ark_test_curves::mnt4_753::G1Affine, "test.mnt4_753.G1");
    sw!(ark_test_curves::secp256k1::G1Affine, "test.secp256k1");

    // twisted Edwards
    te!(ark_bls12_377::G1TEAffine, "bls12_377.G1.te");
    te!(ark_curve25519::EdwardsAffine, "curve25519");
    te!(ark_ed25519::EdwardsAffine, "ed25519");
    te!(ark_ed_on_bls12_377::EdwardsAffine, "ed_on_bls12_377");
    te!(ark_ed_on_bls12_381::EdwardsAffine, "ed_on_bls12_381");
    te!(ark_ed_on_bls12_381_bandersnatch::EdwardsAffine, "bandersnatch.te");
    te!(ark_ed_on_bn254::EdwardsAffine, "ed_on_bn254");
    te!(ark_ed_on_cp6_782::EdwardsAffine, "ed_on_cp6_782");
    te!(ark_ed_on_mnt4_298::EdwardsAffine, "ed_on_mnt4_298");
    te!(ark_ed_on_mnt4_753::EdwardsAffine, "ed_on_mnt4_753");
    te!(ark_test_curves::ed_on_bls12_381::Affine, "test.ed_on_bls12_381");
}
