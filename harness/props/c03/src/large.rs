//! Long vectors through the batched conversions (`normalize_batch`, `ScalarMul::batch_convert_to_mul_base`) and the
//! `Sum` impls. The battery only builds vectors of up to 8 elements; the batched conversion shares one inversion among
//! all entries (skipping the identities), so a slip that depends on the vector length, on where the identities sit or
//! on a block boundary is invisible there. Here a vector of up to a few thousand representatives of *known* points
//! (pool point index -> oracle point, rescaled by a known factor) is converted; the oracle is the known affine point of
//! every entry (exact comparison of coordinates), and for `Sum` the fold of the textbook affine law over the same list.
use crate::battery::*;
use ark_ec::models::short_weierstrass::{Projective as SwProj, SWCurveConfig};
use ark_ec::models::twisted_edwards::{Projective as TeProj, TECurveConfig};
use ark_ec::{CurveGroup, ScalarMul};
use ark_ff::{Field, One, Zero};
use std::sync::{Arc, OnceLock};
use vh_core::curve::*;
use vh_core::engine::{Fail, Obs, Rel, Tape, Tier, R};
use vh_core::{ensure, ensure_eq};

fn splitmix(x: u64) -> u64 {
    let mut z = x.wrapping_add(0x9e3779b97f4a7c15);
    z = (z ^ (z >> 30)).wrapping_mul(0xbf58476d1ce4e5b9);
    z = (z ^ (z >> 27)).wrapping_mul(0x94d049bb133111eb);
    z ^ (z >> 31)
}

/// vector length: 0, 1, short, around every power of two up to the bound, around the 1024 mark, uniform
fn gen_len(t: &mut Tape<'_>, max_len: u64) -> usize {
    let n = match t.weighted(&[1, 1, 3, 3, 4, 3]) {
        0 => 0,
        1 => 1,
        2 => t.range(2, 40),
        3 => {
            let kmax = 63 - max_len.leading_zeros() as u64;
            let k = t.range(6, kmax.max(6));
            (1u64 << k) - 1 + t.below(3)
        },
        4 => t.range(1000, 1100),
        _ => t.range(41, max_len.max(41)),
    };
    n.min(max_len) as usize
}

macro_rules! large {
    ($name:ident, $cfg:ident, $m:ident, $proj:ident) => {
        pub fn $name<P: $cfg>(name: &'static str, pts: &[<$m<P> as Model>::O], max_len: u64, t: &mut Tape<'_>, o: &mut Obs) -> R {
            type M<P> = $m<P>;
            type F<P> = <$m<P> as Model>::F;
            let id = <M<P>>::id();
            let n = gen_len(t, max_len);
            // 0 mixed (identities as often as the pool has them), 1 every third entry the identity, 2 only identities, 3 none
            let mode = t.weighted(&[4, 2, 1, 1]);
            // 0 mixed Z, 1 every Z = 1, 2 every Z != 1
            let zmode = t.weighted(&[3, 1, 1]);
            let seed = t.u64();
            let non_id: Vec<usize> = (0..pts.len()).filter(|i| pts[*i] != id).collect();
            ensure!(!non_id.is_empty(), "harness.pool", "harness error: pool without a finite point");
            let one = F::<P>::one();
            let mut v: Vec<$proj<P>> = Vec::with_capacity(n);
            let mut want: Vec<<M<P> as Model>::O> = Vec::with_capacity(n);
            let (mut n_id, mut n_z1) = (0usize, 0usize);
            for i in 0..n {
                let w = splitmix(seed ^ (i as u64).wrapping_mul(0x9e3779b97f4a7c15));
                let mut pt = pts[(w % pts.len() as u64) as usize];
                match mode {
                    1 => {
                        if (w >> 32) % 3 == 0 {
                            pt = id;
                        }
                    },
                    2 => pt = id,
                    3 => {
                        if pt == id {
                            pt = pts[non_id[((w >> 32) % non_id.len() as u64) as usize]];
                        }
                    },
                    _ => {},
                }
                // rescaling factor: a coordinate of some pool point (reaches the whole field on extension fields) times a
                // small integer; 1 when that vanishes
                let base = <M<P>>::coords(&pts[non_id[((w >> 8) % non_id.len() as u64) as usize]]).map(|c| c.0).unwrap_or(one);
                let mut lam = match zmode {
                    1 => one,
                    2 => base * F::<P>::from(2 + (w >> 40) % 65519),
                    _ => {
                        if (w >> 20) & 3 == 0 {
                            one
                        } else {
                            base * F::<P>::from(1 + (w >> 40) % 65521)
                        }
                    },
                };
                if lam.is_zero() {
                    lam = if zmode == 2 { F::<P>::from(2u64) } else { one };
                    if lam.is_zero() {
                        lam = one;
                    }
                }
                let junk = match (w >> 24) % 3 {
                    0 => (one, one),
                    1 => (F::<P>::zero(), F::<P>::zero()),
                    _ => (F::<P>::from(w >> 44), base),
                };
                n_id += (pt == id) as usize;
                n_z1 += (lam == one) as usize;
                v.push(<M<P>>::lift(&pt, &lam, &junk));
                want.push(pt);
            }
            o.show(|| format!("{}: vector of {} representatives (mode {}, z-mode {}, {} identities, {} with Z=1), seed {:#x}", name, n, mode, zmode, n_id, n_z1, seed));
            o.nt(n >= 2 && n_id > 0 && n_id < n && n_z1 < n);
            o.class_if(n > 1024, "large: more than 1024 entries");
            o.class_if(n > 1024 && n % 1024 != 0, "large: more than 1024 entries, not a multiple of 1024");
            o.class_if(n >= 256 && n <= 1024, "large: 256..1024 entries");
            o.class_if(n > 0 && n_id == n, "large: only identities");
            o.class_if(n_id > 0 && n_id < n, "large: identities among finite points");
            o.class_if(n > 0 && n_id == 0, "large: no identity");
            o.class_if(n > 0 && want[0] == id, "large: first entry is the identity");
            o.class_if(n > 0 && want[n - 1] == id, "large: last entry is the identity");
            o.evals(2 * n as u64 + 2);
            // ---- batched conversions: entry i is the affine form of the known point i
            let out = $proj::<P>::normalize_batch(&v);
            ensure_eq!(out.len(), n, "large.normalize_batch.len");
            for i in 0..n {
                ensure!(
                    <M<P>>::of_aff(&out[i]) == want[i],
                    "large.normalize_batch",
                    "normalize_batch of {} entries: entry {} is {:?}, expected {:?} (input {:?})",
                    n, i, out[i], want[i], v[i]
                );
            }
            let out2 = <$proj<P> as ScalarMul>::batch_convert_to_mul_base(&v);
            ensure_eq!(out2.len(), n, "large.batch_convert_to_mul_base.len");
            for i in 0..n {
                ensure!(
                    <M<P>>::of_aff(&out2[i]) == want[i],
                    "large.batch_convert_to_mul_base",
                    "batch_convert_to_mul_base of {} entries: entry {} is {:?}, expected {:?}",
                    n, i, out2[i], want[i]
                );
            }
            // ---- Sum over the projective and over the normalised list against the fold of the affine law
            let mut total = id;
            for w in want.iter() {
                total = <M<P>>::add(&total, w)?;
            }
            let s1: $proj<P> = if seed & 1 == 0 { v.iter().sum() } else { v.iter().copied().sum() };
            let s2: $proj<P> = if seed & 2 == 0 { out.iter().sum() } else { out.iter().copied().sum() };
            for (s, sig) in [(s1, "large.sum.projective"), (s2, "large.sum.affine")] {
                if !<M<P>>::is(&s, &total) {
                    return Err(Fail { sig: sig.to_string(), msg: format!("{}: sum of {} entries is {:?}, expected the point {:?}", sig, n, s, total) });
                }
            }
            Ok(())
        }
    };
}

large!(sw_large, SWCurveConfig, SwM, SwProj);
large!(te_large, TECurveConfig, TeM, TeProj);

/// k*G for k in -m..=m by the oracle law (shipped curves: the pool is a set of known multiples of the generator)
fn sw_multiples<P: SWCurveConfig>(m: usize) -> Vec<Sw<P::BaseField>> {
    let g = sw_from_affine::<P>(&P::GENERATOR);
    assert!(sw_on_curve(&P::COEFF_A, &P::COEFF_B, &g));
    let mut out = vec![Sw::Inf];
    let mut cur = Sw::Inf;
    for _ in 0..m {
        cur = sw_add(&P::COEFF_A, &cur, &g);
        out.push(cur);
        out.push(sw_neg(&cur));
    }
    out
}

fn te_multiples<P: TECurveConfig>(m: usize) -> Vec<Te<P::BaseField>> {
    let g = te_from_affine::<P>(&P::GENERATOR);
    assert!(te_on_curve(&P::COEFF_A, &P::COEFF_D, &g));
    let mut out = vec![te_identity()];
    let mut cur = te_identity();
    for _ in 0..m {
        cur = te_add(&P::COEFF_A, &P::COEFF_D, &cur, &g).expect("multiples of the generator");
        out.push(cur);
        out.push(te_neg(&cur));
    }
    out
}

fn push_sw<P: SWCurveConfig>(out: &mut Vec<Rel>, name: &'static str, cases: u32, max_len: u64, pool: impl Fn() -> Vec<Sw<P::BaseField>> + Send + Sync + 'static) {
    let cell: Arc<OnceLock<Vec<Sw<P::BaseField>>>> = Arc::new(OnceLock::new());
    out.push(
        Rel::new(format!("large/{}", name), cases, 8, move |t, o| {
            let pts = cell.get_or_init(&pool);
            sw_large::<P>(name, pts, max_len, t, o)
        })
        .shrink_iters(60),
    );
}

fn push_te<P: TECurveConfig>(out: &mut Vec<Rel>, name: &'static str, cases: u32, max_len: u64, pool: impl Fn() -> Vec<Te<P::BaseField>> + Send + Sync + 'static) {
    let cell: Arc<OnceLock<Vec<Te<P::BaseField>>>> = Arc::new(OnceLock::new());
    out.push(
        Rel::new(format!("large/{}", name), cases, 8, move |t, o| {
            let pts = cell.get_or_init(&pool);
            te_large::<P>(name, pts, max_len, t, o)
        })
        .shrink_iters(60),
    );
}

fn te_toy_pool<P: TECurveConfig>(r: u64) -> Vec<Te<P::BaseField>>
where
    P::BaseField: ark_ff::PrimeField,
{
    let (a, d) = (P::COEFF_A, P::COEFF_D);
    let complete = !a.is_zero() && a.legendre().is_qr() && d.legendre().is_qnr();
    if complete {
        te_enumerate::<P::BaseField>(&a, &d)
    } else {
        te_subgroup(&a, &d, &te_from_affine::<P>(&P::GENERATOR), r)
    }
}

pub fn relations(out: &mut Vec<Rel>, tier: Tier) {
    use vh_core::{toy, toy_ext};
    let toy_cases = tier.pick(150, 1500);
    let toy_len = tier.pick(3000u64, 20000u64);
    push_sw::<toy::SwA0P1>(out, "toy.SwA0P1", toy_cases, toy_len, || sw_enumerate(&toy::SwA0P1::COEFF_A, &toy::SwA0P1::COEFF_B));
    push_sw::<toy::SwAxH4>(out, "toy.SwAxH4", toy_cases, toy_len, || sw_enumerate(&toy::SwAxH4::COEFF_A, &toy::SwAxH4::COEFF_B));
    push_sw::<toy::SwB0>(out, "toy.SwB0", toy_cases, toy_len, || sw_enumerate(&toy::SwB0::COEFF_A, &toy::SwB0::COEFF_B));
    push_sw::<toy::SwP251P>(out, "toy.SwP251P", toy_cases, toy_len, || sw_enumerate(&toy::SwP251P::COEFF_A, &toy::SwP251P::COEFF_B));
    push_sw::<toy_ext::SwF49Ax>(out, "toy.SwF49Ax", toy_cases, toy_len, toy_ext::enumerate::<toy_ext::SwF49Ax>);
    push_sw::<toy_ext::SwF343H3>(out, "toy.SwF343H3", toy_cases, toy_len, toy_ext::enumerate::<toy_ext::SwF343H3>);
    push_te::<toy::TeC1>(out, "toy.TeC1", toy_cases, toy_len, || te_toy_pool::<toy::TeC1>(13));
    push_te::<toy::TeN>(out, "toy.TeN", toy_cases, toy_len, || te_toy_pool::<toy::TeN>(13));
    push_te::<toy::TeP251>(out, "toy.TeP251", toy_cases, toy_len, || te_toy_pool::<toy::TeP251>(23));
    // shipped curves: prime field, quadratic and cubic extension, 256-bit modulus without spare bit; two TE curves
    let cases = tier.pick(12, 120);
    let len = tier.pick(1400u64, 6000u64);
    type CfgOf<A> = <A as ark_ec::AffineRepr>::Config;
    push_sw::<CfgOf<ark_bls12_381::G1Affine>>(out, "bls12_381.G1", cases, len, || sw_multiples::<CfgOf<ark_bls12_381::G1Affine>>(24));
    push_sw::<CfgOf<ark_bn254::G2Affine>>(out, "bn254.G2", cases, len, || sw_multiples::<CfgOf<ark_bn254::G2Affine>>(24));
    push_sw::<CfgOf<ark_mnt6_298::G2Affine>>(out, "mnt6_298.G2", cases, len, || sw_multiples::<CfgOf<ark_mnt6_298::G2Affine>>(24));
    push_sw::<CfgOf<ark_secp256k1::Affine>>(out, "secp256k1", cases, len, || sw_multiples::<CfgOf<ark_secp256k1::Affine>>(24));
    push_te::<CfgOf<ark_ed_on_bls12_381::EdwardsAffine>>(out, "ed_on_bls12_381", cases, len, || te_multiples::<CfgOf<ark_ed_on_bls12_381::EdwardsAffine>>(24));
    push_te::<CfgOf<ark_ed_on_bls12_381_bandersnatch::EdwardsAffine>>(out, "bandersnatch.te", cases, len, || {
        te_multiples::<CfgOf<ark_ed_on_bls12_381_bandersnatch::EdwardsAffine>>(24)
    });
}

#[allow(dead_code)]
fn _bounds<G: CurveGroup, F: Field>() {}
