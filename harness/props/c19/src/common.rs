//! Helpers shared by the C19 relations: fixed-key hashing, order/equality law checks against oracle keys.
use std::collections::hash_map::DefaultHasher;
use std::fmt::Debug;
use std::hash::{Hash, Hasher};
use vh_core::engine::{Fail, R};

/// hash under a fixed-key hasher (`DefaultHasher::new()` is SipHash-1-3 with zero keys: deterministic)
pub fn h<T: Hash>(x: &T) -> u64 {
    let mut s = DefaultHasher::new();
    x.hash(&mut s);
    s.finish()
}

fn bad(sig: &str, msg: String) -> R {
    Err(Fail { sig: sig.to_string(), msg })
}

/// `vals[i] = (label, value, oracle key)`. For every ordered pair: `==`/`!=` <=> keys equal, equal => equal hash.
pub fn check_eq_hash<T: Eq + Hash + Debug, K: Eq + Debug>(vals: &[(&'static str, T, K)]) -> R {
    let hs: Vec<u64> = vals.iter().map(|v| h(&v.1)).collect();
    for (i, (la, a, ka)) in vals.iter().enumerate() {
        // Hash must be a function of the value
        if h(a) != hs[i] {
            return bad("hash.unstable", format!("hashing [{}] {:?} twice gave different results", la, a));
        }
        for (j, (lb, b, kb)) in vals.iter().enumerate() {
            let same = ka == kb;
            if (a == b) != same {
                return bad("eq", format!("`==` between [{}] {:?} and [{}] {:?} is {}, but the values denote {:?} and {:?}", la, a, lb, b, a == b, ka, kb));
            }
            if (a != b) == same {
                return bad("ne", format!("`!=` between [{}] {:?} and [{}] {:?} is {}, but the values denote {:?} and {:?}", la, a, lb, b, a != b, ka, kb));
            }
            if same && hs[i] != hs[j] {
                return bad("hash", format!("equal values hash differently: [{}] {:?} -> {:#x}, [{}] {:?} -> {:#x}", la, a, hs[i], lb, b, hs[j]));
            }
        }
    }
    Ok(())
}

/// additionally: `cmp` = order of the oracle keys, `partial_cmp = Some(cmp)`, comparison operators, max/min, sorting
pub fn check_order<T: Ord + Hash + Debug + Clone, K: Ord + Debug + Clone>(vals: &[(&'static str, T, K)]) -> R {
    check_eq_hash(vals)?;
    for (la, a, ka) in vals {
        for (lb, b, kb) in vals {
            let want = ka.cmp(kb);
            let ctx = || format!("[{}] {:?} vs [{}] {:?} (denoting {:?} vs {:?})", la, a, lb, b, ka, kb);
            if a.cmp(b) != want {
                return bad("cmp", format!("cmp = {:?}, expected {:?}: {}", a.cmp(b), want, ctx()));
            }
            if a.partial_cmp(b) != Some(want) {
                return bad("partial_cmp", format!("partial_cmp = {:?}, expected Some({:?}): {}", a.partial_cmp(b), want, ctx()));
            }
            if (a < b) != (ka < kb) || (a <= b) != (ka <= kb) || (a > b) != (ka > kb) || (a >= b) != (ka >= kb) {
                return bad("cmp.operators", format!("<, <=, >, >= = {} {} {} {}: {}", a < b, a <= b, a > b, a >= b, ctx()));
            }
            if b.cmp(a) != want.reverse() {
                return bad("cmp.antisymmetry", format!("cmp(b,a) = {:?} while cmp(a,b) = {:?}: {}", b.cmp(a), a.cmp(b), ctx()));
            }
            let mx = a.clone().max(b.clone());
            let mn = a.clone().min(b.clone());
            let kmx = ka.clone().max(kb.clone());
            let kmn = ka.clone().min(kb.clone());
            let key_of = |x: &T| if x == a { ka.clone() } else { kb.clone() };
            if key_of(&mx) != kmx || key_of(&mn) != kmn {
                return bad("max_min", format!("max/min = {:?}/{:?}: {}", mx, mn, ctx()));
            }
        }
    }
    // transitivity / totality through sorting: the sorted sequence must be non-decreasing in the oracle keys
    let mut v: Vec<(&T, &K)> = vals.iter().map(|x| (&x.1, &x.2)).collect();
    v.sort_by(|x, y| x.0.cmp(y.0));
    for w in v.windows(2) {
        if w[0].1 > w[1].1 {
            return bad("sort", format!("sorting by `cmp` put {:?} (denoting {:?}) before {:?} (denoting {:?})", w[0].0, w[0].1, w[1].0, w[1].1));
        }
    }
    Ok(())
}
