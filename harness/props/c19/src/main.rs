//! C19 — not implemented yet.
fn main() {
    eprintln!("C19: check not implemented");
    std::process::exit(2);
}
