//! C19 — equality, ordering and hashing coincide with mathematical identity.
//!
//! Every relation builds a list of values together with an *oracle key* (BigUint, oracle coordinates, oracle
//! affine point, normalised coefficient vector) that says which mathematical object each value denotes, and
//! checks on all ordered pairs: `==`/`!=` <=> same key; same key => same `Hash` (fixed-key SipHash);
//! for ordered types `cmp`/`partial_cmp`/operators/`max`/`min`/sorting = the order of the keys.
mod common;
#[path = "../../c02/src/zoo_cfg.rs"]
pub mod zoo_cfg;
mod fields;
mod points;
mod polys;

use vh_core::engine::{PropSpec, Rel, Tier};

fn relations(tier: Tier) -> Vec<Rel> {
    let mut out = Vec::new();
    fields::relations(&mut out, tier);
    points::toy_relations(&mut out, tier);
    points::toy_ext_relations(&mut out, tier);
    points::shipped_relations(&mut out, tier);
    points::pairing_relations(&mut out, tier);
    polys::relations(&mut out, tier);
    out
}

fn main() {
    vh_core::engine::main(PropSpec {
        id: "C19",
        rule: "Each case builds 8-45 values with a known relation: field elements (the zoo prime fields, 9 shipped prime fields, 14 shipped extension towers Fp2..Fp12 and 15 Fp2/Fp3 towers over zoo prime fields without spare bit / with top limb 2^63 / hand-written configurations) as a, b (independent / same value rebuilt / exactly one coordinate or bit differs / coordinates rotated / a*R), c, and the same elements reached by other operation sequences (a+b vs b+a, (a*b)/b, -(-a), through bytes, strings, BigInt, coordinates); BigInt<N> (N = 1..25) with limbs equal / one limb or bit changed / reversed; curve points (all ordered pairs of points of the toy curves over prime fields and over F_49 under 3 representative patterns, sampled pairs of the toy curves over F_343 (all pairs in the thorough tier) with rescalings from the whole extension field, 16 shipped curves) as affine, projective rescaled by lambda/nu/1, identity in every constructor form and as (x,y,0), results of P+Q in different orders and operand kinds; pairing outputs e(kP,Q), e(P,kQ), k*e(P,Q) on bls12_381, bn254, mnt4_298, mnt6_298 (total order = documented tower order of the target-field value) and Miller-loop outputs of (P,Q), (kP,Q), ((P,Q),(kP,Q)); dense and sparse polynomials from different operation orders. All ordered pairs of the values are compared against oracle keys. A case is non-trivial when it contains two distinct representations of one object (different rescalings, different operation sequences on a non-independent pair) or two values that differ in exactly one coordinate / limb / coefficient / sign; distinct = distinct decoded choice sequences.",
        assumptions: &[
            "arithmetic results themselves are the subject of C01-C03/C06/C08; here only the relations between the produced values are judged",
            "Hash is observed through std's DefaultHasher::new() (SipHash-1-3, zero keys)",
            "affine short-Weierstrass identities are only built through public constructors/conversions (the hidden fields x, y of an `infinity` value are not set by hand)",
            "sparse polynomials are built canonically (non-zero terms, distinct degrees); canonicity of operation results is C08's subject but is observed here as well",
        ],
        relations,
    })
}
