//! Dense and sparse univariate polynomials produced by different operation orders compare equal and hash equal;
//! `==` <=> same coefficient sequence (trailing zeros ignored); `is_zero` <=> `== zero()`.
use crate::common::*;
use ark_ff::fields::{MontBackend, MontConfig};
use ark_ff::{FftField, Fp, One, Zero};
use ark_poly::univariate::{DensePolynomial, SparsePolynomial};
use ark_poly::DenseUVPolynomial;
use std::sync::Arc;
use vh_core::engine::{Obs, Rel, Tape, Tier, R};
use vh_core::ensure_eq;
use vh_core::gen::*;
use vh_core::modint::FieldCtx;

/// mathematical identity of a polynomial: coefficients without trailing zeros
fn norm<F: Zero + Clone>(mut v: Vec<F>) -> Vec<F> {
    while v.last().map_or(false, |c| c.is_zero()) {
        v.pop();
    }
    v
}

fn coeff_vec<T: MontConfig<N>, const N: usize>(c: &FieldCtx, t: &mut Tape<'_>, max_len: u64) -> Vec<F<T, N>> {
    let len = match t.weighted(&[1, 1, 6]) {
        0 => 0,
        1 => 1,
        _ => t.range(2, max_len) as usize,
    };
    let zeroish = t.chance(1, 3);
    (0..len)
        .map(|_| {
            if zeroish && t.bool() {
                F::<T, N>::zero()
            } else {
                match t.weighted(&[1, 1, 1, 3]) {
                    0 => F::<T, N>::zero(),
                    1 => F::<T, N>::one(),
                    2 => -F::<T, N>::one(),
                    _ => edge_fp::<T, N>(t, c).0,
                }
            }
        })
        .collect()
}

fn add_v<F: ark_ff::Field>(a: &[F], b: &[F]) -> Vec<F> {
    let n = a.len().max(b.len());
    norm((0..n).map(|i| a.get(i).copied().unwrap_or(F::ZERO) + b.get(i).copied().unwrap_or(F::ZERO)).collect())
}

fn sub_v<F: ark_ff::Field>(a: &[F], b: &[F]) -> Vec<F> {
    let n = a.len().max(b.len());
    norm((0..n).map(|i| a.get(i).copied().unwrap_or(F::ZERO) - b.get(i).copied().unwrap_or(F::ZERO)).collect())
}

fn mul_v<F: ark_ff::Field>(a: &[F], b: &[F]) -> Vec<F> {
    if a.is_empty() || b.is_empty() {
        return vec![];
    }
    let mut r = vec![F::ZERO; a.len() + b.len() - 1];
    for (i, x) in a.iter().enumerate() {
        for (j, y) in b.iter().enumerate() {
            r[i + j] += *x * y;
        }
    }
    norm(r)
}

fn sparse_of<F: ark_ff::Field>(v: &[F]) -> SparsePolynomial<F> {
    // canonical construction: only non-zero terms, ascending degrees
    SparsePolynomial::from_coefficients_vec(v.iter().enumerate().filter(|(_, c)| !c.is_zero()).map(|(i, c)| (i, *c)).collect())
}

fn poly_rel<T: MontConfig<N>, const N: usize>(c: &FieldCtx, t: &mut Tape<'_>, o: &mut Obs) -> R
where
    Fp<MontBackend<T, N>, N>: FftField,
{
    type D<T, const N: usize> = DensePolynomial<F<T, N>>;
    let ra = coeff_vec::<T, N>(c, t, 12);
    let rel = t.weighted(&[4, 2, 2, 2, 2]);
    let rb: Vec<F<T, N>> = match rel {
        0 => coeff_vec::<T, N>(c, t, 12),
        1 => {
            // same polynomial, written with extra trailing zeros
            let mut v = ra.clone();
            v.extend(std::iter::repeat(F::<T, N>::zero()).take(t.below(4) as usize));
            v
        },
        2 => {
            // exactly one coefficient differs
            let mut v = ra.clone();
            if v.is_empty() {
                v.push(F::<T, N>::one());
            } else {
                let i = t.idx(v.len());
                v[i] += F::<T, N>::one();
            }
            v
        },
        4 => {
            // -a with some low coefficients changed: the leading terms of a+b cancel
            let mut v: Vec<F<T, N>> = norm(ra.clone()).iter().map(|x| -*x).collect();
            let keep = if v.is_empty() { 0 } else { t.idx(v.len()) };
            for x in v.iter_mut().take(keep) {
                *x += F::<T, N>::one();
            }
            v
        },
        _ => {
            // a with its leading term removed / one more term
            let mut v = norm(ra.clone());
            if t.bool() && !v.is_empty() {
                v.pop();
            } else {
                v.push(F::<T, N>::one());
            }
            v
        },
    };
    let rc = coeff_vec::<T, N>(c, t, 8);
    let k = match t.weighted(&[1, 1, 3]) {
        0 => F::<T, N>::zero(),
        1 => F::<T, N>::one(),
        _ => edge_fp::<T, N>(t, c).0,
    };
    let (na, nb, nc) = (norm(ra.clone()), norm(rb.clone()), norm(rc.clone()));
    o.show(|| format!("{}: a={:?} b={:?} c={:?} k={:?}", c.name, ra, rb, rc, k));
    o.class(["independent", "same with trailing zeros", "one coefficient differs", "leading term removed/added", "b = -a up to low coefficients"][rel]);
    o.class_if(na == nb, "a and b denote the same polynomial");
    o.class_if(na.is_empty() || nb.is_empty(), "zero polynomial operand");
    o.class_if(add_v(&na, &nb).len() < na.len().max(nb.len()), "leading terms cancel in a+b");
    o.nt(rel != 0 || na == nb);
    let a = D::<T, N>::from_coefficients_vec(ra.clone());
    let b = D::<T, N>::from_coefficients_slice(&rb);
    let cc = D::<T, N>::from_coefficients_vec(rc.clone());
    type V<T, const N: usize> = Vec<F<T, N>>;
    let mut dv: Vec<(&'static str, D<T, N>, V<T, N>)> = vec![("a", a.clone(), na.clone()), ("b", b.clone(), nb.clone()), ("c", cc.clone(), nc.clone())];
    let s_ab = add_v(&na, &nb);
    let s_abc = add_v(&s_ab, &nc);
    dv.push(("a+b", &a + &b, s_ab.clone()));
    dv.push(("b+a", &b + &a, s_ab.clone()));
    dv.push(("a+b (by value)", a.clone() + b.clone(), s_ab.clone()));
    let mut x = a.clone();
    x += &b;
    dv.push(("a+=b", x, s_ab.clone()));
    let mut x = b.clone();
    x += (F::<T, N>::one(), &a);
    dv.push(("b+=(1,a)", x, s_ab.clone()));
    dv.push(("(a+b)+c", &(&a + &b) + &cc, s_abc.clone()));
    dv.push(("a+(b+c)", &a + &(&b + &cc), s_abc.clone()));
    dv.push(("(c+a)+b", &(&cc + &a) + &b, s_abc.clone()));
    dv.push(("(a+b)-b", &(&a + &b) - &b, na.clone()));
    let mut x = &a + &b;
    x -= &b;
    dv.push(("(a+b)-=b", x, na.clone()));
    dv.push(("a-a", &a - &a, vec![]));
    dv.push(("a-b", &a - &b, sub_v(&na, &nb)));
    dv.push(("-(b-a)", -(&b - &a), sub_v(&na, &nb)));
    dv.push(("-(-a)", -(-a.clone()), na.clone()));
    dv.push(("zero", D::<T, N>::zero(), vec![]));
    dv.push(("default", D::<T, N>::default(), vec![]));
    dv.push(("a+0", &a + &D::<T, N>::zero(), na.clone()));
    let kb: V<T, N> = norm(nb.iter().map(|x| *x * k).collect());
    dv.push(("b*k", &b * k, kb.clone()));
    let mut x = a.clone();
    x += (k, &b);
    dv.push(("a+=(k,b)", x, add_v(&na, &kb)));
    let pr = mul_v(&na, &nb);
    dv.push(("a*b", &a * &b, pr.clone()));
    dv.push(("b*a", &b * &a, pr.clone()));
    dv.push(("a.naive_mul(b)", a.naive_mul(&b), pr.clone()));
    // through the sparse form
    let (sa, sb, sc) = (sparse_of(&na), sparse_of(&nb), sparse_of(&nc));
    dv.push(("dense(sparse(a))", D::<T, N>::from(SparsePolynomial::from(a.clone())), na.clone()));
    dv.push(("a+sparse(b)", &a + &sb, s_ab.clone()));
    let mut x = a.clone();
    x += &sb;
    dv.push(("a+=sparse(b)", x, s_ab.clone()));
    dv.push(("a-sparse(b)", &a - &sb, sub_v(&na, &nb)));
    let mut x = a.clone();
    x -= &sb;
    dv.push(("a-=sparse(b)", x, sub_v(&na, &nb)));
    o.evals((dv.len() * dv.len()) as u64);
    check_eq_hash(&dv)?;
    for (l, v, key) in &dv {
        ensure_eq!(v.is_zero(), key.is_empty(), "dense.is_zero", "[{}] {:?}", l, v);
        ensure_eq!(*v == D::<T, N>::zero(), key.is_empty(), "dense.eq_zero", "[{}] {:?}", l, v);
    }
    // sparse values
    type S<T, const N: usize> = SparsePolynomial<F<T, N>>;
    let mut sv: Vec<(&'static str, S<T, N>, V<T, N>)> = vec![("sa", sa.clone(), na.clone()), ("sb", sb.clone(), nb.clone()), ("sc", sc.clone(), nc.clone())];
    sv.push(("sa+sb", &sa + &sb, s_ab.clone()));
    sv.push(("sb+sa", &sb + &sa, s_ab.clone()));
    sv.push(("sa+sb (by value)", sa.clone() + sb.clone(), s_ab.clone()));
    let mut x = sa.clone();
    x += &sb;
    sv.push(("sa+=sb", x, s_ab.clone()));
    let mut x = sb.clone();
    x += (F::<T, N>::one(), &sa);
    sv.push(("sb+=(1,sa)", x, s_ab.clone()));
    let mut x = sa.clone();
    x += (k, &sb);
    sv.push(("sa+=(k,sb)", x, add_v(&na, &kb)));
    sv.push(("(sa+sb)+sc", &(&sa + &sb) + &sc, s_abc.clone()));
    sv.push(("sa+(sb+sc)", &sa + &(&sb + &sc), s_abc.clone()));
    let mut x = &sa + &sb;
    x -= &sb;
    sv.push(("(sa+sb)-=sb", x, na.clone()));
    let mut x = sa.clone();
    x -= &sb;
    sv.push(("sa-=sb", x, sub_v(&na, &nb)));
    let mut x = sa.clone();
    x -= &sa;
    sv.push(("sa-=sa", x, vec![]));
    sv.push(("-(-sa)", -(-sa.clone()), na.clone()));
    sv.push(("sb*k", &sb * k, kb.clone()));
    sv.push(("sa.mul(sb)", sa.mul(&sb), pr.clone()));
    sv.push(("sb.mul(sa)", sb.mul(&sa), pr.clone()));
    sv.push(("sparse(a*b)", S::<T, N>::from(a.naive_mul(&b)), pr.clone()));
    sv.push(("sparse(dense(sa))", S::<T, N>::from(D::<T, N>::from(sa.clone())), na.clone()));
    sv.push(("sparse(a)", S::<T, N>::from(a.clone()), na.clone()));
    sv.push(("zero", S::<T, N>::zero(), vec![]));
    sv.push(("default", S::<T, N>::default(), vec![]));
    check_eq_hash(&sv)?;
    for (l, v, key) in &sv {
        ensure_eq!(v.is_zero(), key.is_empty(), "sparse.is_zero", "[{}] {:?}", l, v);
        ensure_eq!(*v == S::<T, N>::zero(), key.is_empty(), "sparse.eq_zero", "[{}] {:?}", l, v);
    }
    Ok(())
}

// ------------------------------------------------------------------------------------------
// multivariate sparse polynomials
// ------------------------------------------------------------------------------------------

use ark_poly::multivariate::{SparsePolynomial as MvPoly, SparseTerm, Term};
use ark_poly::DenseMVPolynomial;
use std::collections::BTreeMap;

type RawTerm = Vec<(usize, usize)>;
/// mathematical identity of a multivariate polynomial: monomial (sorted (variable, power>0) list) -> non-zero coefficient
type MvKey<Fe> = Vec<(RawTerm, Fe)>;

fn mono(t: &RawTerm) -> RawTerm {
    let mut m: BTreeMap<usize, usize> = BTreeMap::new();
    for (v, p) in t {
        if *p > 0 {
            *m.entry(*v).or_insert(0) += *p;
        }
    }
    m.into_iter().collect()
}

fn mv_key<Fe: ark_ff::Field>(terms: &[(Fe, RawTerm)]) -> MvKey<Fe> {
    let mut m: BTreeMap<RawTerm, Fe> = BTreeMap::new();
    for (c, t) in terms {
        *m.entry(mono(t)).or_insert(Fe::ZERO) += *c;
    }
    m.into_iter().filter(|(_, c)| !c.is_zero()).collect()
}

fn mv_add<Fe: ark_ff::Field>(a: &MvKey<Fe>, k: Fe, b: &MvKey<Fe>) -> MvKey<Fe> {
    let mut all: Vec<(Fe, RawTerm)> = a.iter().map(|(t, c)| (*c, t.clone())).collect();
    all.extend(b.iter().map(|(t, c)| (*c * k, t.clone())));
    mv_key(&all)
}

fn mv_terms<T: MontConfig<N>, const N: usize>(c: &FieldCtx, t: &mut Tape<'_>, nv: usize) -> Vec<(F<T, N>, RawTerm)> {
    let n = t.idx(6);
    (0..n)
        .map(|_| {
            let coeff = match t.weighted(&[1, 2, 2, 4]) {
                0 => F::<T, N>::zero(),
                1 => F::<T, N>::one(),
                2 => -F::<T, N>::one(),
                _ => edge_fp::<T, N>(t, c).0,
            };
            let len = t.idx(4);
            // powers 0 and repeated variables are legal input of `SparseTerm::new` (dropped / combined)
            let term: RawTerm = (0..len).map(|_| (t.idx(nv), t.idx(4))).collect();
            (coeff, term)
        })
        .collect()
}

fn mv_build<Fe: ark_ff::Field>(nv: usize, terms: &[(Fe, RawTerm)]) -> MvPoly<Fe, SparseTerm> {
    MvPoly::from_coefficients_vec(nv, terms.iter().map(|(c, t)| (*c, SparseTerm::new(t.clone()))).collect())
}

fn mvpoly_rel<T: MontConfig<N>, const N: usize>(c: &FieldCtx, t: &mut Tape<'_>, o: &mut Obs) -> R {
    type P<T, const N: usize> = MvPoly<F<T, N>, SparseTerm>;
    let nva = 1 + t.idx(4);
    let ta = mv_terms::<T, N>(c, t, nva);
    let rel = t.weighted(&[4, 2, 2, 2, 2]);
    let (nvb, tb): (usize, Vec<(F<T, N>, RawTerm)>) = match rel {
        0 => {
            let nvb = 1 + t.idx(4);
            (nvb, mv_terms::<T, N>(c, t, nvb))
        },
        // the same polynomial declared over more variables
        1 => (nva + 1 + t.idx(2), ta.clone()),
        // the same polynomial with its term list reversed and one coefficient split into two entries
        2 => {
            let mut v = ta.clone();
            v.reverse();
            if let Some((c0, t0)) = v.first().cloned() {
                v[0].0 = c0 - F::<T, N>::one();
                v.push((F::<T, N>::one(), t0));
            }
            (nva, v)
        },
        // exactly one coefficient differs
        3 => {
            let mut v = ta.clone();
            if v.is_empty() {
                v.push((F::<T, N>::one(), vec![]));
            } else {
                let i = t.idx(v.len());
                v[i].0 += F::<T, N>::one();
            }
            (nva, v)
        },
        // -a plus a constant: everything but the constant term cancels in a+b
        _ => {
            let mut v: Vec<(F<T, N>, RawTerm)> = ta.iter().map(|(c, t)| (-*c, t.clone())).collect();
            v.push((F::<T, N>::one(), vec![]));
            (nva, v)
        },
    };
    let nvc = 1 + t.idx(4);
    let tc = mv_terms::<T, N>(c, t, nvc);
    let k = match t.weighted(&[1, 1, 3]) {
        0 => F::<T, N>::zero(),
        1 => F::<T, N>::one(),
        _ => edge_fp::<T, N>(t, c).0,
    };
    let (ka, kb, kc) = (mv_key(&ta), mv_key(&tb), mv_key(&tc));
    o.show(|| format!("{}: a=({} vars) {:?} b=({} vars) {:?} c=({} vars) {:?} k={:?}", c.name, nva, ta, nvb, tb, nvc, tc, k));
    o.class(["independent", "same polynomial over more variables", "same polynomial, terms reordered and split", "one coefficient differs", "b = 1 - a"][rel]);
    o.class_if(ka == kb, "a and b denote the same polynomial");
    o.class_if(ka == kb && nva != nvb, "same polynomial, different num_vars");
    o.class_if(ka.is_empty() || kb.is_empty(), "zero polynomial operand");
    o.nt(rel != 0 || ka == kb);
    let a = mv_build(nva, &ta);
    let b = mv_build(nvb, &tb);
    let cc = mv_build(nvc, &tc);
    let one = F::<T, N>::one();
    let s_ab = mv_add(&ka, one, &kb);
    let s_abc = mv_add(&s_ab, one, &kc);
    let mut v: Vec<(&'static str, P<T, N>, MvKey<F<T, N>>)> = vec![("a", a.clone(), ka.clone()), ("b", b.clone(), kb.clone()), ("c", cc.clone(), kc.clone())];
    v.push(("a+b", &a + &b, s_ab.clone()));
    v.push(("b+a", &b + &a, s_ab.clone()));
    v.push(("a+b (by value)", a.clone() + b.clone(), s_ab.clone()));
    let mut x = a.clone();
    x += &b;
    v.push(("a+=b", x, s_ab.clone()));
    let mut x = b.clone();
    x += (one, &a);
    v.push(("b+=(1,a)", x, s_ab.clone()));
    let mut x = a.clone();
    x += (k, &b);
    v.push(("a+=(k,b)", x, mv_add(&ka, k, &kb)));
    v.push(("(a+b)+c", &(&a + &b) + &cc, s_abc.clone()));
    v.push(("a+(b+c)", &a + &(&b + &cc), s_abc.clone()));
    v.push(("(a+b)-b", &(&a + &b) - &b, ka.clone()));
    let mut x = &a + &b;
    x -= &b;
    v.push(("(a+b)-=b", x, ka.clone()));
    v.push(("a-a", &a - &a, vec![]));
    v.push(("a-b", &a - &b, mv_add(&ka, -one, &kb)));
    v.push(("-(b-a)", -(&b - &a), mv_add(&ka, -one, &kb)));
    v.push(("-(-a)", -(-a.clone()), ka.clone()));
    v.push(("zero", P::<T, N>::zero(), vec![]));
    v.push(("default", P::<T, N>::default(), vec![]));
    v.push(("a+0", &a + &P::<T, N>::zero(), ka.clone()));
    o.evals((v.len() * v.len()) as u64);
    check_eq_hash(&v)?;
    for (l, x, key) in &v {
        ensure_eq!(x.is_zero(), key.is_empty(), "mv.is_zero", "[{}] {:?}", l, x);
        ensure_eq!(*x == P::<T, N>::zero(), key.is_empty(), "mv.eq_zero", "[{}] {:?}", l, x);
    }
    Ok(())
}

pub fn relations(out: &mut Vec<Rel>, tier: Tier) {
    macro_rules! poly {
        ($cfg:ty, $n:expr, $name:expr, $q:expr) => {{
            let c = Arc::new(ctx_of::<$cfg, $n>($name));
            out.push(Rel::new(format!("poly/{}", $name), tier.pick($q, $q * 20), 40 * ($n + 5) + 32, move |t, o| poly_rel::<$cfg, $n>(&c, t, o)));
        }};
    }
    poly!(ark_bls12_381::FrConfig, 4, "bls12_381.Fr", 2500);
    poly!(ark_bn254::FrConfig, 4, "bn254.Fr", 1500);
    poly!(ark_test_curves::bls12_381::FrConfig, 4, "test.bls12_381.Fr", 1500);
    poly!(vh_core::zoo::T97Cfg, 1, "T97", 2500);
    poly!(vh_core::zoo::T65537Cfg, 1, "T65537", 2500);
    macro_rules! mv {
        ($cfg:ty, $n:expr, $name:expr, $q:expr) => {{
            let c = Arc::new(ctx_of::<$cfg, $n>($name));
            out.push(Rel::new(format!("mvpoly/{}", $name), tier.pick($q, $q * 20), 30 * ($n + 12) + 32, move |t, o| mvpoly_rel::<$cfg, $n>(&c, t, o)));
        }};
    }
    mv!(ark_bls12_381::FrConfig, 4, "bls12_381.Fr", 2000);
    mv!(vh_core::zoo::T97Cfg, 1, "T97", 2500);
}
