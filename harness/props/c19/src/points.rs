//! Curve points in every representation and pairing outputs: `==`, `Hash`, `is_zero` against the oracle point.
use crate::common::*;
use ark_ec::models::short_weierstrass::{Affine as SwAffine, Projective as SwProj, SWCurveConfig};
use ark_ec::models::twisted_edwards::{Affine as TeAffine, Projective as TeProj, TECurveConfig};
use ark_ec::pairing::{Pairing, PairingOutput};
use ark_ec::{AffineRepr, CurveGroup, PrimeGroup};
use ark_ff::{AdditiveGroup, Field, One, PrimeField, Zero};
use num_bigint::BigUint;
use std::fmt::Debug;
use std::hash::Hash;
use std::marker::PhantomData;
use std::sync::Arc;
use vh_core::curve::*;
use vh_core::engine::{Fail, Obs, Rel, Tape, Tier, R};
use vh_core::tower::OracleRepr;
use vh_core::{ensure, ensure_eq};

pub trait Model: 'static {
    type F: Field;
    type O: Copy + Eq + Debug + Send + Sync + 'static;
    type Proj: Copy + Debug + Eq + Hash + Zero + Default;
    type Aff: Copy + Debug + Eq + Hash + Default;
    const SW: bool;
    fn id() -> Self::O;
    fn add(p: &Self::O, q: &Self::O) -> Option<Self::O>;
    fn neg(p: &Self::O) -> Self::O;
    fn lift(p: &Self::O, lam: &Self::F, junk: &(Self::F, Self::F)) -> Self::Proj;
    fn aff(p: &Self::O) -> Self::Aff;
    fn aff_zero() -> Vec<Self::Aff>;
    fn proj_zero() -> Vec<Self::Proj>;
}

pub struct SwM<P>(PhantomData<P>);
pub struct TeM<P>(PhantomData<P>);

impl<P: SWCurveConfig> Model for SwM<P> {
    type F = P::BaseField;
    type O = Sw<P::BaseField>;
    type Proj = SwProj<P>;
    type Aff = SwAffine<P>;
    const SW: bool = true;
    fn id() -> Self::O {
        Sw::Inf
    }
    fn add(p: &Self::O, q: &Self::O) -> Option<Self::O> {
        Some(sw_add(&P::COEFF_A, p, q))
    }
    fn neg(p: &Self::O) -> Self::O {
        sw_neg(p)
    }
    fn lift(p: &Self::O, lam: &Self::F, junk: &(Self::F, Self::F)) -> Self::Proj {
        sw_to_proj::<P>(p, lam, &junk.0, &junk.1)
    }
    fn aff(p: &Self::O) -> Self::Aff {
        sw_to_affine::<P>(p)
    }
    fn aff_zero() -> Vec<Self::Aff> {
        let mut v = vec![SwAffine::<P>::identity(), <SwAffine<P> as AffineRepr>::zero(), SwAffine::<P>::default(), -SwAffine::<P>::identity(), SwProj::<P>::zero().into_affine()];
        // an identity obtained by decoding: the uncompressed encoding of the generator with the infinity flag of the generic
        // format set on top of its coordinates (kept only if the library decodes it, and decodes it to an identity)
        use ark_serialize::{CanonicalDeserialize, CanonicalSerialize, Compress, Validate};
        let mut bytes = Vec::new();
        if P::GENERATOR.serialize_with_mode(&mut bytes, Compress::No).is_ok() {
            if let Some(last) = bytes.last_mut() {
                *last |= 0x40;
            }
            for val in [Validate::No, Validate::Yes] {
                if let Ok(Ok(z)) = std::panic::catch_unwind(|| SwAffine::<P>::deserialize_with_mode(&bytes[..], Compress::No, val)) {
                    if z.is_zero() {
                        v.push(z);
                    }
                }
            }
        }
        v
    }
    fn proj_zero() -> Vec<Self::Proj> {
        vec![SwProj::<P>::zero(), SwProj::<P>::default(), <SwProj<P> as AdditiveGroup>::ZERO, SwAffine::<P>::identity().into_group(), -SwProj::<P>::zero()]
    }
}

impl<P: TECurveConfig> Model for TeM<P> {
    type F = P::BaseField;
    type O = Te<P::BaseField>;
    type Proj = TeProj<P>;
    type Aff = TeAffine<P>;
    const SW: bool = false;
    fn id() -> Self::O {
        te_identity()
    }
    fn add(p: &Self::O, q: &Self::O) -> Option<Self::O> {
        te_add(&P::COEFF_A, &P::COEFF_D, p, q)
    }
    fn neg(p: &Self::O) -> Self::O {
        te_neg(p)
    }
    fn lift(p: &Self::O, lam: &Self::F, _junk: &(Self::F, Self::F)) -> Self::Proj {
        te_to_proj::<P>(p, lam)
    }
    fn aff(p: &Self::O) -> Self::Aff {
        te_to_affine::<P>(p)
    }
    fn aff_zero() -> Vec<Self::Aff> {
        vec![TeAffine::<P>::zero(), <TeAffine<P> as AffineRepr>::zero(), TeAffine::<P>::default(), -TeAffine::<P>::zero(), TeProj::<P>::zero().into_affine()]
    }
    fn proj_zero() -> Vec<Self::Proj> {
        vec![TeProj::<P>::zero(), TeProj::<P>::default(), <TeProj<P> as AdditiveGroup>::ZERO, TeAffine::<P>::zero().into_group(), -TeProj::<P>::zero()]
    }
}

pub struct Case<M: Model> {
    pub p: M::O,
    pub q: M::O,
    pub lam: M::F,
    pub mu: M::F,
    pub nu: M::F,
    pub jp: (M::F, M::F),
    pub jq: (M::F, M::F),
}

fn bad(sig: &str, msg: String) -> R {
    Err(Fail { sig: sig.to_string(), msg })
}

macro_rules! point_checks {
    ($name:ident, $cfg:ident, $m:ident, $proj:ident, $aff:ident) => {
        pub fn $name<P: $cfg>(c: &Case<$m<P>>, o: &mut Obs) -> R {
            type M<P> = $m<P>;
            let (p, q) = (c.p, c.q);
            let id = <M<P>>::id();
            let one = P::BaseField::one();
            let same = p == q;
            o.class_if(same, "P and Q are the same point");
            o.class_if(!same && p == <M<P>>::neg(&q), "P = -Q (one coordinate differs)");
            o.class_if(p == id || q == id, "identity operand");
            o.class_if(c.lam != c.nu && p != id, "two different representatives of P");
            o.nt((c.lam != c.nu && p != id) || (!same && p == <M<P>>::neg(&q)) || (same && c.lam != c.mu) || ((p == id || q == id) && <M<P>>::SW));
            // representatives
            let pp: $proj<P> = <M<P>>::lift(&p, &c.lam, &c.jp);
            let pp2: $proj<P> = <M<P>>::lift(&p, &c.nu, &c.jq);
            let pp3: $proj<P> = <M<P>>::lift(&p, &one, &(one, one));
            let qp: $proj<P> = <M<P>>::lift(&q, &c.mu, &c.jq);
            let pa: $aff<P> = <M<P>>::aff(&p);
            let qa: $aff<P> = <M<P>>::aff(&q);
            o.evals(80);
            // ---- projective values: == <=> same oracle point, equal => equal hash
            let mut pv: Vec<(&'static str, $proj<P>, <M<P> as Model>::O)> = vec![
                ("P rescaled by lambda", pp, p),
                ("P rescaled by nu", pp2, p),
                ("P with Z=1", pp3, p),
                ("Q rescaled by mu", qp, q),
                ("P from affine", pa.into_group(), p),
                ("Q via From<Affine>", $proj::<P>::from(qa), q),
                ("-(-P)", -(-pp), p),
                ("-P", -pp2, <M<P>>::neg(&p)),
                ("-Q", -qp, <M<P>>::neg(&q)),
            ];
            for z in <M<P>>::proj_zero() {
                pv.push(("an identity value", z, id));
            }
            // results of different operation orders (inside the domain of the group law only)
            if let Some(sum) = <M<P>>::add(&p, &q) {
                pv.push(("P+Q", pp + qp, sum));
                pv.push(("Q+P", qp + pp, sum));
                pv.push(("P+Q (mixed)", pp2 + qa, sum));
                pv.push(("Q+P (mixed)", qp + pa, sum));
                pv.push(("P+Q (affine+affine)", pa + qa, sum));
                if <M<P>>::add(&sum, &<M<P>>::neg(&q)) == Some(p) {
                    pv.push(("(P+Q)-Q", (pp + qp) - qp, p));
                    pv.push(("(P+Q)-Q (mixed)", (pp + qp) - qa, p));
                }
            }
            if let Some(dbl) = <M<P>>::add(&p, &p) {
                pv.push(("2P", pp.double(), dbl));
                pv.push(("P+P", pp + pp2, dbl));
                pv.push(("P+P (mixed)", pp2 + pa, dbl));
                if <M<P>>::add(&p, &<M<P>>::neg(&p)) == Some(id) {
                    pv.push(("P-P", pp - pp2, id));
                }
            }
            check_eq_hash(&pv)?;
            // ---- affine values
            let mut av: Vec<(&'static str, $aff<P>, <M<P> as Model>::O)> = vec![
                ("P affine", pa, p),
                ("Q affine", qa, q),
                ("P.into_affine (lambda)", pp.into_affine(), p),
                ("P.into_affine (nu)", pp2.into_affine(), p),
                ("Affine::from(P, Z=1)", $aff::<P>::from(pp3), p),
                ("Q.into_affine", qp.into_affine(), q),
                ("-(-P) affine", -(-pa), p),
                ("-P affine", -pa, <M<P>>::neg(&p)),
                ("(-P).into_affine", (-pp).into_affine(), <M<P>>::neg(&p)),
            ];
            for z in <M<P>>::aff_zero() {
                av.push(("an affine identity value", z, id));
            }
            let nb = $proj::<P>::normalize_batch(&[pp, pp2, qp, $proj::<P>::zero(), pp3]);
            ensure_eq!(nb.len(), 5, "normalize_batch.len");
            av.push(("normalize_batch[P lambda]", nb[0], p));
            av.push(("normalize_batch[P nu]", nb[1], p));
            av.push(("normalize_batch[Q]", nb[2], q));
            av.push(("normalize_batch[zero]", nb[3], id));
            av.push(("normalize_batch[P Z=1]", nb[4], p));
            for (l, v, k) in &pv {
                if l.starts_with("P+Q") || l.starts_with("Q+P") || *l == "2P" || *l == "P-P" {
                    av.push(("result.into_affine", v.into_affine(), *k));
                }
            }
            check_eq_hash(&av)?;
            // ---- across representations
            // (every projective value against the first 13 affine values: P, Q, conversions, negations, 4 identity forms)
            for (lp, x, kx) in &pv {
                for (la, y, ky) in av.iter().take(13) {
                    let want = kx == ky;
                    if (*x == *y) != want {
                        return bad("eq.proj_affine", format!("[{}] {:?} == [{}] {:?} is {}, the points are {:?} and {:?}", lp, x, la, y, *x == *y, kx, ky));
                    }
                    if (*y == *x) != want {
                        return bad("eq.affine_proj", format!("[{}] {:?} == [{}] {:?} is {}, the points are {:?} and {:?}", la, y, lp, x, *y == *x, ky, kx));
                    }
                }
            }
            // ---- identity predicates
            for (l, x, k) in &pv {
                ensure_eq!(x.is_zero(), *k == id, "is_zero.proj", "[{}] {:?} denotes {:?}", l, x, k);
                ensure_eq!(*x == $proj::<P>::zero(), *k == id, "eq_zero.proj", "[{}] {:?} denotes {:?}", l, x, k);
            }
            for (l, y, k) in &av {
                ensure_eq!(y.is_zero(), *k == id, "is_zero.affine", "[{}] {:?} denotes {:?}", l, y, k);
                ensure_eq!(*y == <$aff<P> as AffineRepr>::zero(), *k == id, "eq_zero.affine", "[{}] {:?} denotes {:?}", l, y, k);
                ensure_eq!(y.xy().is_none(), *k == id, "xy.affine", "[{}] {:?} denotes {:?}", l, y, k);
            }
            Ok(())
        }
    };
}

point_checks!(sw_points, SWCurveConfig, SwM, SwProj, SwAffine);
point_checks!(te_points, TECurveConfig, TeM, TeProj, TeAffine);

// ------------------------------------------------------------------------------------------
// toy curves: all pairs of points, several representatives each
// ------------------------------------------------------------------------------------------

fn mix(mut x: u64) -> u64 {
    x = x.wrapping_add(0x9e3779b97f4a7c15);
    x = (x ^ (x >> 30)).wrapping_mul(0xbf58476d1ce4e5b9);
    x = (x ^ (x >> 27)).wrapping_mul(0x94d049bb133111eb);
    x ^ (x >> 31)
}

const TOY_TAPE: usize = 11;

fn all_pairs(n: u64) -> Box<dyn Iterator<Item = Vec<u64>>> {
    Box::new((0..n).flat_map(move |i| {
        (0..n).flat_map(move |j| {
            (0..3u64).map(move |k| {
                let hh = |s: u64| mix(i.wrapping_mul(0x10001).wrapping_add(j).wrapping_mul(8).wrapping_add(k) ^ (s << 56));
                let (lw, mw, nw, js) = match k {
                    0 => (0, 0, 1, 0),
                    1 => (1, hh(1), hh(2), 1),
                    _ => (hh(3), hh(4), hh(5), hh(6)),
                };
                vec![i, j, lw, mw, nw, js, hh(7), hh(8), js / 3, hh(9), hh(10)]
            })
        })
    }))
}

fn toy_decode<M: Model>(pts: &[M::O], p: u64, t: &mut Tape<'_>) -> Case<M> {
    let n = pts.len();
    let i = t.idx(n);
    let j = t.idx(n);
    let lam = M::F::from(1 + t.below(p - 1));
    let mu = M::F::from(1 + t.below(p - 1));
    let nu = M::F::from(1 + t.below(p - 1));
    let junk = |t: &mut Tape<'_>| {
        let s = t.below(3);
        let x = M::F::from(t.below(p));
        let y = M::F::from(t.below(p));
        match s {
            0 => (M::F::one(), M::F::one()),
            1 => (M::F::zero(), M::F::zero()),
            _ => (x, y),
        }
    };
    let jp = junk(t);
    let jq = junk(t);
    Case { p: pts[i], q: pts[j], lam, mu, nu, jp, jq }
}

fn show<M: Model>(name: &str, c: &Case<M>) -> String {
    format!("{}: P={:?} Q={:?} lambda={:?} mu={:?} nu={:?} identity-coords {:?} {:?}", name, c.p, c.q, c.lam, c.mu, c.nu, c.jp, c.jq)
}

pub fn toy_relations(out: &mut Vec<Rel>, tier: Tier) {
    macro_rules! sw {
        ($cfg:ty, $name:expr, $p:expr, $a:expr, $b:expr, $h:expr, $r:expr, $big:expr) => {
            if !$big || tier == Tier::Thorough {
                type F = <$cfg as ark_ec::CurveConfig>::BaseField;
                let pts = Arc::new(sw_enumerate::<F>(&<$cfg as SWCurveConfig>::COEFF_A, &<$cfg as SWCurveConfig>::COEFF_B));
                assert_eq!(pts.len() as u64, $h * $r);
                let n = pts.len() as u64;
                out.push(
                    Rel::new(format!("toy-sw-points/{}", $name), tier.pick(300, 3000), TOY_TAPE, move |t, o| {
                        let c = toy_decode::<SwM<$cfg>>(&pts, $p, t);
                        o.show(|| show($name, &c));
                        sw_points::<$cfg>(&c, o)
                    })
                    .exhaustive(move || all_pairs(n)),
                );
            }
        };
    }
    vh_core::for_each_toy_sw!(sw);
    macro_rules! te {
        ($cfg:ty, $name:expr, $p:expr, $a:expr, $d:expr, $h:expr, $r:expr, $complete:expr, $big:expr) => {
            if !$big || tier == Tier::Thorough {
                type F = <$cfg as ark_ec::CurveConfig>::BaseField;
                // every affine point is a valid value for ==/hash, also on incomplete curves (group operations are
                // only applied where the affine law is defined: `Model::add` returns None otherwise)
                let pts = Arc::new(te_enumerate::<F>(&<$cfg as TECurveConfig>::COEFF_A, &<$cfg as TECurveConfig>::COEFF_D));
                let n = pts.len() as u64;
                out.push(
                    Rel::new(format!("toy-te-points/{}", $name), tier.pick(300, 3000), TOY_TAPE, move |t, o| {
                        let c = toy_decode::<TeM<$cfg>>(&pts, $p, t);
                        o.show(|| show($name, &c));
                        te_points::<$cfg>(&c, o)
                    })
                    .exhaustive(move || all_pairs(n)),
                );
            }
        };
    }
    vh_core::for_each_toy_te!(te);
}

/// toy curves over F_49 and F_343 (`vh_core::toy_ext`): rescalings and identity coordinates from the whole
/// extension field; all ordered pairs x 3 patterns over F_49, over F_343 sampled in the quick tier
fn toy_ext_decode<P: SWCurveConfig>(pts: &[Sw<P::BaseField>], els: &[P::BaseField], t: &mut Tape<'_>) -> Case<SwM<P>> {
    let n = pts.len();
    let i = t.idx(n);
    let j = t.idx(n);
    // els[0] is zero, els[1] is one
    let nz = |t: &mut Tape<'_>| els[1 + t.idx(els.len() - 1)];
    let lam = nz(t);
    let mu = nz(t);
    let nu = nz(t);
    let junk = |t: &mut Tape<'_>| {
        let s = t.below(3);
        let x = els[t.idx(els.len())];
        let y = els[t.idx(els.len())];
        match s {
            0 => (P::BaseField::one(), P::BaseField::one()),
            1 => (P::BaseField::zero(), P::BaseField::zero()),
            _ => (x, y),
        }
    };
    let jp = junk(t);
    let jq = junk(t);
    Case { p: pts[i], q: pts[j], lam, mu, nu, jp, jq }
}

pub fn toy_ext_relations(out: &mut Vec<Rel>, tier: Tier) {
    macro_rules! swx {
        ($cfg:ty, $name:expr, $n:expr, $h:expr, $r:expr) => {{
            type F = <$cfg as ark_ec::CurveConfig>::BaseField;
            let pts = Arc::new(vh_core::toy_ext::enumerate::<$cfg>());
            assert_eq!(pts.len(), $n);
            let els = Arc::new(vh_core::toy_ext::all_elems::<F>());
            let n = pts.len() as u64;
            let small = $n < 100;
            let rel = Rel::new(format!("toy-sw-points/{}", $name), tier.pick(if small { 300 } else { 2500 }, 3000), TOY_TAPE, move |t, o| {
                let c = toy_ext_decode::<$cfg>(&pts, &els, t);
                o.show(|| show($name, &c));
                o.class_if(!c.lam.to_base_prime_field_elements().skip(1).all(|z| z.is_zero()), "rescaling outside the prime subfield");
                sw_points::<$cfg>(&c, o)
            });
            out.push(if small || tier == Tier::Thorough { rel.exhaustive(move || all_pairs(n)) } else { rel });
        }};
    }
    vh_core::for_each_toy_sw_ext!(swx);
}

// ------------------------------------------------------------------------------------------
// shipped curves
// ------------------------------------------------------------------------------------------

fn felt<F: Field>(t: &mut Tape<'_>) -> F {
    if t.weighted(&[1, 3]) == 0 {
        return F::from(t.below(1 << 16));
    }
    let nb = (F::BasePrimeField::MODULUS_BIT_SIZE as usize + 7) / 8 + 8;
    let d = F::extension_degree() as usize;
    let coeffs: Vec<F::BasePrimeField> = (0..d).map(|_| F::BasePrimeField::from_le_bytes_mod_order(&t.bytes(nb))).collect();
    F::from_base_prime_field_elems(coeffs).expect("extension degree")
}

fn felt_words<F: Field>() -> usize {
    let nb = (F::BasePrimeField::MODULUS_BIT_SIZE as usize + 7) / 8 + 8;
    2 + F::extension_degree() as usize * ((nb + 7) / 8)
}

fn lambda<F: Field>(t: &mut Tape<'_>) -> F {
    let l = match t.weighted(&[2, 1, 1, 4]) {
        0 => F::one(),
        1 => F::from(2u64),
        2 => F::from(1 + t.below(1 << 16)),
        _ => felt::<F>(t),
    };
    if l.is_zero() {
        F::one()
    } else {
        l
    }
}

fn junk<F: Field>(t: &mut Tape<'_>) -> (F, F) {
    match t.weighted(&[1, 1, 2]) {
        0 => (F::one(), F::one()),
        1 => (F::zero(), F::zero()),
        _ => (felt::<F>(t), felt::<F>(t)),
    }
}

fn sw_pick<P: SWCurveConfig>(t: &mut Tape<'_>) -> Sw<P::BaseField> {
    let g = sw_from_affine::<P>(&P::GENERATOR);
    match t.weighted(&[2, 2, 4, 3]) {
        0 => g,
        1 => Sw::Inf,
        2 => sw_mul(&P::COEFF_A, &g, &BigUint::from(1 + t.below(1 << 12))),
        _ => {
            let mut x = felt::<P::BaseField>(t);
            let gr = t.bool();
            for _ in 0..128 {
                if let Some(a) = SwAffine::<P>::get_point_from_x_unchecked(x, gr) {
                    let pt = sw_from_affine::<P>(&a);
                    if sw_on_curve(&P::COEFF_A, &P::COEFF_B, &pt) {
                        return pt;
                    }
                }
                x += P::BaseField::one();
            }
            g
        },
    }
}

fn sw_shipped<P: SWCurveConfig>(name: &'static str, t: &mut Tape<'_>, o: &mut Obs) -> R {
    let p = sw_pick::<P>(t);
    let q = match t.weighted(&[3, 3, 2, 1, 1]) {
        0 => sw_pick::<P>(t),
        1 => p,
        2 => sw_neg(&p),
        3 => sw_add(&P::COEFF_A, &p, &p),
        _ => Sw::Inf,
    };
    let c = Case::<SwM<P>> { p, q, lam: lambda(t), mu: lambda(t), nu: lambda(t), jp: junk(t), jq: junk(t) };
    o.show(|| show(name, &c));
    sw_points::<P>(&c, o)
}

fn te_shipped<P: TECurveConfig>(name: &'static str, t: &mut Tape<'_>, o: &mut Obs) -> R {
    // multiples of the generator only: inside the prime-order subgroup the affine law is total on every TE curve
    let g = te_from_affine::<P>(&P::GENERATOR);
    let (a, d) = (P::COEFF_A, P::COEFF_D);
    let pick = |t: &mut Tape<'_>| match t.weighted(&[2, 2, 5]) {
        0 => g,
        1 => te_identity(),
        _ => te_mul(&a, &d, &g, &BigUint::from(1 + t.below(1 << 12))).expect("multiples of the generator"),
    };
    let p = pick(t);
    let q = match t.weighted(&[3, 3, 2, 1, 1]) {
        0 => pick(t),
        1 => p,
        2 => te_neg(&p),
        3 => te_add(&a, &d, &p, &p).expect("subgroup"),
        _ => te_identity(),
    };
    let one = P::BaseField::one();
    let c = Case::<TeM<P>> { p, q, lam: lambda(t), mu: lambda(t), nu: lambda(t), jp: (one, one), jq: (one, one) };
    o.show(|| show(name, &c));
    te_points::<P>(&c, o)
}

type CfgOf<A> = <A as AffineRepr>::Config;

pub fn shipped_relations(out: &mut Vec<Rel>, tier: Tier) {
    macro_rules! sw {
        ($aff:ty, $name:expr, $q:expr) => {{
            let w = felt_words::<<$aff as AffineRepr>::BaseField>();
            out.push(Rel::new(format!("points-sw/{}", $name), tier.pick($q, $q * 15), 24 + 9 * w, move |t, o| sw_shipped::<CfgOf<$aff>>($name, t, o)).shrink_iters(600));
        }};
    }
    macro_rules! te {
        ($aff:ty, $name:expr, $q:expr) => {{
            let w = felt_words::<<$aff as AffineRepr>::BaseField>();
            out.push(Rel::new(format!("points-te/{}", $name), tier.pick($q, $q * 15), 24 + 4 * w, move |t, o| te_shipped::<CfgOf<$aff>>($name, t, o)).shrink_iters(600));
        }};
    }
    sw!(ark_bls12_381::G1Affine, "bls12_381.G1", 600);
    sw!(ark_bls12_381::G2Affine, "bls12_381.G2", 400);
    sw!(ark_bn254::G1Affine, "bn254.G1", 800);
    sw!(ark_bn254::G2Affine, "bn254.G2", 400);
    sw!(ark_secp256k1::Affine, "secp256k1", 800);
    sw!(ark_pallas::Affine, "pallas", 800);
    sw!(ark_mnt6_298::G2Affine, "mnt6_298.G2", 300);
    sw!(ark_mnt4_298::G1Affine, "mnt4_298.G1", 600);
    sw!(ark_bw6_761::G1Affine, "bw6_761.G1", 250);
    sw!(ark_ed_on_bls12_381_bandersnatch::SWAffine, "bandersnatch.sw", 600);
    sw!(ark_test_curves::bls12_381::G1Affine, "test.bls12_381.G1", 400);
    te!(ark_ed25519::EdwardsAffine, "ed25519", 600);
    te!(ark_curve25519::EdwardsAffine, "curve25519", 600);
    te!(ark_ed_on_bls12_381::EdwardsAffine, "ed_on_bls12_381", 600);
    te!(ark_ed_on_bls12_381_bandersnatch::EdwardsAffine, "bandersnatch.te", 600);
    te!(ark_test_curves::ed_on_bls12_381::Affine, "test.ed_on_bls12_381", 400);
}

// ------------------------------------------------------------------------------------------
// pairing outputs
// ------------------------------------------------------------------------------------------

fn pairing_rel<E: Pairing>(name: &'static str, t: &mut Tape<'_>, o: &mut Obs) -> R
where
    E::TargetField: OracleRepr,
{
    let a = 1 + t.below(1 << 20);
    let b = 1 + t.below(1 << 20);
    let k = match t.weighted(&[1, 1, 6]) {
        0 => 0,
        1 => 1,
        _ => t.u64() >> 8,
    };
    let p = E::G1::generator().mul_bigint([a]).into_affine();
    let q = E::G2::generator().mul_bigint([b]).into_affine();
    let kf = E::ScalarField::from(k);
    o.show(|| format!("{}: P={}*G1 Q={}*G2 k={}", name, a, b, k));
    o.nt(k > 1);
    o.class_if(k == 0, "k=0 (identity output)");
    let kp = (p.into_group() * kf).into_affine();
    let kq = (q.into_group() * kf).into_affine();
    let e0 = E::pairing(p, q);
    let vals: Vec<(&'static str, PairingOutput<E>)> = vec![
        ("e(kP,Q)", E::pairing(kp, q)),
        ("e(P,kQ)", E::pairing(p, kq)),
        ("k*e(P,Q)", e0 * kf),
        ("e(P,Q).mul_bigint(k)", e0.mul_bigint([k])),
        ("multi_pairing([kP],[Q])", E::multi_pairing([kp], [q])),
    ];
    // the oracle identity of a pairing output is its target-field value read through raw coordinates
    let keyed: Vec<(&'static str, PairingOutput<E>, vh_core::tower::Elem)> = vals.iter().map(|(l, v)| (*l, *v, v.0.to_o())).collect();
    let first = keyed[0].2.clone();
    for (l, v, kk) in &keyed {
        ensure!(*kk == first, "bilinear", "[{}] = {:?} differs from e(kP,Q) = {:?}", l, v, keyed[0].1);
    }
    let mut all = keyed.clone();
    all.push(("e(P,Q)", e0, e0.0.to_o()));
    all.push(("zero", PairingOutput::<E>::zero(), E::TargetField::one().to_o()));
    all.push(("e(0,Q)", E::pairing(E::G1Affine::zero(), q), E::TargetField::one().to_o()));
    all.push(("e(P,Q)-e(P,Q)", e0 - e0, E::TargetField::one().to_o()));
    check_eq_hash(&all)?;
    // `PairingOutput` is ordered like its target-field value (documented lexicographic tower order: highest coefficient first)
    let okey = |e: &vh_core::tower::Elem| -> Vec<BigUint> {
        fn flat(e: &vh_core::tower::Elem, out: &mut Vec<BigUint>) {
            match e {
                vh_core::tower::Elem::P(x) => out.push(x.clone()),
                vh_core::tower::Elem::E(v) => v.iter().for_each(|x| flat(x, out)),
            }
        }
        let mut v = Vec::new();
        flat(e, &mut v);
        v.reverse();
        v
    };
    let ordered: Vec<(&'static str, PairingOutput<E>, Vec<BigUint>)> = all.iter().map(|(l, v, kk)| (*l, *v, okey(kk))).collect();
    check_order(&ordered)?;
    // Miller-loop outputs: `==` and `cmp` are those of the wrapped target-field value
    {
        use ark_ec::pairing::MillerLoopOutput;
        let m1: MillerLoopOutput<E> = E::multi_miller_loop([p], [q]);
        let m2: MillerLoopOutput<E> = E::miller_loop(p, q);
        let m3: MillerLoopOutput<E> = E::multi_miller_loop([kp], [q]);
        let m4: MillerLoopOutput<E> = E::multi_miller_loop([p, kp], [q, q]);
        let ms = [("ml(P,Q)", m1), ("miller_loop(P,Q)", m2), ("ml(kP,Q)", m3), ("ml((P,Q),(kP,Q))", m4)];
        ensure!(m1.0.to_o() == m2.0.to_o(), "miller_loop", "multi_miller_loop([P],[Q]) and miller_loop(P,Q) differ");
        for (la, a) in &ms {
            for (lb, b) in &ms {
                let (ka, kb) = (okey(&a.0.to_o()), okey(&b.0.to_o()));
                ensure!((a == b) == (ka == kb) && (a != b) == (ka != kb), "miller.eq", "[{}] == [{}] is {}", la, lb, a == b);
                ensure!(a.cmp(b) == ka.cmp(&kb) && a.partial_cmp(b) == Some(ka.cmp(&kb)), "miller.cmp", "[{}] cmp [{}] = {:?}, coordinates say {:?}", la, lb, a.cmp(b), ka.cmp(&kb));
            }
        }
    }
    for (l, v, kk) in &all {
        let z = *kk == E::TargetField::one().to_o();
        ensure_eq!(v.is_zero(), z, "is_zero", "[{}] {:?}", l, v);
        ensure_eq!(*v == PairingOutput::<E>::zero(), z, "eq_zero", "[{}] {:?}", l, v);
        ensure_eq!(*v == <PairingOutput<E> as AdditiveGroup>::ZERO, z, "eq_ZERO", "[{}] {:?}", l, v);
        ensure_eq!(v.cmp(&e0) == std::cmp::Ordering::Equal, *kk == e0.0.to_o(), "cmp_equal", "[{}] {:?}", l, v);
    }
    Ok(())
}

pub fn pairing_relations(out: &mut Vec<Rel>, tier: Tier) {
    out.push(Rel::new("pairing/bls12_381", tier.pick(40, 600), 8, |t, o| pairing_rel::<ark_bls12_381::Bls12_381>("bls12_381", t, o)).shrink_iters(60));
    out.push(Rel::new("pairing/bn254", tier.pick(40, 600), 8, |t, o| pairing_rel::<ark_bn254::Bn254>("bn254", t, o)).shrink_iters(60));
    out.push(Rel::new("pairing/mnt4_298", tier.pick(25, 300), 8, |t, o| pairing_rel::<ark_mnt4_298::MNT4_298>("mnt4_298", t, o)).shrink_iters(60));
    // target field built as 2-over-3 (Fp6 over Fp3)
    out.push(Rel::new("pairing/mnt6_298", tier.pick(20, 300), 8, |t, o| pairing_rel::<ark_mnt6_298::MNT6_298>("mnt6_298", t, o)).shrink_iters(60));
}
