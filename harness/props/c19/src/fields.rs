//! Field elements (prime and extension) and `BigInt<N>`: `==`, `Hash`, `Ord`, `is_zero`/`is_one` against the
//! mathematical value (BigUint / oracle coordinates).
use crate::common::*;
use ark_ff::fields::{Fp, MontBackend, MontConfig};
use ark_ff::{AdditiveGroup, BigInt, BigInteger, Field, One, PrimeField, Zero};
use num_bigint::BigUint;
use std::str::FromStr;
use std::sync::Arc;
use vh_core::engine::{Obs, Rel, Tape, Tier, R};
use vh_core::gen::*;
use vh_core::modint::*;
use vh_core::tower::{edge_elem, Elem, OracleRepr, TowerOf};
use vh_core::{ensure, ensure_eq};

/// Oracle key of a field element: prime-field coefficients, *most significant coefficient first*. `Vec` compares
/// lexicographically, which for equal lengths is exactly the documented order of the extension towers (the highest
/// coefficient c1 / c2 is compared first, recursively) and the integer order for prime fields.
type Key = Vec<BigUint>;

fn key_of<F: OracleRepr>(tw: &TowerOf<F>, x: &F) -> Key {
    let mut k = tw.t.flatten(&x.to_o());
    k.reverse();
    k
}

fn from_flat<F: OracleRepr>(tw: &TowerOf<F>, c: &[BigUint]) -> F {
    F::from_o(&tw.t.unflatten(c))
}

fn show_key(k: &Key) -> String {
    let v: Vec<String> = k.iter().rev().map(|c| format!("0x{:x}", c)).collect();
    format!("[{}]", v.join(", "))
}

/// generic relation: works for prime fields and extension towers alike
pub fn field_rel<F: OracleRepr>(name: &str, tw: &TowerOf<F>, t: &mut Tape<'_>, o: &mut Obs) -> R {
    let p = &tw.prime.p;
    let d = tw.t.degree();
    let (ae, acls) = edge_elem(t, &tw.t, &tw.prime);
    let a = F::from_o(&ae);
    let af = tw.t.flatten(&ae);
    // second value: independent, or in a known relation to the first
    let rel = t.weighted(&[5, 2, 3, 2, 2]);
    let (b, bcls): (F, &'static str) = match rel {
        0 => (F::from_o(&edge_elem(t, &tw.t, &tw.prime).0), "independent"),
        1 => (from_flat(tw, &af), "same value, rebuilt from coordinates"),
        2 => {
            // exactly one coordinate differs (by +1, -1, or replaced)
            let mut c = af.clone();
            let i = t.idx(d);
            c[i] = match t.below(3) {
                0 => (&c[i] + 1u32) % p,
                1 => (&c[i] + p - 1u32) % p,
                _ => {
                    let v = edge_value(t, &tw.prime).0;
                    if v == c[i] {
                        (&v + 1u32) % p
                    } else {
                        v
                    }
                },
            };
            (from_flat(tw, &c), "one coordinate differs")
        },
        3 => {
            // one bit of one coordinate's integer value flipped (reduced)
            let mut c = af.clone();
            let i = t.idx(d);
            let k = t.below(tw.prime.bits as u64);
            let mut v = c[i].clone();
            v.set_bit(k, !v.bit(k));
            c[i] = v % p;
            (from_flat(tw, &c), "one bit of one coordinate flipped")
        },
        _ => {
            // coordinates swapped / rotated: same multiset of coefficients in another order
            let mut c = af.clone();
            c.rotate_left(t.idx(d));
            (from_flat(tw, &c), "coordinates rotated")
        },
    };
    let c3 = F::from_o(&edge_elem(t, &tw.t, &tw.prime).0);
    let (ka, kb, kc) = (key_of(tw, &a), key_of(tw, &b), key_of(tw, &c3));
    o.show(|| format!("{}: a={} [{}] b={} [{}] c={}", name, show_key(&ka), acls, show_key(&kb), bcls, show_key(&kc)));
    o.class(bcls);
    o.class_if(ka == kb, "a and b denote the same element");
    let ndiff = ka.iter().zip(&kb).filter(|(x, y)| x != y).count();
    o.class_if(ndiff == 1, "a and b differ in exactly one coordinate");
    // values reached by different operation sequences (the *expected* key is what the mathematics says)
    let mut vals: Vec<(&'static str, F, Key)> = vec![("a", a, ka.clone()), ("b", b, kb.clone()), ("c", c3, kc.clone())];
    let s1 = a + b;
    let s2 = b + a;
    let ks = key_of(tw, &s1);
    vals.push(("a+b", s1, ks.clone()));
    vals.push(("b+a", s2, ks.clone()));
    let mut s3 = b;
    s3 += &a;
    vals.push(("b+=a", s3, ks.clone()));
    vals.push(("(a+b)-b", s1 - b, ka.clone()));
    vals.push(("-(-a)", -(-a), ka.clone()));
    vals.push(("a*1", a * F::one(), ka.clone()));
    vals.push(("a+0", a + F::zero(), ka.clone()));
    vals.push(("a-0", a - F::ZERO, ka.clone()));
    if !b.is_zero() {
        vals.push(("(a*b)/b", (a * b) / b, ka.clone()));
        vals.push(("(a/b)*b", (a / b) * b, ka.clone()));
    }
    if let Some(i) = a.inverse() {
        vals.push(("1/(1/a)", i.inverse().unwrap(), ka.clone()));
    }
    let p1 = a * b;
    let p2 = b * a;
    let kp = key_of(tw, &p1);
    vals.push(("a*b", p1, kp.clone()));
    vals.push(("b*a", p2, kp));
    let q1 = a.square();
    let kq = key_of(tw, &q1);
    vals.push(("a^2", q1, kq.clone()));
    vals.push(("a*a", a * a, kq));
    let d1 = a.double();
    let kd = key_of(tw, &d1);
    vals.push(("2a", d1, kd.clone()));
    vals.push(("a+a", a + a, kd));
    // through bytes
    {
        let mut buf = Vec::new();
        a.serialize_compressed(&mut buf).map_err(|e| vh_core::Fail { sig: "serialize".into(), msg: format!("{:?}", e) })?;
        let back = F::deserialize_compressed(&buf[..]).map_err(|e| vh_core::Fail { sig: "deserialize".into(), msg: format!("{:?} for {:02x?}", e, buf) })?;
        vals.push(("through bytes", back, ka.clone()));
    }
    // through the base-prime-field coordinates
    {
        let coords: Vec<F::BasePrimeField> = a.to_base_prime_field_elements().collect();
        let back = F::from_base_prime_field_elems(coords).expect("degree");
        vals.push(("through coordinates", back, ka.clone()));
    }
    // sanity of the expected keys that were *not* derived from arkworks results
    o.nt(rel != 0 || ka == kb);
    o.evals((vals.len() * vals.len()) as u64);
    check_order(&vals)?;
    // predicates
    let zero_key: Key = vec![BigUint::zero(); d];
    let mut one_key = zero_key.clone();
    one_key[d - 1] = BigUint::one() % p;
    for (l, v, k) in &vals {
        let z = *k == zero_key;
        let w = *k == one_key;
        ensure!(v.is_zero() == z && (*v == F::ZERO) == z && (*v == F::zero()) == z, "is_zero", "[{}] {:?}: is_zero()={} ==ZERO:{} value is zero:{}", l, v, v.is_zero(), *v == F::ZERO, z);
        ensure!(v.is_one() == w && (*v == F::ONE) == w && (*v == F::one()) == w, "is_one", "[{}] {:?}: is_one()={} ==ONE:{} value is one:{}", l, v, v.is_one(), *v == F::ONE, w);
    }
    ensure_eq!(h(&F::ZERO), h(&F::zero()), "hash.zero");
    ensure_eq!(h(&F::ONE), h(&F::one()), "hash.one");
    ensure_eq!(h(&F::default()), h(&F::zero()), "hash.default");
    Ok(())
}

/// prime-field extras: integer order through Montgomery-limb edge values, strings, big integers
pub fn prime_rel<T: MontConfig<N>, const N: usize>(c: &FieldCtx, t: &mut Tape<'_>, o: &mut Obs) -> R {
    let p = &c.p;
    let (a, av, acls) = edge_fp::<T, N>(t, c);
    let rel = t.weighted(&[4, 2, 2, 2, 3]);
    let (b, bv, bcls): (F<T, N>, BigUint, &'static str) = match rel {
        0 => {
            let (b, bv, _) = edge_fp::<T, N>(t, c);
            (b, bv, "independent")
        },
        1 => (fp_from_big::<T, N>(c, &av), av.clone(), "same value"),
        2 => {
            let v = if t.bool() { (&av + 1u32) % p } else { (&av + p - 1u32) % p };
            (fp_from_big::<T, N>(c, &v), v, "neighbour (+-1)")
        },
        3 => {
            // one bit of the *Montgomery* representation flipped (kept if still canonical)
            let mut m = big(&(a.0).0);
            let k = t.below(c.bits as u64);
            m.set_bit(k, !m.bit(k));
            let m = m % p;
            let v = (m * &c.rinv) % p;
            (fp_from_big::<T, N>(c, &v), v, "one Montgomery bit flipped")
        },
        _ => {
            // integer order and Montgomery order disagree on purpose: b = a*R or a/R
            let v = if t.bool() { (&av * &c.r) % p } else { (&av * &c.rinv) % p };
            (fp_from_big::<T, N>(c, &v), v, "a*R or a/R")
        },
    };
    let (c3, cv, _) = edge_fp::<T, N>(t, c);
    o.show(|| format!("{}: a=0x{:x} [{}] b=0x{:x} [{}] c=0x{:x}", c.name, av, acls, bv, bcls, cv));
    o.class(bcls);
    o.class(acls);
    o.class_if(av == bv, "a and b denote the same element");
    {
        let (am, bm) = (big(&(a.0).0), big(&(b.0).0));
        o.class_if(av != bv && (av < bv) != (am < bm), "integer order differs from Montgomery-limb order");
    }
    o.nt(rel != 0 || av == bv);
    let mut vals: Vec<(&'static str, F<T, N>, BigUint)> = vec![("a", a, av.clone()), ("b", b, bv.clone()), ("c", c3, cv.clone())];
    // through strings, big integers, bytes
    let s = a.to_string();
    match F::<T, N>::from_str(&s) {
        Ok(x) => vals.push(("through string", x, av.clone())),
        Err(_) => return vh_core::fail("from_str", format!("from_str({:?}) failed", s)),
    }
    let bi = a.into_bigint();
    ensure_eq!(big(&bi.0), av, "into_bigint");
    match F::<T, N>::from_bigint(bi) {
        Some(x) => vals.push(("through BigInt", x, av.clone())),
        None => return vh_core::fail("from_bigint", format!("from_bigint(into_bigint(0x{:x})) = None", av)),
    }
    // the const construction path (what MontFp! and Fp::new use: a const Montgomery multiplication with its own reduction)
    vals.push(("through Fp::new (const path)", F::<T, N>::new(bi), av.clone()));
    vals.push(("through le bytes", F::<T, N>::from_le_bytes_mod_order(&bi.to_bytes_le()), av.clone()));
    vals.push(("through be bytes", F::<T, N>::from_be_bytes_mod_order(&bi.to_bytes_be()), av.clone()));
    vals.push(("through BigUint", F::<T, N>::from(av.clone()), av.clone()));
    vals.push(("a+p (BigUint)", F::<T, N>::from(&av + p), av.clone()));
    vals.push(("a+b", a + b, (&av + &bv) % p));
    vals.push(("b+a", b + a, (&av + &bv) % p));
    vals.push(("a-b", a - b, (&av + p - &bv) % p));
    vals.push(("-(b-a)", -(b - a), (&av + p - &bv) % p));
    o.evals((vals.len() * vals.len()) as u64);
    check_order(&vals)?;
    // the BigInt images are ordered like the integers too
    let bis: Vec<(&'static str, BigInt<N>, BigUint)> = vals.iter().map(|(l, v, k)| (*l, v.into_bigint(), k.clone())).collect();
    check_order(&bis)?;
    for (l, v, k) in &vals {
        ensure!(v.is_zero() == k.is_zero() && (*v == F::<T, N>::ZERO) == k.is_zero(), "is_zero", "[{}] 0x{:x}: is_zero()={}", l, k, v.is_zero());
        let one = *k == BigUint::one() % p;
        ensure!(v.is_one() == one && (*v == F::<T, N>::ONE) == one, "is_one", "[{}] 0x{:x}: is_one()={}", l, k, v.is_one());
        ensure_eq!(v.into_bigint().is_zero(), k.is_zero(), "bigint.is_zero");
    }
    Ok(())
}

/// every ordered pair of a tiny prime field
pub fn tiny_pairs<T: MontConfig<N>, const N: usize>(c: &FieldCtx, t: &mut Tape<'_>, o: &mut Obs) -> R {
    let pp: u64 = c.p.to_u64_digits()[0];
    let av = BigUint::from(t.below(pp));
    let bv = BigUint::from(t.below(pp));
    let a = fp_from_big::<T, N>(c, &av);
    let b = fp_from_big::<T, N>(c, &bv);
    o.show(|| format!("{}: a={} b={}", c.name, av, bv));
    o.nt(av == bv || (&av + 1u32) % &c.p == bv || (&bv + 1u32) % &c.p == av);
    let vals = vec![("a", a, av.clone()), ("b", b, bv.clone()), ("(a-b)+b", (a - b) + b, av.clone()), ("a+b-a", a + b - a, bv.clone())];
    check_order(&vals)?;
    for (_, v, k) in &vals {
        ensure_eq!(v.is_zero(), k.is_zero(), "is_zero");
        ensure_eq!(v.is_one(), *k == BigUint::one() % &c.p, "is_one");
    }
    Ok(())
}

/// `BigInt<N>`: cmp = integer order, eq, hash, is_zero
pub fn bigint_rel<const N: usize>(t: &mut Tape<'_>, o: &mut Obs) -> R {
    let mk = |l: &[u64]| {
        let mut x = [0u64; N];
        for (i, w) in l.iter().take(N).enumerate() {
            x[i] = *w;
        }
        x
    };
    let a = mk(&edge_int(t, N));
    let rel = t.weighted(&[4, 2, 3, 2, 2]);
    let (b, bcls): ([u64; N], &'static str) = match rel {
        0 => (mk(&edge_int(t, N)), "independent"),
        1 => (a, "same value"),
        2 => {
            let mut b = a;
            let i = t.idx(N);
            b[i] = match t.below(3) {
                0 => b[i].wrapping_add(1),
                1 => b[i].wrapping_sub(1),
                _ => {
                    let w = t.edge_u64();
                    if w == b[i] {
                        !w
                    } else {
                        w
                    }
                },
            };
            (b, "one limb differs")
        },
        3 => {
            // limbs reversed: separates most-significant-first from least-significant-first comparison
            let mut b = a;
            b.reverse();
            (b, "limbs reversed")
        },
        _ => {
            let mut b = a;
            let k = t.below(64 * N as u64);
            b[(k / 64) as usize] ^= 1u64 << (k % 64);
            (b, "one bit flipped")
        },
    };
    let c = mk(&edge_int(t, N));
    o.show(|| format!("BigInt<{}>: a={:x?} b={:x?} [{}] c={:x?}", N, a, b, bcls, c));
    o.class(bcls);
    o.class_if(a == b, "a and b denote the same integer");
    o.nt(rel != 0 || a == b);
    let vals = vec![
        ("a", BigInt::<N>::new(a), big(&a)),
        ("b", BigInt::<N>::new(b), big(&b)),
        ("c", BigInt::<N>::new(c), big(&c)),
        ("a (BigInt(..))", BigInt::<N>(a), big(&a)),
        ("zero", BigInt::<N>::zero(), BigUint::zero()),
        ("one", BigInt::<N>::one(), BigUint::one()),
        ("from(1u64)", BigInt::<N>::from(1u64), BigUint::one()),
        ("default", BigInt::<N>::default(), BigUint::zero()),
    ];
    o.evals(64);
    check_order(&vals)?;
    for (l, v, k) in &vals {
        ensure_eq!(v.is_zero(), k.is_zero(), "is_zero", "[{}]", l);
        ensure_eq!(BigUint::from(*v), k.clone(), "to_biguint", "[{}]", l);
        if let Ok(back) = BigInt::<N>::try_from(k.clone()) {
            ensure!(back == *v && h(&back) == h(v), "through_biguint", "[{}] {:?} vs {:?}", l, back, v);
        }
    }
    Ok(())
}

fn ext<F: OracleRepr>(out: &mut Vec<Rel>, name: &'static str, cases: u32) {
    let tw = Arc::new(TowerOf::<F>::new());
    let words = 16 + 4 * tw.t.degree() * (tw.prime.n + 4);
    out.push(Rel::new(format!("field/{}", name), cases, words, move |t, o| field_rel::<F>(name, &tw, t, o)));
}

pub fn relations(out: &mut Vec<Rel>, tier: Tier) {
    // prime fields of the zoo: generic relation + prime-only relation
    macro_rules! zoo {
        ($ty:ty, $cfg:ty, $n:expr, $name:expr, $g:expr, $s:expr) => {{
            ext::<$ty>(out, $name, tier.pick(300, 6000));
            let c = Arc::new(ctx_of::<$cfg, $n>($name));
            out.push(Rel::new(format!("prime/{}", $name), tier.pick(500, 10000), 6 * $n + 40, move |t, o| prime_rel::<$cfg, $n>(&c, t, o)));
        }};
    }
    vh_core::for_each_zoo_field!(zoo);
    macro_rules! tiny {
        ($ty:ty, $cfg:ty, $n:expr, $name:expr, $g:expr, $s:expr) => {{
            let c = Arc::new(ctx_of::<$cfg, $n>($name));
            let p = c.p.to_u64_digits()[0];
            if p <= 251 || (tier == Tier::Thorough && p <= 1100) {
                out.push(Rel::new(format!("tiny-pairs/{}", $name), 0, 2, move |t, o| tiny_pairs::<$cfg, $n>(&c, t, o)).exhaustive(move || Box::new((0..p).flat_map(move |a| (0..p).map(move |b| vec![a, b])))));
            }
        }};
    }
    vh_core::for_each_tiny_field!(tiny);
    // shipped prime fields
    macro_rules! shipped {
        ($cfg:ty, $n:expr, $name:expr) => {{
            ext::<Fp<MontBackend<$cfg, $n>, $n>>(out, $name, tier.pick(400, 8000));
            let c = Arc::new(ctx_of::<$cfg, $n>($name));
            out.push(Rel::new(format!("prime/{}", $name), tier.pick(800, 16000), 6 * $n + 40, move |t, o| prime_rel::<$cfg, $n>(&c, t, o)));
        }};
    }
    shipped!(ark_bls12_381::FqConfig, 6, "bls12_381.Fq");
    shipped!(ark_bls12_381::FrConfig, 4, "bls12_381.Fr");
    shipped!(ark_bn254::FqConfig, 4, "bn254.Fq");
    shipped!(ark_bn254::FrConfig, 4, "bn254.Fr");
    shipped!(ark_bw6_761::FqConfig, 12, "bw6_761.Fq");
    shipped!(ark_mnt6_298::FqConfig, 5, "mnt6_298.Fq");
    shipped!(ark_secp256k1::FqConfig, 4, "secp256k1.Fq");
    shipped!(ark_curve25519::FqConfig, 4, "curve25519.Fq");
    shipped!(ark_pallas::FqConfig, 4, "pallas.Fq");
    // extension towers
    let q = |n: u32| tier.pick(n, n * 20);
    ext::<ark_bls12_381::Fq2>(out, "bls12_381.Fq2", q(1000));
    ext::<ark_bls12_381::Fq6>(out, "bls12_381.Fq6", q(500));
    ext::<ark_bls12_381::Fq12>(out, "bls12_381.Fq12", q(250));
    ext::<ark_bn254::Fq2>(out, "bn254.Fq2", q(1500));
    ext::<ark_bn254::Fq6>(out, "bn254.Fq6", q(500));
    ext::<ark_bn254::Fq12>(out, "bn254.Fq12", q(250));
    ext::<ark_mnt4_298::Fq2>(out, "mnt4_298.Fq2", q(1500));
    ext::<ark_mnt4_298::Fq4>(out, "mnt4_298.Fq4", q(800));
    ext::<ark_mnt6_298::Fq3>(out, "mnt6_298.Fq3", q(1000));
    ext::<ark_mnt6_298::Fq6>(out, "mnt6_298.Fq6", q(500));
    ext::<ark_bw6_761::Fq3>(out, "bw6_761.Fq3", q(400));
    ext::<ark_bw6_761::Fq6>(out, "bw6_761.Fq6", q(200));
    ext::<ark_test_curves::bls12_381::Fq2>(out, "test.bls12_381.Fq2", q(800));
    ext::<ark_test_curves::mnt6_753::Fq3>(out, "test.mnt6_753.Fq3", q(300));
    // towers over zoo prime fields with unusual modulus shapes (no spare bit, top limb 2^63, full width) and
    // hand-written configurations
    macro_rules! z2 {
        ($cfg:ty, $name:expr) => {
            ext::<ark_ff::Fp2<$cfg>>(out, $name, q(500));
        };
    }
    crate::for_each_zoo_fp2!(z2);
    macro_rules! z3 {
        ($cfg:ty, $name:expr) => {
            ext::<ark_ff::Fp3<$cfg>>(out, $name, q(400));
        };
    }
    crate::for_each_zoo_fp3!(z3);
    // BigInt<N>
    macro_rules! bi {
        ($($n:expr),*) => {$(
            out.push(Rel::new(format!("bigint/N={}", $n), tier.pick(3000, 60000), 3 * $n + 24, move |t, o| bigint_rel::<$n>(t, o)));
        )*};
    }
    bi!(1, 2, 3, 4, 5, 6, 8, 11, 12, 13, 16, 24, 25);
}

#[allow(dead_code)]
fn _unused(_: &Elem) {}
