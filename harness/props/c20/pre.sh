#!/bin/bash
# C20 pre-step, called by /verif/check (cwd = harness, after the normal build) and by tools/mutant_run.sh.
# quick   : nothing to do - the binary contains the committed literal grid (src/grid.rs, seed 0).
# thorough: additionally compile a fresh literal grid generated from VERIF_SEED (build.rs runs
#           gen_literals.py --seed $VERIF_SEED --extra into $OUT_DIR; src/grid.rs is never modified) and rebuild.
#           The next ordinary `cargo build` (no C20_GRID_SEED) drops the extra grid again, so nothing has to be restored.
set -u
TIER="${1:-quick}"
cd "$(dirname "$0")/../.." || exit 2
if [ "$TIER" = "thorough" ]; then
  export CARGO_NET_OFFLINE=true
  C20_GRID_SEED="${VERIF_SEED:-0}" cargo build --release -p c20 >"${CARGO_TARGET_DIR:-target}/build-c20-extra.log" 2>&1 || {
    echo "c20 pre.sh: rebuild with the regenerated literal grid failed (see build-c20-extra.log)"; tail -n 20 "${CARGO_TARGET_DIR:-target}/build-c20-extra.log"; exit 2; }
fi
exit 0
