#!/usr/bin/python3
"""Generate the compile-time literal grid of C20 (stdlib only, deterministic from --seed).

Emits a Rust source file with `static` / `const` / run-time items built by `MontFp!("...")` and
`BigInt!("...")`, each paired with the literal text and with the integer that is written, as a signed
decimal string.  The Rust side parses the expected string with num-bigint, reduces it mod p and
compares raw limbs.

Only literals that must compile are emitted (see /repo/ff-macros/src/utils.rs `str_to_limbs_u64`):
  * optional leading '-' (fields only; `BigInt!` asserts a non-negative value),
  * then `0x`/`0X` (hex digits of either case), `0o`/`0O`, `0b`/`0B`, or plain decimal,
  * leading zeros after the prefix are fine,
  * the magnitude must be < 2^(64 N) (`assert!(limbs.len() <= N)`).

usage: gen_literals.py --seed S [--extra] --out FILE
  --extra : the "thorough" stream: fresh literals (different RNG stream, ~3000 literals).
"""
import argparse
import os
import random
import re
import sys

HERE = os.path.dirname(os.path.abspath(__file__))
ZOO = os.path.join(HERE, "..", "..", "core", "src", "zoo.rs")

# (zoo name, limbs)
FIELDS = [
    ("T97", 1), ("M61", 1), ("P64", 1), ("Gold", 1),
    ("P65", 2), ("M127", 2), ("P128", 2),
    ("P192", 3),
    ("Bls381Fr", 4), ("Secp256k1", 4),
    ("N5", 5),
    ("Bls381Fq", 6),
    ("B9", 9),
    ("N13", 13),
    # added later (own RNG stream per field, the literals of the fields above are unchanged): the limb counts that were
    # missing (7, 8, 10, 11, 12), a modulus with top limb exactly 2^63 / 2^63-1, and hand-written configurations
    ("Q2", 2), ("Top63", 2), ("S7", 7), ("N8", 8), ("B10", 10), ("S11", 11), ("N12", 12), ("H2q", 2), ("H4n", 4),
]
# literals per field for the fields added later (base stream; the extra stream uses 2/3 of it)
FEWER = {"Q2": 80, "Top63": 80, "S7": 80, "N8": 80, "B10": 80, "S11": 80, "N12": 80, "H2q": 80, "H4n": 80}
BIGINT_LIMBS = [1, 2, 3, 4, 6, 9, 13, 5, 7, 8, 10, 11, 12]
BIGINT_FEWER = {5: 40, 7: 40, 8: 40, 10: 40, 11: 40, 12: 40}


def zoo_moduli():
    src = open(ZOO).read()
    out = {}
    for m in re.finditer(r'#\[modulus = "(\d+)"\]\s*(?:#\[[a-z_]+ = "\d+"\]\s*)*pub struct (\w+)Cfg;', src):
        out[m.group(2)] = int(m.group(1))
    # hand-written configurations: the modulus is in the doc comment that gen_fields.py writes above the struct
    for m in re.finditer(r'/// hand-written `impl MontConfig` \(trait-default arithmetic\); p = (\d+)\s*pub struct (\w+)Cfg;', src):
        out[m.group(2)] = int(m.group(1))
    return out


def render(rng, mag, radix_sel):
    """text of a non-negative magnitude in the chosen notation (without sign)"""
    if radix_sel == "dec":
        body, prefix = str(mag), ""
    elif radix_sel == "hex":
        body = format(mag, "x")
        style = rng.randrange(3)
        if style == 1:
            body = body.upper()
        elif style == 2:
            body = "".join(c.upper() if rng.randrange(2) else c for c in body)
        prefix = rng.choice(["0x", "0x", "0X"])
    elif radix_sel == "oct":
        body, prefix = format(mag, "o"), rng.choice(["0o", "0O"])
    else:
        body, prefix = format(mag, "b"), rng.choice(["0b", "0B"])
    z = rng.choice([0, 0, 0, 0, 1, 1, 2, rng.randrange(3, 24)])
    return prefix + "0" * z + body


def magnitudes(rng, p, n):
    """edge-biased magnitudes in [0, 2^(64n))"""
    top = 1 << (64 * n)
    fixed = [0, 1, 2, 3, top - 1, top - 2, top >> 1, (top >> 1) - 1]
    if p is not None:
        fixed += [p - 1, p, p + 1, p - 2, (p - 1) // 2, (p + 1) // 2]
        if 2 * p < top:
            fixed += [2 * p - 1, 2 * p, 2 * p + 1]
        kmax = (top - 1) // p
        fixed += [kmax * p - 1, kmax * p, min(kmax * p + 1, top - 1)]
    ks = set()
    for j in range(n + 1):
        for d in (-2, -1, 0, 1, 2):
            k = 64 * j + d
            if 0 <= k < 64 * n:
                ks.add(k)
    for k in (4, 15, 16, 17, 31, 32, 33, 60):
        if k < 64 * n:
            ks.add(k)
    for k in sorted(ks):
        fixed += [1 << k, (1 << k) - 1, (1 << k) + 1]
    fixed = sorted(set(v for v in fixed if 0 <= v < top))

    def draw():
        c = rng.randrange(8)
        if c == 0 and p is not None:
            return rng.randrange(p)
        if c == 1 and p is not None:
            return (p + rng.randrange(-(1 << 16), 1 << 16)) % top
        if c == 2:
            return rng.randrange(1 << 16)
        if c == 3:
            return top - 1 - rng.randrange(1 << 16)
        if c == 4:
            # limbs from {0, all ones, uniform}
            v = 0
            for i in range(n):
                v |= rng.choice([0, (1 << 64) - 1, rng.getrandbits(64)]) << (64 * i)
            return v
        if c == 5:
            return rng.getrandbits(rng.randrange(1, 64 * n + 1))
        return rng.getrandbits(64 * n)

    return fixed, draw


def literals(rng, p, n, count, signed):
    """list of (literal text, expected signed decimal text): ~60% edge values, ~40% random values"""
    fixed, draw = magnitudes(rng, p, n)
    seen = set()

    def make(mag, radix, neg):
        text = ("-" if neg else "") + render(rng, mag, radix)
        if text in seen:
            return None
        seen.add(text)
        return (text, str(-mag if neg else mag))

    radices = ["dec", "hex", "oct", "bin"]
    combos = [(mag, r, neg) for mag in fixed for r in radices for neg in ([False, True] if signed else [False])]
    rng.shuffle(combos)
    # the most important edge values are always present in decimal and hex
    must = [0, 1, (1 << (64 * n)) - 1] + ([p - 1, p, p + 1] if p is not None else [])
    combos = [(m, r, False) for m in must for r in ("dec", "hex")] + combos
    items = []
    n_edge = (count * 6) // 10
    for mag, r, neg in combos:
        if len(items) >= n_edge:
            break
        it = make(mag, r, neg)
        if it:
            items.append(it)
    while len(items) < count:
        r = rng.choice(["dec", "dec", "hex", "hex", "oct", "bin"])
        it = make(draw(), r, signed and rng.randrange(3) == 0)
        if it:
            items.append(it)
    rng.shuffle(items)
    return items


def esc(s):
    return '"' + s + '"'


def main():
    ap = argparse.ArgumentParser()
    ap.add_argument("--seed", type=int, required=True)
    ap.add_argument("--extra", action="store_true")
    ap.add_argument("--out", required=True)
    a = ap.parse_args()
    moduli = zoo_moduli()
    stream = "extra" if a.extra else "base"
    per_field = 200 if a.extra else 300
    per_bigint = 40 if a.extra else 100
    n_const = 6
    n_rt = 12

    w = []
    w.append("// @generated by props/c20/gen_literals.py --seed %d%s -- do not edit" % (a.seed, " --extra" if a.extra else ""))
    w.append("use ark_ff::{BigInt, MontFp};")
    w.append("use vh_core::zoo;")
    w.append("pub const SEED: Option<u64> = Some(%d);" % a.seed)
    visit = []
    total = 0
    for name, n in FIELDS:
        p = moduli[name]
        assert (p.bit_length() + 63) // 64 == n, name
        rng = random.Random("c20/%d/%s/field/%s" % (a.seed, stream, name))
        cnt = per_field if name not in FEWER else (FEWER[name] * per_field) // 300
        items = literals(rng, p, n, cnt, True)
        total += len(items)
        ty = "zoo::%s" % name
        c_items, rt_items, s_items = items[:n_const], items[n_const:n_const + n_rt], items[n_const + n_rt:]
        w.append("pub static S_%s: &[(&str, &str, %s)] = &[" % (name, ty))
        for t, e in s_items:
            w.append("    (%s, %s, MontFp!(%s))," % (esc(t), esc(e), esc(t)))
        w.append("];")
        w.append("pub const C_%s: [(&str, &str, %s); %d] = [" % (name, ty, len(c_items)))
        for t, e in c_items:
            w.append("    (%s, %s, MontFp!(%s))," % (esc(t), esc(e), esc(t)))
        w.append("];")
        w.append("#[inline(never)]")
        w.append("pub fn rt_%s() -> Vec<(&'static str, &'static str, %s)> {" % (name, ty))
        w.append("    let mut v = Vec::new();")
        for t, e in rt_items:
            w.append("    v.push((%s, %s, std::hint::black_box(MontFp!(%s))));" % (esc(t), esc(e), esc(t)))
        w.append("    v")
        w.append("}")
        visit.append('    v.field::<zoo::%sCfg, %d>("%s", "static", S_%s.to_vec());' % (name, n, name, name))
        visit.append('    v.field::<zoo::%sCfg, %d>("%s", "const", C_%s.to_vec());' % (name, n, name, name))
        visit.append('    v.field::<zoo::%sCfg, %d>("%s", "runtime", rt_%s());' % (name, n, name, name))
    for n in BIGINT_LIMBS:
        rng = random.Random("c20/%d/%s/bigint/%d" % (a.seed, stream, n))
        cnt = per_bigint if n not in BIGINT_FEWER else (BIGINT_FEWER[n] * per_bigint) // 100
        items = literals(rng, None, n, cnt, False)
        total += len(items)
        c_items, s_items = items[:n_const], items[n_const:]
        w.append("pub static SB_%d: &[(&str, &str, BigInt<%d>)] = &[" % (n, n))
        for t, e in s_items:
            w.append("    (%s, %s, BigInt!(%s))," % (esc(t), esc(e), esc(t)))
        w.append("];")
        w.append("pub const CB_%d: [(&str, &str, BigInt<%d>); %d] = [" % (n, n, len(c_items)))
        for t, e in c_items:
            w.append("    (%s, %s, BigInt!(%s))," % (esc(t), esc(e), esc(t)))
        w.append("];")
        visit.append('    v.bigint::<%d>("static", SB_%d.to_vec());' % (n, n))
        visit.append('    v.bigint::<%d>("const", CB_%d.to_vec());' % (n, n))
    w.append("pub const LITERALS: usize = %d;" % total)
    w.append("pub fn visit<V: crate::Visit>(v: &mut V) {")
    w.extend(visit)
    w.append("}")
    with open(a.out, "w") as f:
        f.write("\n".join(w) + "\n")
    sys.stderr.write("gen_literals: %d literals -> %s\n" % (total, a.out))


if __name__ == "__main__":
    main()
