//! C20 — not implemented yet.
fn main() {
    eprintln!("C20: check not implemented");
    std::process::exit(2);
}
