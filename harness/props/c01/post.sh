#!/bin/bash
# both tiers: the same relations against ark-ff built with the `asm` feature (tools/asm_stage.sh)
# thorough tier: coverage-guided stage (libFuzzer target with in-target oracle), see tools/fuzz_stage.sh
ROOT="${VERIF_ROOT:-/verif}"
"$ROOT/tools/asm_stage.sh" C01 "${1:-quick}" || exit $?
[ "${1:-quick}" = "thorough" ] || exit 0
exec "$ROOT/tools/fuzz_stage.sh" C01 field_ops 250000 260 8
