//! C01 deepening: operator / trait spellings that users call but `binops` does not, long inner products
//! (chunked branch of `sum_of_products` for fields with many spare bits), canonicity of sampled elements
//! at the rejection boundary, correlated operand pairs at the reduction boundaries.
use crate::expect;
use ark_ff::fields::{Field, MontConfig, PrimeField};
use ark_ff::{AdditiveGroup, BigInt, One, Zero};
use ark_std::rand::RngCore;
use num_bigint::BigUint;
use vh_core::engine::{no_panic, Obs, Tape, R};
use vh_core::gen::*;
use vh_core::modint::*;
use vh_core::{ensure, ensure_eq};

fn hexs(v: &BigUint) -> String {
    format!("0x{:x}", v)
}

/// Second operand correlated with the first one *in the Montgomery domain* (the domain in which the
/// conditional subtractions and the `b > a` comparison of `sub_assign` are decided).
/// Falls back to a simpler class when the requested relation has no solution in [0, p).
pub fn correlated_second(t: &mut Tape<'_>, c: &FieldCtx, av: &BigUint) -> (BigUint, &'static str) {
    let p = &c.p;
    let n = c.n;
    let am = big(&c.to_mont(av));
    let top = pow2(64 * n);
    let from_mont = |bm: &BigUint| (bm * &c.rinv) % p;
    match t.below(8) {
        0 => (av.clone(), "same"),
        1 => (negm(av, p), "neg"),
        2 => ((p + p - av - 1u32) % p, "neg-1"),
        3 => {
            // Montgomery limbs add up to p + d, d in -2..=2, or to p + (an edge word placed in any limb)
            let s = if t.bool() { p + BigUint::from(t.below(5)) - 2u32 } else { p + (BigUint::from(t.edge_u64()) << (64 * t.below(n as u64) as usize)) };
            if s >= am && &s - &am < *p {
                (from_mont(&(&s - &am)), "mont-sum=p+d")
            } else {
                (negm(av, p), "neg")
            }
        },
        4 => {
            // Montgomery limbs add up to 2^(64N) + d, d in -2..=2 (carry out of the top limb with a tiny or zero
            // remainder); has a solution only when p > 2^(64N-1)
            let s = &top + BigUint::from(t.below(5)) - 2u32;
            if s >= am && &s - &am < *p {
                (from_mont(&(&s - &am)), "mont-sum=2^64N+d")
            } else {
                ((p + p - av - 1u32) % p, "neg-1")
            }
        },
        5 => {
            // Montgomery limbs differ by +-1 or by +-1 in a single limb (the `b.0 > a.0` decision of sub_assign)
            let d = if t.bool() { BigUint::one() } else { pow2(64 * t.below(n as u64) as usize) };
            let bm = if t.bool() { (&am + &d) % p } else { (p + &am - (&d % p)) % p };
            (from_mont(&bm), "mont-neighbour")
        },
        6 => match invm(av, p) {
            Some(i) => (i, "inverse"),
            None => (BigUint::zero(), "inverse"),
        },
        _ => {
            // canonical integers add up to p + d / differ by one
            let d = BigUint::from(t.below(3));
            ((p + p + d - av - 1u32) % p, "sum=p+-1")
        },
    }
}

/// every operator spelling of `Fp` that `binops` does not call, plus the `Field`/`PrimeField`
/// convenience methods that are the identity / a plain product on a prime field
pub fn spellings<T: MontConfig<N>, const N: usize>(c: &FieldCtx, t: &mut Tape<'_>, o: &mut Obs) -> R {
    let p = &c.p;
    let (a, av, ac) = edge_fp::<T, N>(t, c);
    let (b, bv, bc) = if t.chance(1, 4) {
        let (v, cls) = correlated_second(t, c, &av);
        (fp_from_big::<T, N>(c, &v), v, cls)
    } else {
        edge_fp::<T, N>(t, c)
    };
    o.show(|| format!("{}: spellings a={} [{}] b={} [{}]", c.name, hexs(&av), ac, hexs(&bv), bc));
    o.nt(av > BigUint::one() && bv > BigUint::one() && (&av * &bv >= *p || &av + &bv >= *p));
    o.class(bc);
    o.evals(40);
    let mut bm = b;

    // ---- add
    let want = addm(&av, &bv, p);
    expect(c, &(a + &mut bm), &want, "add.mut")?;
    let mut x = a;
    x += &mut bm;
    expect(c, &x, &want, "add_assign.mut")?;
    // ---- sub
    let want = subm(&av, &bv, p);
    expect(c, &(a - &b), &want, "sub.ref")?;
    expect(c, &(a - &mut bm), &want, "sub.mut")?;
    let mut x = a;
    x -= b;
    expect(c, &x, &want, "sub_assign.owned")?;
    let mut x = a;
    x -= &mut bm;
    expect(c, &x, &want, "sub_assign.mut")?;
    // ---- mul
    let want = mulm(&av, &bv, p);
    expect(c, &(a * &b), &want, "mul.ref")?;
    expect(c, &(a * &mut bm), &want, "mul.mut")?;
    let mut x = a;
    x *= b;
    expect(c, &x, &want, "mul_assign.owned")?;
    let mut x = a;
    x *= &mut bm;
    expect(c, &x, &want, "mul_assign.mut")?;
    expect(c, &a.mul_by_base_prime_field(&b), &want, "mul_by_base_prime_field")?;
    // ---- div (documented panic for a zero divisor: not generated)
    if !bv.is_zero() {
        let want = mulm(&av, &invm(&bv, p).unwrap(), p);
        expect(c, &(a / &b), &want, "div.ref")?;
        expect(c, &(&a / &b), &want, "div.refref")?;
        expect(c, &(a / &mut bm), &want, "div.mut")?;
        let mut x = a;
        x /= b;
        expect(c, &x, &want, "div_assign.owned")?;
        let mut x = a;
        x /= &mut bm;
        expect(c, &x, &want, "div_assign.mut")?;
    }
    expect(c, &bm, &bv, "mut-operand-changed")?;

    // ---- iterator folds, owned and borrowed, with the empty and the singleton iterator
    let v = [a, b, a, b, b];
    let k = t.below(6) as usize;
    let mut ws = BigUint::zero();
    let mut wp = BigUint::one() % p;
    for x in [&av, &bv, &av, &bv, &bv].iter().take(k) {
        ws = addm(&ws, x, p);
        wp = mulm(&wp, x, p);
    }
    o.class_if(k == 0, "empty-iterator");
    expect(c, &v[..k].iter().copied().sum::<F<T, N>>(), &ws, "sum.owned")?;
    expect(c, &v[..k].iter().sum::<F<T, N>>(), &ws, "sum.ref")?;
    expect(c, &v[..k].iter().copied().product::<F<T, N>>(), &wp, "product.owned")?;
    expect(c, &v[..k].iter().product::<F<T, N>>(), &wp, "product.ref")?;

    // ---- conversions through the From/Into impls
    let bi: BigInt<N> = a.into();
    ensure_eq!(big(&bi.0), av, "into.BigInt");
    expect(c, &F::<T, N>::from(bi), &av, "from.BigInt")?;
    let bi2 = BigInt::<N>::from(b);
    ensure_eq!(big(&bi2.0), bv, "BigInt.from");

    // ---- the prime field seen as a degree-one extension of itself
    ensure_eq!(F::<T, N>::extension_degree(), 1, "extension_degree");
    ensure_eq!(big(F::<T, N>::characteristic()), *p, "characteristic");
    expect(c, &F::<T, N>::from_base_prime_field(a), &av, "from_base_prime_field")?;
    let els: Vec<F<T, N>> = a.to_base_prime_field_elements().collect();
    ensure!(els.len() == 1, "to_base_prime_field_elements.len", "{} elements", els.len());
    expect(c, &els[0], &av, "to_base_prime_field_elements")?;
    match F::<T, N>::from_base_prime_field_elems([a]) {
        Some(x) => expect(c, &x, &av, "from_base_prime_field_elems")?,
        None => return vh_core::fail("from_base_prime_field_elems.none", "None for one element"),
    }
    ensure!(F::<T, N>::from_base_prime_field_elems([a, b]).is_none(), "from_base_prime_field_elems.two", "Some for two elements");
    ensure!(F::<T, N>::from_base_prime_field_elems(core::iter::empty()).is_none(), "from_base_prime_field_elems.empty", "Some for no element");
    let pw = t.below(4) as usize;
    expect(c, &a.frobenius_map(pw), &av, "frobenius_map")?;
    let mut x = a;
    x.frobenius_map_in_place(pw);
    expect(c, &x, &av, "frobenius_map_in_place")?;

    // ---- exponent given as a BigInt / an array (any AsRef<[u64]>)
    if t.chance(1, 6) {
        let e = b.into_bigint();
        let want = powm(&av, &bv, p);
        expect(c, &a.pow(e), &want, "pow.BigInt")?;
    }
    let e1 = [t.edge_u64()];
    expect(c, &a.pow(e1), &powm(&av, &BigUint::from(e1[0]), p), "pow.array")?;

    // ---- constants and predicates
    expect(c, &F::<T, N>::zero(), &BigUint::zero(), "zero()")?;
    expect(c, &F::<T, N>::one(), &(BigUint::one() % p), "one()")?;
    expect(c, &<F<T, N> as AdditiveGroup>::ZERO, &BigUint::zero(), "ZERO")?;
    expect(c, &<F<T, N> as Field>::ONE, &(BigUint::one() % p), "ONE")?;
    expect(c, &F::<T, N>::default(), &BigUint::zero(), "default")?;
    let mut x = a;
    x.set_zero();
    expect(c, &x, &BigUint::zero(), "set_zero")?;
    let mut x = a;
    x.set_one();
    expect(c, &x, &(BigUint::one() % p), "set_one")?;
    // `Ord` is documented (on the impl) to compare the canonical integers
    ensure_eq!(a.cmp(&b), av.cmp(&bv), "cmp");
    ensure_eq!(a.partial_cmp(&b), Some(av.cmp(&bv)), "partial_cmp");
    ensure_eq!(a == b, av == bv, "eq");
    // double / neg through the by-value helpers of AdditiveGroup
    let mut x = b;
    x.double_in_place().neg_in_place();
    expect(c, &x, &negm(&addm(&bv, &bv, p), p), "double_in_place.neg_in_place")?;
    Ok(())
}

fn sop_m<T: MontConfig<N>, const N: usize, const M: usize>(c: &FieldCtx, t: &mut Tape<'_>, o: &mut Obs) -> R {
    let mut a = [F::<T, N>::zero(); M];
    let mut b = [F::<T, N>::zero(); M];
    let mut want = BigUint::zero();
    let mode = t.weighted(&[3, 2, 1]);
    for i in 0..M {
        let (xv, yv) = match mode {
            // every operand within 2 of p: the accumulator of the interleaved algorithm is as full as it can get
            1 => (&c.p - 1u32 - BigUint::from(t.below(3)), &c.p - 1u32 - BigUint::from(t.below(3))),
            // every *Montgomery representation* within 2 of p
            2 => {
                let m1 = &c.p - 1u32 - BigUint::from(t.below(3));
                let m2 = &c.p - 1u32 - BigUint::from(t.below(3));
                ((m1 * &c.rinv) % &c.p, (m2 * &c.rinv) % &c.p)
            },
            _ => (edge_value(t, c).0, edge_value(t, c).0),
        };
        a[i] = fp_from_big::<T, N>(c, &xv);
        b[i] = fp_from_big::<T, N>(c, &yv);
        want += &xv * &yv;
    }
    // chunk size of the interleaved fast path (1 = naive)
    let spare = 64 * N - c.bits;
    let chunk = if spare < 2 { 1 } else { 2 * spare - 1 };
    o.show(|| format!("{}: sum_of_products::<{}> mode={} (fast-path chunk {})", c.name, M, mode, chunk));
    o.nt(want >= c.p);
    o.class(match mode {
        1 => "all-operands-near-p",
        2 => "all-mont-operands-near-p",
        _ => "edge-operands",
    });
    o.class_if(M == 0, "empty-inner-product");
    o.class_if(chunk > 1 && M > chunk, "longer-than-one-chunk");
    o.class_if(chunk > 11 && M > chunk, "longer-than-one-chunk(chunk>11)");
    o.class_if(chunk > 1 && M == chunk, "exactly-one-full-chunk");
    o.class_if(chunk > 1 && M % chunk != 0 && M > chunk, "ragged-last-chunk");
    let want = want % &c.p;
    let got = no_panic("sum_of_products", || F::<T, N>::sum_of_products(&a, &b))?;
    expect(c, &got, &want, "sum_of_products")
}

/// inner products longer than `binops`' M <= 11: 7, 9 (chunk sizes of 4 / 5 spare bits), 12, 16, 30, 44 (one more than the
/// chunk sizes 11, 15, 29, 43 of P250, B5, mnt4_753, mnt6_298), 64, and the empty product M = 0
pub fn sop_large<T: MontConfig<N>, const N: usize>(c: &FieldCtx, t: &mut Tape<'_>, o: &mut Obs) -> R {
    match t.below(8) {
        7 => sop_m::<T, N, 0>(c, t, o),
        0 => sop_m::<T, N, 7>(c, t, o),
        1 => sop_m::<T, N, 9>(c, t, o),
        2 => sop_m::<T, N, 12>(c, t, o),
        3 => sop_m::<T, N, 16>(c, t, o),
        4 => sop_m::<T, N, 30>(c, t, o),
        5 => sop_m::<T, N, 44>(c, t, o),
        _ => sop_m::<T, N, 64>(c, t, o),
    }
}

/// RNG that replays a prepared list of words, then continues with splitmix64
struct ScriptedRng {
    q: Vec<u64>,
    i: usize,
    s: u64,
}
impl RngCore for ScriptedRng {
    fn next_u32(&mut self) -> u32 {
        self.next_u64() as u32
    }
    fn next_u64(&mut self) -> u64 {
        if self.i < self.q.len() {
            self.i += 1;
            return self.q[self.i - 1];
        }
        self.s = self.s.wrapping_add(0x9e37_79b9_7f4a_7c15);
        let mut z = self.s;
        z = (z ^ (z >> 30)).wrapping_mul(0xbf58_476d_1ce4_e5b9);
        z = (z ^ (z >> 27)).wrapping_mul(0x94d0_49bb_1331_11eb);
        z ^ (z >> 31)
    }
    fn fill_bytes(&mut self, dest: &mut [u8]) {
        for ch in dest.chunks_mut(8) {
            let w = self.next_u64().to_le_bytes();
            ch.copy_from_slice(&w[..ch.len()]);
        }
    }
    fn try_fill_bytes(&mut self, dest: &mut [u8]) -> Result<(), ark_std::rand::Error> {
        self.fill_bytes(dest);
        Ok(())
    }
}

/// `UniformRand::rand` / `Standard` sampling: whatever the generator yields, the element handed back is canonical
/// (raw Montgomery limbs < p). The scripted generator first yields limb vectors that sit on the rejection boundary
/// (p, p + small, 2^bits - 1, p with junk in the unused top bits), so an off-by-one acceptance shows.
pub fn rand_rel<T: MontConfig<N>, const N: usize>(c: &FieldCtx, t: &mut Tape<'_>, o: &mut Obs) -> R {
    use ark_std::UniformRand;
    let p = &c.p;
    let k = t.below(4) as usize;
    let mut q = Vec::new();
    let mut desc = Vec::new();
    let shave = 64 * N - c.bits;
    for _ in 0..k {
        let (v, name) = match t.below(5) {
            0 => (p.clone(), "p"),
            1 => (p + BigUint::from(t.below(3)) + 1u32, "p+small"),
            2 => (pow2(c.bits) - 1u32, "2^bits-1"),
            3 => (p - 1u32 - BigUint::from(t.below(2)), "p-1-small"),
            _ => (big(&edge_limbs(t, N)), "edge-limbs"),
        };
        let mut l = to_limbs(&(v % pow2(64 * N)), N);
        // junk in the bits above the modulus size: must be masked away
        if shave > 0 && shave < 64 && t.bool() {
            l[N - 1] |= t.u64() << (64 - shave);
        }
        desc.push(name);
        q.extend(l);
    }
    let mut rng = ScriptedRng { q, i: 0, s: t.u64() };
    o.show(|| format!("{}: rand() with scripted candidates {:?}", c.name, desc));
    o.nt(k > 0);
    o.class_if(desc.contains(&"p"), "candidate=p");
    o.class_if(desc.contains(&"2^bits-1"), "candidate=2^bits-1");
    let x = no_panic("rand", || F::<T, N>::rand(&mut rng))?;
    let raw = big(&(x.0).0);
    ensure!(raw < *p, "rand.noncanonical", "rand() returned raw limbs {} >= p", hexs(&raw));
    let y: F<T, N> = no_panic("rand.sample", || {
        use ark_std::rand::Rng;
        rng.gen()
    })?;
    ensure!(big(&(y.0).0) < *p, "rand.noncanonical", "gen() returned raw limbs >= p");
    Ok(())
}
