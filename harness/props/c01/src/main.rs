//! C01 — prime-field operations equal integer arithmetic modulo p.
use ark_ff::fields::{Field, MontConfig, PrimeField};
use ark_ff::AdditiveGroup;
use ark_ff::{BigInt, BigInteger, One, Zero};
use num_bigint::BigUint;

use std::str::FromStr;
use std::sync::Arc;
use vh_core::engine::{no_panic, Obs, PropSpec, Rel, Tape, Tier, R};
use vh_core::gen::*;
use vh_core::modint::*;
use vh_core::{ensure, ensure_eq};

mod extra;
#[allow(non_camel_case_types)]
mod bigzoo;

fn hexs(v: &BigUint) -> String {
    format!("0x{:x}", v)
}

/// result must be the canonical Montgomery encoding of `want`
pub(crate) fn expect<T: MontConfig<N>, const N: usize>(c: &FieldCtx, got: &F<T, N>, want: &BigUint, what: &str) -> R {
    let m = c.to_mont(want);
    if (got.0).0[..] != m[..] {
        let (v, canon) = fp_to_big::<T, N>(c, got);
        return Err(vh_core::Fail {
            sig: what.to_string(),
            msg: format!(
                "{}: got value {} (raw limbs {:x?}, canonical={}) expected {}",
                what,
                hexs(&v),
                (got.0).0,
                canon,
                hexs(want)
            ),
        });
    }
    Ok(())
}

fn binops<T: MontConfig<N>, const N: usize>(c: &FieldCtx, t: &mut Tape<'_>, o: &mut Obs) -> R {
    let p = &c.p;
    let (a, av, ac) = edge_fp::<T, N>(t, c);
    let correlated = t.chance(1, 8);
    let (b, bv, bc) = if correlated {
        // correlated second operand: a, -a, -a-1, a^-1, and operands whose Montgomery limbs add up to p+d / 2^(64N)+d
        // or differ from a's by one (in one limb) - see extra::correlated_second
        let (v, cls) = extra::correlated_second(t, c, &av);
        (fp_from_big::<T, N>(c, &v), v, cls)
    } else {
        edge_fp::<T, N>(t, c)
    };
    o.show(|| format!("{}: a={} [{}] b={} [{}]", c.name, hexs(&av), ac, hexs(&bv), bc));
    let nontriv = av > BigUint::one() && bv > BigUint::one() && (&av * &bv >= *p || &av + &bv >= *p);
    o.nt(nontriv);
    o.class(ac);
    o.class_if(correlated, bc);
    o.class_if(&av + &bv >= *p, "add-wraps");
    o.class_if(av < bv, "sub-borrows");
    {
        let am = big(&(a.0).0);
        let bm = big(&(b.0).0);
        o.class_if(am + bm >= pow2(64 * N), "mont-add-carry-out");
    }
    o.evals(20);
    // add
    let want = addm(&av, &bv, p);
    expect(c, &(a + b), &want, "add")?;
    expect(c, &(a + &b), &want, "add.ref")?;
    expect(c, &(&a + &b), &want, "add.refref")?;
    let mut x = a;
    x += b;
    expect(c, &x, &want, "add_assign")?;
    let mut x = a;
    x += &b;
    expect(c, &x, &want, "add_assign.ref")?;
    // sub
    let want = subm(&av, &bv, p);
    expect(c, &(a - b), &want, "sub")?;
    expect(c, &(&a - &b), &want, "sub.refref")?;
    let mut x = a;
    x -= &b;
    expect(c, &x, &want, "sub_assign")?;
    // neg
    let want = negm(&av, p);
    expect(c, &(-a), &want, "neg")?;
    let mut x = a;
    x.neg_in_place();
    expect(c, &x, &want, "neg_in_place")?;
    // double
    let want = addm(&av, &av, p);
    expect(c, &a.double(), &want, "double")?;
    let mut x = a;
    x.double_in_place();
    expect(c, &x, &want, "double_in_place")?;
    // mul
    let want = mulm(&av, &bv, p);
    expect(c, &(a * b), &want, "mul")?;
    expect(c, &(&a * &b), &want, "mul.refref")?;
    let mut x = a;
    x *= &b;
    expect(c, &x, &want, "mul_assign")?;
    // square
    let want = mulm(&av, &av, p);
    expect(c, &a.square(), &want, "square")?;
    let mut x = a;
    x.square_in_place();
    expect(c, &x, &want, "square_in_place")?;
    // inverse
    match (a.inverse(), invm(&av, p)) {
        (None, _) => ensure!(av.is_zero(), "inverse.none", "inverse({}) returned None", hexs(&av)),
        (Some(i), Some(w)) => {
            ensure!(!av.is_zero(), "inverse.zero", "inverse(0) returned Some");
            expect(c, &i, &w, "inverse")?;
            let mut x = a;
            ensure!(x.inverse_in_place().is_some(), "inverse_in_place.none", "None");
            expect(c, &x, &w, "inverse_in_place")?;
        },
        (Some(_), None) => ensure!(false, "inverse.zero", "inverse(0) returned Some"),
    }
    // div
    if !bv.is_zero() {
        let want = mulm(&av, &invm(&bv, p).unwrap(), p);
        expect(c, &(a / b), &want, "div")?;
        let mut x = a;
        x /= &b;
        expect(c, &x, &want, "div_assign")?;
    }
    // predicates
    ensure_eq!(a.is_zero(), av.is_zero(), "is_zero");
    ensure_eq!(a.is_one(), av.is_one() || (p == &BigUint::from(1u32)), "is_one");
    Ok(())
}

fn pow_rel<T: MontConfig<N>, const N: usize>(c: &FieldCtx, t: &mut Tape<'_>, o: &mut Obs) -> R {
    let (a, av, ac) = edge_fp::<T, N>(t, c);
    let e = match t.weighted(&[3, 2, 2, 2]) {
        0 => edge_int(t, 2 * N + 1),
        1 => to_limbs(&(&c.p - 1u32), N),
        2 => to_limbs(&(&c.p - 2u32), N),
        _ => {
            let mut v = edge_int(t, N);
            v.extend(std::iter::repeat(0).take(t.below(3) as usize));
            v
        },
    };
    let ev = big(&e);
    o.show(|| format!("{}: a={} [{}] exp limbs={:x?}", c.name, hexs(&av), ac, e));
    o.nt(av > BigUint::one() && ev > BigUint::one());
    o.class_if(e.len() > N, "exp-longer-than-N");
    o.class_if(e.last() == Some(&0), "exp-leading-zero-limb");
    o.class_if(e.is_empty(), "exp-empty");
    let want = powm(&av, &ev, &c.p);
    expect(c, &a.pow(&e), &want, "pow")?;
    // pow_with_table
    let nb = ev.bits() as usize;
    let mut table = Vec::new();
    let mut cur = a;
    for _ in 0..nb.max(1) {
        table.push(cur);
        cur.square_in_place();
    }
    match F::<T, N>::pow_with_table(&table, &e) {
        Some(r) => expect(c, &r, &want, "pow_with_table")?,
        None => ensure!(false, "pow_with_table.none", "None with a table of {} entries for a {}-bit exponent", table.len(), nb),
    }
    if nb >= 2 {
        let short = &table[..nb - 1];
        ensure!(F::<T, N>::pow_with_table(short, &e).is_none(), "pow_with_table.short", "Some with a table that misses the top power");
    }
    Ok(())
}

fn sop_m<T: MontConfig<N>, const N: usize, const M: usize>(c: &FieldCtx, t: &mut Tape<'_>, o: &mut Obs) -> R {
    let mut a = [F::<T, N>::zero(); M];
    let mut b = [F::<T, N>::zero(); M];
    let mut want = BigUint::zero();
    let mut desc = Vec::new();
    let allmax = t.chance(1, 6);
    for i in 0..M {
        let (x, xv, _) = if allmax { let v = &c.p - 1u32 - BigUint::from(t.below(3)); (fp_from_big::<T, N>(c, &v), v, "max") } else { edge_fp::<T, N>(t, c) };
        let (y, yv, _) = if allmax { let v = &c.p - 1u32 - BigUint::from(t.below(3)); (fp_from_big::<T, N>(c, &v), v, "max") } else { edge_fp::<T, N>(t, c) };
        a[i] = x;
        b[i] = y;
        want += &xv * &yv;
        if i < 3 {
            desc.push(format!("({},{})", hexs(&xv), hexs(&yv)));
        }
    }
    o.show(|| format!("{}: sum_of_products::<{}> first pairs {:?} allmax={}", c.name, M, desc, allmax));
    o.nt(want >= c.p && M >= 2);
    o.class_if(allmax, "all-operands-near-p");
    let want = want % &c.p;
    let got = F::<T, N>::sum_of_products(&a, &b);
    expect(c, &got, &want, "sum_of_products")
}

fn sop<T: MontConfig<N>, const N: usize>(c: &FieldCtx, t: &mut Tape<'_>, o: &mut Obs) -> R {
    // chunk size of the fast path is 2*(64N - bits) - 1: 1 (naive), 3, 5, ... ; M values sit on both sides
    match t.below(8) {
        0 => sop_m::<T, N, 1>(c, t, o),
        1 => sop_m::<T, N, 2>(c, t, o),
        2 => sop_m::<T, N, 3>(c, t, o),
        3 => sop_m::<T, N, 4>(c, t, o),
        4 => sop_m::<T, N, 5>(c, t, o),
        5 => sop_m::<T, N, 6>(c, t, o),
        6 => sop_m::<T, N, 8>(c, t, o),
        _ => sop_m::<T, N, 11>(c, t, o),
    }
}

fn batch<T: MontConfig<N>, const N: usize>(c: &FieldCtx, t: &mut Tape<'_>, o: &mut Obs) -> R {
    let len = match t.weighted(&[1, 1, 4, 2]) {
        0 => 0,
        1 => 1,
        2 => t.range(2, 12) as usize,
        _ => t.range(13, 40) as usize,
    };
    let mut v = Vec::new();
    let mut vals = Vec::new();
    let zero_heavy = t.chance(1, 4);
    for _ in 0..len {
        if zero_heavy && t.bool() {
            v.push(F::<T, N>::zero());
            vals.push(BigUint::zero());
        } else {
            let (x, xv, _) = edge_fp::<T, N>(t, c);
            v.push(x);
            vals.push(xv);
        }
    }
    let (k, kv, _) = edge_fp::<T, N>(t, c);
    let nz = vals.iter().filter(|x| x.is_zero()).count();
    o.show(|| format!("{}: batch_inversion_and_mul len={} zeros={} coeff={} first={:?}", c.name, len, nz, hexs(&kv), vals.iter().take(3).map(hexs).collect::<Vec<_>>()));
    o.nt(len >= 2 && nz < len);
    o.class_if(nz > 0, "batch-with-zeros");
    o.class_if(nz == len && len > 0, "batch-all-zeros");
    let mut w = v.clone();
    no_panic("batch_inversion", || ark_ff::batch_inversion(&mut w))?;
    let mut w2 = v.clone();
    no_panic("batch_inversion_and_mul", || ark_ff::batch_inversion_and_mul(&mut w2, &k))?;
    for i in 0..len {
        let inv = if vals[i].is_zero() { BigUint::zero() } else { invm(&vals[i], &c.p).unwrap() };
        expect(c, &w[i], &inv, "batch_inversion")?;
        expect(c, &w2[i], &mulm(&inv, &kv, &c.p), "batch_inversion_and_mul")?;
    }
    // Sum / Product over the same vector
    let s: F<T, N> = v.iter().sum();
    let pr: F<T, N> = v.iter().product();
    let mut ws = BigUint::zero();
    let mut wp = BigUint::one() % &c.p;
    for x in &vals {
        ws = addm(&ws, x, &c.p);
        wp = mulm(&wp, x, &c.p);
    }
    expect(c, &s, &ws, "iter.sum")?;
    expect(c, &pr, &wp, "iter.product")?;
    Ok(())
}

fn conv<T: MontConfig<N>, const N: usize>(c: &FieldCtx, t: &mut Tape<'_>, o: &mut Obs) -> R {
    let p = &c.p;
    match t.below(7) {
        0 => {
            // from_bigint on arbitrary N-limb integers: None exactly when >= p
            let raw = match t.below(6) {
                0 => big(&t.limbs(N)),
                1 => p + BigUint::from(t.below(4)),
                2 => {
                    let d = BigUint::from(t.below(4) + 1);
                    if *p >= d { p - d } else { BigUint::zero() }
                },
                3 => big(&edge_limbs(t, N)),
                // p +- (an edge word placed in any limb): same top limbs as p, lower limbs far from p's
                4 => {
                    if t.chance(1, 4) {
                        // exact multiples of p that fit
                        let kmax = ((pow2(64 * N) - 1u32) / p).to_u64_digits().first().copied().unwrap_or(1).max(1);
                        p * BigUint::from(1 + t.below(kmax.min(1 << 20)))
                    } else {
                        p + (BigUint::from(t.edge_u64()) << (64 * t.below(N as u64) as usize))
                    }
                },
                _ => {
                    let d = BigUint::from(t.edge_u64()) << (64 * t.below(N as u64) as usize);
                    if *p >= d { p - d } else { BigUint::zero() }
                },
            };
            let raw = raw % pow2(64 * N);
            let mut l = [0u64; N];
            l.copy_from_slice(&to_limbs(&raw, N));
            o.show(|| format!("{}: from_bigint({})", c.name, hexs(&raw)));
            o.nt(raw > BigUint::one());
            o.class_if(raw >= *p, "bigint>=p");
            // the const constructor (also a run-time function): Montgomery conversion of any N-limb integer
            expect(c, &F::<T, N>::new(BigInt::new(l)), &(&raw % p), "Fp::new")?;
            let r = F::<T, N>::from_bigint(BigInt::new(l));
            if raw >= *p {
                ensure!(r.is_none(), "from_bigint.accepts>=p", "from_bigint({}) returned Some for a value >= p", hexs(&raw));
            } else {
                let x = match r {
                    Some(x) => x,
                    None => return vh_core::fail("from_bigint.rejects<p", format!("from_bigint({}) = None", hexs(&raw))),
                };
                expect(c, &x, &raw, "from_bigint")?;
                let back = x.into_bigint();
                ensure_eq!(big(&back.0), raw, "into_bigint");
                let bu: BigUint = x.into();
                ensure_eq!(bu, raw, "into_biguint");
            }
            Ok(())
        },
        1 => {
            // From<BigUint> of arbitrary size
            let raw = big(&edge_int(t, 2 * N + 1));
            o.show(|| format!("{}: From<BigUint>({})", c.name, hexs(&raw)));
            o.nt(raw >= *p);
            let x = F::<T, N>::from(raw.clone());
            expect(c, &x, &(raw % p), "from_biguint")
        },
        2 => {
            // bytes mod order
            let mb = (c.bits + 7) / 8;
            let len = match t.weighted(&[1, 2, 3, 3]) {
                0 => 0,
                1 => t.pick(&[mb - 1, mb, mb + 1]),
                2 => t.range(0, mb as u64) as usize,
                _ => t.range(mb as u64, 3 * mb as u64 + 1) as usize,
            };
            let bytes = match t.below(3) {
                0 => vec![0xffu8; len],
                1 => {
                    let mut b = t.bytes(len);
                    for x in b.iter_mut() {
                        if t.chance(1, 3) {
                            *x = 0xff
                        }
                    }
                    b
                },
                _ => t.bytes(len),
            };
            o.show(|| format!("{}: from_{{le,be}}_bytes_mod_order({} bytes) {:02x?}", c.name, len, &bytes[..len.min(8)]));
            let le = BigUint::from_bytes_le(&bytes);
            let be = BigUint::from_bytes_be(&bytes);
            o.nt(le >= *p || be >= *p);
            o.class_if(len > mb, "bytes-longer-than-modulus");
            expect(c, &F::<T, N>::from_le_bytes_mod_order(&bytes), &(le % p), "from_le_bytes_mod_order")?;
            expect(c, &F::<T, N>::from_be_bytes_mod_order(&bytes), &(be % p), "from_be_bytes_mod_order")
        },
        3 => {
            // machine integers
            let w = t.edge_u64();
            let w2 = t.edge_u64();
            let u = ((w2 as u128) << 64) | w as u128;
            let u = match t.below(4) {
                0 => u128::MAX,
                1 => w as u128,
                _ => u,
            };
            let i = match t.below(4) {
                0 => i128::MIN,
                1 => i128::MAX,
                2 => -(w as i128),
                _ => u as i128,
            };
            o.show(|| format!("{}: From<ints> u128={} i128={}", c.name, u, i));
            o.nt(BigUint::from(u) >= *p);
            let sm = |v: i128| -> BigUint {
                let a = BigUint::from(v.unsigned_abs()) % p;
                if v < 0 {
                    negm(&a, p)
                } else {
                    a
                }
            };
            o.evals(10);
            expect(c, &F::<T, N>::from(u), &(BigUint::from(u) % p), "from_u128")?;
            expect(c, &F::<T, N>::from(i), &sm(i), "from_i128")?;
            expect(c, &F::<T, N>::from(u as u64), &(BigUint::from(u as u64) % p), "from_u64")?;
            expect(c, &F::<T, N>::from(u as i64), &sm((u as i64) as i128), "from_i64")?;
            expect(c, &F::<T, N>::from(i64::MIN), &sm(i64::MIN as i128), "from_i64_min")?;
            expect(c, &F::<T, N>::from(u as u32), &(BigUint::from(u as u32) % p), "from_u32")?;
            expect(c, &F::<T, N>::from(u as i32), &sm((u as i32) as i128), "from_i32")?;
            expect(c, &F::<T, N>::from(u as u16), &(BigUint::from(u as u16) % p), "from_u16")?;
            expect(c, &F::<T, N>::from(u as i16), &sm((u as i16) as i128), "from_i16")?;
            expect(c, &F::<T, N>::from(u as u8), &(BigUint::from(u as u8) % p), "from_u8")?;
            expect(c, &F::<T, N>::from(u as i8), &sm((u as i8) as i128), "from_i8")?;
            expect(c, &F::<T, N>::from(u & 1 == 1), &(BigUint::from((u & 1) as u8) % p), "from_bool")
        },
        4 => {
            // decimal strings, canonical form, possibly negative, possibly >= p
            let mag = match t.below(3) {
                0 => big(&edge_int(t, N + 1)),
                1 => p + BigUint::from(t.below(3)) - 1u32,
                _ => big_below(t, p),
            };
            // "-0" is a decimal spelling of 0 as well
            let neg = t.bool();
            let s = format!("{}{}", if neg { "-" } else { "" }, mag);
            o.show(|| format!("{}: from_str({:?})", c.name, s));
            o.nt(mag >= *p || (neg && !mag.is_zero()));
            o.class_if(neg && mag.is_zero(), "minus-zero-string");
            let want = if neg { negm(&(&mag % p), p) } else { &mag % p };
            match F::<T, N>::from_str(&s) {
                Ok(x) => expect(c, &x, &want, "from_str")?,
                Err(_) => return vh_core::fail("from_str.err", format!("from_str({:?}) failed", s)),
            }
            Ok(())
        },
        5 => {
            // to_string / from_str round trip, into_bigint
            let (a, av, _) = edge_fp::<T, N>(t, c);
            o.show(|| format!("{}: to_string round trip of {}", c.name, hexs(&av)));
            o.nt(av > BigUint::one());
            let s = a.to_string();
            ensure_eq!(s, av.to_string(), "to_string");
            let b = F::<T, N>::from_str(&s).map_err(|_| vh_core::Fail { sig: "from_str.err".into(), msg: format!("from_str({}) failed", s) })?;
            expect(c, &b, &av, "from_str.roundtrip")?;
            ensure_eq!(big(&a.into_bigint().0), av, "into_bigint");
            let bi = a.into_bigint();
            expect(c, &F::<T, N>::from_bigint(bi).unwrap(), &av, "from_bigint.roundtrip")?;
            ensure_eq!(BigUint::from_bytes_le(&bi.to_bytes_le()), av, "bigint.to_bytes_le");
            Ok(())
        },
        _ => {
            // from_random_bytes: Some(v) implies v is the little-endian integer (masked to modulus bits) and < p
            let len = t.range(0, (8 * N + 2) as u64) as usize;
            let bytes = t.bytes(len);
            o.show(|| format!("{}: from_random_bytes({} bytes)", c.name, len));
            o.nt(len > 0);
            if let Some(x) = F::<T, N>::from_random_bytes(&bytes) {
                let (v, canon) = fp_to_big::<T, N>(c, &x);
                ensure!(canon, "from_random_bytes.noncanonical", "non canonical limbs");
                let mut buf = bytes.clone();
                buf.resize(8 * N, 0);
                buf.truncate(8 * N);
                let mask = pow2(c.bits) - 1u32;
                let masked = BigUint::from_bytes_le(&buf) & mask;
                ensure_eq!(v, masked, "from_random_bytes.value");
            }
            Ok(())
        },
    }
}

fn field_rels<T: MontConfig<N>, const N: usize>(out: &mut Vec<Rel>, name: &str, tier: Tier, weight: u32) {
    let c = Arc::new(ctx_of::<T, N>(name));
    assert!(is_probable_prime(&c.p), "modulus of {} is not prime", name);
    let q = |n: u32| tier.pick(n, n * 25) * weight / 4;
    let words = 6 * N + 24;
    let cc = c.clone();
    out.push(Rel::new(format!("binops/{}", name), q(2400), words, move |t, o| binops::<T, N>(&cc, t, o)));
    let cc = c.clone();
    out.push(Rel::new(format!("pow/{}", name), q(300), 8 * N + 24, move |t, o| pow_rel::<T, N>(&cc, t, o)));
    let cc = c.clone();
    out.push(Rel::new(format!("sum_of_products/{}", name), q(700), 11 * 2 * (N + 4) + 8, move |t, o| sop::<T, N>(&cc, t, o)));
    let cc = c.clone();
    out.push(Rel::new(format!("batch/{}", name), q(300), 42 * (N + 4) + 16, move |t, o| batch::<T, N>(&cc, t, o)).shrink_iters(4096));
    let cc = c.clone();
    out.push(Rel::new(format!("conv/{}", name), q(2400), 6 * N + 32, move |t, o| conv::<T, N>(&cc, t, o)));
    let cc = c.clone();
    out.push(Rel::new(format!("spellings/{}", name), q(300), 6 * N + 40, move |t, o| extra::spellings::<T, N>(&cc, t, o)));
    let cc = c.clone();
    out.push(Rel::new(format!("sum_of_products-long/{}", name), q(120), 64 * 2 * (N + 4) + 8, move |t, o| extra::sop_large::<T, N>(&cc, t, o)).shrink_iters(2048));
    let cc = c.clone();
    out.push(Rel::new(format!("rand/{}", name), q(300), 5 * N + 24, move |t, o| extra::rand_rel::<T, N>(&cc, t, o)));
}

/// exhaustive: all ordered pairs of a tiny field through binops in exact mode is not expressible through
/// edge_fp (selector based), so a dedicated relation enumerates values directly.
fn tiny_pairs<T: MontConfig<N>, const N: usize>(c: &FieldCtx, t: &mut Tape<'_>, o: &mut Obs) -> R {
    let p = &c.p;
    let pp: u64 = p.to_u64_digits().first().copied().unwrap_or(0);
    let av = BigUint::from(t.below(pp));
    let bv = BigUint::from(t.below(pp));
    let a = fp_from_big::<T, N>(c, &av);
    let b = fp_from_big::<T, N>(c, &bv);
    o.show(|| format!("{}: a={} b={}", c.name, av, bv));
    o.nt(av > BigUint::one() && bv > BigUint::one());
    o.evals(6);
    expect(c, &(a + b), &addm(&av, &bv, p), "add")?;
    expect(c, &(a - b), &subm(&av, &bv, p), "sub")?;
    expect(c, &(a * b), &mulm(&av, &bv, p), "mul")?;
    expect(c, &a.square(), &mulm(&av, &av, p), "square")?;
    expect(c, &a.double(), &addm(&av, &av, p), "double")?;
    expect(c, &(-a), &negm(&av, p), "neg")?;
    if !bv.is_zero() {
        expect(c, &(a / b), &mulm(&av, &invm(&bv, p).unwrap(), p), "div")?;
    }
    let e = [t.below(2 * pp + 3)];
    if bv.is_zero() {
        expect(c, &a.pow(e), &powm(&av, &BigUint::from(e[0]), p), "pow")?;
    }
    Ok(())
}

fn relations(tier: Tier) -> Vec<Rel> {
    let mut out = Vec::new();
    macro_rules! zoo {
        ($ty:ty, $cfg:ty, $n:expr, $name:expr, $g:expr, $s:expr) => {
            field_rels::<$cfg, $n>(&mut out, $name, tier, 4);
        };
    }
    vh_core::for_each_zoo_field!(zoo);
    macro_rules! tiny {
        ($ty:ty, $cfg:ty, $n:expr, $name:expr, $g:expr, $s:expr) => {{
            let c = Arc::new(ctx_of::<$cfg, $n>($name));
            let p = c.p.to_u64_digits()[0];
            if p <= 251 || tier == Tier::Thorough && p <= 1100 {
                let cc = c.clone();
                out.push(
                    Rel::new(format!("exhaustive-pairs/{}", $name), 0, 3, move |t, o| tiny_pairs::<$cfg, $n>(&cc, t, o))
                        .exhaustive(move || Box::new((0..p).flat_map(move |a| (0..p).map(move |b| vec![a, b, a.wrapping_mul(31).wrapping_add(b)])))),
                );
            } else {
                // all values for the unary part: a in 0..p, b = 0
                let cc = c.clone();
                out.push(
                    Rel::new(format!("exhaustive-unary/{}", $name), 0, 3, move |t, o| tiny_pairs::<$cfg, $n>(&cc, t, o))
                        .exhaustive(move || Box::new((0..p).map(move |a| vec![a, 0, a.wrapping_mul(0x9e37)]))),
                );
            }
        }};
    }
    vh_core::for_each_tiny_field!(tiny);
    // more than 13 limbs (derived and hand-written) and a 13-limb hand-written field: see gen_bigzoo.py
    macro_rules! bigf {
        ($ty:ty, $cfg:ty, $n:expr, $name:expr) => {
            field_rels::<$cfg, $n>(&mut out, $name, tier, 1);
        };
    }
    crate::for_each_big_field!(bigf);
    // shipped fields
    macro_rules! shipped {
        ($cfg:ty, $n:expr, $name:expr) => {
            field_rels::<$cfg, $n>(&mut out, $name, tier, 2);
        };
    }
    shipped!(ark_bls12_381::FqConfig, 6, "bls12_381.Fq");
    shipped!(ark_bls12_381::FrConfig, 4, "bls12_381.Fr");
    shipped!(ark_bn254::FqConfig, 4, "bn254.Fq");
    shipped!(ark_bn254::FrConfig, 4, "bn254.Fr");
    shipped!(ark_mnt4_753::FqConfig, 12, "mnt4_753.Fq");
    shipped!(ark_mnt4_753::FrConfig, 12, "mnt4_753.Fr");
    shipped!(ark_bw6_761::FqConfig, 12, "bw6_761.Fq");
    shipped!(ark_secp256k1::FqConfig, 4, "secp256k1.Fq");
    shipped!(ark_secp256k1::FrConfig, 4, "secp256k1.Fr");
    shipped!(ark_curve25519::FqConfig, 4, "curve25519.Fq");
    shipped!(ark_curve25519::FrConfig, 4, "curve25519.Fr");
    shipped!(ark_mnt6_298::FqConfig, 5, "mnt6_298.Fq");
    shipped!(ark_mnt6_298::FrConfig, 5, "mnt6_298.Fr");
    shipped!(ark_pallas::FqConfig, 4, "pallas.Fq");
    shipped!(ark_pallas::FrConfig, 4, "pallas.Fr");
    shipped!(ark_secp384r1::FqConfig, 6, "secp384r1.Fq");
    shipped!(ark_secp384r1::FrConfig, 6, "secp384r1.Fr");
    shipped!(ark_test_curves::bls12_381::FqConfig, 6, "test.bls12_381.Fq");
    shipped!(ark_test_curves::bn384_small_two_adicity::FqConfig, 6, "test.bn384.Fq");
    shipped!(ark_test_curves::bn384_small_two_adicity::FrConfig, 6, "test.bn384.Fr");
    shipped!(ark_test_curves::secp256k1::FqConfig, 4, "test.secp256k1.Fq");
    out
}

fn main() {
    vh_core::engine::main(PropSpec {
        id: "C01",
        rule: "Operands come from an edge-biased generator decoded from a proptest tape (0, 1, p-1, (p±1)/2, R, R², 2^k±1, values whose integer or Montgomery limbs are 0/all-ones/powers of two, values within 2^16 of p, uniform), built through raw Montgomery limbs; second operands are correlated 1/8 (spellings: 1/4) of the time: a, -a, -a-1, a^-1, canonical sum p±1, Montgomery limbs adding up to p+d / p+(edge word in any limb) / 2^(64N)+d (d in -2..2), Montgomery limbs differing by one (in one limb). Fields: every field of the zoo (derived + hand-written MontConfig with trait-default arithmetic, 1..13 limbs, incl. top limb exactly 2^63 and 2^63-1), 8 fields beyond the largest alias (derived 14/16/24/25 limbs, hand-written 13/16/24/25 limbs, with and without spare bits) and 21 shipped fields; tiny fields are enumerated exhaustively. Relations: binops (operators by value/by reference, assigning, in-place), spellings (every other operator form: `a op &b`, `a op &mut b`, `op= b`, `op= &mut b`, `&a / &b`; Sum/Product over owned and borrowed iterators incl. the empty one; From/Into BigInt; pow with BigInt/array exponents; the Field methods that are trivial on a prime field; constants; Ord), pow / pow_with_table, sum_of_products for M in {1..6,8,11} and sum_of_products-long for M in {0,7,9,12,16,30,44,64} (longer than one chunk of the interleaved path also for fields with many spare bits; all operands / all Montgomery forms within 2 of p), batch inversion + iterator folds, conversions (from_bigint on p±limb offsets and multiples of p, BigUint, bytes mod order, machine integers, decimal strings incl. -0, from_random_bytes), rand (sampling through a scripted generator whose first candidates sit on the rejection boundary: p, p+small, 2^bits-1, junk in the unused top bits; only canonicity is demanded). Every result is compared as raw Montgomery limbs with BigUint arithmetic (which also proves canonicity). A case is non-trivial when an operand is outside {0,1} and the exact integer result is >= p (a reduction happened) – for conversions: the input is >= p, negative or longer than the modulus; for rand: at least one scripted candidate; distinct = distinct decoded choice sequences.",
        assumptions: &[
            "num-bigint arithmetic is correct (oracle)",
            "zoo configurations of > 64 bits declare the smallest quadratic non-residue as `generator` (p-1 is not factored); C01 does not depend on it",
            "rand(): nothing about the distribution is demanded, only that the element handed back is canonical and that sampling terminates without panic",
            "From<BigInt<N>> for Fp is only given integers below p (it is documented to unwrap), division only non-zero divisors (documented panic)",
        ],
        relations,
    })
}
