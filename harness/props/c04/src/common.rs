//! Shared pieces of the C04 check: reference multiplication, scalar / limb-slice / point generators.
use ark_ec::short_weierstrass::{Affine as SwAffine, Projective as SwProj, SWCurveConfig};
use ark_ec::twisted_edwards::{Affine as TeAffine, Projective as TeProj, TECurveConfig};
use ark_ec::{CurveGroup, PrimeGroup};
use ark_ff::{AdditiveGroup, Field, One, PrimeField, UniformRand};
use ark_std::rand::{rngs::StdRng, SeedableRng};
use num_bigint::BigUint;
use num_traits::Zero as _;
use std::sync::Arc;
use vh_core::engine::Tape;
use vh_core::gen::{big_below, edge_limbs};
use vh_core::modint::{pow2, to_limbs};

/// Reference multiplication: right-to-left binary method written over `+` and `double` only (the
/// group law is the subject of C03). The library's own paths are all left-to-right, windowed or
/// endomorphism based, so no intermediate value is shared with them.
pub fn ref_mul<G: AdditiveGroup>(p: &G, k: &BigUint) -> G {
    let mut acc = G::zero();
    let mut base = *p;
    let n = k.bits();
    for i in 0..n {
        if k.bit(i) {
            acc = acc + base;
        }
        if i + 1 < n {
            base = base.double();
        }
    }
    acc
}

pub fn modulus_of<F: PrimeField>() -> BigUint {
    F::MODULUS.into()
}

pub fn fr_big<F: PrimeField>(x: &F) -> BigUint {
    x.into_bigint().into()
}

/// the rule of the property: the scalar is not 0/1 and either reaches the top bit of the group order
/// (or exceeds it) or its signed-digit recoding has a carry (two adjacent one bits)
pub fn nontrivial_scalar(k: &BigUint, r: &BigUint) -> bool {
    *k > BigUint::one() && (k.bits() >= r.bits() || !(k & (k >> 1u32)).is_zero())
}

const PATTERNS: [u8; 10] = [0x55, 0xaa, 0x33, 0x77, 0xbb, 0xdd, 0xee, 0x6d, 0xdb, 0xff];

/// Edge-biased scalar in [0, r). Toy orders (r < 2^16) are sampled uniformly so that exact-mode
/// enumeration `word % r` walks every scalar.
pub fn gen_k(t: &mut Tape<'_>, r: &BigUint) -> (BigUint, &'static str) {
    if r.bits() <= 16 {
        let rr = r.to_u64_digits()[0];
        return (BigUint::from(t.below(rr)), "k=toy");
    }
    let bits = r.bits();
    let one = BigUint::one();
    let (v, c): (BigUint, &'static str) = match t.weighted(&[1, 1, 1, 2, 1, 1, 1, 2, 3, 3, 3, 3, 2, 7]) {
        0 => (BigUint::zero(), "k=0"),
        1 => (one.clone(), "k=1"),
        2 => (BigUint::from(2u32), "k=2"),
        3 => (r - &one, "k=r-1"),
        4 => (r - 2u32, "k=r-2"),
        5 => ((r - &one) >> 1u32, "k=(r-1)/2"),
        6 => ((r + &one) >> 1u32, "k=(r+1)/2"),
        7 => (r - BigUint::from(t.below(1 << 16) + 1), "k=r-small"),
        8 => {
            let j = t.below(bits);
            (pow2(j as usize), "k=2^j")
        },
        9 => {
            let j = t.below(bits) + 1;
            match t.below(2) {
                0 => (pow2(j as usize) - &one, "k=2^j-1"),
                _ => (pow2(j as usize) + &one, "k=2^j+1"),
            }
        },
        10 => {
            // one long run of ones somewhere
            let a = t.below(bits) + 1;
            let b = t.below(bits - a + 1);
            ((pow2(a as usize) - &one) << (b as usize), "k=run-of-ones")
        },
        11 => {
            // periodic bit patterns that are worst cases for signed-digit recodings
            let pat = PATTERNS[t.idx(PATTERNS.len())];
            let nbytes = (bits as usize + 7) / 8;
            let v = BigUint::from_bytes_le(&vec![pat; nbytes]);
            let j = t.below(bits) + 1;
            (v & (pow2(j as usize) - &one), "k=periodic-pattern")
        },
        12 => (BigUint::from(t.below(1 << 16)), "k=small"),
        _ => (big_below(t, r), "k=uniform"),
    };
    (v % r, c)
}

/// Raw limb slice for `mul_bigint`: canonical, >= r, all ones, shorter than N, longer than N (zero padded; with a
/// non-zero top limb; and integers of any width up to N+8 limbs followed by 0..3 zero limbs).
pub fn gen_limbs(t: &mut Tape<'_>, r: &BigUint, n: usize) -> (Vec<u64>, &'static str) {
    let full = pow2(64 * n);
    match t.weighted(&[8, 3, 1, 3, 3, 3, 5]) {
        0 => {
            let (k, _) = gen_k(t, r);
            (to_limbs(&k, n), "limbs=canonical")
        },
        1 => {
            let v = match t.below(4) {
                0 => r.clone(),
                1 => r + BigUint::from(t.below(1 << 16)),
                2 => r + r - BigUint::from(t.below(3)),
                _ => r + big_below(t, &(&full - r)),
            };
            let v = if v >= full { &full - 1u32 } else { v };
            (to_limbs(&v, n), "limbs>=r")
        },
        2 => (vec![u64::MAX; n], "limbs=2^(64N)-1"),
        3 => {
            let m = t.below(n as u64) as usize;
            let v = match t.below(3) {
                0 => vec![u64::MAX; m],
                1 => edge_limbs(t, m),
                _ => t.limbs(m),
            };
            (v, "limbs=shorter-than-N")
        },
        4 => {
            let (k, _) = gen_k(t, r);
            let mut v = to_limbs(&k, n);
            v.extend(std::iter::repeat(0).take(1 + t.below(3) as usize));
            (v, "limbs=longer-zero-padded")
        },
        5 => {
            let m = n + 1 + t.below(n as u64 + 1) as usize;
            let mut v = match t.below(3) {
                0 => vec![u64::MAX; m],
                1 => edge_limbs(t, m),
                _ => t.limbs(m),
            };
            if *v.last().unwrap() == 0 {
                *v.last_mut().unwrap() = 1 + t.below(7);
            }
            (v, "limbs=longer-nonzero-high")
        },
        _ => {
            // an integer of arbitrary width (1 .. N+8 limbs, top limb non-zero), then 0..3 zero limbs on top: the slice
            // length says nothing about the size of the integer, and the integer may or may not fit the scalar field
            let m = 1 + t.below(n as u64 + 8) as usize;
            let mut v = match t.below(5) {
                0 => vec![u64::MAX; m],
                1 => edge_limbs(t, m),
                2 => {
                    // 2^(64(m-1)) * hi + small
                    let mut v = vec![0u64; m];
                    v[0] = t.below(1 << 16);
                    v
                },
                3 => {
                    // a multiple of r plus something small, truncated to m limbs
                    let (k, _) = gen_k(t, r);
                    let f = BigUint::from(t.edge_u64()) << (64 * t.below(m as u64) as usize);
                    to_limbs(&((r * f + k) % pow2(64 * m)), m)
                },
                _ => t.limbs(m),
            };
            if *v.last().unwrap() == 0 {
                *v.last_mut().unwrap() = 1 + t.below(7);
            }
            let pad = t.below(4) as usize;
            v.extend(std::iter::repeat(0).take(pad));
            let cls = match (m > n, pad > 0) {
                (true, true) => "limbs=wider-than-N-then-zero-padded",
                (true, false) => "limbs=wider-than-N",
                (false, true) => "limbs=fits-N-zero-padded",
                (false, false) => "limbs=fits-N",
            };
            (v, cls)
        },
    }
}

/// point source: `(tape, whole_curve_allowed) -> (point, class)`
pub type PtFn<G> = Arc<dyn Fn(&mut Tape<'_>, bool) -> (G, &'static str) + Send + Sync>;

fn subgroup_point<G: PrimeGroup>(t: &mut Tape<'_>, cls: usize) -> (G, &'static str) {
    let g = G::generator();
    let r = modulus_of::<G::ScalarField>();
    match cls {
        0 => (G::zero(), "P=identity"),
        1 => (g, "P=G"),
        2 => (-g, "P=-G"),
        3 => {
            let m = t.range(2, 40);
            (ref_mul(&g, &BigUint::from(m)), "P=small-multiple-of-G")
        },
        _ => {
            let s = big_below(t, &r);
            (ref_mul(&g, &s), "P=random-subgroup")
        },
    }
}

/// Short-Weierstrass points: subgroup points as multiples of the generator, whole-curve points from an
/// arbitrary x (first x' >= x with a point on the curve), optionally with Z != 1.
pub fn sw_pts<P: SWCurveConfig>() -> PtFn<SwProj<P>> {
    Arc::new(|t, whole| {
        let w: [u32; 6] = if whole { [1, 2, 1, 2, 5, 6] } else { [1, 2, 1, 2, 6, 0] };
        let cls = t.weighted(&w);
        if cls < 5 {
            return subgroup_point::<SwProj<P>>(t, cls);
        }
        let mut rng = StdRng::seed_from_u64(t.u64());
        let mut x = P::BaseField::rand(&mut rng);
        let greatest = t.bool();
        let mut found = None;
        for _ in 0..512 {
            if let Some(p) = SwAffine::<P>::get_point_from_x_unchecked(x, greatest) {
                found = Some(p);
                break;
            }
            x += P::BaseField::one();
        }
        let p = found.unwrap_or(P::GENERATOR);
        let mut q: SwProj<P> = p.into();
        if t.bool() {
            // a representative with Z != 1
            let g = SwProj::<P>::generator();
            q = (q + g) - g;
        }
        (q, "P=whole-curve-from-x")
    })
}

pub fn te_complete<P: TECurveConfig>() -> bool {
    // the addition law is complete iff a is a square and d is a non-square
    !P::COEFF_A.is_zero() && P::COEFF_A.legendre().is_qr() && P::COEFF_D.legendre().is_qnr()
}

pub fn te_pts<P: TECurveConfig>() -> PtFn<TeProj<P>> {
    Arc::new(|t, whole| {
        let w: [u32; 6] = if whole { [1, 2, 1, 2, 5, 6] } else { [1, 2, 1, 2, 6, 0] };
        let cls = t.weighted(&w);
        if cls < 5 {
            return subgroup_point::<TeProj<P>>(t, cls);
        }
        let mut rng = StdRng::seed_from_u64(t.u64());
        let mut y = P::BaseField::rand(&mut rng);
        let greatest = t.bool();
        let mut found = None;
        for _ in 0..512 {
            if let Some(p) = TeAffine::<P>::get_point_from_y_unchecked(y, greatest) {
                found = Some(p);
                break;
            }
            y += P::BaseField::one();
        }
        let p = found.unwrap_or(P::GENERATOR);
        let mut q: TeProj<P> = p.into();
        if t.bool() {
            let g = TeProj::<P>::generator();
            q = (q + g) - g;
        }
        (q, "P=whole-curve-from-y")
    })
}

/// per-curve context of the generic (shipped-curve) relations
pub struct Ctx<G: CurveGroup> {
    pub name: String,
    pub r: BigUint,
    /// limbs of the scalar field
    pub n: usize,
    pub pts: PtFn<G>,
    /// plain double-and-add may be fed points outside the prime-order subgroup
    pub whole_ok: bool,
}

impl<G: CurveGroup> Ctx<G> {
    pub fn new(name: &str, pts: PtFn<G>, whole_ok: bool) -> Arc<Self> {
        let r = modulus_of::<G::ScalarField>();
        let n = (G::ScalarField::MODULUS_BIT_SIZE as usize + 63) / 64;
        Arc::new(Ctx { name: name.to_string(), r, n, pts, whole_ok })
    }
}
