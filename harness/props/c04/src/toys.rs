//! Toy curves: every (k, P) with k < 2r through every path, against the affine-law oracle of vh_core::curve.
use ark_ec::scalar_mul::wnaf::WnafContext;
use ark_ec::scalar_mul::{BatchMulPreprocessing, ScalarMul};
use ark_ec::short_weierstrass::{Projective as SwProj, SWCurveConfig};
use ark_ec::twisted_edwards::{Projective as TeProj, TECurveConfig};
use ark_ec::{AffineRepr, CurveGroup, PrimeGroup};
use ark_ff::{One, PrimeField};
use num_bigint::BigUint;
use vh_core::curve::*;
use vh_core::engine::{no_panic, Obs, Tape, R};
use vh_core::{ensure, fail};

/// table-size hints; the last two give windows 11 and 13 (wider than every toy scalar and than anything a batch of
/// a few thousand scalars asks for)
pub const HINTS: [usize; 9] = [0, 31, 64, 256, 300, 2048, 5000, 70000, 1 << 20];

fn nt_small(k: u64, r: u64) -> bool {
    k > 1 && (k >= r || (64 - k.leading_zeros()) >= (64 - r.leading_zeros()) || (k & (k >> 1)) != 0)
}

// ------------------------------------------------------------------------------------------------
// short Weierstrass
// ------------------------------------------------------------------------------------------------

pub struct ToySw<P: SWCurveConfig> {
    pub name: &'static str,
    pub pts: Vec<Sw<P::BaseField>>,
    pub p: u64,
    pub r: u64,
    pub wmax: usize,
    /// try every window on every case (small curves) or one window per case
    pub all_windows: bool,
}

impl<P: SWCurveConfig> ToySw<P>
where
    P::BaseField: PrimeField,
{
    pub fn new(name: &'static str, p: u64, r: u64, wmax: usize, all_windows: bool) -> Self {
        let pts = sw_enumerate(&P::COEFF_A, &P::COEFF_B);
        ToySw { name, pts, p, r, wmax, all_windows }
    }
}

fn sw_expect<P: SWCurveConfig>(got: &SwProj<P>, want: &Sw<P::BaseField>, sig: &str, cx: &dyn Fn() -> String) -> R {
    let g = sw_from_proj(got);
    if g != *want {
        return fail(sig, format!("{}: got {:?} expected {:?} [{}]", sig, g, want, cx()));
    }
    Ok(())
}

/// tape: [point index, k in 0..2r, aux]
pub fn sw_paths<P: SWCurveConfig>(c: &ToySw<P>, t: &mut Tape<'_>, o: &mut Obs) -> R
where
    P::BaseField: PrimeField,
{
    let i = t.idx(c.pts.len());
    let k = t.below(2 * c.r);
    let aux = t.u64();
    let pt = c.pts[i];
    let a = P::COEFF_A;
    let kr = k % c.r;
    let want = sw_mul(&a, &pt, &BigUint::from(k));
    let want_r = sw_mul(&a, &pt, &BigUint::from(kr));
    let lam = P::BaseField::from(1 + aux % (c.p - 1));
    let aff = sw_to_affine::<P>(&pt);
    let proj = sw_to_proj::<P>(&pt, &lam, &lam, &P::BaseField::one());
    o.show(|| format!("{}: P={:?} k={} (mod r: {}) lambda={}", c.name, pt, k, kr, lam));
    o.nt(pt != Sw::Inf && nt_small(k, c.r));
    o.class_if(k >= c.r, "k>=r");
    o.class_if(pt == Sw::Inf, "P=identity");
    let cx = || format!("{} P={:?} k={}", c.name, pt, k);
    // plain double-and-add, raw limbs
    sw_expect(&no_panic("mul_bigint.affine", || aff.mul_bigint([k]))?, &want, "mul_bigint.affine", &cx)?;
    sw_expect(&no_panic("mul_bigint.projective", || proj.mul_bigint([k]))?, &want, "mul_bigint.projective", &cx)?;
    let padded: Vec<u64> = std::iter::once(k).chain(std::iter::repeat(0).take(1 + (aux % 3) as usize)).collect();
    sw_expect(&no_panic("mul_bigint.projective.padded", || proj.mul_bigint(&padded))?, &want, "mul_bigint.projective.padded", &cx)?;
    sw_expect(&no_panic("mul_bigint.affine.padded", || aff.mul_bigint(&padded))?, &want, "mul_bigint.affine.padded", &cx)?;
    if k == 0 {
        let e: [u64; 0] = [];
        sw_expect(&no_panic("mul_bigint.empty", || proj.mul_bigint(e))?, &want, "mul_bigint.empty", &cx)?;
    }
    if (aux >> 40) & 3 == 0 {
        // an integer wider than the (one-limb) scalar field, then zero limbs on top
        let hi = 1 + (aux >> 44) % 5;
        let pad = (aux >> 48) as usize % 4;
        let wide: Vec<u64> = [k, hi].into_iter().chain(std::iter::repeat(0).take(pad)).collect();
        let want_w = sw_mul(&a, &pt, &(BigUint::from(k) + (BigUint::from(hi) << 64)));
        o.class(if pad > 0 { "limbs=wider-than-N-then-zero-padded" } else { "limbs=wider-than-N" });
        sw_expect(&no_panic("mul_bigint.projective.wide", || proj.mul_bigint(&wide))?, &want_w, "mul_bigint.projective.wide", &cx)?;
        sw_expect(&no_panic("mul_bigint.affine.wide", || aff.mul_bigint(&wide))?, &want_w, "mul_bigint.affine.wide", &cx)?;
    }
    // bit stream with leading false bits
    let nb = 64 - k.leading_zeros() as usize;
    let lead = (aux >> 8) as usize % 5;
    let bits: Vec<bool> = std::iter::repeat(false).take(lead).chain((0..nb).rev().map(|j| (k >> j) & 1 == 1)).collect();
    sw_expect(&no_panic("mul_bits_be", || proj.mul_bits_be(bits.iter().copied()))?, &want, "mul_bits_be", &cx)?;
    // scalar-field operand (k mod r as an integer)
    let s = P::ScalarField::from(kr);
    sw_expect(&no_panic("mul.projective", || proj * s)?, &want_r, "mul.projective", &cx)?;
    let mut q = proj;
    no_panic("mul_assign", || q *= s)?;
    sw_expect(&q, &want_r, "mul_assign", &cx)?;
    sw_expect(&no_panic("mul.affine", || aff * s)?, &want_r, "mul.affine", &cx)?;
    sw_expect(&no_panic("mul.affine.ref", || aff * &s)?, &want_r, "mul.affine.ref", &cx)?;
    sw_expect(&no_panic("mul.projective.ref", || proj * &s)?, &want_r, "mul.projective.ref", &cx)?;
    let mut q = proj;
    no_panic("mul_assign.ref", || q *= &s)?;
    sw_expect(&q, &want_r, "mul_assign.ref", &cx)?;
    // windowed NAF
    let windows: Vec<usize> = if c.all_windows { (2..=c.wmax).collect() } else { vec![2 + (aux >> 16) as usize % (c.wmax - 1)] };
    o.evals(12 + 3 * windows.len() as u64);
    for w in windows {
        let ctx = WnafContext::new(w);
        let sig = |s: &str| format!("wnaf.{}", s);
        sw_expect(&no_panic("wnaf.mul", || ctx.mul(proj, &s))?, &want_r, "wnaf.mul", &|| format!("w={} {}", w, cx()))?;
        let table = no_panic("wnaf.table", || ctx.table(proj))?;
        ensure!(table.len() == 1 << (w - 1), sig("table.len"), "table of {} entries for w={}", table.len(), w);
        match no_panic("wnaf.mul_with_table", || ctx.mul_with_table(&table, &s))? {
            Some(g) => sw_expect(&g, &want_r, "wnaf.mul_with_table", &|| format!("w={} {}", w, cx()))?,
            None => return fail("wnaf.mul_with_table.none", format!("None with a full table, w={} {}", w, cx())),
        }
        let short = (aux >> 24) as usize % table.len();
        ensure!(ctx.mul_with_table(&table[..short], &s).is_none(), sig("short_table.some"), "Some(..) with {} of {} table entries, w={}", short, table.len(), w);
        if w > 2 {
            match WnafContext::new(w - 1).mul_with_table(&table, &s) {
                Some(g) => sw_expect(&g, &want_r, "wnaf.longer_table", &|| format!("w={} {}", w, cx()))?,
                None => return fail("wnaf.longer_table.none", format!("None with a longer table, w={}", w)),
            }
        }
    }
    Ok(())
}

/// Wide windows (9..=16: wider than every toy scalar, tables of up to 2^15 entries) and windows too wide for the
/// table at hand (up to 63). tape: [point index, k in 0..r, window, narrower window, huge window, aux]
pub fn sw_wnaf_wide<P: SWCurveConfig>(c: &ToySw<P>, t: &mut Tape<'_>, o: &mut Obs) -> R
where
    P::BaseField: PrimeField,
{
    let i = t.idx(c.pts.len());
    let k = t.below(c.r);
    let w = t.range(9, 16) as usize;
    let w2 = t.range(2, w as u64 - 1) as usize;
    let huge = t.range(w as u64 + 1, 63) as usize;
    let aux = t.u64();
    let pt = c.pts[i];
    let want = sw_mul(&P::COEFF_A, &pt, &BigUint::from(k));
    let lam = P::BaseField::from(1 + aux % (c.p - 1));
    let proj = sw_to_proj::<P>(&pt, &lam, &lam, &P::BaseField::one());
    let s = P::ScalarField::from(k);
    o.show(|| format!("{}: wide wNAF w={} (narrower {}, huge {}) P={:?} k={} lambda={}", c.name, w, w2, huge, pt, k, lam));
    o.nt(pt != Sw::Inf && nt_small(k, c.r));
    o.class_if(w >= 13, "w>=13");
    o.class_if(huge >= 33, "window>=33 with a short table => None");
    o.evals(4);
    let cx = || format!("{} w={} P={:?} k={}", c.name, w, pt, k);
    let ctx = WnafContext::new(w);
    sw_expect(&no_panic("wnaf.mul", || ctx.mul(proj, &s))?, &want, "wnaf.mul", &cx)?;
    let table = no_panic("wnaf.table", || ctx.table(proj))?;
    ensure!(table.len() == 1 << (w - 1), "wnaf.table.len", "table of {} entries for w={}", table.len(), w);
    // entry j is (2j+1) P: spot-check the first, the last and one in between with the oracle
    for j in [0usize, table.len() - 1, (aux >> 20) as usize % table.len()] {
        let e = sw_mul(&P::COEFF_A, &pt, &BigUint::from(2 * j as u64 + 1));
        sw_expect(&table[j], &e, "wnaf.table.entry", &|| format!("entry {} {}", j, cx()))?;
    }
    match no_panic("wnaf.mul_with_table", || ctx.mul_with_table(&table, &s))? {
        Some(g) => sw_expect(&g, &want, "wnaf.mul_with_table", &cx)?,
        None => return fail("wnaf.mul_with_table.none", format!("None with a full table {}", cx())),
    }
    match no_panic("wnaf.longer_table", || WnafContext::new(w2).mul_with_table(&table, &s))? {
        Some(g) => sw_expect(&g, &want, "wnaf.longer_table", &|| format!("table for w={} used at w={} {}", w, w2, cx()))?,
        None => return fail("wnaf.longer_table.none", format!("None with a table for w={} used at w={}", w, w2)),
    }
    let r = no_panic("wnaf.huge_window", || WnafContext::new(huge).mul_with_table(&table, &s))?;
    ensure!(r.is_none(), "wnaf.huge_window.some", "Some(..) for window {} with a table of {} entries {}", huge, table.len(), cx());
    let r = no_panic("wnaf.short_table", || ctx.mul_with_table(&table[..table.len() - 1], &s))?;
    ensure!(r.is_none(), "wnaf.short_table.some", "Some(..) with one table entry missing {}", cx());
    Ok(())
}

/// tape: [point index, hint index, declared size - 1, aux]; all scalars below min(r, 2^size)
pub fn sw_batch<P: SWCurveConfig>(c: &ToySw<P>, t: &mut Tape<'_>, o: &mut Obs) -> R
where
    P::BaseField: PrimeField,
{
    let modbits = P::ScalarField::MODULUS_BIT_SIZE as u64;
    let i = t.idx(c.pts.len());
    let hint = HINTS[t.idx(HINTS.len())];
    let size = 1 + t.below(modbits + 3) as usize;
    let aux = t.u64();
    let pt = c.pts[i];
    let a = P::COEFF_A;
    let lam = P::BaseField::from(1 + aux % (c.p - 1));
    let proj = sw_to_proj::<P>(&pt, &lam, &lam, &P::BaseField::one());
    let top = if size >= 63 { c.r } else { c.r.min(1u64 << size) };
    let v: Vec<P::ScalarField> = (0..top).map(P::ScalarField::from).collect();
    o.show(|| format!("{}: batch P={:?} hint={} declared-size={} scalars 0..{}", c.name, pt, hint, size, top));
    o.nt(pt != Sw::Inf && top > 2);
    o.class_if((size as u64) < modbits, "size<modulus-bits");
    o.class_if((size as u64) > modbits, "size>modulus-bits");
    o.evals(top);
    let check = |got: &[ark_ec::short_weierstrass::Affine<P>], sig: &str| -> R {
        ensure!(got.len() == v.len(), format!("{}.len", sig), "{} results for {} scalars", got.len(), v.len());
        let mut acc = Sw::Inf;
        for (k, g) in got.iter().enumerate() {
            let gg = sw_from_affine(g);
            if gg != acc {
                return fail(sig, format!("{}: {} P={:?} k={} hint={} size={}: got {:?} expected {:?}", sig, c.name, pt, k, hint, size, gg, acc));
            }
            acc = sw_add(&a, &acc, &pt);
        }
        Ok(())
    };
    let table = no_panic("batch.with_size", || BatchMulPreprocessing::<SwProj<P>>::with_num_scalars_and_scalar_size(proj, hint, size))?;
    check(&no_panic("batch.with_size.batch_mul", || table.batch_mul(&v))?, "batch.with_size")?;
    if aux & 1 == 1 {
        let all: Vec<P::ScalarField> = (0..c.r).map(P::ScalarField::from).collect();
        let table = no_panic("batch.new", || BatchMulPreprocessing::<SwProj<P>>::new(proj, hint))?;
        let got = no_panic("batch.new.batch_mul", || table.batch_mul(&all))?;
        let mut acc = Sw::Inf;
        for (k, g) in got.iter().enumerate() {
            ensure!(sw_from_affine(g) == acc, "batch.new", "{} P={:?} k={} hint={}: got {:?} expected {:?}", c.name, pt, k, hint, sw_from_affine(g), acc);
            acc = sw_add(&a, &acc, &pt);
        }
    } else {
        check(&no_panic("batch.free", || proj.batch_mul(&v))?, "batch.free")?;
    }
    Ok(())
}

// ------------------------------------------------------------------------------------------------
// twisted Edwards
// ------------------------------------------------------------------------------------------------

pub struct ToyTe<P: TECurveConfig> {
    pub name: &'static str,
    pub pts: Vec<Te<P::BaseField>>,
    /// point is in the prime-order subgroup
    pub sub: Vec<bool>,
    pub p: u64,
    pub r: u64,
    pub complete: bool,
    pub wmax: usize,
    pub all_windows: bool,
}

impl<P: TECurveConfig> ToyTe<P>
where
    P::BaseField: PrimeField,
{
    pub fn new(name: &'static str, p: u64, r: u64, complete: bool, wmax: usize, all_windows: bool) -> Self {
        let (a, d) = (P::COEFF_A, P::COEFF_D);
        let pts = te_enumerate(&a, &d);
        let subgroup = te_subgroup(&a, &d, &te_from_affine::<P>(&P::GENERATOR), r);
        let sub = pts.iter().map(|q| subgroup.contains(q)).collect();
        ToyTe { name, pts, sub, p, r, complete, wmax, all_windows }
    }
}

fn te_expect<P: TECurveConfig>(got: &TeProj<P>, want: &Te<P::BaseField>, sig: &str, cx: &dyn Fn() -> String) -> R {
    match te_from_proj(got) {
        Some((g, t_ok)) => {
            if g != *want || !t_ok {
                return fail(sig, format!("{}: got {:?} (T consistent: {}) expected {:?} [{}]", sig, g, t_ok, want, cx()));
            }
            Ok(())
        },
        None => fail(sig, format!("{}: result has Z = 0, expected {:?} [{}]", sig, want, cx())),
    }
}

/// tape: [point index, k in 0..2r, aux]. On curves with an incomplete addition law a case is only
/// judged when the affine oracle (which walks the same left-to-right chain as plain double-and-add)
/// meets no exceptional pair; windowed paths are restricted to the prime-order subgroup there.
pub fn te_paths<P: TECurveConfig>(c: &ToyTe<P>, t: &mut Tape<'_>, o: &mut Obs) -> R
where
    P::BaseField: PrimeField,
{
    let i = t.idx(c.pts.len());
    let k = t.below(2 * c.r);
    let aux = t.u64();
    let pt = c.pts[i];
    let (a, d) = (P::COEFF_A, P::COEFF_D);
    let kr = k % c.r;
    let want = te_mul(&a, &d, &pt, &BigUint::from(k));
    let want_r = te_mul(&a, &d, &pt, &BigUint::from(kr));
    let lam = P::BaseField::from(1 + aux % (c.p - 1));
    let aff = te_to_affine::<P>(&pt);
    let proj = te_to_proj::<P>(&pt, &lam);
    o.show(|| format!("{}: P={:?} k={} (mod r: {}) lambda={} in-subgroup={}", c.name, pt, k, kr, lam, c.sub[i]));
    o.nt(pt != te_identity() && nt_small(k, c.r));
    o.class_if(k >= c.r, "k>=r");
    o.class_if(!c.sub[i], "P-outside-subgroup");
    let cx = || format!("{} P={:?} k={}", c.name, pt, k);
    if c.complete || c.sub[i] {
        ensure!(want.is_some() && want_r.is_some(), "oracle.exceptional", "affine oracle met an exceptional pair on a complete law / in the subgroup: {}", cx());
    }
    match &want {
        Some(want) => {
            te_expect(&no_panic("mul_bigint.affine", || aff.mul_bigint([k]))?, want, "mul_bigint.affine", &cx)?;
            te_expect(&no_panic("mul_bigint.projective", || proj.mul_bigint([k]))?, want, "mul_bigint.projective", &cx)?;
            let padded: Vec<u64> = std::iter::once(k).chain(std::iter::repeat(0).take(1 + (aux % 3) as usize)).collect();
            te_expect(&no_panic("mul_bigint.projective.padded", || proj.mul_bigint(&padded))?, want, "mul_bigint.projective.padded", &cx)?;
            te_expect(&no_panic("mul_bigint.affine.padded", || aff.mul_bigint(&padded))?, want, "mul_bigint.affine.padded", &cx)?;
            let nb = 64 - k.leading_zeros() as usize;
            let lead = (aux >> 8) as usize % 5;
            let bits: Vec<bool> = std::iter::repeat(false).take(lead).chain((0..nb).rev().map(|j| (k >> j) & 1 == 1)).collect();
            te_expect(&no_panic("mul_bits_be", || proj.mul_bits_be(bits.iter().copied()))?, want, "mul_bits_be", &cx)?;
        },
        None => o.class("exceptional-chain-skipped"),
    }
    let s = P::ScalarField::from(kr);
    if let Some(want_r) = &want_r {
        te_expect(&no_panic("mul.projective", || proj * s)?, want_r, "mul.projective", &cx)?;
        let mut q = proj;
        no_panic("mul_assign", || q *= s)?;
        te_expect(&q, want_r, "mul_assign", &cx)?;
        te_expect(&no_panic("mul.affine", || aff * s)?, want_r, "mul.affine", &cx)?;
        te_expect(&no_panic("mul.affine.ref", || aff * &s)?, want_r, "mul.affine.ref", &cx)?;
        te_expect(&no_panic("mul.projective.ref", || proj * &s)?, want_r, "mul.projective.ref", &cx)?;
        let mut q = proj;
        no_panic("mul_assign.ref", || q *= &s)?;
        te_expect(&q, want_r, "mul_assign.ref", &cx)?;
    }
    if !(c.complete || c.sub[i]) {
        return Ok(());
    }
    let want_r = want_r.unwrap();
    let windows: Vec<usize> = if c.all_windows { (2..=c.wmax).collect() } else { vec![2 + (aux >> 16) as usize % (c.wmax - 1)] };
    o.evals(12 + 3 * windows.len() as u64);
    for w in windows {
        let ctx = WnafContext::new(w);
        te_expect(&no_panic("wnaf.mul", || ctx.mul(proj, &s))?, &want_r, "wnaf.mul", &|| format!("w={} {}", w, cx()))?;
        let table = no_panic("wnaf.table", || ctx.table(proj))?;
        ensure!(table.len() == 1 << (w - 1), "wnaf.table.len", "table of {} entries for w={}", table.len(), w);
        match no_panic("wnaf.mul_with_table", || ctx.mul_with_table(&table, &s))? {
            Some(g) => te_expect(&g, &want_r, "wnaf.mul_with_table", &|| format!("w={} {}", w, cx()))?,
            None => return fail("wnaf.mul_with_table.none", format!("None with a full table, w={} {}", w, cx())),
        }
        let short = (aux >> 24) as usize % table.len();
        ensure!(ctx.mul_with_table(&table[..short], &s).is_none(), "wnaf.short_table.some", "Some(..) with {} of {} table entries, w={}", short, table.len(), w);
        if w > 2 {
            match WnafContext::new(w - 1).mul_with_table(&table, &s) {
                Some(g) => te_expect(&g, &want_r, "wnaf.longer_table", &|| format!("w={} {}", w, cx()))?,
                None => return fail("wnaf.longer_table.none", format!("None with a longer table, w={}", w)),
            }
        }
    }
    Ok(())
}

/// tape: [point index, hint index, declared size - 1, aux]
pub fn te_batch<P: TECurveConfig>(c: &ToyTe<P>, t: &mut Tape<'_>, o: &mut Obs) -> R
where
    P::BaseField: PrimeField,
{
    let modbits = P::ScalarField::MODULUS_BIT_SIZE as u64;
    // incomplete law: bases from the prime-order subgroup only
    let cand: Vec<usize> = (0..c.pts.len()).filter(|i| c.complete || c.sub[*i]).collect();
    let i = cand[t.idx(cand.len())];
    let hint = HINTS[t.idx(HINTS.len())];
    let size = 1 + t.below(modbits + 3) as usize;
    let aux = t.u64();
    let pt = c.pts[i];
    let (a, d) = (P::COEFF_A, P::COEFF_D);
    let lam = P::BaseField::from(1 + aux % (c.p - 1));
    let proj = te_to_proj::<P>(&pt, &lam);
    let top = if size >= 63 { c.r } else { c.r.min(1u64 << size) };
    let v: Vec<P::ScalarField> = (0..top).map(P::ScalarField::from).collect();
    o.show(|| format!("{}: batch P={:?} hint={} declared-size={} scalars 0..{}", c.name, pt, hint, size, top));
    o.nt(pt != te_identity() && top > 2);
    o.class_if((size as u64) < modbits, "size<modulus-bits");
    o.class_if((size as u64) > modbits, "size>modulus-bits");
    o.evals(top);
    let check = |got: &[ark_ec::twisted_edwards::Affine<P>], sig: &str| -> R {
        ensure!(got.len() == v.len(), format!("{}.len", sig), "{} results for {} scalars", got.len(), v.len());
        let mut acc = te_identity();
        for (k, g) in got.iter().enumerate() {
            let gg = te_from_affine(g);
            if gg != acc {
                return fail(sig, format!("{}: {} P={:?} k={} hint={} size={}: got {:?} expected {:?}", sig, c.name, pt, k, hint, size, gg, acc));
            }
            acc = match te_add(&a, &d, &acc, &pt) {
                Some(x) => x,
                None => return fail("oracle.exceptional", format!("oracle addition exceptional for {:?} + {:?}", acc, pt)),
            };
        }
        Ok(())
    };
    let table = no_panic("batch.with_size", || BatchMulPreprocessing::<TeProj<P>>::with_num_scalars_and_scalar_size(proj, hint, size))?;
    check(&no_panic("batch.with_size.batch_mul", || table.batch_mul(&v))?, "batch.with_size")?;
    if aux & 1 == 1 {
        let all: Vec<P::ScalarField> = (0..c.r).map(P::ScalarField::from).collect();
        let table = no_panic("batch.new", || BatchMulPreprocessing::<TeProj<P>>::new(proj, hint))?;
        let got = no_panic("batch.new.batch_mul", || table.batch_mul(&all))?;
        ensure!(got.len() == all.len(), "batch.new.len", "{} results for {} scalars", got.len(), all.len());
        let mut acc = te_identity();
        for (k, g) in got.iter().enumerate() {
            ensure!(te_from_affine(g) == acc, "batch.new", "{} P={:?} k={} hint={}: got {:?} expected {:?}", c.name, pt, k, hint, te_from_affine(g), acc);
            acc = te_add(&a, &d, &acc, &pt).expect("complete");
        }
    } else {
        check(&no_panic("batch.free", || proj.batch_mul(&v))?, "batch.free")?;
    }
    Ok(())
}

#[allow(dead_code)]
pub fn unused<G: CurveGroup>() {}
