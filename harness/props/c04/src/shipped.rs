//! Generic relations (any `CurveGroup`): plain paths, wNAF, fixed-base batch multiplication, GLV.
use crate::common::*;
use ark_ec::scalar_mul::glv::GLVConfig;
use ark_ec::scalar_mul::wnaf::WnafContext;
use ark_ec::scalar_mul::BatchMulPreprocessing;
use ark_ec::short_weierstrass::Projective as SwProj;
use ark_ec::{AffineRepr, CurveGroup};
use ark_ff::{PrimeField, Zero};
use num_bigint::{BigInt, BigUint, Sign};
use num_traits::{One as _, Signed, Zero as _};
use vh_core::engine::{no_panic, Obs, Tape, R};
use vh_core::modint::{big, pow2};
use vh_core::{ensure, fail};

fn hx(v: &BigUint) -> String {
    format!("0x{:x}", v)
}

fn same<G: CurveGroup>(got: &G, want: &G, sig: &str, ctx: &dyn Fn() -> String) -> R {
    // projective equality and equality of the normalised points
    if got != want || got.into_affine() != want.into_affine() {
        return fail(sig, format!("{}: got {} expected {} [{}]", sig, got.into_affine(), want.into_affine(), ctx()));
    }
    Ok(())
}

/// `mul_bigint` on affine and projective inputs with arbitrary limb slices, `*`, `*=`, `mul_bits_be`.
pub fn plain<G: CurveGroup>(c: &Ctx<G>, t: &mut Tape<'_>, o: &mut Obs) -> R {
    let (p, pc) = (c.pts)(t, c.whole_ok);
    let (limbs, lc) = gen_limbs(t, &c.r, c.n);
    let lead = t.below(4) as usize + if t.chance(1, 8) { 64 } else { 0 };
    let k = big(&limbs);
    let aff = p.into_affine();
    o.show(|| format!("{}: P={} [{}] limbs={:x?} [{}] leading-false-bits={}", c.name, aff, pc, limbs, lc, lead));
    o.class(pc);
    o.class(lc);
    o.nt(!p.is_zero() && nontrivial_scalar(&k, &c.r));
    o.evals(7);
    let want = ref_mul(&p, &k);
    let cx = || format!("P={} limbs={:x?}", aff, limbs);
    let got = no_panic("mul_bigint.projective", || p.mul_bigint(&limbs))?;
    same(&got, &want, "mul_bigint.projective", &cx)?;
    let got = no_panic("mul_bigint.affine", || aff.mul_bigint(&limbs))?;
    same(&got, &want, "mul_bigint.affine", &cx)?;
    // bit stream, most significant first, with leading false bits
    let nb = k.bits();
    let bits: Vec<bool> = std::iter::repeat(false).take(lead).chain((0..nb).rev().map(|i| k.bit(i))).collect();
    let got = no_panic("mul_bits_be", || p.mul_bits_be(bits.iter().copied()))?;
    same(&got, &want, "mul_bits_be", &cx)?;
    if k < c.r && limbs.len() == c.n {
        let s = G::ScalarField::from(k.clone());
        ensure!(fr_big(&s) == k, "scalar.roundtrip", "From<BigUint> did not keep {}", hx(&k));
        let got = no_panic("mul.projective", || p * s)?;
        same(&got, &want, "mul.projective", &cx)?;
        let got = no_panic("mul.projective.ref", || p * &s)?;
        same(&got, &want, "mul.projective.ref", &cx)?;
        let mut q = p;
        no_panic("mul_assign", || q *= s)?;
        same(&q, &want, "mul_assign", &cx)?;
        let got: G = no_panic("mul.affine", || aff * s)?;
        same(&got, &want, "mul.affine", &cx)?;
        // the by-reference spellings of the same operators
        let got: G = no_panic("mul.affine.ref", || aff * &s)?;
        same(&got, &want, "mul.affine.ref", &cx)?;
        let mut q = p;
        no_panic("mul_assign.ref", || q *= &s)?;
        same(&q, &want, "mul_assign.ref", &cx)?;
        // the scalar's own big-integer form as the limb slice
        let got = no_panic("mul_bigint.projective.bigint", || p.mul_bigint(s.into_bigint()))?;
        same(&got, &want, "mul_bigint.projective.bigint", &cx)?;
        let got = no_panic("mul_bigint.affine.bigint", || aff.mul_bigint(s.into_bigint()))?;
        same(&got, &want, "mul_bigint.affine.bigint", &cx)?;
        o.evals(4);
    }
    Ok(())
}

/// The affine entry points on points of the *whole* curve, for the curves whose projective multiplication is overridden
/// by an endomorphism method that is only valid on the prime-order subgroup: `Affine::mul_bigint`, `Affine * k` and
/// `Config::mul_affine` are what the library itself applies to untrusted points (subgroup test, cofactor clearing), so
/// they must compute k*P for every point of the curve.
pub fn affine_whole<G: CurveGroup>(c: &Ctx<G>, t: &mut Tape<'_>, o: &mut Obs) -> R {
    let (p, pc) = (c.pts)(t, true);
    let (limbs, lc) = gen_limbs(t, &c.r, c.n);
    let k = big(&limbs);
    let aff = p.into_affine();
    o.show(|| format!("{}: P={} [{}] limbs={:x?} [{}] (affine entry points, whole curve)", c.name, aff, pc, limbs, lc));
    o.class(pc);
    o.class(lc);
    o.nt(!p.is_zero() && nontrivial_scalar(&k, &c.r));
    o.evals(2);
    let want = ref_mul(&p, &k);
    let cx = || format!("P={} limbs={:x?}", aff, limbs);
    let got = no_panic("mul_bigint.affine", || aff.mul_bigint(&limbs))?;
    same(&got, &want, "whole.mul_bigint.affine", &cx)?;
    if k < c.r && limbs.len() == c.n {
        let s = G::ScalarField::from(k.clone());
        let got: G = no_panic("mul.affine", || aff * s)?;
        same(&got, &want, "whole.mul.affine", &cx)?;
        let got: G = no_panic("mul.affine.ref", || aff * &s)?;
        same(&got, &want, "whole.mul.affine.ref", &cx)?;
        o.evals(2);
    }
    Ok(())
}

/// windowed NAF: fresh table, explicit table, table longer than needed, table too short.
pub fn wnaf<G: CurveGroup>(c: &Ctx<G>, wmax: u64, t: &mut Tape<'_>, o: &mut Obs) -> R {
    let (p, pc) = (c.pts)(t, false);
    let (k, kc) = gen_k(t, &c.r);
    // mostly the usual windows; one case in twelve a wide one (table of up to 2^12 entries)
    let w = if t.chance(1, 12) { t.range(wmax + 1, wmax + 5) as usize } else { t.range(2, wmax) as usize };
    let s = G::ScalarField::from(k.clone());
    o.show(|| format!("{}: wNAF w={} P={} [{}] k={} [{}]", c.name, w, p.into_affine(), pc, hx(&k), kc));
    o.class(pc);
    o.class(kc);
    o.class_if(w >= 7, "w>=7");
    o.class_if(w as u64 > wmax, "w>wmax (wide window)");
    o.class_if(w == 2, "w=2");
    o.nt(!p.is_zero() && nontrivial_scalar(&k, &c.r));
    o.evals(5);
    let want = ref_mul(&p, &k);
    let cx = || format!("w={} P={} k={}", w, p.into_affine(), hx(&k));
    let ctx = WnafContext::new(w);
    let got = no_panic("wnaf.mul", || ctx.mul(p, &s))?;
    same(&got, &want, "wnaf.mul", &cx)?;
    let table = no_panic("wnaf.table", || ctx.table(p))?;
    ensure!(table.len() == 1 << (w - 1), "wnaf.table.len", "table of {} entries for w={}", table.len(), w);
    // table[i] = (2i+1) P
    let two_p = p + p;
    let mut cur = p;
    for (i, e) in table.iter().enumerate() {
        ensure!(*e == cur, "wnaf.table.entry", "table[{}] is not {}·P for w={} P={}", i, 2 * i + 1, w, p.into_affine());
        cur = cur + two_p;
    }
    match no_panic("wnaf.mul_with_table", || ctx.mul_with_table(&table, &s))? {
        Some(got) => same(&got, &want, "wnaf.mul_with_table", &cx)?,
        None => return fail("wnaf.mul_with_table.none", format!("None with a full table [{}]", cx())),
    }
    // a table that is longer than needed (built for a larger window) is fine
    if w > 2 {
        let w2 = t.range(2, w as u64 - 1) as usize;
        match no_panic("wnaf.longer_table", || WnafContext::new(w2).mul_with_table(&table, &s))? {
            Some(got) => same(&got, &want, "wnaf.longer_table", &cx)?,
            None => return fail("wnaf.longer_table.none", format!("None with a table for w={} used at w={}", w, w2)),
        }
    }
    // a table that is too short must be refused
    let short = match t.below(3) {
        0 => table.len() - 1,
        1 => 0,
        _ => t.idx(table.len()),
    };
    let r = no_panic("wnaf.short_table", || ctx.mul_with_table(&table[..short], &s))?;
    ensure!(r.is_none(), "wnaf.short_table.some", "Some(..) with {} of {} table entries [{}]", short, table.len(), cx());
    // every window up to 63 is a legal context; with a window too wide for the table at hand the answer is None
    // (never a panic, never a value computed from a table that lacks the digits)
    let huge = t.range(w as u64 + 1, 63) as usize;
    let r = no_panic("wnaf.huge_window", || WnafContext::new(huge).mul_with_table(&table, &s))?;
    ensure!(r.is_none(), "wnaf.huge_window.some", "Some(..) for window {} with a table of {} entries [{}]", huge, table.len(), cx());
    o.class_if(huge >= 33, "window>=33 with a short table => None");
    Ok(())
}

const HINTS: [usize; 9] = [0, 1, 31, 32, 64, 256, 300, 2048, 5000];

/// fixed-base batch multiplication with table-size hints unrelated to the slice length
pub fn batch<G: CurveGroup>(c: &Ctx<G>, max_hint: usize, t: &mut Tape<'_>, o: &mut Obs) -> R {
    batch_inner(c, max_hint, false, t, o)
}

/// table-size hints far above anything the plain relation uses: windows 11 and 13 (tables of 2^11 / 2^13 multiples
/// per window), with full-size scalars so that the high table entries are actually looked up
const WIDE_HINTS: [usize; 4] = [70000, 1 << 17, 1 << 19, 1 << 20];

pub fn batch_wide<G: CurveGroup>(c: &Ctx<G>, t: &mut Tape<'_>, o: &mut Obs) -> R {
    batch_inner(c, usize::MAX, true, t, o)
}

fn batch_inner<G: CurveGroup>(c: &Ctx<G>, max_hint: usize, wide: bool, t: &mut Tape<'_>, o: &mut Obs) -> R {
    let (p, pc) = (c.pts)(t, false);
    let modbits = G::ScalarField::MODULUS_BIT_SIZE as usize;
    // 32..40 scalars: the free `batch_mul` sizes its table from the slice length, so only such a batch takes it past
    // the smallest window
    let len = match t.weighted(if wide { &[0, 1, 3, 0] } else { &[2, 4, 8, 1] }) {
        0 => 0usize,
        1 => 1,
        2 => t.range(2, 6) as usize,
        _ => t.range(32, 40) as usize,
    };
    // declared scalar size: either chosen first (scalars are then masked to it) or the batch's true bit length
    let size_mode = t.weighted(&[3, 2, 2, 3]);
    let declared = match size_mode {
        0 => 0, // true bit length, filled in below
        1 => modbits,
        2 => modbits + 1 + t.below(3) as usize,
        _ => 1 + t.below(modbits as u64 + 3) as usize,
    };
    let mut ks = Vec::new();
    for _ in 0..len {
        let (k, _) = gen_k(t, &c.r);
        let k = if size_mode != 0 && declared < modbits { k & (pow2(declared) - 1u32) } else { k };
        ks.push(k);
    }
    let truebits = ks.iter().map(|k| k.bits() as usize).max().unwrap_or(0);
    // documented precondition: no scalar is wider than the declared size (and the size is at least one bit)
    let size = if size_mode == 0 { truebits.max(1) } else { declared };
    let hint = if wide {
        o.class("wide table (hint >= 70000)");
        WIDE_HINTS[t.idx(WIDE_HINTS.len())]
    } else {
        let h = match t.weighted(&[2, 5, 2]) {
            0 => len,
            1 => HINTS[t.idx(HINTS.len())],
            _ => t.below(5001) as usize,
        };
        h.min(max_hint)
    };
    let v: Vec<G::ScalarField> = ks.iter().map(|k| G::ScalarField::from(k.clone())).collect();
    o.show(|| format!("{}: batch_mul P={} [{}] len={} hint={} declared-size={} (true {} bits) k0={:?}", c.name, p.into_affine(), pc, len, hint, size, truebits, ks.first().map(hx)));
    o.class(pc);
    o.class_if(size < modbits, "size<modulus-bits");
    o.class_if(size > modbits, "size>modulus-bits");
    o.class_if(size == truebits, "size=true-bit-length");
    o.class_if(hint != len, "hint!=len");
    o.class_if(len >= 32, "len>=32 (free batch_mul with window > 3)");
    o.class_if(hint >= 32, "hint>=32(window>3)");
    o.nt(!p.is_zero() && hint != len && ks.iter().any(|k| nontrivial_scalar(k, &c.r) || (k.bits() as usize == size && *k > BigUint::one())));
    let want: Vec<G::Affine> = ks.iter().map(|k| ref_mul(&p, k).into_affine()).collect();
    o.evals(4 * len as u64);
    let check = |got: &[G::Affine], sig: &str| -> R {
        ensure!(got.len() == want.len(), format!("{}.len", sig), "{} results for {} scalars", got.len(), want.len());
        for i in 0..want.len() {
            if got[i] != want[i] {
                return fail(sig, format!("{}: entry {} for k={} hint={} size={}: got {} expected {} (P={})", sig, i, hx(&ks[i]), hint, size, got[i], want[i], p.into_affine()));
            }
        }
        Ok(())
    };
    let table = no_panic("batch.with_size", || BatchMulPreprocessing::<G>::with_num_scalars_and_scalar_size(p, hint, size))?;
    ensure!(table.max_scalar_size == size, "batch.with_size.field", "max_scalar_size {} != {}", table.max_scalar_size, size);
    let got = no_panic("batch.with_size.batch_mul", || table.batch_mul(&v))?;
    check(&got, "batch.with_size")?;
    let got = no_panic("batch.with_preprocessing", || G::batch_mul_with_preprocessing(&table, &v))?;
    check(&got, "batch.with_preprocessing")?;
    // `new` declares the full modulus size, so it must work for any scalars
    let table = no_panic("batch.new", || BatchMulPreprocessing::<G>::new(p, hint))?;
    let got = no_panic("batch.new.batch_mul", || table.batch_mul(&v))?;
    check(&got, "batch.new")?;
    let got = no_panic("batch.free", || p.batch_mul(&v))?;
    check(&got, "batch.free")?;
    Ok(())
}

fn sbig<F: PrimeField>(c: &(bool, F::BigInt)) -> BigInt {
    let m: BigUint = c.1.into();
    BigInt::from_biguint(if c.0 { Sign::Plus } else { Sign::Minus }, m)
}

/// GLV: decomposition validity, both multiplication entry points, the endomorphism itself and the
/// declared lattice basis.
pub fn glv<P: GLVConfig>(c: &Ctx<SwProj<P>>, t: &mut Tape<'_>, o: &mut Obs) -> R {
    let (p, pc) = (c.pts)(t, false);
    let (k, kc) = gen_k(t, &c.r);
    let s = P::ScalarField::from(k.clone());
    o.show(|| format!("{}: GLV P={} [{}] k={} [{}]", c.name, p.into_affine(), pc, hx(&k), kc));
    o.class(pc);
    o.class(kc);
    o.nt(!p.is_zero() && nontrivial_scalar(&k, &c.r));
    o.evals(6);
    let r = BigInt::from(c.r.clone());
    let lambda = BigInt::from(fr_big(&P::LAMBDA));
    // declared basis: rows (n11, n12), (n21, n22) are lattice vectors (a + lambda b = 0 mod r), determinant r
    let [n11, n12, n21, n22] = P::SCALAR_DECOMP_COEFFS.map(|x| sbig::<P::ScalarField>(&x));
    ensure!(((&n11 + &lambda * &n12) % &r).is_zero() && ((&n21 + &lambda * &n22) % &r).is_zero(), "glv.basis.lattice", "a basis row is not in the lattice a + lambda*b = 0 (mod r)");
    ensure!(&n11 * &n22 - &n12 * &n21 == r, "glv.basis.det", "determinant of the basis is {} (must be r)", &n11 * &n22 - &n12 * &n21);
    let bound = n11.abs() + n12.abs() + n21.abs() + n22.abs();
    // decomposition
    let ((s1, k1), (s2, k2)) = no_panic("glv.scalar_decomposition", || P::scalar_decomposition(s))?;
    let k1i: BigInt = if s1 { BigInt::from(fr_big(&k1)) } else { -BigInt::from(fr_big(&k1)) };
    let k2i: BigInt = if s2 { BigInt::from(fr_big(&k2)) } else { -BigInt::from(fr_big(&k2)) };
    let recomposed = ((&k1i + &lambda * &k2i) % &r + &r) % &r;
    ensure!(recomposed == BigInt::from(k.clone()), "glv.decomposition.congruence", "k={} decomposed into k1={} k2={} but k1 + lambda*k2 = {} (mod r)", hx(&k), k1i, k2i, recomposed);
    ensure!(k1i.abs() <= bound && k2i.abs() <= bound, "glv.decomposition.size", "k={}: |k1|={} |k2|={} exceed the sum of the absolute basis entries {}", hx(&k), k1i.abs(), k2i.abs(), bound);
    o.class_if(!s1 || !s2, "negative-half");
    o.class_if(k2i.is_zero(), "k2=0");
    // the endomorphism multiplies by lambda on the prime-order subgroup
    let lam_p = ref_mul(&p, &fr_big(&P::LAMBDA));
    let cx = || format!("P={} k={}", p.into_affine(), hx(&k));
    let e = no_panic("glv.endomorphism", || P::endomorphism(&p))?;
    same(&e, &lam_p, "glv.endomorphism", &cx)?;
    let aff = p.into_affine();
    let ea = no_panic("glv.endomorphism_affine", || P::endomorphism_affine(&aff))?;
    same(&ea.into_group(), &lam_p, "glv.endomorphism_affine", &cx)?;
    // multiplication
    let want = ref_mul(&p, &k);
    let got = no_panic("glv.mul_projective", || P::glv_mul_projective(p, s))?;
    same(&got, &want, "glv.mul_projective", &cx)?;
    let got = no_panic("glv.mul_affine", || P::glv_mul_affine(aff, s))?;
    same(&got.into_group(), &want, "glv.mul_affine", &cx)?;
    Ok(())
}
