//! Toy GLV configurations (j = 0 curves y^2 = x^3 + b with p = r = 1 mod 3). Parameters were computed with a
//! throw-away script (beta: cube root of unity in F_p; lambda: the matching eigenvalue on the prime-order
//! subgroup, found by brute force; basis: Lagrange-reduced basis of {(a,b): a + lambda b = 0 mod r} oriented
//! to determinant +r) and are re-validated at run time by the `glv` relation itself (lattice membership,
//! determinant, endomorphism = multiplication by lambda).
#![allow(non_camel_case_types)]
use ark_ec::models::short_weierstrass::{self as sw, SWCurveConfig};
use ark_ec::models::CurveConfig;
use ark_ec::scalar_mul::glv::GLVConfig;
use ark_ff::{BigInt, MontFp, PrimeField};
use vh_core::toy::*;

macro_rules! toy_glv {
    ($name:ident, $fq:ty, $fr:ty, $h:expr, $hinv:expr, $b:expr, $gx:expr, $gy:expr, $beta:expr, $lambda:expr,
     [($s11:expr, $n11:expr), ($s12:expr, $n12:expr), ($s21:expr, $n21:expr), ($s22:expr, $n22:expr)]) => {
        #[derive(Clone, Default, PartialEq, Eq)]
        pub struct $name;
        impl CurveConfig for $name {
            type BaseField = $fq;
            type ScalarField = $fr;
            const COFACTOR: &'static [u64] = &[$h];
            const COFACTOR_INV: $fr = MontFp!($hinv);
        }
        impl SWCurveConfig for $name {
            const COEFF_A: $fq = MontFp!("0");
            const COEFF_B: $fq = MontFp!($b);
            const GENERATOR: sw::Affine<Self> = sw::Affine::new_unchecked(MontFp!($gx), MontFp!($gy));
        }
        impl GLVConfig for $name {
            const ENDO_COEFFS: &'static [$fq] = &[MontFp!($beta)];
            const LAMBDA: $fr = MontFp!($lambda);
            const SCALAR_DECOMP_COEFFS: [(bool, <$fr as PrimeField>::BigInt); 4] =
                [($s11, BigInt!($n11)), ($s12, BigInt!($n12)), ($s21, BigInt!($n21)), ($s22, BigInt!($n22))];
            fn endomorphism(p: &sw::Projective<Self>) -> sw::Projective<Self> {
                let mut r = *p;
                r.x *= Self::ENDO_COEFFS[0];
                r
            }
            fn endomorphism_affine(p: &sw::Affine<Self>) -> sw::Affine<Self> {
                let mut r = *p;
                r.x *= Self::ENDO_COEFFS[0];
                r
            }
        }
    };
}

// y^2 = x^3 + 5 over F_103, prime order 97, G = (2, 42); basis (-3, 8), (-11, -3)
toy_glv!(GlvP1, Tf103, Tf97, 1, "1", "5", "2", "42", "46", "61", [(false, "3"), (true, "8"), (false, "11"), (false, "3")]);
// y^2 = x^3 + 5 over F_127, h = 4, r = 37, G = (109, 53); basis (-3, 4), (-7, -3)
toy_glv!(GlvH4, Tf127, Tf37, 4, "28", "5", "109", "53", "19", "10", [(false, "3"), (true, "4"), (false, "7"), (false, "3")]);
// y^2 = x^3 + 4 over F_97, h = 3, r = 31, G = (64, 32); basis (6, 1), (-1, 5)
toy_glv!(GlvH3, Tf97, Tf31, 3, "21", "4", "64", "32", "35", "25", [(true, "6"), (true, "1"), (false, "1"), (true, "5")]);
// y^2 = x^3 + 11 over F_1009, prime order 967, G = (1, 298); basis (7, -27), (34, 7)
toy_glv!(GlvBig, Tf1009, Tf967, 1, "1", "11", "1", "298", "374", "824", [(true, "7"), (false, "27"), (true, "34"), (true, "7")]);
