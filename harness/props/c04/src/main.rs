//! C04 — not implemented yet.
fn main() {
    eprintln!("C04: check not implemented");
    std::process::exit(2);
}
