//! C04 — every scalar-multiplication path computes k·P.
mod common;
mod shipped;
mod toyglv;
mod toys;

use ark_ec::short_weierstrass::{Projective as SwProj, SWCurveConfig};
use ark_ec::twisted_edwards::{Projective as TeProj, TECurveConfig};
use ark_ec::scalar_mul::glv::GLVConfig;
use ark_ec::{CurveGroup, PrimeGroup};
use ark_ff::PrimeField;
use common::*;
use num_bigint::BigUint;
use std::sync::Arc;
use vh_core::engine::{PropSpec, Rel, Tier};

fn mix(a: u64, b: u64) -> u64 {
    let mut z = a.wrapping_mul(0x9e3779b97f4a7c15) ^ b.wrapping_mul(0xbf58476d1ce4e5b9);
    z ^= z >> 29;
    z = z.wrapping_mul(0x94d049bb133111eb);
    z ^ (z >> 32)
}

/// generic relations for one curve group
fn group_rels<G: CurveGroup>(out: &mut Vec<Rel>, c: Arc<Ctx<G>>, tier: Tier, weight: u32, max_hint: usize) {
    let q = |n: u32| (tier.pick(n, n * 15) * weight / 4).max(8);
    let wmax = tier.pick(8u64, 12u64);
    let cc = c.clone();
    out.push(Rel::new(format!("plain/{}", c.name), q(400), 14 * c.n + 72, move |t, o| shipped::plain::<G>(&cc, t, o)).shrink_iters(400));
    let cc = c.clone();
    out.push(Rel::new(format!("wnaf/{}", c.name), q(240), 6 * c.n + 40, move |t, o| shipped::wnaf::<G>(&cc, wmax, t, o)).shrink_iters(400));
    let cc = c.clone();
    out.push(Rel::new(format!("batch/{}", c.name), q(48), 10 * c.n + 64, move |t, o| shipped::batch::<G>(&cc, max_hint, t, o)).shrink_iters(200));
}

fn glv_rel<P: GLVConfig>(out: &mut Vec<Rel>, c: Arc<Ctx<SwProj<P>>>, tier: Tier, weight: u32) {
    let n = (tier.pick(320u32, 320 * 15) * weight / 4).max(8);
    let cc = c.clone();
    out.push(Rel::new(format!("glv/{}", c.name), n, 6 * c.n + 40, move |t, o| shipped::glv::<P>(&cc, t, o)).shrink_iters(400));
}

/// toy GLV curve: points are m·G with m read from the tape, so exact-mode tapes [m, k] enumerate everything
fn toy_glv<P: GLVConfig>(out: &mut Vec<Rel>, name: &str, tier: Tier, exhaustive: bool)
where
    P::ScalarField: PrimeField,
{
    let r: BigUint = modulus_of::<P::ScalarField>();
    let rr = r.to_u64_digits()[0];
    let pts: PtFn<SwProj<P>> = Arc::new(move |t, _| {
        let m = t.below(rr);
        (ref_mul(&SwProj::<P>::generator(), &BigUint::from(m)), "P=m·G")
    });
    let c = Ctx::new(name, pts, false);
    let cc = c.clone();
    let mut rel = Rel::new(format!("glv/{}", name), tier.pick(2000, 20000), 4, move |t, o| shipped::glv::<P>(&cc, t, o));
    if exhaustive {
        rel = rel.exhaustive(move || Box::new((0..rr).flat_map(move |m| (0..rr).map(move |k| vec![m, k]))));
    }
    out.push(rel);
    // the generic paths on the same curve (random cases only)
    group_rels::<SwProj<P>>(out, c, tier, 8, 5000);
}

fn relations(tier: Tier) -> Vec<Rel> {
    let mut out = Vec::new();
    let thorough = tier == Tier::Thorough;

    // ---- shipped curves -----------------------------------------------------------------------------
    macro_rules! sw {
        ($cfg:ty, $name:expr, $whole:expr, $weight:expr, $hint:expr) => {{
            let c = Ctx::new($name, sw_pts::<$cfg>(), $whole);
            group_rels::<SwProj<$cfg>>(&mut out, c, tier, $weight, $hint);
        }};
    }
    macro_rules! sw_glv {
        ($cfg:ty, $name:expr, $whole:expr, $weight:expr, $hint:expr) => {{
            let c = Ctx::new($name, sw_pts::<$cfg>(), $whole);
            if !$whole {
                // projective multiplication is overridden by an endomorphism method: whole-curve points still have to be
                // multiplied correctly by the affine entry points (shipped::affine_whole)
                let cc = c.clone();
                let n = (tier.pick(300u32, 300 * 15) * $weight / 4).max(8);
                out.push(Rel::new(format!("affine-whole/{}", $name), n, 14 * c.n + 72, move |t, o| shipped::affine_whole::<SwProj<$cfg>>(&cc, t, o)).shrink_iters(300));
            }
            glv_rel::<$cfg>(&mut out, c.clone(), tier, $weight);
            group_rels::<SwProj<$cfg>>(&mut out, c, tier, $weight, $hint);
        }};
    }
    macro_rules! te {
        ($cfg:ty, $name:expr, $weight:expr, $hint:expr) => {{
            let c = Ctx::new($name, te_pts::<$cfg>(), te_complete::<$cfg>());
            group_rels::<TeProj<$cfg>>(&mut out, c, tier, $weight, $hint);
        }};
    }
    // heavy ones first (relations are handed to 16 worker threads in this order)
    // `whole` = plain double-and-add is the implementation of mul_bigint (no GLV override), so points outside
    // the prime-order subgroup are legitimate inputs of the plain paths
    sw_glv!(ark_bw6_761::g1::Config, "bw6_761.G1", true, 1, 300);
    sw_glv!(ark_bw6_761::g2::Config, "bw6_761.G2", true, 1, 300);
    sw_glv!(ark_bls12_381::g2::Config, "bls12_381.G2", true, 2, 300);
    sw_glv!(ark_bls12_377::g2::Config, "bls12_377.G2", true, 2, 300);
    sw_glv!(ark_bn254::g2::Config, "bn254.G2", true, 2, 300);
    sw_glv!(ark_bls12_381::g1::Config, "bls12_381.G1", false, 4, 5000);
    sw_glv!(ark_bls12_377::g1::Config, "bls12_377.G1", false, 4, 5000);
    sw_glv!(ark_bn254::g1::Config, "bn254.G1", false, 4, 5000);
    sw_glv!(ark_test_curves::bls12_381::g1::Config, "test.bls12_381.G1", false, 4, 5000);
    sw_glv!(ark_pallas::PallasConfig, "pallas", true, 4, 5000);
    sw_glv!(ark_vesta::VestaConfig, "vesta", true, 4, 5000);
    sw!(ark_secp256k1::Config, "secp256k1", true, 4, 5000);
    sw!(ark_secq256k1::Config, "secq256k1", true, 4, 5000);
    sw!(ark_secp384r1::Config, "secp384r1", true, 2, 2048);
    sw!(ark_grumpkin::GrumpkinConfig, "grumpkin", true, 4, 5000);
    sw!(ark_mnt4_298::g1::Config, "mnt4_298.G1", true, 3, 5000);
    sw!(ark_mnt6_298::g1::Config, "mnt6_298.G1", true, 3, 5000);
    sw!(ark_ed_on_bls12_381::JubjubConfig, "ed_on_bls12_381.SW", true, 4, 5000);
    sw!(ark_ed_on_bls12_381_bandersnatch::BandersnatchConfig, "bandersnatch.SW", true, 4, 5000);
    te!(ark_ed_on_bls12_381::JubjubConfig, "ed_on_bls12_381.TE", 4, 5000);
    te!(ark_ed_on_bls12_381_bandersnatch::BandersnatchConfig, "bandersnatch.TE", 4, 5000);
    te!(ark_ed_on_bn254::EdwardsConfig, "ed_on_bn254.TE", 4, 5000);
    te!(ark_ed25519::EdwardsConfig, "ed25519.TE", 4, 5000);
    te!(ark_test_curves::ed_on_bls12_381::EdwardsConfig, "test.ed_on_bls12_381.TE", 4, 5000);

    // ---- very wide fixed-base tables (hints of 70000 .. 2^20 scalars) on two cheap curves
    {
        let c = Ctx::new("ed_on_bls12_381.TE", te_pts::<ark_ed_on_bls12_381::JubjubConfig>(), false);
        out.push(Rel::new("batch-wide/ed_on_bls12_381.TE", tier.pick(6, 60), 10 * c.n + 64, move |t, o| shipped::batch_wide::<TeProj<ark_ed_on_bls12_381::JubjubConfig>>(&c, t, o)).shrink_iters(10));
        let c = Ctx::new("secp256k1", sw_pts::<ark_secp256k1::Config>(), false);
        out.push(Rel::new("batch-wide/secp256k1", tier.pick(6, 60), 10 * c.n + 64, move |t, o| shipped::batch_wide::<SwProj<ark_secp256k1::Config>>(&c, t, o)).shrink_iters(10));
    }

    // ---- toy GLV curves -----------------------------------------------------------------------------
    toy_glv::<toyglv::GlvP1>(&mut out, "toy.GlvP1", tier, true);
    toy_glv::<toyglv::GlvH4>(&mut out, "toy.GlvH4", tier, true);
    toy_glv::<toyglv::GlvH3>(&mut out, "toy.GlvH3", tier, true);
    toy_glv::<toyglv::GlvBig>(&mut out, "toy.GlvBig", tier, thorough);

    // ---- toy curves, exhaustive -----------------------------------------------------------------------
    let wmax_toy = tier.pick(8usize, 12usize);
    macro_rules! toy_sw {
        ($cfg:ty, $name:expr, $p:expr, $a:expr, $b:expr, $h:expr, $r:expr, $big:expr) => {{
            if !$big || thorough {
                let c = Arc::new(toys::ToySw::<$cfg>::new($name, $p, $r, if $big { 8 } else { wmax_toy }, !$big));
                let np = c.pts.len() as u64;
                let r: u64 = $r;
                let cc = c.clone();
                out.push(
                    Rel::new(format!("toy-paths/{}", $name), tier.pick(1500, 20000), 3, move |t, o| toys::sw_paths::<$cfg>(&cc, t, o))
                        .exhaustive(move || Box::new((0..np).flat_map(move |i| (0..2 * r).map(move |k| vec![i, k, mix(i, k)])))),
                );
                if !$big {
                    let cc = c.clone();
                    out.push(Rel::new(format!("toy-wnaf-wide/{}", $name), tier.pick(120, 2000), 6, move |t, o| toys::sw_wnaf_wide::<$cfg>(&cc, t, o)).shrink_iters(100));
                }
                let cc = c.clone();
                let nh = toys::HINTS.len() as u64;
                let ns = <$cfg as ark_ec::CurveConfig>::ScalarField::MODULUS_BIT_SIZE as u64 + 3;
                out.push(
                    Rel::new(format!("toy-batch/{}", $name), 0, 4, move |t, o| toys::sw_batch::<$cfg>(&cc, t, o)).exhaustive(move || {
                        Box::new((0..np).flat_map(move |i| (0..nh).flat_map(move |h| (0..ns).map(move |s| vec![i, h, s, mix(i, h * 64 + s)]))))
                    }),
                );
            }
        }};
    }
    vh_core::for_each_toy_sw!(toy_sw);
    macro_rules! toy_te {
        ($cfg:ty, $name:expr, $p:expr, $a:expr, $d:expr, $h:expr, $r:expr, $complete:expr, $big:expr) => {{
            if !$big || thorough {
                let c = Arc::new(toys::ToyTe::<$cfg>::new($name, $p, $r, $complete, if $big { 8 } else { wmax_toy }, !$big));
                let np = c.pts.len() as u64;
                let nb = c.sub.iter().enumerate().filter(|(_, s)| $complete || **s).count() as u64;
                let r: u64 = $r;
                let cc = c.clone();
                out.push(
                    Rel::new(format!("toy-paths/{}", $name), tier.pick(1500, 20000), 3, move |t, o| toys::te_paths::<$cfg>(&cc, t, o))
                        .exhaustive(move || Box::new((0..np).flat_map(move |i| (0..2 * r).map(move |k| vec![i, k, mix(i, k)])))),
                );
                let cc = c.clone();
                let nh = toys::HINTS.len() as u64;
                let ns = <$cfg as ark_ec::CurveConfig>::ScalarField::MODULUS_BIT_SIZE as u64 + 3;
                out.push(
                    Rel::new(format!("toy-batch/{}", $name), 0, 4, move |t, o| toys::te_batch::<$cfg>(&cc, t, o)).exhaustive(move || {
                        Box::new((0..nb).flat_map(move |i| (0..nh).flat_map(move |h| (0..ns).map(move |s| vec![i, h, s, mix(i, h * 64 + s)]))))
                    }),
                );
            }
        }};
    }
    vh_core::for_each_toy_te!(toy_te);
    out
}

#[allow(dead_code)]
fn _bounds<P: SWCurveConfig, Q: TECurveConfig>() {}

fn main() {
    vh_core::engine::main(PropSpec {
        id: "C04",
        rule: "Toy curves (9 short-Weierstrass, 6 twisted-Edwards, 4 toy GLV curves): every point of the curve x every k < 2r through mul_bigint (affine/projective input, zero-padded limb slices), *, *=, mul_bits_be with leading false bits, wNAF for every window (fresh table, explicit table, longer table, too-short table => None), and every point x 7 table-size hints x every declared scalar size x all scalars through BatchMulPreprocessing / batch_mul, against the affine chord-and-tangent / Edwards-law oracle of vh_core::curve; toy GLV: every (k, P) of the subgroup. Shipped curves (11 GLV configurations + 13 others): points are identity, +-G, small and random multiples of G and (for paths that are plain double-and-add) points of the whole curve built from an arbitrary x / y; scalars are edge-biased (0, 1, 2, r-1, r-2, (r+-1)/2, r-small, 2^j, 2^j+-1, runs of ones, periodic bit patterns, small, uniform) and, for mul_bigint, raw limb slices >= r, = 2^(64N)-1, shorter than N, longer than N (zero padded and with non-zero high limbs), and integers of arbitrary width (1..N+8 limbs: all ones, edge limbs, 2^(64j)*hi+small, multiples of r plus an edge scalar, uniform) followed by 0..3 zero limbs; the operators are called by value and by reference (P*s, P*&s, P*=s, P*=&s, Affine*s, Affine*&s) and mul_bigint also with the scalar's own BigInt; reference = right-to-left binary method over `+`/`double`. wNAF: windows 2..8 (thorough 12), one case in twelve a wider one (up to wmax+5), toy curves additionally 9..16 (relation toy-wnaf-wide/*), and every window up to 63 with a table that is too short must give None. Fixed-base tables: hints up to 5000 everywhere, 70000 and 2^20 on toy curves, 70000..2^20 with full-size scalars on two shipped curves (batch-wide/*); batches of 0..6 and of 32..40 scalars. GLV: k = k1 + lambda k2 (mod r) with the returned signs, |k1|,|k2| <= sum of absolute basis entries, basis rows in the lattice with determinant r, endomorphism = [lambda]. A case is non-trivial when P is not the identity, k is not 0/1 and k reaches the top bit of r (or exceeds r) or has two adjacent one bits (its signed-digit recoding has a carry); distinct = distinct decoded choice sequences.",
        assumptions: &[
            "the group law (+, double, ==, into_affine) is correct on the inputs used (property C03); the toy oracle does not depend on it",
            "accelerated paths (GLV, GLV-overridden projective mul_bigint, wNAF and batch tables on shipped curves) are only fed points of the prime-order subgroup, the group the types are documented to represent; the affine entry points (Affine::mul_bigint, Affine * k), which the library itself applies to untrusted points, are also run on points of the whole curve (affine-whole/*)",
            "BatchMulPreprocessing: declared scalar size >= 1 and no scalar wider than the declared size (documented meaning of max_scalar_size)",
            "twisted-Edwards curves with an incomplete addition law: points outside the prime-order subgroup are only judged when the affine oracle meets no exceptional pair on the same addition chain",
        ],
        relations,
    })
}

#[allow(dead_code)]
fn _unused<G: PrimeGroup>() {}
