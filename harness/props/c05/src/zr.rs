//! Harness group `Zr<Cfg<F, NEG>>`: the additive group (F, +) of a prime field F, generator 1, scalar field F.
//! It implements exactly the traits `VariableBaseMSM` demands (modelled on `ark_ec::pairing::PairingOutput`),
//! with `ScalarMul::NEGATION_IS_CHEAP = NEG`. `NEG = false` routes the trait-default `msm_bigint` to the private
//! plain-bucket implementation (unreachable from every shipped group), `NEG = true` to the signed-digit one.
//! Group operations are single field additions, so the reference value of an MSM is a dot product mod p.
use ark_ec::{PrimeGroup, ScalarMul, VariableBaseMSM};
use ark_ff::{AdditiveGroup, Field, PrimeField, Zero};
use ark_serialize::{CanonicalDeserialize, CanonicalSerialize, Compress, SerializationError, Valid, Validate};
use ark_std::borrow::Borrow;
use ark_std::fmt;
use ark_std::hash::{Hash, Hasher};
use ark_std::io::{Read, Write};
use ark_std::marker::PhantomData;
use ark_std::ops::{Add, AddAssign, Mul, MulAssign, Neg, Sub, SubAssign};
use ark_std::rand::distributions::{Distribution, Standard};
use ark_std::rand::Rng;
use zeroize::Zeroize;

pub trait ZrCfg: 'static + Send + Sync + Sized {
    type F: PrimeField;
    const NEG: bool;
}

pub struct Cfg<F, const NEG: bool>(PhantomData<fn() -> F>);
impl<F: PrimeField, const NEG: bool> ZrCfg for Cfg<F, NEG> {
    type F = F;
    const NEG: bool = NEG;
}

pub struct Zr<P: ZrCfg>(pub P::F);

impl<P: ZrCfg> Clone for Zr<P> {
    fn clone(&self) -> Self {
        *self
    }
}
impl<P: ZrCfg> Copy for Zr<P> {}
impl<P: ZrCfg> PartialEq for Zr<P> {
    fn eq(&self, o: &Self) -> bool {
        self.0 == o.0
    }
}
impl<P: ZrCfg> Eq for Zr<P> {}
impl<P: ZrCfg> Hash for Zr<P> {
    fn hash<H: Hasher>(&self, h: &mut H) {
        self.0.hash(h)
    }
}
impl<P: ZrCfg> fmt::Debug for Zr<P> {
    fn fmt(&self, f: &mut fmt::Formatter<'_>) -> fmt::Result {
        write!(f, "Zr({})", self.0)
    }
}
impl<P: ZrCfg> fmt::Display for Zr<P> {
    fn fmt(&self, f: &mut fmt::Formatter<'_>) -> fmt::Result {
        write!(f, "{}", self.0)
    }
}
impl<P: ZrCfg> Default for Zr<P> {
    fn default() -> Self {
        Self(P::F::ZERO)
    }
}
impl<P: ZrCfg> Zeroize for Zr<P> {
    fn zeroize(&mut self) {
        self.0.zeroize()
    }
}
impl<P: ZrCfg> CanonicalSerialize for Zr<P> {
    fn serialize_with_mode<W: Write>(&self, writer: W, compress: Compress) -> Result<(), SerializationError> {
        self.0.serialize_with_mode(writer, compress)
    }
    fn serialized_size(&self, compress: Compress) -> usize {
        self.0.serialized_size(compress)
    }
}
impl<P: ZrCfg> Valid for Zr<P> {
    fn check(&self) -> Result<(), SerializationError> {
        Ok(())
    }
}
impl<P: ZrCfg> CanonicalDeserialize for Zr<P> {
    fn deserialize_with_mode<R: Read>(reader: R, compress: Compress, validate: Validate) -> Result<Self, SerializationError> {
        P::F::deserialize_with_mode(reader, compress, validate).map(Self)
    }
}
impl<P: ZrCfg> Zero for Zr<P> {
    fn zero() -> Self {
        Self(P::F::ZERO)
    }
    fn is_zero(&self) -> bool {
        self.0.is_zero()
    }
}
impl<'a, P: ZrCfg> Add<&'a Self> for Zr<P> {
    type Output = Self;
    fn add(mut self, other: &'a Self) -> Self {
        self += other;
        self
    }
}
impl<'a, P: ZrCfg> AddAssign<&'a Self> for Zr<P> {
    fn add_assign(&mut self, other: &'a Self) {
        self.0 += other.0;
    }
}
impl<'a, P: ZrCfg> SubAssign<&'a Self> for Zr<P> {
    fn sub_assign(&mut self, other: &'a Self) {
        self.0 -= other.0;
    }
}
impl<'a, P: ZrCfg> Sub<&'a Self> for Zr<P> {
    type Output = Self;
    fn sub(mut self, other: &'a Self) -> Self {
        self -= other;
        self
    }
}
ark_ff::impl_additive_ops_from_ref!(Zr, ZrCfg);

impl<P: ZrCfg, T: Borrow<P::F>> MulAssign<T> for Zr<P> {
    fn mul_assign(&mut self, other: T) {
        self.0 *= other.borrow();
    }
}
impl<P: ZrCfg, T: Borrow<P::F>> Mul<T> for Zr<P> {
    type Output = Self;
    fn mul(self, other: T) -> Self {
        Self(self.0 * other.borrow())
    }
}
impl<P: ZrCfg> Neg for Zr<P> {
    type Output = Self;
    fn neg(self) -> Self {
        Self(-self.0)
    }
}
impl<P: ZrCfg> Distribution<Zr<P>> for Standard {
    fn sample<R: Rng + ?Sized>(&self, rng: &mut R) -> Zr<P> {
        Zr(<P::F as ark_ff::UniformRand>::rand(rng))
    }
}
impl<P: ZrCfg> AdditiveGroup for Zr<P> {
    type Scalar = P::F;
    const ZERO: Self = Self(P::F::ZERO);
    fn double_in_place(&mut self) -> &mut Self {
        self.0.double_in_place();
        self
    }
}
impl<P: ZrCfg> PrimeGroup for Zr<P> {
    type ScalarField = P::F;
    fn generator() -> Self {
        Self(P::F::ONE)
    }
    fn mul_bigint(&self, other: impl AsRef<[u64]>) -> Self {
        // generic double-and-add of the trait (not used by the MSM code)
        self.mul_bits_be(ark_ff::BitIteratorBE::new(other))
    }
}
impl<P: ZrCfg> ScalarMul for Zr<P> {
    type MulBase = Self;
    const NEGATION_IS_CHEAP: bool = P::NEG;
    fn batch_convert_to_mul_base(bases: &[Self]) -> Vec<Self::MulBase> {
        bases.to_vec()
    }
}
/// every method is the trait default: this is the code under test
impl<P: ZrCfg> VariableBaseMSM for Zr<P> {}
